(* StatsProofs.v — lemmas for C19: serde_json string escaping and UTF-8 (JsonEscape.v), BufRead::lines
   framing, the statistics log (write / read / append sessions) and Stats::summarize (Stats.v). *)
Require Import Base JsonEscape Stats Tables_statslog.
From Coq Require Import Lia.
Local Open Scope N_scope.

Lemma hexval_hexdig n : n < 16 -> hexval (hexdig n) = Some n.
Proof.
  intros H. destruct n as [|p]; [reflexivity|].
  do 4 (destruct p as [p|p|]; try reflexivity); exfalso; lia.
Qed.

Lemma unescape_escape_byte b t : unescape_body (escape_byte b ++ t) = prepend [b] (unescape_body t).
Proof.
  unfold escape_byte, escape_class.
  destruct (N.eqb_spec b 34) as [->|H34]; [reflexivity|].
  destruct (N.eqb_spec b 92) as [->|H92]; [reflexivity|].
  destruct (N.eqb_spec b 8) as [->|H8]; [reflexivity|].
  destruct (N.eqb_spec b 9) as [->|H9]; [reflexivity|].
  destruct (N.eqb_spec b 10) as [->|H10]; [reflexivity|].
  destruct (N.eqb_spec b 12) as [->|H12]; [reflexivity|].
  destruct (N.eqb_spec b 13) as [->|H13]; [reflexivity|].
  destruct (N.ltb_spec b 32) as [Hlt|Hge]; cbv beta iota zeta.
  - destruct b as [|p]; [reflexivity|].
    do 5 (destruct p as [p|p|]; try reflexivity; try (exfalso; lia)).
  - change (unescape_body (b :: t) = prepend [b] (unescape_body t)).
    cbn [unescape_body].
    destruct (N.eqb_spec b 34); [contradiction|].
    destruct (N.eqb_spec b 92); [contradiction|].
    destruct (N.ltb_spec b 32); [lia|]. reflexivity.
Qed.

Lemma prepend_some pre body rest : prepend pre (Some (body, rest)) = Some (pre ++ body, rest).
Proof. reflexivity. Qed.

Lemma unescape_escape bs rest : unescape_body (escape_bytes bs ++ 34 :: rest) = Some (bs, rest).
Proof.
  induction bs as [|b bs IH]; [reflexivity|].
  unfold escape_bytes in *. cbn [flat_map]. rewrite <- app_assoc, unescape_escape_byte, IH. reflexivity.
Qed.

(* ---- UTF-8 ---- *)
Lemma ltb_t a b : a < b -> (a <? b) = true. Proof. apply N.ltb_lt. Qed.
Lemma ltb_f a b : b <= a -> (a <? b) = false. Proof. apply N.ltb_ge. Qed.
Lemma leb_t a b : a <= b -> (a <=? b) = true. Proof. apply N.leb_le. Qed.
Lemma leb_f a b : b < a -> (a <=? b) = false. Proof. apply N.leb_gt. Qed.

Ltac cmp_simpl :=
  repeat match goal with
  | |- context [?a <? ?b] =>
      first [ rewrite (ltb_t a b) by lia | rewrite (ltb_f a b) by lia ]
  | |- context [?a <=? ?b] =>
      first [ rewrite (leb_t a b) by lia | rewrite (leb_f a b) by lia ]
  end.

Lemma utf8_dec_enc_char c t : scalar c ->
  utf8_dec (utf8_enc_char c ++ t) = option_map (cons c) (utf8_dec t).
Proof.
  intros Hs. unfold utf8_enc_char.
  pose proof (N.div_mod c 64 ltac:(lia)) as E1. pose proof (N.mod_lt c 64 ltac:(lia)) as L1.
  set (q1 := c / 64) in *. set (r1 := c mod 64) in *.
  pose proof (N.div_mod q1 64 ltac:(lia)) as E2. pose proof (N.mod_lt q1 64 ltac:(lia)) as L2.
  set (q2 := q1 / 64) in *. set (r2 := q1 mod 64) in *.
  pose proof (N.div_mod q2 64 ltac:(lia)) as E3. pose proof (N.mod_lt q2 64 ltac:(lia)) as L3.
  set (q3 := q2 / 64) in *. set (r3 := q2 mod 64) in *.
  destruct (N.ltb_spec c 128) as [H1|H1].
  { cbn [app utf8_dec]. cmp_simpl. reflexivity. }
  destruct (N.ltb_spec c 2048) as [H2|H2].
  { cbn [app utf8_dec]. unfold is_cont. cmp_simpl. cbn [andb].
    replace ((192 + q1 - 192) * 64 + (128 + r1 - 128)) with c by lia. cmp_simpl. reflexivity. }
  destruct (N.ltb_spec c 65536) as [H3|H3].
  { cbn [app utf8_dec]. unfold is_cont. cmp_simpl. cbn [andb].
    replace (((224 + q2 - 224) * 64 + (128 + r2 - 128)) * 64 + (128 + r1 - 128)) with c by lia.
    unfold scalarb. destruct Hs as [Hs|Hs]; cmp_simpl; cbn [andb orb]; reflexivity. }
  cbn [app utf8_dec]. unfold is_cont.
  assert (c < 1114112) by (destruct Hs; lia).
  cmp_simpl. cbn [andb].
  replace ((((240 + q3 - 240) * 64 + (128 + r3 - 128)) * 64 + (128 + r2 - 128)) * 64 + (128 + r1 - 128)) with c by lia.
  cmp_simpl. reflexivity.
Qed.

Lemma utf8_roundtrip s : Forall scalar s -> utf8_dec (utf8_enc s) = Some s.
Proof.
  induction 1 as [|c s Hc _ IH]; [reflexivity|].
  unfold utf8_enc in *. cbn [flat_map]. rewrite utf8_dec_enc_char, IH by assumption. reflexivity.
Qed.

Lemma de_ser_str s : Forall scalar s -> de_str (ser_str s) = Some s.
Proof.
  intros Hs. unfold de_str, ser_str. cbn [skip_ws]. change (is_ws 34) with false. cbv iota.
  change (34 =? 34) with true. cbv iota.
  rewrite unescape_escape. cbn [skip_ws]. apply utf8_roundtrip, Hs.
Qed.

Lemma ser_str_injective s1 s2 : Forall scalar s1 -> Forall scalar s2 -> ser_str s1 = ser_str s2 -> s1 = s2.
Proof.
  intros H1 H2 E. apply de_ser_str in H1, H2. rewrite E in H1. congruence.
Qed.

(* ---- no control byte ---- *)

Lemma hexdig_ge32 n : ge32 (hexdig n).
Proof. unfold ge32, hexdig. destruct (N.ltb_spec n 10); lia. Qed.

Lemma escape_byte_ge32 b : Forall ge32 (escape_byte b).
Proof.
  unfold escape_byte, escape_class.
  destruct (N.eqb_spec b 34) as [->|H34]; [repeat constructor; unfold ge32; lia|].
  destruct (N.eqb_spec b 92) as [->|H92]; [repeat constructor; unfold ge32; lia|].
  destruct (N.eqb_spec b 8) as [->|H8]; [repeat constructor; unfold ge32; lia|].
  destruct (N.eqb_spec b 9) as [->|H9]; [repeat constructor; unfold ge32; lia|].
  destruct (N.eqb_spec b 10) as [->|H10]; [repeat constructor; unfold ge32; lia|].
  destruct (N.eqb_spec b 12) as [->|H12]; [repeat constructor; unfold ge32; lia|].
  destruct (N.eqb_spec b 13) as [->|H13]; [repeat constructor; unfold ge32; lia|].
  destruct (N.ltb_spec b 32) as [Hlt|Hge]; cbv beta iota zeta.
  - change (117 =? 0) with false. change (117 =? 117) with true. cbv iota.
    repeat constructor; try apply hexdig_ge32; unfold ge32; lia.
  - change (0 =? 0) with true. cbv iota. repeat constructor. exact Hge.
Qed.

Lemma Forall_flat_map {A B} (P : B -> Prop) (f : A -> list B) l :
  (forall a, In a l -> Forall P (f a)) -> Forall P (flat_map f l).
Proof.
  induction l as [|a l IH]; intros H; cbn [flat_map]; [constructor|].
  apply Forall_app. split; [apply H; left; reflexivity|apply IH; intros; apply H; right; assumption].
Qed.

Lemma escape_bytes_ge32 bs : Forall ge32 (escape_bytes bs).
Proof. apply Forall_flat_map. intros. apply escape_byte_ge32. Qed.

Lemma ser_str_ge32 s : Forall ge32 (ser_str s).
Proof.
  unfold ser_str. constructor; [unfold ge32; lia|]. apply Forall_app. split; [apply escape_bytes_ge32|].
  repeat constructor. unfold ge32; lia.
Qed.

(* sharper: ser_str s of scalar text is a sequence of bytes, each printable ASCII (0x20..0x7E), DEL, or >= 0x80 and < 0xF5 *)
Lemma ser_str_no_lf_cr s : ~ In 10 (ser_str s) /\ ~ In 13 (ser_str s).
Proof.
  pose proof (ser_str_ge32 s) as H. rewrite Forall_forall in H.
  split; intros Hin; apply H in Hin; unfold ge32 in Hin; lia.
Qed.

(* ---- BufRead::lines ---- *)

Lemma raw_lines_line l rest : ~ In 10 l -> raw_lines (l ++ 10 :: rest) = (l, true) :: raw_lines rest.
Proof.
  induction l as [|b l IH]; intros Hn.
  - reflexivity.
  - cbn [app raw_lines]. destruct (N.eqb_spec b 10) as [->|Hb]; [exfalso; apply Hn; left; reflexivity|].
    rewrite IH by (intros Hin; apply Hn; right; exact Hin). reflexivity.
Qed.

Lemma strip_cr_id l : last l 0 <> 13 -> strip_cr l = l.
Proof.
  induction l as [|b l IH]; intros H; [reflexivity|].
  destruct l as [|c l].
  - cbn in H |- *. destruct (N.eqb_spec b 13); [contradiction|reflexivity].
  - change (strip_cr (b :: c :: l)) with (b :: strip_cr (c :: l)). rewrite IH; [reflexivity|exact H].
Qed.

Lemma lines_cons l rest : ~ In 10 l -> lines (l ++ 10 :: rest) = strip_cr l :: lines rest.
Proof. intros H. unfold lines. rewrite raw_lines_line by exact H. reflexivity. Qed.

Lemma lines_roundtrip ls : Forall line_ok ls -> lines (flat_map (fun l => l ++ [10]) ls) = ls.
Proof.
  induction 1 as [|l ls [Hn Hc] _ IH]; [reflexivity|].
  cbn [flat_map]. rewrite <- app_assoc. cbn [app]. rewrite lines_cons by exact Hn.
  rewrite strip_cr_id by exact Hc. rewrite IH. reflexivity.
Qed.

Lemma raw_lines_nil f : raw_lines f = [] -> f = [].
Proof.
  destruct f as [|b t]; [reflexivity|]. cbn [raw_lines].
  destruct (b =? 10); [discriminate|]. destruct (raw_lines t) as [|[l tm] r]; discriminate.
Qed.

Lemma terminated_tail b t : terminated (b :: t) -> b <> 10 -> t <> [] /\ terminated t.
Proof.
  intros [H|H] Hb; [discriminate|]. destruct t as [|c t]; [cbn in H; contradiction|].
  split; [discriminate|]. right. exact H.
Qed.

Lemma raw_lines_app f g : terminated f -> raw_lines (f ++ g) = raw_lines f ++ raw_lines g.
Proof.
  induction f as [|b t IH]; intros Ht; [reflexivity|].
  cbn [app raw_lines]. destruct (N.eqb_spec b 10) as [->|Hb].
  - rewrite IH; [reflexivity|]. destruct t as [|c t]; [left; reflexivity|].
    right. destruct Ht as [Ht|Ht]; [discriminate|exact Ht].
  - destruct (terminated_tail _ _ Ht Hb) as [Hne Ht']. rewrite IH by exact Ht'.
    destruct (raw_lines t) as [|[l tm] r] eqn:E; [apply raw_lines_nil in E; contradiction|]. reflexivity.
Qed.

Lemma lines_app f g : terminated f -> lines (f ++ g) = lines f ++ lines g.
Proof. intros H. unfold lines. rewrite raw_lines_app by exact H. apply map_app. Qed.

(* every line of a file that is not its unterminated tail was cut at an LF; conversely, what lines yields never contains LF *)
Lemma raw_lines_no_lf f : Forall (fun x => ~ In 10 (fst x)) (raw_lines f).
Proof.
  induction f as [|b t IH]; [constructor|]. cbn [raw_lines].
  destruct (N.eqb_spec b 10) as [->|Hb]; [constructor; [intros []|exact IH]|].
  destruct (raw_lines t) as [|[l tm] r]; [repeat constructor; cbn; intros [H|[]]; congruence|].
  inversion IH as [|? ? H1 H2]; subst. constructor; [|exact H2]. cbn [fst] in *. intros [H|H]; [congruence|contradiction].
Qed.

(* ---- the log ---- *)
Section LogProofs.
  Variable record : Type.
  Variable ser : record -> bytes.
  Variable de : bytes -> option record.
  Variable valid : record -> Prop.
  (* the serde contract, for the records in `valid` *)
  Hypothesis de_ser : forall r, valid r -> de (ser r) = Some r.
  Hypothesis ser_line : forall r, valid r -> line_ok (ser r).

  Lemma write_app a b : write record ser (a ++ b) = write record ser a ++ write record ser b.
  Proof. unfold write. apply flat_map_app. Qed.

  Lemma write_terminated rs : terminated (write record ser rs).
  Proof.
    induction rs as [|r rs IH] using rev_ind; [left; reflexivity|].
    right. rewrite write_app. unfold write at 2. cbn [flat_map]. rewrite app_nil_r, !app_assoc. apply last_last.
  Qed.

  Lemma write_as_lines rs : write record ser rs = flat_map (fun l => l ++ [10]) (map ser rs).
  Proof. unfold write. induction rs as [|r rs IH]; [reflexivity|]. cbn [map flat_map]. rewrite IH. reflexivity. Qed.

  Lemma lines_write rs : Forall valid rs -> lines (write record ser rs) = map ser rs.
  Proof.
    intros H. rewrite write_as_lines. apply lines_roundtrip.
    rewrite Forall_map. eapply Forall_impl; [|exact H]. intros r Hr. apply ser_line, Hr.
  Qed.

  Lemma read_lines_ser rs : Forall valid rs -> read_lines record de (map ser rs) = Some rs.
  Proof.
    induction 1 as [|r rs Hr _ IH]; [reflexivity|]. cbn [map read_lines]. rewrite de_ser, IH by exact Hr. reflexivity.
  Qed.

  Theorem log_roundtrip rs : Forall valid rs -> read record de (write record ser rs) = Some rs.
  Proof. intros H. unfold read. rewrite lines_write by exact H. apply read_lines_ser, H. Qed.

  Lemma read_lines_app l1 l2 :
    read_lines record de (l1 ++ l2) =
    match read_lines record de l1 with
    | Some a => match read_lines record de l2 with Some b => Some (a ++ b) | None => None end
    | None => None
    end.
  Proof.
    induction l1 as [|l l1 IH]; cbn [app read_lines].
    - destruct (read_lines record de l2); reflexivity.
    - destruct (de l); [|reflexivity]. rewrite IH.
      destruct (read_lines record de l1); [|reflexivity]. destruct (read_lines record de l2); reflexivity.
  Qed.

  (* appending to ANY file that is empty or ends in LF (the documented expectation of Stats::write):
     the old records, whatever they are, then the new ones *)
  Theorem log_append_any file old rs : terminated file -> read record de file = Some old -> Forall valid rs ->
    read record de (append_session record ser file rs) = Some (old ++ rs).
  Proof.
    intros Ht Ho Hv. unfold append_session, read in *. rewrite lines_app by exact Ht.
    rewrite read_lines_app, Ho. fold (read record de (write record ser rs)). rewrite log_roundtrip by exact Hv. reflexivity.
  Qed.

  Theorem log_append a b : Forall valid a -> Forall valid b ->
    read record de (write record ser a ++ write record ser b) = Some (a ++ b).
  Proof. intros Ha Hb. rewrite <- write_app. apply log_roundtrip. apply Forall_app. split; assumption. Qed.

  Lemma sessions_write file ss : sessions record ser file ss = file ++ write record ser (concat ss).
  Proof.
    revert file. induction ss as [|s ss IH]; intros file; cbn [sessions fold_left concat].
    - unfold write. cbn. now rewrite app_nil_r.
    - fold (sessions record ser (append_session record ser file s) ss). rewrite IH. unfold append_session.
      rewrite write_app, app_assoc. reflexivity.
  Qed.

  Theorem log_sessions ss : Forall (Forall valid) ss ->
    read record de (sessions record ser [] ss) = Some (concat ss).
  Proof.
    intros H. rewrite sessions_write. cbn [app]. apply log_roundtrip.
    induction H as [|s ss Hs _ IH]; [constructor|]. cbn [concat]. apply Forall_app. split; assumption.
  Qed.

  Theorem log_sessions_any file old ss : terminated file -> read record de file = Some old -> Forall (Forall valid) ss ->
    read record de (sessions record ser file ss) = Some (old ++ concat ss).
  Proof.
    intros Ht Ho H. rewrite sessions_write. apply (log_append_any file old (concat ss) Ht Ho).
    induction H as [|s ss Hs _ IH]; [constructor|]. cbn [concat]. apply Forall_app. split; assumption.
  Qed.

  (* (old F16) one record whose line does not deserialise (and has no raw LF) makes the whole log unreadable,
     the valid records before and after it included *)
  Theorem one_bad_line_loses_all a r b : Forall valid a -> ~ In 10 (ser r) -> de (strip_cr (ser r)) = None ->
    read record de (write record ser (a ++ r :: b)) = None.
  Proof.
    intros Ha Hn Hd. rewrite write_app. unfold read. rewrite lines_app by apply write_terminated.
    rewrite read_lines_app. fold (read record de (write record ser a)). rewrite log_roundtrip by exact Ha.
    unfold write at 1. cbn [flat_map]. rewrite <- app_assoc. cbn [app]. rewrite lines_cons by exact Hn.
    cbn [read_lines]. rewrite Hd. reflexivity.
  Qed.
End LogProofs.

(* ---- the contract's framing half follows from the shape of what serde writes ---- *)
Lemma render_ge32 ps : forallb lit_okb ps = true -> Forall ge32 (render ps).
Proof.
  intros H. unfold render. apply Forall_flat_map. intros p Hp.
  rewrite forallb_forall in H. specialize (H p Hp). destruct p as [bs|s]; cbn [render_piece lit_okb] in *.
  - rewrite forallb_forall in H. apply Forall_forall. intros b Hb. specialize (H b Hb).
    unfold printableb in H. apply andb_prop in H. destruct H as [H _]. apply N.leb_le in H. exact H.
  - apply ser_str_ge32.
Qed.

Lemma ge32_line_ok l : Forall ge32 l -> line_ok l.
Proof.
  intros H. rewrite Forall_forall in H. unfold line_ok, bytes, byte in *. split.
  - intros Hin. apply H in Hin. unfold ge32 in Hin. lia.
  - destruct l as [|b l]; [cbn; lia|]. intros E.
    assert (Hin : In (last (b :: l) 0) (b :: l)).
    { destruct (exists_last (l := b :: l) ltac:(discriminate)) as [l' [x ->]]. rewrite last_last. apply in_or_app. right. left. reflexivity. }
    apply H in Hin. unfold ge32 in Hin. lia.
Qed.

Section Summ.
  Variable lintkind : Type.
  Variable kind_eqb : lintkind -> lintkind -> bool.
  Variable config : Type.
  Variable default_config : config.
  Hypothesis kind_eqb_spec : forall a b, kind_eqb a b = true <-> a = b.

  Notation rkind := (rkind lintkind config).
  Notation summary := (summary lintkind config).
  Notation summarize := (summarize lintkind kind_eqb config default_config).
  Notation is_lint := (is_lint lintkind config).
  Notation has_kind := (has_kind lintkind kind_eqb config).
  Notation words_of := (words_of lintkind config).
  Notation last_config := (last_config lintkind config).
  Notation step := (summarize_step lintkind kind_eqb config).

  Section BumpFacts.
    Context {K : Type} (eqb : K -> K -> bool).
    Hypothesis eqb_spec : forall a b, eqb a b = true <-> a = b.

    Lemma eqb_refl_ a : eqb a a = true. Proof. apply eqb_spec. reflexivity. Qed.

    Lemma lookup_bump k k' m :
      lookup eqb k (bump eqb k' m) = if eqb k k' then S (lookup eqb k m) else lookup eqb k m.
    Proof.
      induction m as [|[k2 n] m IH]; cbn [bump lookup].
      - destruct (eqb k k'); reflexivity.
      - destruct (eqb k' k2) eqn:E2; cbn [lookup].
        + apply eqb_spec in E2. subst k2. destruct (eqb k k'); reflexivity.
        + destruct (eqb k k2) eqn:E3.
          * apply eqb_spec in E3. subst k2. destruct (eqb k k') eqn:E4; [|reflexivity].
            apply eqb_spec in E4. subst k'. rewrite eqb_refl_ in E2. discriminate.
          * exact IH.
    Qed.

    Lemma count_sum_bump k m : count_sum (bump eqb k m) = S (count_sum m).
    Proof.
      induction m as [|[k2 n] m IH]; cbn [bump count_sum fold_right snd]; [reflexivity|].
      destruct (eqb k k2); cbn [count_sum fold_right snd]; [reflexivity|]. fold (count_sum (bump eqb k m)).
      rewrite IH. fold (count_sum m). lia.
    Qed.

    Lemma keys_bump k m x : In x (map fst (bump eqb k m)) -> x = k \/ In x (map fst m).
    Proof.
      induction m as [|[k2 n] m IH]; cbn [bump map fst In].
      - intros [H|[]]. left. symmetry. exact H.
      - destruct (eqb k k2); cbn [map fst In]; [intros H; right; exact H|].
        intros [H|H]; [right; left; exact H|]. destruct (IH H) as [H'|H']; [left; exact H'|right; right; exact H'].
    Qed.

    Lemma nodup_bump k m : NoDup (map fst m) -> NoDup (map fst (bump eqb k m)).
    Proof.
      induction m as [|[k2 n] m IH]; cbn [bump map fst]; intros H.
      - constructor; [intros []|constructor].
      - destruct (eqb k k2) eqn:E; cbn [map fst]; [exact H|].
        inversion H as [|? ? Hn Hd]; subst. constructor; [|apply IH, Hd].
        intros Hin. apply keys_bump in Hin. destruct Hin as [->|Hin]; [|contradiction].
        rewrite eqb_refl_ in E. discriminate.
    Qed.

    Lemma positive_bump k m : Forall (fun e => 0 < snd e)%nat m -> Forall (fun e => 0 < snd e)%nat (bump eqb k m).
    Proof.
      induction m as [|[k2 n] m IH]; cbn [bump]; intros H.
      - repeat constructor.
      - inversion H; subst. destruct (eqb k k2); constructor; cbn [snd] in *; try lia; auto.
    Qed.
  End BumpFacts.

  Lemma text_eqb_spec a b : text_eqb a b = true <-> a = b.
  Proof.
    revert b. induction a as [|x a IH]; intros [|y b]; cbn [text_eqb]; split; intros H; try discriminate; try reflexivity.
    - apply andb_prop in H. destruct H as [H1 H2]. apply N.eqb_eq in H1. apply IH in H2. subst. reflexivity.
    - inversion H; subst. rewrite N.eqb_refl. cbn [andb]. apply IH. reflexivity.
  Qed.

  (* the inner loop over the context touches only `misspelled` *)
  Lemma words_fold ws (s : summary) :
    let s' := fold_left (inc_misspelled_count lintkind config) ws s in
    lint_counts _ _ s' = lint_counts _ _ s /\ total_applied _ _ s' = total_applied _ _ s /\
    final_config _ _ s' = final_config _ _ s /\
    (forall w, lookup text_eqb w (misspelled _ _ s') = (lookup text_eqb w (misspelled _ _ s) + length (filter (text_eqb w) ws))%nat) /\
    (NoDup (map fst (misspelled _ _ s)) -> NoDup (map fst (misspelled _ _ s'))).
  Proof.
    revert s. induction ws as [|x ws IH]; intros s; cbn [fold_left].
    - cbv zeta. repeat split; auto; try (intros w; cbn; lia).
    - specialize (IH (inc_misspelled_count lintkind config s x)). cbv zeta in IH |- *.
      destruct IH as (I1 & I2 & I3 & I4 & I5). cbn [inc_misspelled_count lint_counts total_applied final_config misspelled] in *.
      repeat split; auto.
      + intros w. rewrite I4. rewrite (lookup_bump text_eqb text_eqb_spec). cbn [filter].
        destruct (text_eqb w x); cbn [length]; lia.
      + intros H. apply I5. apply (nodup_bump text_eqb text_eqb_spec). exact H.
  Qed.

  Lemma summarize_gen rs (s : summary) :
    let s' := fold_left step rs s in
    total_applied _ _ s' = (total_applied _ _ s + length (filter is_lint rs))%nat /\
    (forall k, lookup kind_eqb k (lint_counts _ _ s') = (lookup kind_eqb k (lint_counts _ _ s) + length (filter (has_kind k) rs))%nat) /\
    count_sum (lint_counts _ _ s') = (count_sum (lint_counts _ _ s) + length (filter is_lint rs))%nat /\
    (NoDup (map fst (lint_counts _ _ s)) -> NoDup (map fst (lint_counts _ _ s'))) /\
    final_config _ _ s' = last_config rs (final_config _ _ s) /\
    (forall w, lookup text_eqb w (misspelled _ _ s') = (lookup text_eqb w (misspelled _ _ s) + length (filter (text_eqb w) (flat_map words_of rs)))%nat) /\
    (NoDup (map fst (misspelled _ _ s)) -> NoDup (map fst (misspelled _ _ s'))).
  Proof.
    revert s. induction rs as [|r rs IH]; intros s; cbn [fold_left].
    - cbv zeta. cbn [filter length flat_map last_config]. repeat split; auto; intros; lia.
    - specialize (IH (step s r)). cbv zeta in IH |- *. destruct IH as (I1 & I2 & I3 & I4 & I5 & I6 & I7).
      destruct r as [k ws|c].
      + cbn [summarize_step] in *.
        destruct (words_fold ws (inc_lint_count lintkind kind_eqb config s k)) as (W1 & W2 & W3 & W4 & W5).
        cbv zeta in W1, W2, W3, W4, W5.
        cbn [inc_lint_count lint_counts total_applied final_config misspelled] in W1, W2, W3, W4, W5.
        cbn [filter is_lint has_kind flat_map words_of last_config length].
        repeat split.
        * rewrite I1, W2. lia.
        * intros k0. rewrite I2, W1. rewrite (lookup_bump kind_eqb kind_eqb_spec).
          destruct (kind_eqb k0 k); cbn [length]; lia.
        * rewrite I3, W1. rewrite count_sum_bump. lia.
        * intros H. apply I4. rewrite W1. apply (nodup_bump kind_eqb kind_eqb_spec). exact H.
        * rewrite I5, W3. reflexivity.
        * intros w. rewrite I6, W4. rewrite filter_app, app_length. lia.
        * intros H. apply I7, W5, H.
      + cbn [summarize_step lint_counts total_applied final_config misspelled] in *.
        cbn [filter is_lint has_kind flat_map words_of last_config length app].
        repeat split; auto.
  Qed.

  Theorem summary_spec rs :
    let s := summarize rs in
    total_applied _ _ s = length (filter is_lint rs) /\
    count_sum (lint_counts _ _ s) = total_applied _ _ s /\
    (forall k, get_count _ kind_eqb _ s k = length (filter (has_kind k) rs)) /\
    NoDup (map fst (lint_counts _ _ s)) /\
    final_config _ _ s = last_config rs default_config /\
    (forall w, lookup text_eqb w (misspelled _ _ s) = length (filter (text_eqb w) (flat_map words_of rs))) /\
    NoDup (map fst (misspelled _ _ s)).
  Proof.
    destruct (summarize_gen rs (summary_new lintkind config default_config)) as (I1 & I2 & I3 & I4 & I5 & I6 & I7).
    cbv zeta in *. cbn [summary_new lint_counts total_applied final_config misspelled lookup count_sum fold_right map] in *.
    unfold summarize, Stats.summarize, get_count.
    repeat split.
    - rewrite I1. lia.
    - rewrite I3, I1. lia.
    - intros k. rewrite I2. lia.
    - apply I4. constructor.
    - exact I5.
    - intros w. rewrite I6. lia.
    - apply I7. constructor.
  Qed.
End Summ.

(* ---- the model's escape classes are serde_json's ESCAPE table (regenerated from the pinned sources) ---- *)
Lemma escape_class_matches_serde_table :
  length serde_escape_table = 256%nat /\
  forallb (fun i => escape_class (N.of_nat i) =? nth i serde_escape_table 999) (seq 0 256) = true.
Proof. split; vm_compute; reflexivity. Qed.

Lemma stats_source_shape_ok :
  forallb (fun e => snd e) stats_source_shape = true /\ length stats_source_shape = 11%nat.
Proof. split; vm_compute; reflexivity. Qed.

(* ---- the log stays appendable ---- *)
Lemma terminated_app f g : terminated f -> terminated g -> terminated (f ++ g).
Proof.
  intros Hf [->|Hg]; [rewrite app_nil_r; exact Hf|].
  destruct g as [|b g] using rev_ind; [cbn in Hg; discriminate|].
  right. rewrite app_assoc, last_last. rewrite last_last in Hg. exact Hg.
Qed.

Lemma sessions_terminated record ser file ss : terminated file -> terminated (sessions record ser file ss).
Proof. intros H. rewrite sessions_write. apply terminated_app; [exact H|apply write_terminated]. Qed.

(* ---- records whose serialisation is fixed printable fragments and escaped strings ---- *)
Section Shaped.
  Variable record : Type.
  Variable shape : record -> list piece.
  Variable de : bytes -> option record.
  Variable valid : record -> Prop.
  Hypothesis de_ser : forall r, valid r -> de (render (shape r)) = Some r.
  Hypothesis shape_ok : forall r, valid r -> forallb lit_okb (shape r) = true.

  Lemma shaped_line r : valid r -> line_ok (render (shape r)).
  Proof. intros H. apply ge32_line_ok, render_ge32, shape_ok, H. Qed.

  Theorem roundtrip_shaped rs : Forall valid rs ->
    read record de (write record (fun r => render (shape r)) rs) = Some rs.
  Proof. apply (log_roundtrip record (fun r => render (shape r)) de valid de_ser shaped_line). Qed.

  Theorem sessions_shaped file old ss : terminated file -> read record de file = Some old -> Forall (Forall valid) ss ->
    read record de (sessions record (fun r => render (shape r)) file ss) = Some (old ++ concat ss).
  Proof. apply (log_sessions_any record (fun r => render (shape r)) de valid de_ser shaped_line). Qed.
End Shaped.

(* ---- the records the property quantifies over: made from text ----
   Since b5c1992 + abf6ba7 the serde contract needs NO exception for the records of the property.  It rests on
   two named contracts (both monitored on the implementation in every run, both pinned by source-shape flags):
     lexer : every Number of a record made from text (RecordKind::from_lint over a lexed, linted Document) is
             finite — the only constructors of a Number are lex_number (accepts a candidate only when its f64
             is_finite()) and lex_hex_number (a u64 as f64);
     value : serde_json reads back the record it wrote whenever the record's Numbers are finite (derive output +
             float_roundtrip: the float parser inverts the float printer on every finite f64 — before abf6ba7
             this needed the extra premise "every Number is re-read exactly", before b5c1992 `lexer` was false). *)
Section TextRecords.
  Variable record : Type.
  Variable shape : record -> list piece.
  Variable de : bytes -> option record.
  Variable F : Type.                              (* f64 *)
  Variable finite : F -> Prop.                    (* f64::is_finite *)
  Variable numbers : record -> list F.            (* the values of the Numbers in the record's context *)
  Variable from_text : record -> Prop.
  Hypothesis lexer_finite : forall r, from_text r -> Forall finite (numbers r).
  Hypothesis value_roundtrip : forall r, Forall finite (numbers r) -> de (render (shape r)) = Some r.
  Hypothesis shape_ok : forall r, Forall finite (numbers r) -> forallb lit_okb (shape r) = true.

  Local Notation valid := (fun r : record => Forall finite (numbers r)).

  Lemma from_text_valid rs : Forall from_text rs -> Forall valid rs.
  Proof. intros H. eapply Forall_impl; [|exact H]. exact lexer_finite. Qed.

  Lemma from_text_valid2 ss : Forall (Forall from_text) ss -> Forall (Forall valid) ss.
  Proof. intros H. eapply Forall_impl; [|exact H]. exact from_text_valid. Qed.

  Theorem text_records_roundtrip rs : Forall from_text rs ->
    read record de (write record (fun r => render (shape r)) rs) = Some rs.
  Proof. intros H. apply (roundtrip_shaped record shape de valid value_roundtrip shape_ok), from_text_valid, H. Qed.

  Theorem text_records_append a b : Forall from_text a -> Forall from_text b ->
    read record de (write record (fun r => render (shape r)) a ++ write record (fun r => render (shape r)) b) = Some (a ++ b).
  Proof.
    intros Ha Hb.
    apply (log_append record (fun r => render (shape r)) de valid value_roundtrip (shaped_line record shape valid shape_ok));
      apply from_text_valid; assumption.
  Qed.

  Theorem text_records_sessions file old ss : terminated file -> read record de file = Some old -> Forall (Forall from_text) ss ->
    read record de (sessions record (fun r => render (shape r)) file ss) = Some (old ++ concat ss).
  Proof.
    intros Ht Ho H. apply (sessions_shaped record shape de valid value_roundtrip shape_ok file old ss Ht Ho), from_text_valid2, H.
  Qed.
End TextRecords.

(* ---- a closed instance: a log whose records are bare JSON strings ---- *)
Definition scalar_text (s : text) : Prop := Forall scalar s.

Lemma ser_str_line s : scalar_text s -> line_ok (ser_str s).
Proof. intros _. apply ge32_line_ok, ser_str_ge32. Qed.

Theorem strings_log_roundtrip ss : Forall scalar_text ss -> read text de_str (write text ser_str ss) = Some ss.
Proof. apply (log_roundtrip text ser_str de_str scalar_text de_ser_str ser_str_line). Qed.

Theorem strings_log_sessions sss : Forall (Forall scalar_text) sss ->
  read text de_str (sessions text ser_str [] sss) = Some (concat sss).
Proof. apply (log_sessions text ser_str de_str scalar_text de_ser_str ser_str_line). Qed.

(* ---- outside the contract: what ONE line that serde does not read back as written does to the log.
   These are the effects of F16 (fixed by b5c1992) and F29 (fixed by abf6ba7); no record made from text is
   outside the contract any more, the theorems say what the reverse of either fix would bring back. ---- *)
Section ContractFails.
  Variable record : Type.
  Variable ser : record -> bytes.
  Variable de : bytes -> option record.
  Variable valid : record -> Prop.
  Hypothesis de_ser : forall r, valid r -> de (ser r) = Some r.
  Hypothesis ser_line : forall r, valid r -> line_ok (ser r).

  (* (old F29) a record that deserialises to a DIFFERENT record comes back as that other record, in place *)
  Theorem drifting_line_changes_the_log a r r' b :
    Forall valid a -> Forall valid b -> line_ok (ser r) -> de (ser r) = Some r' ->
    read record de (write record ser (a ++ r :: b)) = Some (a ++ r' :: b).
  Proof.
    intros Ha Hb [Hn Hc] Hd. rewrite write_app. unfold read. rewrite lines_app by apply write_terminated.
    rewrite read_lines_app. fold (read record de (write record ser a)).
    rewrite (log_roundtrip record ser de valid de_ser ser_line a Ha).
    unfold write at 1. cbn [flat_map]. rewrite <- app_assoc. cbn [app]. rewrite lines_cons by exact Hn.
    rewrite strip_cr_id by exact Hc. cbn [read_lines]. rewrite Hd.
    fold (write record ser b). fold (read record de (write record ser b)).
    rewrite (log_roundtrip record ser de valid de_ser ser_line b Hb). reflexivity.
  Qed.

  Corollary drifting_line_refutes_roundtrip a r r' b :
    Forall valid a -> Forall valid b -> line_ok (ser r) -> de (ser r) = Some r' -> r' <> r ->
    read record de (write record ser (a ++ r :: b)) <> Some (a ++ r :: b).
  Proof.
    intros Ha Hb Hl Hd Hne. rewrite (drifting_line_changes_the_log a r r' b Ha Hb Hl Hd).
    intros E. injection E as E. apply app_inv_head in E. injection E as E. contradiction.
  Qed.
End ContractFails.

(* ---- HISTORY (F16, fixed by b5c1992): the three lines harper-stats WROTE, before the fix, for (a configuration
   update, the lint on `1e999TH`, a configuration update) and serde_json's verdict on each — the middle one,
   whose Number value was printed as null, is rejected.  Since the fix `1e999TH` lexes as 1e99 + 9TH and the
   line below is no longer produced from any text (corpus/C19/f16.json now passes the oracle). ---- *)
From Coq Require Import String Ascii.
Definition bytes_of_string (s : string) : bytes := map N_of_ascii (list_ascii_of_string s).

Definition f16_good1 : bytes := bytes_of_string
  "{""kind"":{""LintConfigUpdate"":{""SpellCheck"":false}},""when"":5,""uuid"":""00000000-0000-0000-0000-000000000001""}".
Definition f16_bad : bytes := bytes_of_string
  "{""kind"":{""Lint"":{""kind"":""Capitalization"",""context"":[{""content"":""1e999TH"",""kind"":{""kind"":""Number"",""value"":{""value"":null,""suffix"":""Th"",""radix"":10,""precision"":0}}}]}},""when"":6,""uuid"":""00000000-0000-0000-0000-000000000002""}".
Definition f16_good2 : bytes := bytes_of_string
  "{""kind"":{""LintConfigUpdate"":{}},""when"":7,""uuid"":""00000000-0000-0000-0000-000000000003""}".
Definition f16_table : list (bytes * option N) := [(f16_good1, Some 0); (f16_bad, None); (f16_good2, Some 2)].

Lemma f16_witness :
  snd (run_sessions f16_table [] [[f16_good1; f16_bad]; [f16_good2]]) = None /\
  snd (run_sessions f16_table [] [[f16_good1]; [f16_good2]]) = Some [0; 2].
Proof. split; vm_compute; reflexivity. Qed.
