(* C03LintGroupProofs.v — LintGroup::lint (Model/C03LintGroup.v) keeps every lint inside the document over
   every history of documents, configurations and evictions on one instance, PROVIDED each rule keeps its
   lints inside the document (whole-document rules) / inside the chunk it was run on (pattern rules).
   The invariant carried through the history: every entry of the chunk cache holds lints inside
   [0, |chunk characters of its key|] — which is why the key's first component must be the characters
   themselves; the two hashes may collide at will. *)
Require Import Base Cache CacheProofs C03LintGroup.
From Coq Require Import List Arith NArith Bool Lia.
Import ListNotations.

Definition lint_in (n : nat) (l : clint) : Prop := span_in n (cl_span l).
(* inside the chunk whose hull is sp *)
Definition lint_within (sp : span) (l : clint) : Prop :=
  sstart sp <= sstart (cl_span l) /\ sstart (cl_span l) <= send (cl_span l) /\ send (cl_span l) <= send sp.

Lemma span_new_ok a b s : span_new a b = Ok s -> s = mkspan a b /\ a <= b.
Proof. unfold span_new. destruct (Nat.ltb_spec b a); [discriminate|]. intros E. injection E as <-. now split. Qed.

Lemma Forall_flat_map_intro {A B} (P : B -> Prop) (f : A -> list B) l :
  (forall x, In x l -> Forall P (f x)) -> Forall P (flat_map f l).
Proof.
  intros H. apply Forall_forall. intros y Hy. apply in_flat_map in Hy. destruct Hy as (x & Hx & Hy).
  specialize (H x Hx). rewrite Forall_forall in H. now apply H.
Qed.

Section HullFacts.
  Variable kind : Type.
  Notation toks := (list (tok kind)).

  Lemma hull_of_wf (ts : toks) sp : hull_of ts = Ok (Some sp) -> sstart sp <= send sp.
  Proof.
    unfold hull_of. destruct (flat_map tok_points ts) as [|x [|y r]]; [discriminate| |].
    - destruct (span_new x x) as [s|] eqn:E; cbn [bind]; [|discriminate]. intros H. injection H as <-.
      apply span_new_ok in E. destruct E as [-> E]. exact E.
    - destruct (span_new (pts_min x (y :: r)) (pts_max x (y :: r))) as [s|] eqn:E; cbn [bind]; [|discriminate].
      intros H. injection H as <-. apply span_new_ok in E. destruct E as [-> E]. exact E.
  Qed.

  (* the hull's end is above every start and end (the twin of CacheProofs.hull_of_below) *)
  Lemma hull_of_above (ts : toks) sp :
    hull_of ts = Ok (Some sp) -> Forall (fun t => sstart (snd t) <= send sp /\ send (snd t) <= send sp) ts.
  Proof.
    unfold hull_of. intros H.
    assert (Hp : forall p, In p (flat_map tok_points ts) -> p <= send sp).
    { destruct (flat_map tok_points ts) as [|x [|y r]]; [discriminate| |].
      - destruct (span_new x x) as [s|] eqn:E; cbn [bind] in H; [|discriminate]. injection H as <-.
        apply span_new_ok in E. destruct E as [-> _]. intros p [<-|[]]. cbn [send]. lia.
      - destruct (span_new (pts_min x (y :: r)) (pts_max x (y :: r))) as [s|] eqn:E; cbn [bind] in H; [|discriminate].
        injection H as <-. apply span_new_ok in E. destruct E as [-> _]. cbn [send].
        destruct (pts_max_ge x (y :: r)) as [H1 H2]. intros p [<-|Hp]; [assumption|now apply H2]. }
    apply Forall_forall. intros t Ht. split; apply Hp; apply in_flat_map; exists t; (split; [assumption|]); cbn [tok_points In]; auto.
  Qed.
End HullFacts.

(* ---------- get_content of a span inside the source ---------- *)
Lemma get_content_inside {A} (sp : span) (src : list A) :
  sstart sp <= send sp -> send sp <= length src ->
  exists chars, get_content sp src = Ok chars /\ length chars = send sp - sstart sp.
Proof.
  intros W B. unfold get_content, try_get_content, span_len, sub_chk.
  destruct (Nat.ltb_spec (send sp) (sstart sp)); [lia|].
  destruct (Nat.ltb_spec (length src) (send sp)); [lia|].
  destruct (Nat.leb_spec (length src) (sstart sp)); cbn [orb bind].
  - destruct (Nat.eqb_spec (send sp - sstart sp) 0); [|lia]. cbn [bind]. exists []. split; [reflexivity|cbn [length]; lia].
  - eexists. split; [reflexivity|]. unfold slice. rewrite firstn_length, skipn_length. lia.
Qed.

(* ---------- pull_by over a list of lints that do not start before the chunk ---------- *)
Definition lrel (a : nat) (l : clint) : clint := mkclint (mkspan (sstart (cl_span l) - a) (send (cl_span l) - a)) (cl_body l).
Lemma mapM_lpull_ok a (ls : list clint) :
  Forall (fun l => a <= sstart (cl_span l) /\ sstart (cl_span l) <= send (cl_span l)) ls ->
  mapM (lpull a) ls = Ok (map (lrel a) ls).
Proof.
  induction 1 as [|l ls [H1 H2] _ IH]; [reflexivity|].
  cbn [mapM map]. unfold lpull at 1, pull_by, sub_chk.
  destruct (Nat.ltb_spec (sstart (cl_span l)) a); [lia|].
  destruct (Nat.ltb_spec (send (cl_span l)) a); [lia|].
  cbn [bind]. rewrite IH. reflexivity.
Qed.
(* ... and it panics as soon as one of them does (debug build) *)
Lemma mapM_lpull_panics a l (ls : list clint) : sstart (cl_span l) < a -> mapM (lpull a) (l :: ls) = Panic PUnderflow.
Proof.
  intros H. cbn [mapM]. unfold lpull, pull_by, sub_chk. destruct (Nat.ltb_spec (sstart (cl_span l)) a); [reflexivity|lia].
Qed.

Section LintGroupFacts.
  Variables cfg kind : Type.
  Notation toks := (list (tok kind)).
  Variable enabled : cfg -> N -> bool.
  Variable cfg_hash : cfg -> N.
  Variable tok_hash : toks -> N.
  Variable linters : list (N * wrule kind).
  Variable plinters : list (N * prule kind).

  Notation lg_chunks := (lg_chunks cfg kind enabled cfg_hash tok_hash plinters).
  Notation lg_lint := (lg_lint cfg kind enabled cfg_hash tok_hash linters plinters).
  Notation lg_run := (lg_run cfg kind enabled cfg_hash tok_hash linters plinters).

  (* the token invariant (C02) as far as LintGroup::lint needs it: every chunk's hull ends inside the source; and
     (phase 5) every token has start <= end — LintGroup::lint itself does not need it, the pattern rules' premise is
     only asked for such chunks (so that it can be PROVED for the rules of the table: C03RootsProofs.v) *)
  Definition toks_wf (ts : toks) : Prop := Forall (fun t => sstart (snd t) <= send (snd t)) ts.
  Definition chunks_ok (src : text) (chs : list toks) : Prop :=
    forall ts, In ts chs -> toks_wf ts /\ forall sp, hull_of ts = Ok (Some sp) -> send sp <= length src.
  Definition doc_ok (d : ldoc kind) : Prop := chunks_ok (l_src d) (l_chunks d).
  Fixpoint hist_ok (h : list (lop cfg kind)) : Prop :=
    match h with
    | [] => True
    | LLint d _ :: r => doc_ok d /\ hist_ok r
    | _ :: r => hist_ok r
    end.
  Fixpoint hist_docs (h : list (lop cfg kind)) : list (ldoc kind) :=
    match h with
    | [] => []
    | LLint d _ :: r => d :: hist_docs r
    | _ :: r => hist_docs r
    end.

  (* the premises on the rules: at every call, on every document / chunk *)
  Definition wrules_ok : Prop :=
    forall n r t d, In (n, r) linters -> doc_ok d -> Forall (lint_in (length (l_src d))) (r t d).
  Definition prules_ok : Prop :=
    forall n r t src ts sp, In (n, r) plinters -> toks_wf ts -> hull_of ts = Ok (Some sp) -> send sp <= length src ->
      Forall (lint_within sp) (r t src ts).

  (* the invariant of the cache *)
  Definition cache_ok (m : lcache) : Prop :=
    forall k v, In (k, v) m -> Forall (lint_in (length (fst (fst k)))) v.

  Lemma cache_ok_nil : cache_ok [].
  Proof. intros k v []. Qed.
  Lemma cache_ok_evict keep m : cache_ok m -> cache_ok (evict keep m).
  Proof. intros H k v Hin. apply In_evict in Hin. now apply H. Qed.
  Lemma cache_ok_put k v m : Forall (lint_in (length (fst (fst k)))) v -> cache_ok m -> cache_ok (put code_key_eqb k v m).
  Proof. intros Hv H k' v' Hin. apply In_put in Hin. destruct Hin as [E|Hin]; [injection E as -> ->; assumption|now apply H]. Qed.

  Lemma run_plinters_within t c src ts sp :
    prules_ok -> toks_wf ts -> hull_of ts = Ok (Some sp) -> send sp <= length src ->
    Forall (lint_within sp) (run_plinters cfg kind enabled plinters t c src ts).
  Proof.
    intros HP Hwf Hh Hb. unfold run_plinters. apply Forall_flat_map_intro. intros [n r] Hin. cbn [fst snd].
    destruct (enabled c n); [|constructor]. eapply HP; eassumption.
  Qed.
  Lemma run_linters_in t c d :
    wrules_ok -> doc_ok d -> Forall (lint_in (length (l_src d))) (run_linters cfg kind enabled linters t c d).
  Proof.
    intros HW Hd. unfold run_linters. apply Forall_flat_map_intro. intros [n r] Hin. cbn [fst snd].
    destruct (enabled c n); [|constructor]. eapply HW; eassumption.
  Qed.

  Lemma lpush_in a n len (v : list clint) :
    a + len <= n -> Forall (lint_in len) v -> Forall (lint_in n) (map (lpush a) v).
  Proof.
    intros Hb H. rewrite Forall_map. eapply Forall_impl; [|exact H]. intros l [H1 H2].
    unfold lint_in, span_in, lpush, push_by. cbn [cl_span sstart send]. lia.
  Qed.
  Lemma lrel_in sp (pl : list clint) :
    Forall (lint_within sp) pl -> Forall (lint_in (send sp - sstart sp)) (map (lrel (sstart sp)) pl).
  Proof.
    intros H. rewrite Forall_map. eapply Forall_impl; [|exact H]. intros l (H1 & H2 & H3).
    unfold lint_in, span_in, lrel. cbn [cl_span sstart send]. lia.
  Qed.

  (* the chunk loop: never panics, keeps the cache invariant, emits lints inside the source *)
  Lemma lg_chunks_ok t c src : prules_ok -> forall chs evs m,
    chunks_ok src chs -> cache_ok m ->
    exists m' out hits, lg_chunks t c src chs evs m = Ok (m', out, hits) /\ cache_ok m' /\ Forall (lint_in (length src)) out.
  Proof.
    intros HP. induction chs as [|ts rest IH]; intros evs m Hc Hm.
    - exists m, [], []. cbn [C03LintGroup.lg_chunks]. auto.
    - assert (Hrest : chunks_ok src rest) by (intros ts' Hin; apply Hc; now right).
      cbn [C03LintGroup.lg_chunks]. set (m1 := evict (hd keep_all evs) m).
      assert (Hm1 : cache_ok m1) by now apply cache_ok_evict.
      destruct (hull_of_total kind ts) as [o Ho]. rewrite Ho. cbn [bind]. destruct o as [sp|]; [|now apply IH].
      pose proof (hull_of_wf kind ts sp Ho) as W.
      destruct (Hc ts (or_introl eq_refl)) as [Hwf Hcb].
      assert (B : send sp <= length src) by (apply (Hcb sp); assumption).
      destruct (get_content_inside sp src W B) as (chars & Hg & Hlen). rewrite Hg. cbn [bind].
      rewrite (rel_toks_ok kind _ _ (hull_of_below kind ts sp Ho)). cbn [bind].
      match goal with |- context [tok_hash ?x] => set (rt := x) end. set (key := (chars, cfg_hash c, tok_hash rt)).
      destruct (lookup code_key_eqb key m1) as [v|] eqn:L.
      + cbn [bind]. apply (lookup_In code_key_eqb code_key_eqb_spec) in L. specialize (Hm1 key v L). cbn [fst] in Hm1.
        destruct (IH (tl evs) m1 Hrest (cache_ok_evict _ _ Hm)) as (m' & out & hits & E & Hm' & Hout). fold m1 in E.
        rewrite E. cbn [bind]. do 3 eexists. split; [reflexivity|]. split; [assumption|].
        apply Forall_app. split; [|assumption]. apply lpush_in with (len := length chars); [lia|assumption].
      + pose proof (run_plinters_within t c src ts sp HP Hwf Ho B) as Hpl.
        rewrite mapM_lpull_ok by (eapply Forall_impl; [|exact Hpl]; intros l (H1 & H2 & _); split; assumption).
        cbn [bind]. match goal with |- context [put code_key_eqb key ?x] => set (rel := x) end.
        assert (Hrel : Forall (lint_in (length chars)) rel) by (rewrite Hlen; now apply lrel_in).
        destruct (IH (tl evs) (put code_key_eqb key rel m1) Hrest) as (m' & out & hits & E & Hm' & Hout).
        { apply cache_ok_put; [exact Hrel|exact Hm1]. }
        rewrite E. cbn [bind]. do 3 eexists. split; [reflexivity|]. split; [assumption|].
        apply Forall_app. split; [|assumption]. apply lpush_in with (len := length chars); [lia|assumption].
  Qed.

  Lemma lg_lint_ok st d evs : wrules_ok -> prules_ok -> doc_ok d -> cache_ok (lg_cache st) ->
    exists st' out hits, lg_lint st d evs = Ok (st', out, hits) /\ cache_ok (lg_cache st') /\
                         lg_cfg st' = lg_cfg st /\ Forall (lint_in (length (l_src d))) out.
  Proof.
    intros HW HP Hd Hm. unfold C03LintGroup.lg_lint.
    destruct (lg_chunks_ok (lg_time st) (lg_cfg st) (l_src d) HP (l_chunks d) evs (lg_cache st) Hd Hm) as (m' & out & hits & E & Hm' & Hout).
    rewrite E. cbn [bind]. do 3 eexists. split; [reflexivity|]. cbn [lg_cache lg_cfg]. repeat split; try assumption.
    apply Forall_app. split; [now apply run_linters_in|assumption].
  Qed.

  Definition outs_in (outs : list (ldoc kind * list clint)) : Prop :=
    Forall (fun p => Forall (lint_in (length (l_src (fst p)))) (snd p)) outs.

  (* THE INVARIANT OVER HISTORIES: any sequence of configuration changes, lint calls (with any eviction before any
     lookup) and evictions on one LintGroup whose cache satisfies the invariant (a fresh one does) never panics,
     answers every lint call, and every lint of every answer lies inside the document of THAT call *)
  Theorem lg_history_in_bounds : wrules_ok -> prules_ok -> forall h st,
    hist_ok h -> cache_ok (lg_cache st) ->
    exists st' outs, lg_run h st = Ok (st', outs) /\ cache_ok (lg_cache st') /\
                     map fst outs = hist_docs h /\ outs_in outs.
  Proof.
    intros HW HP. induction h as [|o r IH]; intros st Hh Hm.
    - exists st, []. cbn. repeat split; try assumption. constructor.
    - destruct o as [c|d evs|keep]; cbn [C03LintGroup.lg_run hist_docs].
      + apply IH; [exact Hh|exact Hm].
      + destruct Hh as [Hd Hr].
        destruct (lg_lint_ok st d evs HW HP Hd Hm) as (st1 & out & hits & E & Hm1 & _ & Hout). rewrite E. cbn [bind].
        destruct (IH st1 Hr Hm1) as (st2 & outs & E2 & Hm2 & Hdocs & Houts). rewrite E2. cbn [bind].
        do 2 eexists. split; [reflexivity|]. split; [assumption|]. split; [cbn [map fst]; now rewrite Hdocs|].
        constructor; assumption.
      + apply IH; [exact Hh|]. cbn [lg_cache]. now apply cache_ok_evict.
  Qed.

  Corollary lg_fresh_history_in_bounds : wrules_ok -> prules_ok -> forall h c0 st' outs,
    hist_ok h -> lg_run h (lg_fresh c0) = Ok (st', outs) -> map fst outs = hist_docs h /\ outs_in outs.
  Proof.
    intros HW HP h c0 st' outs Hh E.
    destruct (lg_history_in_bounds HW HP h (lg_fresh c0) Hh cache_ok_nil) as (st2 & outs2 & E2 & _ & H1 & H2).
    rewrite E in E2. injection E2 as -> ->. now split.
  Qed.
  Corollary lg_fresh_history_total : wrules_ok -> prules_ok -> forall h c0,
    hist_ok h -> exists r, lg_run h (lg_fresh c0) = Ok r.
  Proof.
    intros HW HP h c0 Hh.
    destruct (lg_history_in_bounds HW HP h (lg_fresh c0) Hh cache_ok_nil) as (st2 & outs2 & E2 & _). eexists; exact E2.
  Qed.

  (* a pattern rule that reports a span starting before its chunk makes the call panic on a miss (pull_by) *)
  Lemma lg_chunk_before_start_panics t c src ts rest evs m sp chars rt l pl :
    hull_of ts = Ok (Some sp) -> get_content sp src = Ok chars -> rel_toks (sstart sp) ts = Ok rt ->
    lookup code_key_eqb (chars, cfg_hash c, tok_hash rt) (evict (hd keep_all evs) m) = None ->
    run_plinters cfg kind enabled plinters t c src ts = l :: pl -> sstart (cl_span l) < sstart sp ->
    lg_chunks t c src (ts :: rest) evs m = Panic PUnderflow.
  Proof.
    intros Ho Hg Hrt L Hpl Hl. cbn [C03LintGroup.lg_chunks]. rewrite Ho. cbn [bind]. rewrite Hg. cbn [bind].
    rewrite Hrt. cbn [bind]. unfold lkey, lcache in *. rewrite L, Hpl.
    rewrite mapM_lpull_panics by assumption. reflexivity.
  Qed.
End LintGroupFacts.

(* ---------- non-vacuity: concrete rules satisfying the premises, a history with a hit at another offset ---------- *)
(* pattern rule 0: flags every (well-formed) token of kind 1 with the token's span; whole-document rule 7: one lint
   over the whole text *)
Definition ex_prule : prule N := fun _ _ ts =>
  flat_map (fun t : tok N => if N.eqb (fst t) 1 && (sstart (snd t) <=? send (snd t)) then [mkclint (snd t) 10%N] else []) ts.
Definition ex_wrule : wrule N := fun _ d => [mkclint (mkspan 0 (length (l_src d))) 20%N].
(* "xy.xy." : two clauses with the same characters and the same relative tokens *)
Definition ex_src : text := [120; 121; 46; 120; 121; 46]%N.
Definition ex_chunks : list (list (tok N)) :=
  [[(1%N, mkspan 0 2); (0%N, mkspan 2 3)]; [(1%N, mkspan 3 5); (0%N, mkspan 5 6)]].
Definition ex_doc1 : ldoc N := mkldoc ex_src ex_chunks 0%N.
(* "ab xy." : the clause again, at offset 3, in a later and different document *)
Definition ex_doc2 : ldoc N := mkldoc [97; 98; 32; 120; 121; 46]%N [[(1%N, mkspan 3 5); (0%N, mkspan 5 6)]] 0%N.
Definition ex_hist : list (lop N N) := [LLint ex_doc1 []; LSetCfg 129%N; LEvict (fun _ => true); LLint ex_doc2 []].
(* every token hash collides: the theorem does not care *)
Definition ex_run (pl : list (N * prule N)) h :=
  lg_run N N drv_enabled (fun c => c) (fun _ => 0%N) [(7%N, ex_wrule)] pl h (lg_fresh 129%N).

Lemma ex_prules_ok : prules_ok N [(0%N, ex_prule)].
Proof.
  intros n r t src ts sp [E|[]] _ Ho Hb. injection E as <- <-. unfold ex_prule.
  apply Forall_flat_map_intro. intros tk Hin.
  destruct (N.eqb (fst tk) 1); cbn [andb]; [|constructor].
  destruct (Nat.leb_spec (sstart (snd tk)) (send (snd tk))) as [Hw|Hw]; [|constructor].
  constructor; [|constructor]. unfold lint_within. cbn [cl_span].
  pose proof (hull_of_below N ts sp Ho) as Hlo. pose proof (hull_of_above N ts sp Ho) as Hhi.
  rewrite Forall_forall in Hlo, Hhi. specialize (Hlo tk Hin). specialize (Hhi tk Hin). cbn beta in Hlo, Hhi. lia.
Qed.
Lemma ex_wrules_ok : wrules_ok N [(7%N, ex_wrule)].
Proof.
  intros n r t d [E|[]] _. injection E as <- <-. unfold ex_wrule. constructor; [|constructor].
  unfold lint_in, span_in. cbn [cl_span sstart send]. lia.
Qed.
Lemma ex_hist_ok : hist_ok N N ex_hist.
Proof.
  cbn [hist_ok ex_hist]. split; [|split; [|exact I]]; intros ts Hin; cbn in Hin;
  repeat (destruct Hin as [<-|Hin]; [split; [repeat constructor; cbn; lia|intros sp Ho; vm_compute in Ho; injection Ho as <-; cbn; lia]|]); destruct Hin.
Qed.

(* the second clause of document 1 is served from the cache (miss, hit), document 2 too although it is another text *)
Example ex_run_value :
  exists st, ex_run [(0%N, ex_prule)] ex_hist =
    Ok (st, [(ex_doc1, [mkclint (mkspan 0 6) 20%N; mkclint (mkspan 0 2) 10%N; mkclint (mkspan 3 5) 10%N]);
             (ex_doc2, [mkclint (mkspan 0 6) 20%N; mkclint (mkspan 3 5) 10%N])]).
Proof. eexists. vm_compute. reflexivity. Qed.
Example ex_hits :
  match lg_lint N N drv_enabled (fun c => c) (fun _ => 0%N) [(7%N, ex_wrule)] [(0%N, ex_prule)] (lg_fresh 129%N) ex_doc1 [] with
  | Ok (_, _, hits) => hits = [false; true] | Panic _ => False end.
Proof. vm_compute. reflexivity. Qed.

(* why the premise on pattern rules is "inside the CHUNK" and not merely "inside the document": a rule whose lint
   reaches 2 characters beyond its clause is inside "xy.xy." — and, served from the cache for the lone clause "xy."
   of a later document, outside that document *)
Definition ex_bad_prule : prule N := fun _ _ ts =>
  match ts with t :: _ => [mkclint (mkspan (sstart (snd t)) (send (snd t) + 3)) 11%N] | [] => [] end.
Definition ex_doc3 : ldoc N := mkldoc [120; 121; 46]%N [[(1%N, mkspan 0 2); (0%N, mkspan 2 3)]] 0%N.
Example ex_chunk_premise_needed :
  exists st out1 out3,
    ex_run [(0%N, ex_bad_prule)] [LLint (mkldoc ex_src [hd [] ex_chunks] 0%N) []; LLint ex_doc3 []] =
      Ok (st, [(mkldoc ex_src [hd [] ex_chunks] 0%N, out1); (ex_doc3, out3)]) /\
    Forall (lint_in 6) out1 /\ In (mkclint (mkspan 0 5) 11%N) out3 /\ ~ lint_in (length (l_src ex_doc3)) (mkclint (mkspan 0 5) 11%N).
Proof.
  do 3 eexists. split; [vm_compute; reflexivity|]. split; [|split].
  - repeat constructor.
  - right. left. reflexivity.
  - unfold lint_in, span_in. cbn. lia.
Qed.
(* a rule reporting a span before its chunk: the call panics (debug build) *)
Definition ex_early_prule : prule N := fun _ _ ts =>
  match ts with t :: _ => [mkclint (mkspan (sstart (snd t) - 1) (send (snd t))) 12%N] | [] => [] end.
Example ex_early_panics :
  ex_run [(0%N, ex_early_prule)] [LLint (mkldoc ex_src [nth 1 ex_chunks []] 0%N) []] = Panic PUnderflow.
Proof. vm_compute. reflexivity. Qed.
