(* C12CondPatterns3.v — the premises HL / HR of C12CondPattern.condense_pattern_split for the three fixed
   matchers of Document::parse, when A ends in a ParagraphBreak token:
     * no contraction / ellipsis / Latin-abbreviation match that starts in A reaches behind that break
       (a ParagraphBreak is neither Word, apostrophe, period nor whitespace (is_whitespace_kind));
     * the matchers do not notice that the tokens of B are moved by |P| characters when the text is P ++ D
       (condense_latin reads the text under Word tokens through Span::get_content). *)
Require Import Base Overlap OverlapProofs Tables_lexer Lexer Condense ListLemmas TokenInv CondenseInv LexerProofs
  CondPatterns3 CondPattern C12CondSpaces C12CondSuffix C12CondPattern.
From Coq Require Import List Arith Lia.
Import ListNotations.

Definition is_break_kind (k : tkind) : bool := match k with KParagraphBreak => true | _ => false end.
Definition ends_break (A : list token) : Prop := exists A0 t, A = A0 ++ [t] /\ tkind_of t = KParagraphBreak.

Lemma suffix_ends_break A p s : ends_break A -> A = p ++ s -> s <> [] ->
  exists s0 t, s = s0 ++ [t] /\ tkind_of t = KParagraphBreak.
Proof.
  intros (A0 & t & EA & Ht) E Hs. destruct (exists_last Hs) as [s0 [x Es]]. subst s.
  exists s0, x. split; [reflexivity|]. rewrite EA, app_assoc in E. apply app_inj_tail in E. destruct E as [_ <-]. exact Ht.
Qed.

Lemma cw_stop_at {X} (p : X -> bool) a x r : p x = false -> count_while p (a ++ x :: r) = count_while p a.
Proof.
  intros Hx. induction a as [|y a IH]; cbn [app count_while]; [rewrite Hx; reflexivity|].
  destruct (p y); [rewrite IH; reflexivity|reflexivity].
Qed.

Lemma cw_map {X Y} (f : X -> Y) (p : Y -> bool) (q : X -> bool) :
  (forall x, p (f x) = q x) -> forall l, count_while p (map f l) = count_while q l.
Proof. intros H. induction l as [|x l IH]; cbn [map count_while]; [reflexivity|]. rewrite H, IH. reflexivity. Qed.

(* ================= contractions ================= *)
Lemma contraction_HL src src' A B' : ends_break A ->
  forall p s, A = p ++ s -> s <> [] -> contraction_matches src (s ++ B') = contraction_matches src' s.
Proof.
  intros HA p s E Hs. destruct (suffix_ends_break A p s HA E Hs) as (s0 & t & -> & Ht).
  unfold contraction_matches.
  destruct s0 as [|x [|y s0']]; cbn [app].
  - destruct B' as [|b1 [|b2 B'']]; try reflexivity. rewrite Ht. reflexivity.
  - destruct B' as [|b1 B'']; [reflexivity|]. rewrite Ht. cbn [is_apostrophe]. rewrite andb_false_r. reflexivity.
  - destruct s0' as [|z s0'']; reflexivity.
Qed.

Lemma contraction_HR src src' k : forall s, contraction_matches src (map (shift_tk k) s) = contraction_matches src' s.
Proof. intros [|a [|b [|c s]]]; reflexivity. Qed.

(* ================= ellipsis ================= *)
Lemma ellipsis_HL src src' A B' : ends_break A ->
  forall p s, A = p ++ s -> s <> [] -> ellipsis_matches src (s ++ B') = ellipsis_matches src' s.
Proof.
  intros HA p s E Hs. destruct (suffix_ends_break A p s HA E Hs) as (s0 & t & -> & Ht).
  unfold ellipsis_matches. rewrite <- app_assoc. cbn [app].
  rewrite (cw_stop_at _ s0 t B') by (rewrite Ht; reflexivity).
  rewrite (cw_stop_at _ s0 t []) by (rewrite Ht; reflexivity). reflexivity.
Qed.

Lemma ellipsis_HR src src' k : forall s, ellipsis_matches src (map (shift_tk k) s) = ellipsis_matches src' s.
Proof.
  intros s. unfold ellipsis_matches.
  rewrite (cw_map (shift_tk k) _ (fun t => is_period (tkind_of t))) by reflexivity. reflexivity.
Qed.

(* ================= Latin abbreviations ================= *)
Lemma leb_add_l a b k : (k + a <=? b + k) = (a <=? b).
Proof.
  destruct (a <=? b) eqn:E; [apply Nat.leb_le in E; apply Nat.leb_le; lia|apply Nat.leb_gt in E; apply Nat.leb_gt; lia].
Qed.
Lemma ltb_add_l a b k : (k + a <? b + k) = (a <? b).
Proof.
  destruct (a <? b) eqn:E; [apply Nat.ltb_lt in E; apply Nat.ltb_lt; lia|apply Nat.ltb_ge in E; apply Nat.ltb_ge; lia].
Qed.

Lemma span_len_shift sp k : span_len (push_by sp k) = span_len sp.
Proof.
  unfold span_len, sub_chk, push_by. cbn [sstart send]. rewrite ltb_add_r.
  destruct (send sp <? sstart sp); [reflexivity|]. f_equal. lia.
Qed.

Lemma get_content_shift (P D : text) sp : get_content (push_by sp (length P)) (P ++ D) = get_content sp D.
Proof.
  unfold get_content, try_get_content. rewrite span_len_shift. unfold push_by. cbn [sstart send].
  rewrite app_length, ltb_add_r, leb_add_l, ltb_add_l.
  destruct ((send sp <? sstart sp) || (length D <=? sstart sp) || (length D <? send sp)); [reflexivity|].
  cbn [bind]. rewrite slice_app_r. reflexivity.
Qed.

Lemma tspan_shift k t : tspan (shift_tk k t) = push_by (tspan t) k.
Proof. reflexivity. Qed.

Lemma wordset_shift words (P D : text) s :
  wordset_matches words (P ++ D) (map (shift_tk (length P)) s) = wordset_matches words D s.
Proof.
  destruct s as [|t r]; [reflexivity|]. cbn [map]. unfold wordset_matches.
  rewrite shift_tk_kind, tspan_shift, get_content_shift. reflexivity.
Qed.

Lemma anycap_shift w (P D : text) s :
  anycap_matches w (P ++ D) (map (shift_tk (length P)) s) = anycap_matches w D s.
Proof.
  destruct s as [|t r]; [reflexivity|]. cbn [map]. unfold anycap_matches.
  rewrite shift_tk_kind, tspan_shift, get_content_shift, span_len_shift. reflexivity.
Qed.

Lemma period_matches_shift k s : period_matches (map (shift_tk k) s) = period_matches s.
Proof. destruct s; reflexivity. Qed.

Lemma latin_HR (P D : text) : forall s, latin_matches (P ++ D) (map (shift_tk (length P)) s) = latin_matches D s.
Proof.
  intros s. unfold latin_matches, latin_alt1, latin_alt2.
  rewrite wordset_shift, anycap_shift. rewrite !skipn_map, !period_matches_shift.
  rewrite (cw_map (shift_tk (length P)) _ (fun t => is_whitespace_kind (tkind_of t))) by reflexivity.
  rewrite ?skipn_map. rewrite ?anycap_shift, ?period_matches_shift. reflexivity.
Qed.

Lemma word_text_l (P D : text) t : tend t <= length P -> word_text (P ++ D) t = word_text P t.
Proof. intros H. unfold word_text. apply slice_app_l. exact H. Qed.

Lemma skipn_app_le2 {X} n (a r : list X) : n <= length a -> skipn n (a ++ r) = skipn n a ++ r.
Proof. intros H. rewrite skipn_app. replace (n - length a) with 0 by lia. reflexivity. Qed.

Lemma alt1_HL (P D : text) s0 t B' :
  tkind_of t = KParagraphBreak -> Forall (fun x => tend x <= length P) s0 ->
  alt1_val (P ++ D) ((s0 ++ [t]) ++ B') = alt1_val P (s0 ++ [t]).
Proof.
  intros Ht HF. destruct s0 as [|x s0']; cbn [app].
  - unfold alt1_val. destruct B' as [|b B'']; [reflexivity|]. rewrite Ht. reflexivity.
  - inversion HF as [|x0 l0 Hx _]; subst. unfold alt1_val.
    destruct s0' as [|y s0'']; cbn [app]; unfold in_wordset; rewrite (word_text_l P D x Hx); reflexivity.
Qed.

Lemma alt2_HL (P D : text) s0 t B' :
  tkind_of t = KParagraphBreak -> Forall (fun x => tend x <= length P) s0 ->
  alt2_val (P ++ D) ((s0 ++ [t]) ++ B') = alt2_val P (s0 ++ [t]).
Proof.
  intros Ht HF. destruct s0 as [|x s0']; cbn [app].
  - unfold alt2_val. rewrite Ht. reflexivity.
  - inversion HF as [|x0 l0 Hx HF']; subst. unfold alt2_val.
    rewrite (word_text_l P D x Hx).
    destruct (is_word (tkind_of x) && (tend x - tstart x =? 2) && zip_all_eq_ic (word_text P x) latin_first);
      [|reflexivity].
    rewrite <- app_assoc. cbn [app].
    assert (Hws : is_ws_tok t = false) by (unfold is_ws_tok; rewrite Ht; reflexivity).
    rewrite (cw_stop_at is_ws_tok s0' t B' Hws), (cw_stop_at is_ws_tok s0' t [] Hws).
    set (w := count_while is_ws_tok s0'). cbv zeta.
    destruct (w =? 0); [reflexivity|].
    assert (Hw : w <= length s0') by apply count_while_le.
    rewrite !skipn_app_le2 by exact Hw.
    pose proof (forall_skipn _ s0' w HF') as HF2.
    destruct (skipn w s0') as [|t2 [|p r]]; cbn [app].
    + rewrite Ht. cbn [is_word andb]. destruct B'; reflexivity.
    + inversion HF2 as [|t20 l1 Ht2 _]; subst. rewrite (word_text_l P D t2 Ht2). reflexivity.
    + inversion HF2 as [|t20 l1 Ht2 _]; subst. rewrite (word_text_l P D t2 Ht2). reflexivity.
Qed.

Lemma latin_HL (P D : text) A B' : ends_break A ->
  Tiling 0 (length P) A -> Forall (tok_ok (P ++ D)) B' ->
  forall p s, A = p ++ s -> s <> [] -> latin_matches (P ++ D) (s ++ B') = latin_matches P s.
Proof.
  intros HA HT HB p s E Hs. destruct (suffix_ends_break A p s HA E Hs) as (s0 & t & Es & Ht).
  pose proof (tiling_tok_ok P A HT) as HokA.
  assert (HokS : Forall (tok_ok P) s) by (rewrite E in HokA; apply Forall_app in HokA; tauto).
  assert (HokS' : Forall (tok_ok (P ++ D)) (s ++ B')).
  { apply Forall_app. split; [|exact HB]. eapply Forall_impl; [|exact HokS].
    intros x [H1 H2]. split; [exact H1|]. rewrite app_length. lia. }
  rewrite (latin_spec _ _ HokS'), (latin_spec _ _ HokS). subst s.
  assert (HF : Forall (fun x => tend x <= length P) s0).
  { apply Forall_app in HokS. destruct HokS as [H0 _]. eapply Forall_impl; [|exact H0]. intros x [_ H2]. exact H2. }
  rewrite (alt1_HL P D s0 t B' Ht HF), (alt2_HL P D s0 t B' Ht HF). reflexivity.
Qed.

(* the three matchers of Document::parse are local in front of a ParagraphBreak *)
Theorem patterns_local (P D : text) A B' : ends_break A ->
  (forall p s, A = p ++ s -> s <> [] -> contraction_matches (P ++ D) (s ++ B') = contraction_matches P s) /\
  (forall p s, A = p ++ s -> s <> [] -> ellipsis_matches (P ++ D) (s ++ B') = ellipsis_matches P s) /\
  (Tiling 0 (length P) A -> Forall (tok_ok (P ++ D)) B' ->
   forall p s, A = p ++ s -> s <> [] -> latin_matches (P ++ D) (s ++ B') = latin_matches P s).
Proof.
  intros HA. split; [exact (contraction_HL (P ++ D) P A B' HA)|]. split; [exact (ellipsis_HL (P ++ D) P A B' HA)|].
  intros HT HB. exact (latin_HL P D A B' HA HT HB).
Qed.
