(* C06CondFun.v — a FUNCTIONAL characterisation of condense_pattern (C02's CondPattern.v proves a relational one: the
   output is SOME grouping of the input into single tokens and matches; it does not say that a match IS merged).
   If the matches fam_scan finds form a chain (sorted, pairwise disjoint, inside the vector), find_all_matches keeps them all
   and condense_pattern returns `regroup`: every match replaced by one token over its hull.  Independent of the matcher. *)
Require Import Base Overlap Tables_lexer Lexer Condense ListLemmas TokenInv CondenseInv OverlapProofs CondPattern.
From Coq Require Import Lia.

Fixpoint Chain (n lo : nat) (l : list span) : Prop :=
  match l with
  | [] => True
  | s :: r => lo <= sstart s /\ sstart s < send s /\ send s <= n /\ Chain n (send s) r
  end.

Lemma chain_weaken n lo lo' l : lo' <= lo -> Chain n lo l -> Chain n lo' l.
Proof. destruct l as [|s r]; [intros _ _; exact I|]. cbn [Chain]. intros H (A & B & C & D). repeat split; try assumption. lia. Qed.

Fixpoint regroup (edit : tkind -> tkind) (lo : nat) (kept : list span) (suf : list token) : list token :=
  match kept with
  | [] => suf
  | s :: r =>
      let g := firstn (send s - sstart s) (skipn (sstart s - lo) suf) in
      firstn (sstart s - lo) suf ++
      group_token g (edit (tkind_of (hd dummy_tok g))) :: regroup edit (send s) r (skipn (send s - lo) suf)
  end.

Lemma keepno_chain n : forall l x lo, Chain n lo (x :: l) -> keepno x l = l.
Proof.
  induction l as [|y l IH]; intros x lo H; [reflexivity|]. cbn [Chain] in H.
  destruct H as (_ & Hx & Hxn & Hy1 & Hy2 & Hy3 & Hr). cbn [keepno].
  assert (overlaps x y = false) as ->.
  { unfold overlaps. apply andb_false_iff. right. apply Nat.ltb_ge. exact Hy1. }
  f_equal. apply (IH y (send x)). cbn [Chain]. repeat split; assumption.
Qed.

Lemma find_all_chain m ts found : fam_scan m ts 0 = Ok found -> Chain (length ts) 0 found ->
  find_all_matches m ts = Ok found.
Proof.
  intros E C. unfold find_all_matches. rewrite E. cbn [bind]. rewrite fam_kept. destruct found as [|x l]; [reflexivity|].
  rewrite (keepno_chain _ l x 0 C). reflexivity.
Qed.

Section Fun.
  Variable edit : tkind -> tkind.
  Variable ts : list token.
  Variables a b : nat.
  Hypothesis HT : Tiling a b ts.

  Lemma cp_apply_fun : forall kept lo pre, length pre = lo -> lo <= length ts -> Chain (length ts) lo kept ->
    exists suf' q, cp_apply edit kept (pre ++ skipn lo ts) = Ok (pre ++ suf', q) /\
      (forall r, In r q -> lo <= r) /\
      remove_indices lo q suf' = regroup edit lo kept (skipn lo ts).
  Proof.
    induction kept as [|s kept IH]; intros lo pre Hpre Hlo HD.
    - exists (skipn lo ts), []. split; [reflexivity|]. split; [intros r []|].
      rewrite remove_indices_nil. reflexivity.
    - destruct s as [st en]. cbn [Chain sstart send] in HD. destruct HD as (Hls & Hm1 & Hm2 & HD').
      destruct (skipn_cons_split ts lo st en Hls Hm1 Hm2) as [A0 [t0 [g' [E1 [LA [Lg E2]]]]]].
      pose proof (firstn_skipn st ts) as Ets. rewrite E2 in Ets.
      assert (exists c e, Tiling c e (t0 :: g')) as [c [e HTg]].
      { pose proof HT as HT'. rewrite <- Ets in HT'. apply tiling_app_inv in HT' as [c [_ HT2]].
        apply tiling_app_inv in HT2 as [e [HTg _]]. exists c, e. exact HTg. }
      destruct (tiling_group c e (t0 :: g') ltac:(discriminate) HTg) as [Hgs [Hge Hce]].
      pose proof (hull_tiling c e (t0 :: g') ltac:(discriminate) HTg) as Hh.
      remember (mktok (mkspan c e) (edit (tkind_of t0))) as x eqn:Ex.
      destruct (IH en (pre ++ A0 ++ x :: g')) as [suf' [q' [Hcp [Hq' HG]]]].
      { rewrite !app_length. cbn [length] in *. lia. }
      { lia. }
      { exact HD'. }
      destruct (cp_step_ops (pre ++ A0) t0 g' (skipn en ts) st en) as [Hsl [Hnth Hset]].
      { rewrite app_length. lia. }
      { exact Lg. }
      { exact Hm1. }
      exists (A0 ++ (x :: g') ++ suf'), (seq (st + 1) (en - (st + 1)) ++ q').
      split; [|split].
      + cbn [cp_apply sstart send]. rewrite E1.
        replace (pre ++ A0 ++ (t0 :: g') ++ skipn en ts) with ((pre ++ A0) ++ (t0 :: g') ++ skipn en ts)
          by (rewrite <- app_assoc; reflexivity).
        rewrite Hsl. cbn [bind]. rewrite Hh. cbn [bind]. rewrite Hnth. cbn [bind].
        rewrite Hset. cbn [bind]. rewrite <- Ex.
        replace ((pre ++ A0) ++ (x :: g') ++ skipn en ts) with ((pre ++ A0 ++ x :: g') ++ skipn en ts)
          by (rewrite <- !app_assoc; reflexivity).
        rewrite Hcp. cbn [bind]. f_equal. f_equal. rewrite <- !app_assoc. reflexivity.
      + intros r Hr. apply in_app_or in Hr. destruct Hr as [Hr|Hr].
        * apply in_seq in Hr. lia.
        * apply Hq' in Hr. lia.
      + pose proof (remove_indices_app A0 ((x :: g') ++ suf') lo [] (seq (st + 1) (en - (st + 1)) ++ q')) as R1.
        change ([] ++ seq (st + 1) (en - (st + 1)) ++ q') with (seq (st + 1) (en - (st + 1)) ++ q') in R1.
        rewrite R1; clear R1.
        2:{ constructor. }
        2:{ intros r Hr. apply in_app_or in Hr. destruct Hr as [Hr|Hr].
            - apply in_seq in Hr. lia.
            - apply Hq' in Hr. lia. }
        rewrite remove_indices_nil. replace (lo + length A0) with st by lia.
        assert (length (x :: g') = en - st) as Lx by (cbn [length] in *; lia).
        rewrite remove_indices_app.
        2:{ apply queue_in_seq; [lia|]. rewrite Lx. lia. }
        2:{ intros r Hr. apply Hq' in Hr. rewrite Lx. lia. }
        rewrite Lx. replace (st + (en - st)) with en by lia.
        rewrite remove_indices_group by (cbn [length] in Lg; lia).
        rewrite HG. cbn [regroup sstart send]. rewrite E1.
        rewrite (firstn_app_len A0) by lia.
        rewrite (skipn_app_len A0) by lia.
        rewrite (firstn_app_len (t0 :: g')) by (symmetry; exact Lg).
        replace (A0 ++ (t0 :: g') ++ skipn en ts) with ((A0 ++ t0 :: g') ++ skipn en ts)
          by (rewrite <- app_assoc; reflexivity).
        rewrite (skipn_app_len (A0 ++ t0 :: g')) by (rewrite app_length; cbn [length] in *; lia).
        cbn [hd]. f_equal. cbn [app]. f_equal.
        unfold group_token. rewrite Hgs, Hge. exact Ex.
  Qed.

  Theorem condense_pattern_fun m found : fam_scan m ts 0 = Ok found -> Chain (length ts) 0 found ->
    condense_pattern m edit ts = Ok (regroup edit 0 found ts).
  Proof.
    intros E C. unfold condense_pattern. rewrite (find_all_chain m ts found E C). cbn [bind].
    destruct (cp_apply_fun found 0 [] eq_refl ltac:(lia) C) as (suf' & q & Hcp & _ & HR).
    cbn [app skipn] in Hcp, HR. rewrite Hcp. cbn [bind]. rewrite HR. reflexivity.
  Qed.
End Fun.
