(* C16ApiProofs.v — the remaining exports of harper-wasm (Model/C16Api.v): frame, projection of a history of
   the whole API onto the calls of Model/Wasm.v, statistics file round trip (lifted from C19's log_roundtrip),
   the default configuration. *)
Require Import Base Overlap Suggestion LintJson Wasm JsonEscape Stats C16Api ListLemmas WasmProofs StatsProofs.
From Coq Require Import List Arith NArith Lia.
Import ListNotations.

Lemma same_but_stats_refl st : same_but_stats st st.
Proof. repeat split. Qed.

Section Api.
  Variable curated : config.
  Variable word_id : text -> N.
  Variable raw_lints : text -> language -> config -> dict -> nat -> list rlint.
  Variable ctx : rlint -> text -> language -> dict -> N.
  Variable title_case : text -> text.
  Variable likely_english : text -> dict -> bool.
  Variable isolate : text -> dict -> text.
  Variable ser : stat_record -> bytes.
  Variable de : bytes -> option stat_record.

  Notation step := (Wasm.step curated word_id raw_lints ctx).
  Notation run := (Wasm.run curated word_id raw_lints ctx).
  Notation xstep := (C16Api.xstep curated word_id raw_lints ctx title_case likely_english isolate ser de).
  Notation xrun := (C16Api.xrun curated word_id raw_lints ctx title_case likely_english isolate ser de).
  Notation lint := (api_lint curated raw_lints ctx).

  (* a call of Model/Wasm.v does the same to two linters that differ only in their statistics, and answers the
     same unless it is the statistics that are asked for *)
  Lemma step_same_but_stats a b c :
    same_but_stats a b ->
    same_but_stats (fst (step a c)) (fst (step b c))
    /\ (c <> CGetStats -> snd (step a c) = snd (step b c)).
  Proof.
    destruct a as [c1 u1 d1 i1 s1 n1], b as [c2 u2 d2 i2 s2 n2]. unfold same_but_stats.
    cbn [s_cfg s_user s_lint_dict s_ignored s_dialect]. intros (-> & -> & -> & -> & ->).
    destruct c; cbn [Wasm.step fst snd].
    - split; [repeat split|reflexivity].
    - unfold push_record. cbn [s_cfg s_user s_lint_dict s_ignored s_dialect s_stats]. split; [repeat split|reflexivity].
    - unfold ignore_lint. cbn [s_cfg s_user s_lint_dict s_ignored s_dialect s_stats]. split; [repeat split|reflexivity].
    - split; [repeat split|reflexivity].
    - destruct (ignored_from_json json); cbn [fst snd set_ignored s_cfg s_user s_lint_dict s_ignored s_dialect s_stats];
        (split; [repeat split|reflexivity]).
    - cbn [set_ignored s_cfg s_user s_lint_dict s_ignored s_dialect s_stats]. split; [repeat split|reflexivity].
    - unfold import_words. cbn [s_cfg s_user s_lint_dict s_ignored s_dialect s_stats].
      destruct (dict_eqb _ _); unfold synchronize; cbn [s_cfg s_user s_lint_dict s_ignored s_dialect s_stats];
        (split; [repeat split|reflexivity]).
    - split; [repeat split|reflexivity].
    - destruct c as [c|]; cbn [fst snd set_cfg s_cfg s_user s_lint_dict s_ignored s_dialect s_stats];
        (split; [repeat split|reflexivity]).
    - split; [repeat split|reflexivity].
    - split; [repeat split|]. intros C. now elim C.
    - split; [repeat split|reflexivity].
  Qed.

  (* frame: the exports outside Model/Wasm.v leave the linter alone, import_stats_file touches the statistics only *)
  Theorem xstep_frame st c :
    match c with
    | XBase b => fst (xstep st c) = fst (step st b) /\ snd (xstep st c) = XOut (snd (step st b))
    | XImportStats f => same_but_stats (fst (xstep st c)) st
    | _ => fst (xstep st c) = st
    end.
  Proof.
    destruct c; cbn [C16Api.xstep]; try reflexivity.
    - destruct (step st c) as [st' o]. split; reflexivity.
    - destruct (read stat_record de file); cbn [fst]; [|apply same_but_stats_refl].
      unfold same_but_stats, set_stats. cbn [s_cfg s_user s_lint_dict s_ignored s_dialect]. repeat split.
  Qed.

  Lemma xstep_same_but_stats a b c :
    same_but_stats a b ->
    match c with
    | XBase k => same_but_stats (fst (xstep a c)) (fst (step b k))
    | _ => same_but_stats (fst (xstep a c)) b
    end.
  Proof.
    intros H. pose proof (xstep_frame a c) as F. destruct c.
    - destruct F as [-> _]. apply step_same_but_stats. exact H.
    - rewrite F. exact H.
    - rewrite F. exact H.
    - rewrite F. exact H.
    - rewrite F. exact H.
    - rewrite F. exact H.
    - destruct F as (E1 & E2 & E3 & E4 & E5). destruct H as (H1 & H2 & H3 & H4 & H5).
      unfold same_but_stats. rewrite E1, E2, E3, E4, E5. auto.
  Qed.

  (* a history of the whole API and the history of its Model/Wasm.v calls end in linters that differ at most in
     their statistics ... *)
  Lemma xrun_projects cs : forall a b,
    same_but_stats a b -> same_but_stats (fst (xrun a cs)) (fst (run b (base_calls cs))).
  Proof.
    induction cs as [|c cs IH]; intros a b H; cbn [C16Api.xrun base_calls Wasm.run fst]; [exact H|].
    pose proof (xstep_same_but_stats a b c H) as S.
    destruct (xstep a c) as [a1 o] eqn:Ea. cbn [fst] in S.
    destruct c; cbn [base_calls Wasm.run];
      try (specialize (IH a1 b S); destruct (xrun a1 cs) as [a2 os]; exact IH).
    destruct (step b c) as [b1 o'] eqn:Eb. cbn [fst] in S. specialize (IH a1 b1 S).
    destruct (xrun a1 cs) as [a2 os]. destruct (run b1 (base_calls cs)) as [b2 os']. exact IH.
  Qed.

  Lemma lint_same_but_stats a b t lang : same_but_stats a b -> lint a t lang = lint b t lang.
  Proof.
    intros (H1 & H2 & H3 & H4 & H5). apply lint_congr; try assumption. intros h. now rewrite H4.
  Qed.

  (* ... hence lint the same on every text: every theorem about `run` speaks about histories in which the other
     exports are interleaved *)
  Theorem xrun_lints_as_run cs st :
    let a := fst (xrun st cs) in
    let b := fst (run st (base_calls cs)) in
    same_but_stats a b
    /\ (forall t lang, lint a t lang = lint b t lang)
    /\ export_words a = export_words b.
  Proof.
    intros a b. pose proof (xrun_projects cs st st (same_but_stats_refl st)) as H. fold a b in H.
    split; [exact H|]. split; [intros t lang; now apply lint_same_but_stats|].
    unfold export_words. destruct H as (_ & -> & _). reflexivity.
  Qed.

  (* ---------- statistics file ---------- *)
  Variable valid : stat_record -> Prop.
  Hypothesis de_ser : forall r, valid r -> de (ser r) = Some r.
  Hypothesis ser_line : forall r, valid r -> line_ok (ser r).

  (* generate_stats_file of one linter imported into any linter: accepted, appends exactly the records of the
     first, changes nothing else; imported into a new linter it reproduces the file *)
  Theorem stats_file_roundtrip st st' :
    Forall valid (s_stats st) ->
    exists f, xstep st XGenerateStats = (st, XFile f)
      /\ xstep st' (XImportStats f) = (set_stats st' (s_stats st' ++ s_stats st), XOut OUnit)
      /\ same_but_stats (set_stats st' (s_stats st' ++ s_stats st)) st'
      /\ (s_stats st' = [] ->
          snd (xstep (set_stats st' (s_stats st' ++ s_stats st)) XGenerateStats) = XFile f).
  Proof.
    intros V. exists (write stat_record ser (s_stats st)). split; [reflexivity|].
    cbn [C16Api.xstep]. rewrite (log_roundtrip stat_record ser de valid de_ser ser_line _ V).
    split; [reflexivity|]. split.
    - unfold same_but_stats, set_stats. cbn [s_cfg s_user s_lint_dict s_ignored s_dialect]. repeat split.
    - intros E. rewrite E. cbn [app snd set_stats s_stats]. reflexivity.
  Qed.
End Api.

(* ---------- the default configuration ---------- *)
(* get_default_lint_config_as_json handed to set_lint_config_from_json on a linter (with a sorted configuration
   map: a BTreeMap; every state reachable from Linter::new, run_cfg_inv), and Linter::new itself: the configuration
   the rules see during lint makes exactly the curated choices *)
Theorem default_config_is_default :
  forall (curated : config) (word_id : text -> N) (raw_lints : text -> language -> config -> dict -> nat -> list rlint)
         (ctx : rlint -> text -> language -> dict -> N) title_case likely_english isolate ser de st dia k,
  amap_sorted curated -> amap_sorted (s_cfg st) ->
  snd (xstep curated word_id raw_lints ctx title_case likely_english isolate ser de st XGetDefaultConfig) = XOut (OConfig curated)
  /\ (let st' := fst (step curated word_id raw_lints ctx st (CSetConfig (Some curated))) in
      explicit k (cfg_fill_with_curated curated (s_cfg st')) = explicit k curated)
  /\ explicit k (cfg_fill_with_curated curated (s_cfg (new curated dia))) = explicit k curated.
Proof.
  intros curated word_id raw_lints ctx tc le iso ser de st dia k S Sst. split; [reflexivity|].
  assert (forall c, amap_sorted c -> (explicit k c = explicit k curated \/ explicit k c = None) ->
          explicit k (cfg_fill_with_curated curated c) = explicit k curated) as A.
  { intros c Sc H. unfold explicit at 1. rewrite (config_overlay curated c k Sc).
    unfold explicit in H |- *.
    destruct (aget k c) as [[v|]|]; try reflexivity.
    destruct H as [H|H]; [|discriminate]. exact H. }
  split.
  - cbv zeta. apply A.
    + cbn [Wasm.step fst set_cfg s_cfg]. apply cfg_merge_sorted. apply cfg_clear_sorted. exact Sst.
    + left. exact (proj1 (set_config_replaces curated word_id raw_lints ctx st curated k S)).
  - apply A.
    + cbn [new s_cfg]. apply cfg_clear_sorted. exact S.
    + right. cbn [new s_cfg]. apply explicit_clear.
Qed.
