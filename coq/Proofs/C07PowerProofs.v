(* C07PowerProofs.v — save_dict (write, flush, sync_all, rename) leaves the old or the complete new dictionary under
   a power loss too (Model/C07Power.v), for every loss function that keeps synced data; without the sync_all it
   does not. *)
Require Import Base DictIO DictIOProofs C07Power.

Lemma ns_get_del_other : forall p q m, q <> p -> ns_get q (ns_del p m) = ns_get q m.
Proof.
  intros p q m Hn. induction m as [|[q' i] t IH]; [reflexivity|]. cbn [ns_del filter fst].
  destruct (path_eqb p q') eqn:E; cbn [negb].
  - apply path_eqb_eq in E. subst q'. cbn [ns_get]. rewrite (path_eqb_neq q p Hn). exact IH.
  - cbn [ns_get]. destruct (path_eqb q q'); [reflexivity|exact IH].
Qed.
Lemma ns_get_set_same : forall p i m, ns_get p (ns_set p i m) = Some i.
Proof. intros. unfold ns_set. cbn [ns_get]. now rewrite path_eqb_refl. Qed.
Lemma ns_get_set_other : forall p q i m, q <> p -> ns_get q (ns_set p i m) = ns_get q m.
Proof. intros p q i m Hn. unfold ns_set. cbn [ns_get]. rewrite (path_eqb_neq q p Hn). now apply ns_get_del_other. Qed.

Lemma ino_upd_last : forall l x f, ino_upd (length l) f (l ++ [x]) = l ++ [f x].
Proof. induction l as [|a r IH]; intros x f; [reflexivity|]. cbn [length app ino_upd]. now rewrite IH. Qed.
Lemma ino_upd_last' : forall l k x f, length l = k -> ino_upd k f (l ++ [x]) = l ++ [f x].
Proof. intros l k x f H. subst k. apply ino_upd_last. Qed.

(* the text of a file at rest *)
Fixpoint fget (p : path) (files : list (path * text)) : option text :=
  match files with
  | [] => None
  | (q, t) :: r => if path_eqb p q then Some t else fget p r
  end.
Definition mk_ino (f : path * text) : inode := mkino (snd f) (snd f).

Lemma pfs_of_get : forall p files pre,
  match ns_get p (combine (map fst files) (seq (length pre) (length files))) with
  | Some i => i < length pre + length files /\
              exists t, fget p files = Some t /\ nth i (pre ++ map mk_ino files) (mkino [] []) = mkino t t
  | None => fget p files = None
  end.
Proof.
  intros p files. induction files as [|[q t] r IH]; intro pre; [reflexivity|].
  cbn [map fst length seq combine ns_get fget]. destruct (path_eqb p q).
  - split; [lia|]. exists t. split; [reflexivity|]. cbn [mk_ino snd]. now rewrite nth_middle.
  - specialize (IH (pre ++ [mk_ino (q, t)])). rewrite app_length in IH. cbn [length] in IH.
    replace (length pre + 1) with (S (length pre)) in IH by lia.
    destruct (ns_get p (combine (map fst r) (seq (S (length pre)) (length r)))) as [i|]; [|exact IH].
    destruct IH as [Hlt [t' [H1 H2]]]. split; [lia|]. exists t'. split; [exact H1|].
    rewrite <- app_assoc in H2. exact H2.
Qed.

Lemma preach_writes : forall q bs s fd buf rest s',
  In s' (preach (s, fd, buf) (map (EWrite q) bs ++ rest)) -> s' = s \/ In s' (preach (s, fd, buf ++ concat bs) rest).
Proof.
  intros q. induction bs as [|b r IH]; intros s fd buf rest s' H.
  - cbn [map app concat] in H. rewrite app_nil_r. now right.
  - cbn [map app preach pstep fst] in H. destruct H as [H|H]; [now left|].
    apply IH in H. cbn [concat]. now rewrite app_assoc.
Qed.

Section PowerProofs.
  Variable lossy : text -> text -> list content.
  Hypothesis Hsafe : synced_safe lossy.

  Variable files : list (path * text).
  Variable p : path.
  Variable ws : list word.

  Let n := length files.
  Let ino0 := map mk_ino files.
  Let ns0 := combine (map fst files) (seq 0 n).
  Let new := serialize ws.
  Let tmp := TmpP p.
  Let old : option content := option_map Clean (fget p files).

  Lemma len_ino0 : length ino0 = n.
  Proof. unfold ino0, n. apply map_length. Qed.

  (* a name that resolves in the name space at rest resolves to a synced inode holding the old text *)
  Lemma old_obs : forall inodes' pend c,
    (forall i, i < n -> nth i inodes' (mkino [] []) = nth i ino0 (mkino [] [])) ->
    match ns_get p ns0 with
    | None => c = None
    | Some i => exists x, In x (lossy (i_dur (ino_at i (mkpfs inodes' [] ns0 pend))) (i_vol (ino_at i (mkpfs inodes' [] ns0 pend)))) /\ c = Some x
    end -> c = old.
  Proof.
    intros inodes' pend c Hsame H. pose proof (pfs_of_get p files []) as G. cbn [length app] in G. fold n in G. fold ns0 in G.
    unfold old. destruct (ns_get p ns0) as [i|].
    - destruct G as [Hlt [t [G1 G2]]]. rewrite G1. cbn [option_map]. destruct H as [x [Hin Hc]]. subst c. f_equal.
      unfold ino_at in Hin. cbn [p_inodes] in Hin. rewrite (Hsame i Hlt) in Hin. fold ino0 in G2. rewrite G2 in Hin. cbn [i_dur i_vol] in Hin.
      now apply Hsafe.
    - rewrite G. exact H.
  Qed.

  Definition S2 (x : inode) (vis : nsmap) (pend : list nsop) : pfs := mkpfs (ino0 ++ [x]) vis ns0 pend.

  Lemma nth_ino0_app : forall x i, i < n -> nth i (ino0 ++ [x]) (mkino [] []) = nth i ino0 (mkino [] []).
  Proof. intros x i H. apply app_nth1. now rewrite len_ino0. Qed.

  Lemma tmp_ne : p <> tmp.
  Proof. unfold tmp. apply tmp_neq'. Qed.

  (* the states a save goes through *)
  Lemma preach_save : forall s',
    In s' (preach (pfs_of files, None, []) (save_effects p ws)) ->
    s' = pfs_of files \/
    (exists x vis, s' = S2 x vis [NsLink tmp n]) \/
    (exists vis, s' = S2 (mkino new new) vis [NsLink tmp n; NsRename tmp p]).
  Proof.
    intros s' H. change (pfs_of files) with (mkpfs ino0 ns0 ns0 []) in H.
    unfold save_effects in H. cbn [preach pstep fst] in H.
    destruct H as [H|[H|H]]; [left; now symmetry|left; now symmetry|].
    cbn [p_inodes p_vis p_durns p_pend app] in H. rewrite len_ino0 in H. fold tmp in H.
    rewrite writes_concat in H. apply preach_writes in H. destruct H as [H|H].
    { right. left. eexists. eexists. exact H. }
    rewrite concat_pieces in H. cbn [app] in H. fold new in H.
    cbn [preach pstep fst p_inodes p_vis p_durns p_pend] in H.
    rewrite !(ino_upd_last' ino0 n _ _ len_ino0) in H. cbn [i_dur i_vol app] in H.
    rewrite ns_get_set_same in H. cbn [preach fst p_inodes p_vis p_durns p_pend app] in H.
    destruct H as [H|[H|[H|[H|[]]]]].
    - right. left. eexists. eexists. symmetry. exact H.
    - right. left. eexists. eexists. symmetry. exact H.
    - right. left. eexists. eexists. symmetry. exact H.
    - right. right. eexists. symmetry. exact H.
  Qed.

  Theorem power_crash_save : forall s c,
    In s (preach (pfs_of files, None, []) (save_effects p ws)) ->
    pcrash_obs lossy s p c ->
    c = old \/ c = Some (Clean new).
  Proof.
    intros s c Hin [k [Hk Hobs]]. apply preach_save in Hin.
    destruct Hin as [E|[[x [vis E]]|[vis E]]]; subst s.
    - (* at rest *)
      left. unfold ns_after in Hobs. cbn [pfs_of p_pend p_durns] in Hobs. rewrite firstn_nil in Hobs. cbn [fold_left] in Hobs.
      fold n ns0 in Hobs. apply (old_obs (map (fun f => mkino (snd f) (snd f)) files) [] c); [reflexivity|exact Hobs].
    - (* the temporary file exists, possibly written and synced; the dictionary's name is untouched *)
      left. unfold ns_after, S2 in Hobs. cbn [p_pend p_durns] in Hobs.
      assert (Hns : ns_get p (fold_left ns_apply (firstn k [NsLink tmp n]) ns0) = ns_get p ns0).
      { destruct k as [|k]; [reflexivity|]. cbn [firstn]. rewrite firstn_nil. cbn [fold_left ns_apply].
        apply ns_get_set_other. exact tmp_ne. }
      rewrite Hns in Hobs. apply (old_obs (ino0 ++ [x]) [NsLink tmp n] c); [apply nth_ino0_app|].
      destruct (ns_get p ns0); [|exact Hobs]. exact Hobs.
    - (* renamed: the journal may hold back the rename (old) or have committed it (new, fully synced) *)
      unfold ns_after, S2 in Hobs. cbn [p_pend p_durns] in Hobs.
      destruct k as [|[|k]].
      + left. cbn [firstn fold_left] in Hobs. apply (old_obs (ino0 ++ [mkino new new]) [NsLink tmp n; NsRename tmp p] c); [apply nth_ino0_app|].
        destruct (ns_get p ns0); exact Hobs.
      + left. cbn [firstn fold_left ns_apply] in Hobs. rewrite (ns_get_set_other tmp p n ns0 tmp_ne) in Hobs.
        apply (old_obs (ino0 ++ [mkino new new]) [NsLink tmp n; NsRename tmp p] c); [apply nth_ino0_app|].
        destruct (ns_get p ns0); exact Hobs.
      + right. cbn [firstn] in Hobs. rewrite firstn_nil in Hobs. cbn [fold_left ns_apply] in Hobs.
        rewrite ns_get_set_same in Hobs. rewrite ns_get_set_same in Hobs.
        destruct Hobs as [y [Hy Hc]]. subst c. f_equal. unfold ino_at in Hy. cbn [p_inodes] in Hy.
        rewrite <- len_ino0 in Hy. rewrite nth_middle in Hy. cbn [i_dur i_vol] in Hy. now apply Hsafe.
  Qed.
End PowerProofs.

Lemma strip_prefix_self : forall d, strip_prefix d d = Some [].
Proof. intro d. apply strip_prefix_spec. now rewrite app_nil_r. Qed.
Lemma lossy_prefix_safe : synced_safe lossy_prefix.
Proof. intros d c H. unfold lossy_prefix in H. rewrite strip_prefix_self in H. cbn [prefix_variants] in H. destruct H as [H|[]]. now symmetry. Qed.
Lemma lossy_prefix_loses : may_lose_all lossy_prefix.
Proof.
  intros d v. unfold lossy_prefix. destruct (strip_prefix d v) as [rest|]; [|now left].
  destruct rest; cbn [prefix_variants]; now left.
Qed.

(* ---- concrete: user dictionary {alpha, beta} at rest, add gamma ---- *)
Definition pw_files : list (path * text) := [(UserP, serialize [w_alpha; w_beta])].
Definition pw_new : list word := [w_alpha; w_beta; w_gamma].

(* with the sync_all: every power-loss observation of the dictionary is the old or the new text (instance), the save
   completes with the new text visible, and both outcomes do occur *)
Lemma power_example :
  let st := prun (pfs_of pw_files, None, []) (save_effects UserP pw_new) in
  let s := fst (fst st) in
  length (preach (pfs_of pw_files, None, []) (save_effects UserP pw_new)) = 12 /\
  In s (preach (pfs_of pw_files, None, []) (save_effects UserP pw_new)) /\
  option_map (fun i => i_vol (ino_at i s)) (ns_get UserP (p_vis s)) = Some (serialize pw_new) /\
  ns_get (TmpP UserP) (p_vis s) = None /\
  pcrash_obs lossy_prefix s UserP (Some (Clean (serialize pw_new))) /\
  pcrash_obs lossy_prefix s UserP (Some (Clean (serialize [w_alpha; w_beta]))).
Proof.
  cbv zeta. split; [vm_compute; reflexivity|]. split; [vm_compute; repeat (first [left; reflexivity|right])|].
  split; [vm_compute; reflexivity|]. split; [vm_compute; reflexivity|]. split.
  - exists 2. split; [vm_compute; repeat constructor|]. vm_compute. eexists. split; [left; reflexivity|reflexivity].
  - exists 0. split; [vm_compute; repeat constructor|]. vm_compute. eexists. split; [left; reflexivity|reflexivity].
Qed.

(* WITHOUT the sync_all: after the rename a power loss can leave the dictionary's name on the new inode whose data
   never reached the disk — an EMPTY dictionary file: alpha and beta are gone.  The sync_all is load-bearing. *)
Lemma power_nosync_refuted :
  let s := fst (fst (prun (pfs_of pw_files, None, []) (save_effects_nosync UserP pw_new))) in
  In s (preach (pfs_of pw_files, None, []) (save_effects_nosync UserP pw_new)) /\
  pcrash_obs lossy_prefix s UserP (Some (Clean [])) /\
  Some (Clean []) <> option_map Clean (fget UserP pw_files) /\
  Some (Clean ([] : text)) <> Some (Clean (serialize pw_new)) /\
  x_load [] [] = [].
Proof.
  cbv zeta. split; [vm_compute; repeat (first [left; reflexivity|right])|]. split.
  - exists 2. split; [vm_compute; repeat constructor|]. vm_compute. eexists. split; [left; reflexivity|reflexivity].
  - split; [vm_compute; discriminate|]. split; [vm_compute; discriminate|reflexivity].
Qed.

(* the order of the system calls *)
Lemma order_save : forall p ws, x_order_ok (flat_map sysc_of (save_effects p ws)) = true.
Proof.
  intros p ws. unfold save_effects. cbn [flat_map sysc_of app]. rewrite flat_map_app.
  assert (H : flat_map sysc_of (write_effects (TmpP p) ws) = []).
  { induction ws as [|w r IH]; [reflexivity|]. cbn [write_effects flat_map app sysc_of]. exact IH. }
  rewrite H. reflexivity.
Qed.
Lemma order_nosync : forall p ws, x_order_ok (flat_map sysc_of (save_effects_nosync p ws)) = false.
Proof.
  intros p ws. unfold save_effects_nosync. cbn [flat_map sysc_of app]. rewrite flat_map_app.
  assert (H : flat_map sysc_of (write_effects (TmpP p) ws) = []).
  { induction ws as [|w r IH]; [reflexivity|]. cbn [write_effects flat_map app sysc_of]. exact IH. }
  rewrite H. reflexivity.
Qed.
