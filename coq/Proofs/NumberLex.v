(* NumberLex.v — C17, lexer layer: which sub-lexer of lex_token answers at each position of the text
   pre ++ digits ++ [a; b] ++ post, and why every earlier one fails. *)
Require Import Base Overlap Suggestion Tables_number Number NumberArith ListLemmas C17Texts.
From Coq Require Import List Arith NArith Bool Lia.
Import ListNotations.

(* ------------------------------------------------------------------------------------------------ *)
(* character ranges                                                                                   *)
(* ------------------------------------------------------------------------------------------------ *)
Lemma digit_range c : is_ascii_digit c = true <-> (48 <= c <= 57)%N.
Proof.
  unfold is_ascii_digit, in_range. rewrite andb_true_iff, !N.leb_le. tauto.
Qed.
Lemma alpha_range c : is_ascii_alpha c = true <-> ((65 <= c <= 90) \/ (97 <= c <= 122))%N.
Proof.
  unfold is_ascii_alpha, is_ascii_upper, is_ascii_lower, in_range.
  rewrite orb_true_iff, !andb_true_iff, !N.leb_le. tauto.
Qed.
Lemma alnum_range c : is_ascii_alnum c = true <-> ((65 <= c <= 90) \/ (97 <= c <= 122) \/ (48 <= c <= 57))%N.
Proof. unfold is_ascii_alnum. rewrite orb_true_iff, alpha_range, digit_range. tauto. Qed.
Lemma digit_false c : is_ascii_digit c = false <-> ~ (48 <= c <= 57)%N.
Proof.
  rewrite <- digit_range. destruct (is_ascii_digit c); split; intros H.
  - discriminate.
  - exfalso; apply H; reflexivity.
  - intros E; discriminate.
  - reflexivity.
Qed.
Lemma neqb c k : c <> k -> (c =? k)%N = false.
Proof. apply N.eqb_neq. Qed.

Lemma alpha_alnum c : is_ascii_alpha c = true -> is_ascii_alnum c = true.
Proof. unfold is_ascii_alnum. intros ->. reflexivity. Qed.
Lemma digit_alnum c : is_ascii_digit c = true -> is_ascii_alnum c = true.
Proof. unfold is_ascii_alnum. intros ->. apply orb_true_r. Qed.
Lemma alpha_not_digit c : is_ascii_alpha c = true -> is_ascii_digit c = false.
Proof. rewrite alpha_range, digit_false. lia. Qed.

(* ------------------------------------------------------------------------------------------------ *)
(* finite facts about the generated tables (re-checked whenever the tables change)                    *)
(* ------------------------------------------------------------------------------------------------ *)
Lemma punct_table_no_alnum : forallb (fun r => negb (is_ascii_alnum (fst r))) punct_table = true.
Proof. vm_compute. reflexivity. Qed.
Lemma quote_chars_no_alnum : forallb (fun q => negb (is_ascii_alnum q)) quote_chars = true.
Proof. vm_compute. reflexivity. Qed.
Lemma float_extra_spec : float_extra_chars = [46; 101; 69; 43; 45]%N.
Proof. reflexivity. Qed.

Definition suffix_row_ok (r : N * N * suffix) : bool :=
  let a := fst (fst r) in let b := snd (fst r) in
  is_ascii_alpha a && is_ascii_alpha b && negb (b =? 115)%N && negb (a =? 120)%N
  && negb (memN a float_extra_chars).
Lemma from_chars_table_rows : forallb suffix_row_ok from_chars_table = true.
Proof. vm_compute. reflexivity. Qed.

Lemma suffix_row (a b : N) (s : suffix) : In (a, b, s) from_chars_table ->
  is_ascii_alpha a = true /\ is_ascii_alpha b = true /\ b <> 115%N /\ a <> 120%N
  /\ memN a float_extra_chars = false.
Proof.
  intros H. pose proof (proj1 (forallb_forall _ _) from_chars_table_rows _ H) as R.
  unfold suffix_row_ok in R. cbn [fst snd] in R.
  rewrite !andb_true_iff, !negb_true_iff in R. destruct R as [[[[A B] C] D] E].
  apply N.eqb_neq in C. apply N.eqb_neq in D. tauto.
Qed.

Lemma punct_of_alnum c : is_ascii_alnum c = true -> punct_of c = None.
Proof.
  intros H. unfold punct_of.
  destruct (find _ punct_table) as [r|] eqn:F; [|reflexivity].
  apply find_some in F. destruct F as [Hin Heq]. apply N.eqb_eq in Heq.
  pose proof (proj1 (forallb_forall _ _) punct_table_no_alnum _ Hin) as R.
  cbv beta in R. rewrite Heq, H in R. discriminate.
Qed.
Lemma memN_spec c l : memN c l = true <-> In c l.
Proof.
  unfold memN. rewrite existsb_exists. split.
  - intros [x [Hin Hx]]. apply N.eqb_eq in Hx. subst. exact Hin.
  - intros H. exists c. split; [exact H | apply N.eqb_refl].
Qed.
Lemma quote_alnum c : is_ascii_alnum c = true -> memN c quote_chars = false.
Proof.
  intros H. destruct (memN c quote_chars) eqn:E; [|reflexivity].
  apply memN_spec in E.
  pose proof (proj1 (forallb_forall _ _) quote_chars_no_alnum _ E) as R.
  cbv beta in R. rewrite H in R. discriminate.
Qed.

(* ------------------------------------------------------------------------------------------------ *)
(* list helpers                                                                                       *)
(* ------------------------------------------------------------------------------------------------ *)
Lemma position_app_first {A} (p : A -> bool) (l : list A) (x : A) (r : list A) :
  Forall (fun y => p y = false) l -> p x = true -> position p (l ++ x :: r) = Some (length l).
Proof.
  induction l as [|y l IH]; intros Hl Hx; cbn [app position length].
  - rewrite Hx. reflexivity.
  - inversion Hl as [|? ? Hy Hl']; subst. rewrite Hy. rewrite IH by assumption. reflexivity.
Qed.
Lemma position_none {A} (p : A -> bool) (l : list A) :
  Forall (fun y => p y = false) l -> position p l = None.
Proof.
  induction l as [|y l IH]; intros Hl; cbn [position]; [reflexivity|].
  inversion Hl as [|? ? Hy Hl']; subst. rewrite Hy, IH by assumption. reflexivity.
Qed.
Lemma position_bound {A} (p : A -> bool) (l : list A) (i : nat) :
  position p l = Some i -> i < length l.
Proof.
  revert i. induction l as [|y l IH]; intros i; cbn [position length]; [discriminate|].
  destruct (p y); [intros H; injection H as <-; lia|].
  destruct (position p l) as [j|]; [|discriminate]. intros H; injection H as <-.
  specialize (IH j eq_refl). lia.
Qed.
(* an element satisfying p at index i bounds the position, whatever follows *)
Lemma position_le {A} (p : A -> bool) (l r : list A) (i : nat) (x : A) :
  nth_error l i = Some x -> p x = true -> exists j, position p (l ++ r) = Some j /\ j <= i.
Proof.
  revert i. induction l as [|y l IH]; intros i Hn Hx.
  - destruct i; discriminate.
  - cbn [app position]. destruct (p y) eqn:Ey.
    + exists 0. split; [reflexivity | lia].
    + destruct i as [|i]; cbn [nth_error] in Hn.
      * injection Hn as ->. congruence.
      * destruct (IH i Hn Hx) as [j [Hj Hle]]. rewrite Hj. exists (S j). split; [reflexivity | lia].
Qed.
Lemma last_position_all {A} (p : A -> bool) (l : list A) :
  l <> [] -> Forall (fun y => p y = true) l -> last_position p l = Some (length l - 1).
Proof.
  induction l as [|y l IH]; intros Hne Hl; [contradiction|].
  inversion Hl as [|? ? Hy Hl']; subst. cbn [last_position length].
  destruct l as [|z l'].
  - cbn [last_position]. rewrite Hy. reflexivity.
  - rewrite IH by (try discriminate; assumption). cbn [length]. f_equal. lia.
Qed.
Lemma last_position_none {A} (p : A -> bool) (l : list A) :
  Forall (fun y => p y = false) l -> last_position p l = None.
Proof.
  induction l as [|y l IH]; intros Hl; cbn [last_position]; [reflexivity|].
  inversion Hl as [|? ? Hy Hl']; subst. rewrite IH, Hy by assumption. reflexivity.
Qed.
Lemma count_while_head_false {A} (p : A -> bool) (x : A) (l : list A) :
  p x = false -> count_while p (x :: l) = 0.
Proof. intros H. cbn [count_while]. rewrite H. reflexivity. Qed.
Lemma count_while_app_le {A} (p : A -> bool) (l r : list A) :
  (match r with x :: _ => p x = false | [] => True end) -> count_while p (l ++ r) <= length l.
Proof.
  intros Hr. induction l as [|y l IH]; cbn [app count_while length].
  - destruct r as [|x r']; cbn [count_while]; [lia|]. rewrite Hr. lia.
  - destruct (p y); lia.
Qed.
Lemma firstn_app_len {A} (l r : list A) : firstn (length l) (l ++ r) = l.
Proof. rewrite firstn_app, Nat.sub_diag, firstn_all. cbn [firstn]. apply app_nil_r. Qed.
Lemma skipn_app_len {A} (l r : list A) : skipn (length l) (l ++ r) = r.
Proof. rewrite skipn_app, Nat.sub_diag, skipn_all. reflexivity. Qed.
Lemma last_error_app {A} (l : list A) (x : A) : last_error (l ++ [x]) = Some x.
Proof.
  induction l as [|y l IH]; [reflexivity|].
  cbn [app]. destruct (l ++ [x]) eqn:E; [destruct l; discriminate|]. cbn [last_error]. exact IH.
Qed.
Lemma last_error_none {A} (l : list A) : last_error l = None -> l = [].
Proof.
  induction l as [|y l IH]; [reflexivity|]. destruct l as [|z l']; [discriminate|].
  intros H. specialize (IH H). discriminate.
Qed.
Lemma last_error_cons {A} (y : A) (l : list A) : l <> [] -> last_error (y :: l) = last_error l.
Proof. destruct l; [contradiction | reflexivity]. Qed.
Lemma last_error_nth {A} (l : list A) (x : A) :
  last_error l = Some x -> nth_error l (length l - 1) = Some x.
Proof.
  induction l as [|y l IH]; [discriminate|].
  destruct l as [|z l'].
  - cbn. intros H; exact H.
  - intros H. rewrite last_error_cons in H by discriminate. specialize (IH H).
    cbn [length] in *. replace (S (S (length l')) - 1) with (S (S (length l') - 1)) by lia. exact IH.
Qed.
Lemma last_error_skipn {A} (l : list A) (k : nat) :
  k < length l -> last_error (skipn k l) = last_error l.
Proof.
  revert k. induction l as [|y l IH]; intros k Hk; [cbn in Hk; lia|].
  destruct k as [|k]; [reflexivity|]. cbn [skipn length] in *.
  rewrite IH by lia. symmetry. apply last_error_cons. destruct l; [cbn in Hk; lia | discriminate].
Qed.

Lemma nth_error_firstn_lt {A} (l : list A) (k i : nat) : i < k -> nth_error (firstn k l) i = nth_error l i.
Proof.
  revert k i. induction l as [|x l IH]; intros k i H.
  - rewrite firstn_nil. reflexivity.
  - destruct k; [lia|]. destruct i; [reflexivity|]. cbn [firstn nth_error]. apply IH. lia.
Qed.
Lemma some_inj {A} (x y : A) : Some x = Some y -> x = y.
Proof. intros H; injection H as ->; reflexivity. Qed.
Lemma orelse_none_l {A} (b : option A) : orelse None b = b.
Proof. reflexivity. Qed.
Lemma orelse_all {A} (P : A -> Prop) (a b : option A) :
  (forall r, a = Some r -> P r) -> (forall r, b = Some r -> P r) -> forall r, orelse a b = Some r -> P r.
Proof. intros Ha Hb r. destruct a; cbn; intros H; [apply Ha; exact H | apply Hb; exact H]. Qed.
Lemma orelse_some_r {A} (a b : option A) : b <> None -> orelse a b <> None.
Proof. destruct a; cbn; [discriminate | tauto]. Qed.

(* ------------------------------------------------------------------------------------------------ *)
(* the sub-lexers, one by one                                                                         *)
(* ------------------------------------------------------------------------------------------------ *)
Section LexFacts.
  Variable U : uni.
  Variable ut : text -> nat.
  Variable et : text -> nat -> option nat.
  (* the ASCII facts about Rust's char predicates that the proofs use (monitored: ascii_class_laws) *)
  Hypothesis L_digit_numeric : forall c, is_ascii_digit c = true -> u_numeric U c = true.
  Hypothesis L_alpha_alnum : forall c, is_ascii_alpha c = true -> u_alnum U c = true.
  Hypothesis L_alpha_lingual : forall c, is_ascii_alpha c = true -> u_lingual U c = true.
  Hypothesis L_alpha_not_numeric : forall c, is_ascii_alpha c = true -> u_numeric U c = false.

  (* ---- failures decided by the first character(s) ---- *)
  Lemma regexish_head c rest : c <> 91%N -> lex_regexish U (c :: rest) = None.
  Proof. intros H. cbn [lex_regexish]. rewrite (neqb _ _ H). reflexivity. Qed.

  Lemma punctuation_alnum c rest : is_ascii_alnum c = true -> lex_punctuation (c :: rest) = None.
  Proof. intros H. cbn [lex_punctuation]. rewrite (quote_alnum _ H), (punct_of_alnum _ H). reflexivity. Qed.

  Lemma tabs_head c rest : c <> 9%N -> lex_tabs (c :: rest) = None.
  Proof.
    intros H. unfold lex_tabs. rewrite count_while_head_false; [reflexivity|].
    rewrite N.eqb_sym. apply neqb. exact H.
  Qed.
  Lemma spaces_head c rest : c <> 32%N -> lex_spaces (c :: rest) = None.
  Proof.
    intros H. unfold lex_spaces. rewrite count_while_head_false; [reflexivity|].
    rewrite N.eqb_sym. apply neqb. exact H.
  Qed.
  Lemma newlines_head c rest : c <> 10%N -> lex_newlines (c :: rest) = None.
  Proof.
    intros H. unfold lex_newlines. rewrite count_while_head_false; [reflexivity|].
    rewrite N.eqb_sym. apply neqb. exact H.
  Qed.

  Lemma plural_digit_none c0 c1 r :
    c1 <> 39%N ->
    (c1 <> 115%N \/ exists x r', r = x :: r' /\ u_alnum U x = true) ->
    lex_plural_digit U (c0 :: c1 :: r) = None.
  Proof.
    intros H39 H. cbn [lex_plural_digit].
    destruct (negb (is_ascii_alnum c0)); [reflexivity|].
    rewrite (neqb _ _ H39). cbn [snd fst].
    destruct (c1 =? 115)%N eqn:E; [|reflexivity].
    apply N.eqb_eq in E. destruct H as [H|[x [r' [-> Hx]]]]; [contradiction|].
    rewrite Hx. reflexivity.
  Qed.

  Lemma hex_none_second c0 c1 r : c1 <> 120%N -> lex_hex_number U (c0 :: c1 :: r) = None.
  Proof.
    intros H. cbn [lex_hex_number]. destruct r as [|c2 r]; [reflexivity|].
    rewrite (neqb _ _ H), andb_false_r. reflexivity.
  Qed.
  Lemma hex_none_head c0 r : c0 <> 48%N -> lex_hex_number U (c0 :: r) = None.
  Proof.
    intros H. cbn [lex_hex_number]. destruct r as [|c1 [|c2 r]]; try reflexivity.
    rewrite (neqb _ _ H). reflexivity.
  Qed.
  Lemma hex_short c0 : lex_hex_number U [c0] = None.
  Proof. reflexivity. Qed.

  Lemma decade_inv src r : lex_long_decade U src = Some r ->
    exists c0 c1 c2 c3 c4 rest, src = c0 :: c1 :: c2 :: c3 :: c4 :: rest
      /\ (c0 = 49 \/ c0 = 50)%N /\ is_ascii_digit c1 = true /\ is_ascii_digit c2 = true
      /\ c3 = 48%N /\ c4 = 115%N
      /\ match rest with c5 :: _ => u_alnum U c5 = false | [] => True end.
  Proof.
    destruct src as [|c0 [|c1 [|c2 [|c3 [|c4 rest]]]]]; try discriminate.
    cbn [lex_long_decade].
    destruct ((c0 =? 49)%N || (c0 =? 50)%N) eqn:E0; cbn [negb]; [|discriminate].
    destruct (is_ascii_digit c1) eqn:E1; cbn [negb]; [|discriminate].
    destruct (is_ascii_digit c2) eqn:E2; cbn [negb]; [|discriminate].
    destruct (c3 =? 48)%N eqn:E3; cbn [negb]; [|discriminate].
    destruct (c4 =? 115)%N eqn:E4; cbn [negb]; [|discriminate].
    intros H. exists c0, c1, c2, c3, c4, rest.
    apply orb_true_iff in E0. rewrite !N.eqb_eq in E0. apply N.eqb_eq in E3. apply N.eqb_eq in E4.
    repeat split; try assumption.
    destruct rest as [|c5 rest']; [exact I|]. destruct (u_alnum U c5); [discriminate | reflexivity].
  Qed.
  Lemma decade_head c0 r : c0 <> 49%N -> c0 <> 50%N -> lex_long_decade U (c0 :: r) = None.
  Proof.
    intros H1 H2. destruct (lex_long_decade U (c0 :: r)) as [x|] eqn:E; [|reflexivity].
    apply decade_inv in E. destruct E as (d0 & d1 & d2 & d3 & d4 & rest & Heq & [H|H] & _);
      injection Heq as -> _; contradiction.
  Qed.

  Lemma number_head c r : u_numeric U c = false -> lex_number U (c :: r) = None.
  Proof. intros H. cbn [lex_number]. rewrite H. reflexivity. Qed.

  (* ---- lex_number on digits followed by a non-float character ---- *)
  Lemma drop_digits_all (D : text) : Forall (fun c => is_ascii_digit c = true) D -> drop_digits D = [].
  Proof. induction 1 as [|c D Hc _ IH]; cbn [drop_digits]; [reflexivity|]. rewrite Hc. exact IH. Qed.

  Lemma text_eqb_head_ne c l k m : c <> k -> text_eqb (c :: l) (k :: m) = false.
  Proof.
    intros H. unfold text_eqb. cbn [combine forallb fst snd]. rewrite (neqb _ _ H).
    cbn [andb]. apply andb_false_r.
  Qed.
  Lemma lower_ascii_digit c : is_ascii_digit c = true -> lower_ascii c = c.
  Proof.
    intros H. unfold lower_ascii, is_ascii_upper, in_range. apply digit_range in H.
    destruct ((65 <=? c)%N && (c <=? 90)%N) eqn:E; [|reflexivity].
    apply andb_true_iff in E. rewrite !N.leb_le in E. lia.
  Qed.

  Lemma parses_digits (D : text) :
    D <> [] -> Forall (fun c => is_ascii_digit c = true) D -> parses_f64 D = true.
  Proof.
    intros Hne HD. destruct D as [|d0 D']; [contradiction|].
    inversion HD as [|? ? Hd0 HD']; subst.
    pose proof (proj1 (digit_range d0) Hd0) as R.
    unfold parses_f64.
    assert (Hs : strip_sign (d0 :: D') = d0 :: D').
    { cbn [strip_sign]. rewrite (neqb d0 43), (neqb d0 45) by lia. reflexivity. }
    rewrite Hs.
    assert (Hsp : is_special_float (d0 :: D') = false).
    { unfold is_special_float. cbn [map]. rewrite (lower_ascii_digit _ Hd0).
      rewrite !text_eqb_head_ne by lia. reflexivity. }
    rewrite Hsp, (drop_digits_all _ HD). cbn [length]. reflexivity.
  Qed.

  Lemma two53_finite : (two53 < f64_round_to_inf)%N.
  Proof. vm_compute. reflexivity. Qed.
  Lemma finite_digits (D : text) :
    D <> [] -> Forall (fun c => is_ascii_digit c = true) D -> (parse_dec D < two53)%N -> finite_f64 D = true.
  Proof.
    intros Hne HD Hlt. destruct D as [|d0 D']; [contradiction|].
    inversion HD as [|? ? Hd0 HD']; subst.
    pose proof (proj1 (digit_range d0) Hd0) as R.
    unfold finite_f64.
    assert (Hs : strip_sign (d0 :: D') = d0 :: D').
    { cbn [strip_sign]. rewrite (neqb d0 43), (neqb d0 45) by lia. reflexivity. }
    rewrite Hs.
    assert (Hsp : is_special_float (d0 :: D') = false).
    { unfold is_special_float. cbn [map]. rewrite (lower_ascii_digit _ Hd0).
      rewrite !text_eqb_head_ne by lia. reflexivity. }
    rewrite Hsp, (drop_digits_all _ HD). cbn [length]. rewrite Nat.sub_0_r.
    change (firstn (S (length D')) (d0 :: D')) with (firstn (length (d0 :: D')) (d0 :: D')). rewrite firstn_all.
    unfold finite_dec. destruct (parse_dec (d0 :: D') =? 0)%N; [reflexivity|].
    cbn [N.of_nat N.leb N.compare N.sub N.ltb N.pow]. rewrite N.mul_1_r.
    apply N.ltb_lt. pose proof two53_finite. lia.
  Qed.

  Lemma value_of_digits (D : text) :
    Forall (fun c => is_ascii_digit c = true) D -> (parse_dec D < two53)%N -> value_of D = VInt (parse_dec D).
  Proof.
    intros HD Hlt. unfold value_of.
    assert (forallb is_ascii_digit D = true) as -> by (apply forallb_forall; apply Forall_forall; exact HD).
    apply N.ltb_lt in Hlt. rewrite Hlt. reflexivity.
  Qed.

  Lemma is_float_char_digit c : is_ascii_digit c = true -> is_float_char c = true.
  Proof. unfold is_float_char. intros ->. reflexivity. Qed.

  Lemma longest_float_hit k src :
    parses_f64 (firstn (S k) src) = true -> finite_f64 (firstn (S k) src) = true ->
    longest_float (S k) src = Some (S k, KNumber (value_of (firstn (S k) src)) None).
  Proof. intros H F. cbn [longest_float]. rewrite H, F. reflexivity. Qed.

  Lemma lex_number_digits (D : text) (a : N) (rest : text) :
    D <> [] -> Forall (fun c => is_ascii_digit c = true) D -> (parse_dec D < two53)%N ->
    is_float_char a = false ->
    lex_number U (D ++ a :: rest) = Some (length D, KNumber (value_of D) None).
  Proof.
    intros Hne HD Hlt Ha. destruct D as [|d0 D']; [contradiction|].
    assert (Hd0 : is_ascii_digit d0 = true) by (inversion HD; assumption).
    unfold lex_number. cbn [app]. rewrite (L_digit_numeric _ Hd0). cbn [negb].
    change (d0 :: D' ++ a :: rest) with ((d0 :: D') ++ a :: rest).
    remember (d0 :: D') as D eqn:ED.
    unfold char in *.
    rewrite (position_app_first (fun c => negb (is_float_char c)) D a rest).
    - rewrite firstn_app_len.
      rewrite (last_position_all is_ascii_digit D Hne HD).
      assert (HL : S (length D - 1) = length D) by (rewrite ED; cbn [length]; lia).
      assert (HP : parses_f64 (firstn (S (length D - 1)) (D ++ a :: rest)) = true).
      { rewrite HL, firstn_app_len. apply parses_digits; assumption. }
      assert (HF : finite_f64 (firstn (S (length D - 1)) (D ++ a :: rest)) = true).
      { rewrite HL, firstn_app_len. apply finite_digits; assumption. }
      rewrite (longest_float_hit _ _ HP HF), HL, firstn_app_len. reflexivity.
    - eapply Forall_impl; [|exact HD]. intros c Hc. cbv beta in Hc. rewrite (is_float_char_digit _ Hc). reflexivity.
    - rewrite Ha. reflexivity.
  Qed.

  Notation lex_token := (lex_token U ut et).

  (* ---------------------------------------------------------------------------------------------- *)
  (* at the first digit: lex_number answers, with the whole digit string                              *)
  (* ---------------------------------------------------------------------------------------------- *)
  Lemma lex_token_number (D : text) (a b : N) (s : suffix) (post : text) :
    D <> [] -> Forall (fun c => is_ascii_digit c = true) D -> (parse_dec D < two53)%N ->
    In (a, b, s) from_chars_table ->
    lex_token (D ++ a :: b :: post) = Some (length D, KNumber (VInt (parse_dec D)) None).
  Proof.
    intros Hne HD Hlt Hrow.
    destruct (suffix_row _ _ _ Hrow) as (Ha & Hb & Hb115 & Ha120 & Hafl).
    pose proof (proj1 (alpha_range a) Ha) as Ra. pose proof (proj1 (alpha_range b) Hb) as Rb.
    assert (Hfa : is_float_char a = false).
    { unfold is_float_char. rewrite (alpha_not_digit _ Ha), Hafl. reflexivity. }
    pose proof (lex_number_digits D a (b :: post) Hne HD Hlt Hfa) as EN.
    rewrite (value_of_digits _ HD Hlt) in EN.
    destruct D as [|d0 D']; [contradiction|].
    assert (Hd0 : is_ascii_digit d0 = true) by (inversion HD; assumption).
    pose proof (proj1 (digit_range d0) Hd0) as R0.
    assert (E6 : lex_plural_digit U ((d0 :: D') ++ a :: b :: post) = None).
    { destruct D' as [|d1 D'']; cbn [app].
      - apply plural_digit_none; [lia|]. right. exists b, post. split; [reflexivity | apply L_alpha_alnum; exact Hb].
      - assert (Hd1 : is_ascii_digit d1 = true) by (inversion HD as [|? ? _ H1]; inversion H1; assumption).
        apply digit_range in Hd1. apply plural_digit_none; [lia | left; lia]. }
    assert (E7 : lex_hex_number U ((d0 :: D') ++ a :: b :: post) = None).
    { destruct D' as [|d1 D'']; cbn [app].
      - apply hex_none_second. exact Ha120.
      - assert (Hd1 : is_ascii_digit d1 = true) by (inversion HD as [|? ? _ H1]; inversion H1; assumption).
        apply digit_range in Hd1. apply hex_none_second. lia. }
    assert (E8 : lex_long_decade U ((d0 :: D') ++ a :: b :: post) = None).
    { destruct (lex_long_decade U ((d0 :: D') ++ a :: b :: post)) as [r|] eqn:E; [|reflexivity]. exfalso.
      apply decade_inv in E. destruct E as (c0 & c1 & c2 & c3 & c4 & rest & Heq & _ & H1 & H2 & H3 & H4 & H5).
      apply digit_range in H1. apply digit_range in H2.
      destruct D' as [|d1 [|d2 [|d3 [|d4 D5]]]]; cbn [app] in Heq; injection Heq; intros; subst.
      - lia.
      - lia.
      - lia.
      - (* four digits: the 's' is the first suffix letter, the second one is alphanumeric *)
        rewrite (L_alpha_alnum _ Hb) in H5. discriminate.
      - assert (Hd4 : is_ascii_digit 115%N = true).
        { inversion HD as [|? ? _ HA]. inversion HA as [|? ? _ HB]. inversion HB as [|? ? _ HC].
          inversion HC as [|? ? _ HE]. inversion HE; assumption. }
        vm_compute in Hd4. discriminate. }
    cbn [app] in *. unfold Number.lex_token.
    rewrite regexish_head by lia.
    rewrite punctuation_alnum by (apply digit_alnum; exact Hd0).
    rewrite tabs_head, spaces_head, newlines_head by lia.
    rewrite E6, E7, E8. cbn [orelse]. rewrite EN. reflexivity.
  Qed.

  (* ---------------------------------------------------------------------------------------------- *)
  (* at the suffix: lex_word answers with exactly the two letters                                     *)
  (* ---------------------------------------------------------------------------------------------- *)
  Definition quiet (t : text) : Prop :=
    lex_url ut t = None /\ lex_email_address U et t = None /\ lex_hostname_token t = None.

  Lemma lex_token_suffix (a b : N) (s : suffix) (post : text) :
    In (a, b, s) from_chars_table ->
    match post with c :: _ => u_lingual U c = false /\ is_ascii_digit c = false | [] => True end ->
    quiet (a :: b :: post) ->
    lex_token (a :: b :: post) = Some (2, KWord).
  Proof.
    intros Hrow Hpost (Q1 & Q2 & Q3).
    destruct (suffix_row _ _ _ Hrow) as (Ha & Hb & Hb115 & Ha120 & Hafl).
    pose proof (proj1 (alpha_range a) Ha) as Ra. pose proof (proj1 (alpha_range b) Hb) as Rb.
    unfold Number.lex_token.
    rewrite regexish_head by lia.
    rewrite punctuation_alnum by (apply alpha_alnum; exact Ha).
    rewrite tabs_head, spaces_head, newlines_head by lia.
    rewrite plural_digit_none by (try lia; left; exact Hb115).
    rewrite hex_none_head by lia.
    rewrite decade_head by lia.
    rewrite number_head by (apply L_alpha_not_numeric; exact Ha).
    rewrite Q1, Q2, Q3. cbn [orelse].
    unfold lex_word. cbn [position].
    rewrite (L_alpha_lingual _ Ha), (L_alpha_lingual _ Hb). cbn [negb andb].
    destruct post as [|c post']; cbn [position length]; [reflexivity|].
    destruct Hpost as [H1 H2]. rewrite H1, H2. reflexivity.
  Qed.

  (* ---------------------------------------------------------------------------------------------- *)
  (* any position: progress, and which kinds can only come from which first character                 *)
  (* ---------------------------------------------------------------------------------------------- *)
  Lemma regex_body_gt : forall (k : nat) (rest : text) (i n : nat),
    length rest <= k -> regex_body U rest i = Some n -> i < n.
  Proof.
    induction k as [|k IH]; intros rest i n Hk H.
    - destruct rest; [discriminate | cbn in Hk; lia].
    - destruct rest as [|c r1]; [discriminate|]. cbn [regex_body] in H.
      destruct (negb (u_alnum U c)); [discriminate|].
      destruct r1 as [|d r2]; [discriminate|].
      destruct (d =? 45)%N.
      + destruct r2 as [|e r3]; [discriminate|].
        destruct (negb (u_alnum U e)); [discriminate|].
        destruct r3 as [|x r4]; [discriminate|].
        destruct (x =? 93)%N.
        * injection H as <-. lia.
        * apply IH in H; [lia | cbn [length] in *; lia].
      + destruct (d =? 93)%N.
        * injection H as <-. lia.
        * apply IH in H; [lia | cbn [length] in *; lia].
  Qed.

  Lemma hex_scan_ge : forall (rest : text) (i : nat) (acc : N) (j : nat) (v : N),
    hex_scan U rest i acc = Some (j, v) -> i <= j.
  Proof.
    induction rest as [|c r IH]; intros i acc j v H; cbn [hex_scan] in H.
    - injection H as <- _. lia.
    - destruct (is_ascii_hexdigit c).
      + apply IH in H. lia.
      + destruct (u_alnum U c); [discriminate|]. injection H as <- _. lia.
  Qed.

  Lemma longest_float_bound : forall (k : nat) (src : text) (n : nat) (kd : kind),
    longest_float k src = Some (n, kd) -> 1 <= n <= k /\ exists v, kd = KNumber v None.
  Proof.
    induction k as [|k IH]; intros src n kd H; cbn [longest_float] in H; [discriminate|].
    destruct (parses_f64 (firstn (S k) src) && finite_f64 (firstn (S k) src)).
    - injection H as <- <-. split; [lia | eexists; reflexivity].
    - apply IH in H. destruct H as [H1 H2]. split; [lia | exact H2].
  Qed.

  (* what a result (next_index, kind) of lex_token at c0 :: rest must satisfy *)
  Definition tok_ok (c0 : N) (r : nat * kind) : Prop :=
    1 <= fst r
    /\ (forall v s, snd r = KNumber v s -> u_numeric U c0 = true)
    /\ (snd r = KPunct PApostrophe -> is_apostrophe_char c0 = true).

  Ltac fst_goal := lazymatch goal with |- 1 <= fst (?a, _) => change (1 <= a) end.
  Ltac snd_goal := repeat match goal with |- context [snd (?a, ?b)] => change (snd (a, b)) with b end.
  Ltac tok_ok_trivial :=
    split; [fst_goal; lia | split; [intros ? ?; snd_goal; discriminate | snd_goal; discriminate]].

  Lemma lex_token_ok (c0 : N) (rest : text) :
    lex_email_address U et (c0 :: rest) = None ->
    exists r, lex_token (c0 :: rest) = Some r /\ tok_ok c0 r.
  Proof.
    intros Hmail.
    assert (HP : forall r, lex_token (c0 :: rest) = Some r -> tok_ok c0 r).
    { unfold Number.lex_token.
      repeat (apply orelse_all).
      - (* regexish *)
        intros r H. cbn [lex_regexish] in H. destruct (c0 =? 91)%N; [|discriminate].
        destruct (regex_body U rest 1) as [n|] eqn:E; [|discriminate]. apply some_inj in H; subst r.
        apply regex_body_gt with (k := length rest) in E; [|lia]. tok_ok_trivial.
      - (* punctuation *)
        intros r H. cbn [lex_punctuation] in H.
        destruct (memN c0 quote_chars).
        + apply some_inj in H; subst r. tok_ok_trivial.
        + destruct (punct_of c0) as [p|] eqn:E; [|discriminate]. apply some_inj in H; subst r.
          split; [fst_goal; lia|]. split; [intros ? ?; snd_goal; discriminate|].
          snd_goal. intros Hp. injection Hp as ->. unfold is_apostrophe_char. rewrite E. reflexivity.
      - intros r H. unfold lex_tabs in H. destruct (0 <? _) eqn:E; [|discriminate].
        apply some_inj in H; subst r. apply Nat.ltb_lt in E. tok_ok_trivial.
      - intros r H. unfold lex_spaces in H. destruct (0 <? _) eqn:E; [|discriminate].
        apply some_inj in H; subst r. apply Nat.ltb_lt in E. tok_ok_trivial.
      - intros r H. unfold lex_newlines in H. destruct (0 <? _) eqn:E; [|discriminate].
        apply some_inj in H; subst r. apply Nat.ltb_lt in E. tok_ok_trivial.
      - (* plural digit *)
        intros r H. cbn [lex_plural_digit] in H.
        destruct (negb (is_ascii_alnum c0)); [discriminate|].
        destruct (snd _) as [|s r3]; [discriminate|].
        destruct (s =? 115)%N; [|discriminate].
        destruct r3 as [|x r4].
        + apply some_inj in H; subst r. tok_ok_trivial.
        + destruct (negb (u_alnum U x)); [|discriminate]. apply some_inj in H; subst r. tok_ok_trivial.
      - (* hex *)
        intros r H. cbn [lex_hex_number] in H.
        destruct rest as [|c1 [|c2 rest']]; try discriminate.
        destruct ((c0 =? 48)%N && (c1 =? 120)%N && is_ascii_hexdigit c2) eqn:E; [|discriminate].
        apply andb_true_iff in E. destruct E as [E _]. apply andb_true_iff in E. destruct E as [E _].
        apply N.eqb_eq in E. subst c0.
        destruct (hex_scan U (c2 :: rest') 2 0%N) as [[i v]|] eqn:ES; [|discriminate].
        destruct (v <? two64)%N; [|discriminate]. apply some_inj in H; subst r.
        apply hex_scan_ge in ES.
        split; [fst_goal; lia|]. split; [|snd_goal; discriminate].
        intros ? ? _. apply L_digit_numeric. reflexivity.
      - (* decade *)
        intros r H. pose proof H as H'. apply decade_inv in H'.
        destruct H' as (d0 & d1 & d2 & d3 & d4 & rr & Heq & _).
        rewrite Heq in H. cbn [lex_long_decade] in H.
        repeat match type of H with (if ?b then None else _) = Some _ => destruct b; [discriminate|] end.
        destruct rr as [|c5 rr'].
        + apply some_inj in H; subst r. tok_ok_trivial.
        + destruct (u_alnum U c5); [discriminate|]. apply some_inj in H; subst r. tok_ok_trivial.
      - (* number *)
        intros r H. cbn [lex_number] in H.
        destruct (u_numeric U c0) eqn:EN; cbn [negb] in H; [|discriminate].
        destruct (last_position _ _) as [e|]; [|discriminate].
        destruct r as [n kd]. apply longest_float_bound in H. destruct H as [[H1 _] [v ->]].
        split; [fst_goal; lia|]. split; [intros ? ? _; exact EN | snd_goal; discriminate].
      - (* url *)
        intros r H. unfold lex_url in H.
        destruct (position _ _) as [sep|]; [|discriminate].
        destruct (forallb _ _); [|discriminate].
        destruct (skipn _ _) as [|c1 [|c2 rr]]; try discriminate.
        destruct ((c1 =? 47)%N && (c2 =? 47)%N); [|discriminate]. apply some_inj in H; subst r. tok_ok_trivial.
      - (* e-mail *)
        intros r H. rewrite Hmail in H. discriminate.
      - (* hostname *)
        intros r H. unfold lex_hostname_token in H.
        destruct (lex_hostname _) as [len|]; [|discriminate].
        destruct (len <=? 1) eqn:E; [discriminate|]. apply Nat.leb_gt in E.
        destruct (negb _); [discriminate|].
        destruct (nth_error _ _) as [c|].
        + destruct (c =? 46)%N; [discriminate|]. apply some_inj in H; subst r. tok_ok_trivial.
        + apply some_inj in H; subst r. tok_ok_trivial.
      - (* word *)
        intros r H. unfold lex_word in H.
        destruct (_ =? 0) eqn:E; [discriminate|]. apply Nat.eqb_neq in E. apply some_inj in H; subst r. tok_ok_trivial.
      - (* catch *)
        intros r H. apply some_inj in H; subst r. tok_ok_trivial. }
    destruct (lex_token (c0 :: rest)) as [r|] eqn:E.
    - exists r. split; [reflexivity | apply HP; reflexivity].
    - exfalso. revert E. unfold Number.lex_token. repeat (apply orelse_some_r). discriminate.
  Qed.

  (* ---------------------------------------------------------------------------------------------- *)
  (* url / e-mail / host-name lexers are silent on texts without "://", '@' and inner dots            *)
  (* ---------------------------------------------------------------------------------------------- *)
  Lemma scheme_mark_tail c r : has_scheme_mark (c :: r) = false -> has_scheme_mark r = false.
  Proof. cbn [has_scheme_mark]. intros H. apply orb_false_iff in H. tauto. Qed.
  Lemma scheme_mark_skipn : forall (j : nat) (t : text), has_scheme_mark t = false -> has_scheme_mark (skipn j t) = false.
  Proof.
    induction j as [|j IH]; intros t H; [exact H|].
    destruct t as [|c r]; [reflexivity|]. cbn [skipn]. apply IH. eapply scheme_mark_tail. exact H.
  Qed.
  Lemma url_none_aux : forall (t : text) (sep : nat),
    has_scheme_mark t = false -> position (N.eqb 58) t = Some sep ->
    match skipn (S sep) t with c1 :: c2 :: _ => (c1 =? 47)%N && (c2 =? 47)%N = false | _ => True end.
  Proof.
    induction t as [|c r IH]; intros sep Hm Hp; [discriminate|].
    cbn [position] in Hp. destruct (58 =? c)%N eqn:E.
    - injection Hp as <-. cbn [skipn]. cbn [has_scheme_mark] in Hm. apply orb_false_iff in Hm.
      destruct Hm as [Hm _]. destruct r as [|c1 [|c2 r']]; try exact I.
      apply N.eqb_eq in E. subst c. rewrite N.eqb_refl in Hm. exact Hm.
    - destruct (position (N.eqb 58) r) as [i|] eqn:Ei; [|discriminate]. injection Hp as <-.
      cbn [skipn]. apply IH; [eapply scheme_mark_tail; exact Hm | reflexivity].
  Qed.
  Lemma url_none (t : text) : has_scheme_mark t = false -> lex_url ut t = None.
  Proof.
    intros Hm. unfold lex_url. destruct (position (N.eqb 58) t) as [sep|] eqn:Ep; [|reflexivity].
    destruct (forallb _ _); [|reflexivity].
    pose proof (url_none_aux t sep Hm Ep) as H.
    destruct (skipn (S sep) t) as [|c1 [|c2 rr]]; try reflexivity. rewrite H. reflexivity.
  Qed.

  Lemma Forall_firstn {A} (P : A -> Prop) (l : list A) (k : nat) : Forall P l -> Forall P (firstn k l).
  Proof.
    revert k. induction l as [|x l IH]; intros k H; [rewrite firstn_nil; constructor|].
    destruct k; [constructor|]. inversion H; subst. cbn [firstn]. constructor; auto.
  Qed.
  Lemma Forall_skipn {A} (P : A -> Prop) (l : list A) (k : nat) : Forall P l -> Forall P (skipn k l).
  Proof.
    revert k. induction l as [|x l IH]; intros k H; [rewrite skipn_nil; constructor|].
    destruct k; [exact H|]. inversion H; subst. cbn [skipn]. auto.
  Qed.
  Lemma email_none (t : text) : Forall (fun c => c <> 64%N) t -> lex_email_address U et t = None.
  Proof.
    intros H. unfold lex_email_address. rewrite last_position_none; [reflexivity|].
    apply Forall_firstn. eapply Forall_impl; [|exact H].
    intros c Hc. cbv beta. rewrite N.eqb_sym. apply neqb. exact Hc.
  Qed.

  Lemma dots_ok_tail c r : dots_ok (c :: r) = true -> dots_ok r = true.
  Proof. cbn [dots_ok]. intros H. apply andb_true_iff in H. tauto. Qed.
  Lemma dots_ok_skipn : forall (j : nat) (t : text), dots_ok t = true -> dots_ok (skipn j t) = true.
  Proof.
    induction j as [|j IH]; intros t H; [exact H|].
    destruct t as [|c r]; [reflexivity|]. cbn [skipn]. apply IH. eapply dots_ok_tail. exact H.
  Qed.
  (* after a '.', the rest of the run consists of '.' only *)
  Lemma run_after_dot : forall (r : text), dots_ok (46%N :: r) = true ->
    Forall (fun c => c = 46%N) (firstn (host_run (46%N :: r)) (46%N :: r)).
  Proof.
    induction r as [|d r' IH]; intros H.
    - cbn. constructor; [reflexivity | constructor].
    - cbn [host_run]. rewrite N.eqb_refl. cbn [orb firstn]. constructor; [reflexivity|].
      cbn [dots_ok] in H. apply andb_true_iff in H. destruct H as [H1 H2].
      rewrite N.eqb_refl in H1. cbn [andb] in H1. apply negb_true_iff in H1.
      cbn [host_run]. rewrite H1, orb_false_r.
      destruct (d =? 46)%N eqn:E.
      + apply N.eqb_eq in E. subst d.
        specialize (IH H2). cbn [host_run] in IH. rewrite N.eqb_refl in IH. cbn [orb] in IH. exact IH.
      + cbn [firstn]. constructor.
  Qed.
  Lemma run_last_dot : forall (t : text), dots_ok t = true ->
    In 46%N (firstn (host_run t) t) -> nth_error t (host_run t - 1) = Some 46%N.
  Proof.
    induction t as [|c r IH]; intros Hd Hin; [cbn in Hin; contradiction|].
    destruct (c =? 46)%N eqn:E.
    - apply N.eqb_eq in E. subst c. pose proof (run_after_dot r Hd) as HF. unfold text, char in *.
      assert (Hlen : 1 <= host_run (46%N :: r) <= length (46%N :: r)).
      { clear. split.
        - cbn [host_run]. rewrite N.eqb_refl. cbn [orb]. lia.
        - generalize (46%N :: r). induction l as [|x l IHl]; cbn [host_run length]; [lia|].
          destruct ((x =? 46)%N || host_label_char x); lia. }
      remember (host_run (46%N :: r)) as k eqn:Ek. clear Ek.
      assert (Hn : nth_error (firstn k (46%N :: r)) (k - 1) = nth_error (46%N :: r) (k - 1)).
      { apply nth_error_firstn_lt. lia. }
      rewrite <- Hn.
      destruct (nth_error (firstn k (46%N :: r)) (k - 1)) as [x|] eqn:Ex.
      + apply nth_error_In in Ex. rewrite Forall_forall in HF. rewrite (HF _ Ex). reflexivity.
      + apply nth_error_None in Ex. rewrite firstn_length in Ex. lia.
    - cbn [host_run] in *. rewrite E in *. cbn [orb] in *.
      destruct (host_label_char c); [|cbn in Hin; contradiction].
      cbn [firstn] in Hin. destruct Hin as [Hin|Hin]; [subst c; rewrite N.eqb_refl in E; discriminate|].
      assert (Hpos : 1 <= host_run r).
      { destruct (host_run r); [cbn in Hin; contradiction | lia]. }
      specialize (IH (dots_ok_tail _ _ Hd) Hin).
      replace (S (host_run r) - 1) with (S (host_run r - 1)) by lia. exact IH.
  Qed.
  Lemma In_firstn_skipn {A} (x : A) (l : list A) (k : nat) :
    In x (firstn (k - 1 - 1) (skipn 1 l)) -> In x (firstn k l).
  Proof.
    intros H. apply In_nth_error in H. destruct H as [i Hi].
    assert (Hlt : i < k - 1 - 1).
    { assert (i < length (firstn (k - 1 - 1) (skipn 1 l))) by (apply nth_error_Some; congruence).
      rewrite firstn_length in H. lia. }
    rewrite nth_error_firstn_lt in Hi by exact Hlt.
    destruct l as [|y l]; [destruct i; discriminate|]. cbn [skipn] in Hi.
    apply nth_error_In with (n := S i). rewrite nth_error_firstn_lt by lia. exact Hi.
  Qed.
  Lemma host_none (t : text) : dots_ok t = true -> lex_hostname_token t = None.
  Proof.
    intros Hd. unfold lex_hostname_token, lex_hostname.
    destruct t as [|c r]; [reflexivity|].
    destruct (is_ascii_alnum c); [|reflexivity].
    destruct (host_run (c :: r) <=? 1) eqn:E; [reflexivity|].
    destruct (memN 46%N (firstn (host_run (c :: r) - 1 - 1) (skipn 1 (c :: r)))) eqn:EM; [|reflexivity].
    cbn [negb]. apply memN_spec in EM. apply In_firstn_skipn in EM.
    rewrite (run_last_dot _ Hd EM). rewrite N.eqb_refl. reflexivity.
  Qed.

  (* ---------------------------------------------------------------------------------------------- *)
  (* inside the left context: no token reaches across the first digit                                 *)
  (* ---------------------------------------------------------------------------------------------- *)
  Definition pre_char_ok (c : N) : Prop := u_numeric U c = false /\ c <> 91%N.

  Lemma lex_token_pre_bound (c0 : N) (pre2 rest : text) (d0 : N) (rest' : text) (cl : N) :
    Forall pre_char_ok (c0 :: pre2) ->
    last_error (c0 :: pre2) = Some cl -> u_lingual U cl = false ->
    rest = d0 :: rest' -> is_ascii_digit d0 = true ->
    quiet ((c0 :: pre2) ++ rest) ->
    forall r, lex_token ((c0 :: pre2) ++ rest) = Some r -> fst r <= length (c0 :: pre2).
  Proof.
    intros Hpre Hlast Hcl Hrest Hd0 (Q1 & Q2 & Q3). unfold text, char in *.
    pose proof (proj1 (digit_range d0) Hd0) as R0.
    assert (Hc0 : pre_char_ok c0) by (inversion Hpre; assumption). destruct Hc0 as [Hnum H91].
    assert (Hnd : forall c, u_numeric U c = false -> is_ascii_digit c = false).
    { intros c Hc. destruct (is_ascii_digit c) eqn:E; [|reflexivity]. rewrite (L_digit_numeric _ E) in Hc. discriminate. }
    unfold Number.lex_token. rewrite Q1, Q2, Q3. cbn [app].
    rewrite regexish_head by exact H91.
    rewrite number_head by exact Hnum.
    rewrite hex_none_head by (intros ->; specialize (Hnd _ Hnum); vm_compute in Hnd; discriminate).
    rewrite decade_head by (intros ->; specialize (Hnd _ Hnum); vm_compute in Hnd; discriminate).
    cbn [orelse].
    repeat (apply orelse_all).
    - intros r H. cbn [lex_punctuation] in H. destruct (memN c0 quote_chars).
      + apply some_inj in H; subst r. cbn [fst length]. lia.
      + destruct (punct_of c0); [|discriminate]. apply some_inj in H; subst r. cbn [fst length]. lia.
    - intros r H. unfold lex_tabs in H. destruct (0 <? _); [|discriminate]. apply some_inj in H; subst r.
      change (count_while (N.eqb 9) ((c0 :: pre2) ++ rest) <= length (c0 :: pre2)).
      apply count_while_app_le. rewrite Hrest. rewrite N.eqb_sym. apply neqb. lia.
    - intros r H. unfold lex_spaces in H. destruct (0 <? _); [|discriminate]. apply some_inj in H; subst r.
      change (count_while (N.eqb 32) ((c0 :: pre2) ++ rest) <= length (c0 :: pre2)).
      apply count_while_app_le. rewrite Hrest. rewrite N.eqb_sym. apply neqb. lia.
    - intros r H. unfold lex_newlines in H. destruct (0 <? _); [|discriminate]. apply some_inj in H; subst r.
      change (count_while (N.eqb 10) ((c0 :: pre2) ++ rest) <= length (c0 :: pre2)).
      apply count_while_app_le. rewrite Hrest. rewrite N.eqb_sym. apply neqb. lia.
    - (* plural digit: at most three characters, none of which is a digit of the number *)
      intros r H. destruct pre2 as [|c1 [|c2 pre3]]; cbn [app] in H.
      + rewrite Hrest in H. rewrite plural_digit_none in H by (left + idtac; lia). discriminate.
      + rewrite Hrest in H. cbn [lex_plural_digit] in H.
        destruct (negb (is_ascii_alnum c0)); [discriminate|].
        destruct (c1 =? 39)%N; cbn [snd fst] in H.
        * rewrite (neqb d0 115) in H by lia. discriminate.
        * (* c1 = 's' would be the last character of the context, but that one is not a word character *)
          destruct (c1 =? 115)%N eqn:E115; [|discriminate]. exfalso.
          apply N.eqb_eq in E115. subst c1. cbn [last_error] in Hlast. injection Hlast as <-.
          rewrite L_alpha_lingual in Hcl by reflexivity. discriminate.
      + cbn [lex_plural_digit] in H.
        destruct (negb (is_ascii_alnum c0)); [discriminate|].
        destruct (c1 =? 39)%N; cbn [snd fst] in H.
        * destruct (c2 =? 115)%N; [|discriminate].
          revert H. destruct (pre3 ++ rest) as [|x xs]; [|destruct (negb (u_alnum U x)); [|intros H0; discriminate]];
            intros H; apply some_inj in H; subst r; cbn [fst length]; lia.
        * destruct (c1 =? 115)%N; [|discriminate].
          destruct (negb (u_alnum U c2)); [|discriminate].
          apply some_inj in H; subst r; cbn [fst length]; lia.
    - (* word: it stops at the last character of the context at the latest *)
      intros r H. unfold lex_word in H.
      assert (Hcl2 : is_ascii_digit cl = false).
      { apply Hnd. apply last_error_nth in Hlast. apply nth_error_In in Hlast.
        rewrite Forall_forall in Hpre. apply (Hpre _ Hlast). }
      destruct (position_le (fun c => negb (u_lingual U c) && negb (is_ascii_digit c)) (c0 :: pre2) rest
                  (length (c0 :: pre2) - 1) cl (last_error_nth _ _ Hlast)) as [j [Hj Hle]].
      { rewrite Hcl, Hcl2. reflexivity. }
      change (c0 :: pre2 ++ rest) with ((c0 :: pre2) ++ rest) in H. rewrite Hj in H.
      destruct (j =? 0); [discriminate|]. apply some_inj in H; subst r. cbn [fst]. cbn [length] in *. lia.
    - intros r H. apply some_inj in H; subst r. cbn [fst length]. lia.
  Qed.

  (* ---------------------------------------------------------------------------------------------- *)
  (* PlainEnglish::parse over the three regions                                                       *)
  (* ---------------------------------------------------------------------------------------------- *)
  Definition nonum (l : list token) : Prop := Forall (fun t => is_number t = false) l.
  Definition wordwf (l : list token) : Prop :=
    Forall (fun t => is_word t = true -> sstart (tspan t) <= send (tspan t)) l.
  Definition hd_not_apostrophe (l : list token) : Prop :=
    match l with t :: _ => is_apostrophe t = false | [] => True end.

  Lemma span_new_ok q n : span_new q (q + n) = Ok (mkspan q (q + n)).
  Proof. unfold span_new. destruct (q + n <? q) eqn:E; [apply Nat.ltb_lt in E; lia | reflexivity]. Qed.

  Lemma lex_loop_step fuel q c0 rest n k :
    lex_token (c0 :: rest) = Some (n, k) ->
    lex_loop U ut et (S fuel) q (c0 :: rest) =
    (do tl <- lex_loop U ut et fuel (q + n) (skipn n (c0 :: rest)); Ok (mktok (mkspan q (q + n)) k :: tl)).
  Proof. intros H. cbn [lex_loop]. rewrite H, span_new_ok. reflexivity. Qed.

  (* the right context (and any text without numeric characters and '@') *)
  Lemma lex_loop_plain : forall (fuel : nat) (t : text) (q : nat),
    length t <= fuel ->
    Forall (fun c => u_numeric U c = false) t -> Forall (fun c => c <> 64%N) t ->
    exists L, lex_loop U ut et fuel q t = Ok L /\ nonum L /\ wordwf L.
  Proof.
    induction fuel as [|f IH]; intros t q Hlen Hnum Hat.
    - destruct t; [|cbn in Hlen; lia]. exists []. cbn. repeat split; constructor.
    - destruct t as [|c0 rest].
      + exists []. cbn. repeat split; constructor.
      + destruct (lex_token_ok c0 rest (email_none _ Hat)) as [[n k] [Htok (Hn & Hk & Hap)]].
        cbn [fst snd] in *.
        rewrite (lex_loop_step _ _ _ _ _ _ Htok).
        destruct (IH (skipn n (c0 :: rest)) (q + n)) as (L & HL & Hnn & Hwf).
        * rewrite skipn_length. cbn [length] in *. lia.
        * apply Forall_skipn. exact Hnum.
        * apply Forall_skipn. exact Hat.
        * rewrite HL. cbn [bind]. eexists. split; [reflexivity|]. repeat split.
          -- constructor; [|exact Hnn]. unfold is_number. cbn [tkind].
             destruct k; try reflexivity. exfalso.
             assert (u_numeric U c0 = true) by (eapply Hk; reflexivity).
             inversion Hnum; congruence.
          -- constructor; [|exact Hwf]. cbn [tspan sstart send]. intros _. lia.
  Qed.

  Lemma bind_ok_app {A} (x : res (list A)) : (do tl <- x; Ok ([] ++ tl)) = x.
  Proof. destruct x; reflexivity. Qed.

  Lemma skipn_app_le {A} (l r : list A) (n : nat) : n <= length l -> skipn n (l ++ r) = skipn n l ++ r.
  Proof. intros H. rewrite skipn_app. replace (n - length l) with 0 by lia. reflexivity. Qed.

  (* the left context: its tokens end exactly where the number starts *)
  Lemma lex_loop_pre : forall (m : nat) (pre2 : text), length pre2 <= m ->
    forall (fuel q : nat) (d0 : N) (rest' : text),
    is_ascii_digit d0 = true ->
    Forall pre_char_ok pre2 ->
    match last_error pre2 with Some cl => u_lingual U cl = false | None => True end ->
    (forall j, quiet (skipn j (pre2 ++ d0 :: rest'))) ->
    length pre2 <= fuel ->
    exists LA f',
      lex_loop U ut et fuel q (pre2 ++ d0 :: rest') =
        (do tl <- lex_loop U ut et f' (q + length pre2) (d0 :: rest'); Ok (LA ++ tl))
      /\ fuel <= f' + length pre2 /\ nonum LA /\ wordwf LA.
  Proof.
    unfold text, char. induction m as [|m IH]; intros pre2 Hm fuel q d0 rest' Hd0 Hpre Hlast Hq Hfuel.
    - destruct pre2; [|cbn in Hm; lia]. exists [], fuel. cbn [app length].
      rewrite Nat.add_0_r.
      split; [destruct (lex_loop U ut et fuel q (d0 :: rest')); reflexivity|].
      repeat split; try constructor. lia.
    - destruct pre2 as [|c0 pre3].
      + exists [], fuel. cbn [app length].
        rewrite Nat.add_0_r.
        split; [destruct (lex_loop U ut et fuel q (d0 :: rest')); reflexivity|].
        repeat split; try constructor. lia.
      + destruct fuel as [|f]; [cbn in Hfuel; lia|].
        assert (Hat : lex_email_address U et ((c0 :: pre3) ++ d0 :: rest') = None) by (apply (Hq 0)).
        destruct (lex_token_ok c0 (pre3 ++ d0 :: rest') Hat) as [[n k] [Htok (Hn & Hk & _)]].
        cbn [fst snd] in *.
        destruct (last_error (c0 :: pre3)) as [cl|] eqn:El; [|apply last_error_none in El; discriminate].
        pose proof (lex_token_pre_bound c0 pre3 (d0 :: rest') d0 rest' cl Hpre El Hlast eq_refl Hd0 (Hq 0) _ Htok) as Hb.
        cbn [fst] in Hb.
        change ((c0 :: pre3) ++ d0 :: rest') with (c0 :: pre3 ++ d0 :: rest').
        rewrite (lex_loop_step _ _ _ _ _ _ Htok).
        change (c0 :: pre3 ++ d0 :: rest') with ((c0 :: pre3) ++ d0 :: rest').
        rewrite (skipn_app_le _ _ _ Hb).
        destruct (IH (skipn n (c0 :: pre3))) with (fuel := f) (q := q + n) (d0 := d0) (rest' := rest')
          as (LA & f' & HL & Hf & Hnn & Hwf).
        * rewrite skipn_length. cbn [length] in *. lia.
        * exact Hd0.
        * apply Forall_skipn. exact Hpre.
        * destruct (Nat.eq_dec n (length (c0 :: pre3))) as [En|En].
          -- rewrite En, skipn_all. exact I.
          -- rewrite last_error_skipn by lia. rewrite El. exact Hlast.
        * intros j. rewrite <- (skipn_app_le _ _ _ Hb), skipn_skipn. apply Hq.
        * rewrite skipn_length. cbn [length] in *. lia.
        * rewrite HL. rewrite skipn_length.
          exists (mktok (mkspan q (q + n)) k :: LA), f'.
          split.
          { replace (q + n + (length (c0 :: pre3) - n)) with (q + length (c0 :: pre3)) by lia.
            destruct (lex_loop U ut et f' (q + length (c0 :: pre3)) (d0 :: rest')); reflexivity. }
          split; [rewrite skipn_length in Hf; cbn [length] in *; lia|].
          split.
          { constructor; [|exact Hnn]. unfold is_number. cbn [tkind].
            destruct k; try reflexivity. exfalso.
            assert (u_numeric U c0 = true) by (eapply Hk; reflexivity).
            inversion Hpre as [|? ? [Hc _] _]. congruence. }
          { constructor; [|exact Hwf]. cbn [tspan sstart send]. intros _. lia. }
  Qed.

  (* ---------------------------------------------------------------------------------------------- *)
  (* the token list of the whole text                                                                 *)
  (* ---------------------------------------------------------------------------------------------- *)
  Lemma ctx_ok_unpack (pre D : text) (a b : N) (post : text) :
    ctx_ok U pre D [a; b] post = true ->
    Forall pre_char_ok pre /\ Forall (fun c => c <> 64%N) pre
    /\ Forall (fun c => u_numeric U c = false) post /\ Forall (fun c => c <> 64%N) post
    /\ match last_error pre with Some cl => u_lingual U cl = false | None => True end
    /\ match post with
       | c :: _ => u_lingual U c = false /\ is_ascii_digit c = false
       | [] => True end
    /\ has_scheme_mark (pre ++ D ++ [a; b] ++ post) = false
    /\ dots_ok (pre ++ D ++ [a; b] ++ post) = true.
  Proof.
    unfold ctx_ok. rewrite !andb_true_iff. intros [[[[[H1 H2] H3] H4] H5] H6].
    rewrite forallb_forall in H1, H2. apply negb_true_iff in H5.
    repeat split; try assumption.
    - apply Forall_forall. intros c Hc. specialize (H1 c Hc). rewrite !andb_true_iff, !negb_true_iff in H1.
      destruct H1 as [[A B] _]. split; [exact A | apply N.eqb_neq; exact B].
    - apply Forall_forall. intros c Hc. specialize (H1 c Hc). rewrite !andb_true_iff, !negb_true_iff in H1.
      destruct H1 as [_ C]. apply N.eqb_neq; exact C.
    - apply Forall_forall. intros c Hc. specialize (H2 c Hc). rewrite !andb_true_iff, !negb_true_iff in H2. tauto.
    - apply Forall_forall. intros c Hc. specialize (H2 c Hc). rewrite !andb_true_iff, !negb_true_iff in H2.
      apply N.eqb_neq. tauto.
    - destruct (last_error pre); [apply negb_true_iff; exact H3 | exact I].
    - destruct post as [|c post']; [exact I|]. rewrite !andb_true_iff, !negb_true_iff in H4. tauto.
  Qed.

  Lemma lex_doc_shape (pre D : text) (a b : N) (s : suffix) (post : text) :
    D <> [] -> Forall (fun c => is_ascii_digit c = true) D -> (parse_dec D < two53)%N ->
    In (a, b, s) from_chars_table ->
    ctx_ok U pre D [a; b] post = true ->
    exists LA LB,
      lex_doc U ut et (pre ++ D ++ [a; b] ++ post) =
        Ok (LA ++ mktok (mkspan (length pre) (length pre + length D)) (KNumber (VInt (parse_dec D)) None)
               :: mktok (mkspan (length pre + length D) (length pre + length D + 2)) KWord :: LB)
      /\ nonum LA /\ nonum LB /\ wordwf LA /\ wordwf LB.
  Proof.
    intros Hne HD Hlt Hrow Hctx. unfold text, char in *.
    destruct (ctx_ok_unpack _ _ _ _ _ Hctx) as (Hpre & Hpre_at & Hpost_num & Hpost_at & Hlast & Hhd & Hmark & Hdots).
    destruct (suffix_row _ _ _ Hrow) as (Ha & Hb & _).
    pose proof (proj1 (alpha_range a) Ha) as Ra. pose proof (proj1 (alpha_range b) Hb) as Rb.
    cbn [app] in *.
    set (T := pre ++ D ++ a :: b :: post) in *.
    assert (Hat : Forall (fun c : N => c <> 64%N) T).
    { unfold T. apply Forall_app. split; [exact Hpre_at|]. apply Forall_app. split.
      - eapply Forall_impl; [|exact HD]. intros c Hc. apply digit_range in Hc. lia.
      - constructor; [lia|]. constructor; [lia|]. exact Hpost_at. }
    assert (Hq : forall j, quiet (skipn j T)).
    { intros j. split; [|split].
      - apply url_none. apply scheme_mark_skipn. exact Hmark.
      - apply email_none. apply Forall_skipn. exact Hat.
      - apply host_none. apply dots_ok_skipn. exact Hdots. }
    assert (HDs : exists d0 D', D = d0 :: D') by (destruct D as [|x y]; [contradiction | eauto]).
    destruct HDs as (d0 & D' & ED).
    assert (Hd0 : is_ascii_digit d0 = true) by (rewrite ED in HD; inversion HD; assumption).
    assert (HT : T = pre ++ d0 :: (D' ++ a :: b :: post)) by (unfold T; rewrite ED; reflexivity).
    destruct (lex_loop_pre (length pre) pre (le_n _) (length T) 0 d0 (D' ++ a :: b :: post) Hd0 Hpre Hlast)
      as (LA & f' & HL & Hf & HnA & HwA).
    { intros j. unfold text, char in *. rewrite <- HT. apply Hq. }
    { unfold text, char in *. unfold T. rewrite app_length. lia. }
    unfold text, char in *.
    assert (Hlen : length T = length pre + length D + 2 + length post).
    { unfold T. rewrite !app_length. cbn [length]. lia. }
    assert (HD2 : d0 :: D' ++ a :: b :: post = D ++ a :: b :: post) by (rewrite ED; reflexivity).
    (* the number *)
    destruct f' as [|f1]; [lia|].
    pose proof (lex_token_number D a b s post Hne HD Hlt Hrow) as HN. unfold text, char in HN. rewrite <- HD2 in HN.
    rewrite (lex_loop_step _ _ _ _ _ _ HN) in HL. unfold text, char in HL. rewrite HD2, skipn_app_len in HL.
    (* the suffix word *)
    destruct f1 as [|f2]; [lia|].
    assert (HW : lex_token (a :: b :: post) = Some (2, KWord)).
    { apply (lex_token_suffix a b s post Hrow).
      - destruct post as [|c post']; [exact I | tauto].
      - specialize (Hq (length pre + length D)). unfold T in Hq.
        rewrite app_assoc, <- app_length, skipn_app_len in Hq. exact Hq. }
    rewrite (lex_loop_step _ _ _ _ _ _ HW) in HL. unfold text, char in HL. cbn [skipn] in HL.
    (* the right context *)
    destruct (lex_loop_plain f2 post (0 + length pre + length D + 2)) as (LB & HLB & HnB & HwB);
      [unfold text, char in *; lia | exact Hpost_num | exact Hpost_at |].
    rewrite HLB in HL. cbn [bind] in HL.
    exists LA, LB. unfold lex_doc. subst T. unfold text, char in *. rewrite HL. cbn [Nat.add].
    repeat split; assumption.
  Qed.

  (* ---------------------------------------------------------------------------------------------- *)
  (* SEVERAL instances (C17Texts.mtext): the token list is  LA1 ++ F q1 i1 ++ LA2 ++ F q2 i2 ++ .. ++ LB  *)
  (* with number-free, well-formed stretches LA / LB in between; F gives the tokens of one instance    *)
  (* ---------------------------------------------------------------------------------------------- *)
  Definition inst_len (i : inst) : nat := length (i_pre i) + length (i_digits i) + 2.
  Inductive mshp (F : nat -> inst -> list token) : nat -> list inst -> list token -> Prop :=
  | mshp_nil q L : nonum L -> wordwf L -> mshp F q [] L
  | mshp_cons q i r LA L : nonum LA -> wordwf LA -> mshp F (q + inst_len i) r L ->
      mshp F q (i :: r) (LA ++ F q i ++ L).

  (* as the lexer leaves them: the Number token (no suffix yet) and the two-letter Word *)
  Definition F_raw (q : nat) (i : inst) : list token :=
    [mktok (mkspan (q + length (i_pre i)) (q + length (i_pre i) + length (i_digits i)))
           (KNumber (VInt (parse_dec (i_digits i))) None);
     mktok (mkspan (q + length (i_pre i) + length (i_digits i)) (q + length (i_pre i) + length (i_digits i) + 2)) KWord].

  Lemma pre_okb_unpack (pre : text) : pre_okb U pre = true ->
    Forall pre_char_ok pre /\ Forall (fun c => c <> 64%N) pre
    /\ match last_error pre with Some cl => u_lingual U cl = false | None => True end.
  Proof.
    unfold pre_okb. rewrite andb_true_iff. intros [H1 H3]. rewrite forallb_forall in H1. repeat split.
    - apply Forall_forall. intros c Hc. specialize (H1 c Hc). rewrite !andb_true_iff, !negb_true_iff in H1.
      destruct H1 as [[A B] _]. split; [exact A | apply N.eqb_neq; exact B].
    - apply Forall_forall. intros c Hc. specialize (H1 c Hc). rewrite !andb_true_iff, !negb_true_iff in H1.
      destruct H1 as [_ C]. apply N.eqb_neq; exact C.
    - destruct (last_error pre); [apply negb_true_iff; exact H3 | exact I].
  Qed.
  Lemma digits_okb_unpack (D : text) : digits_okb D = true ->
    D <> [] /\ Forall (fun c => is_ascii_digit c = true) D /\ (parse_dec D < two53)%N.
  Proof.
    unfold digits_okb. rewrite !andb_true_iff, negb_true_iff. intros [[H1 H2] H3]. repeat split.
    - intros ->. cbn in H1. discriminate.
    - apply Forall_forall. rewrite forallb_forall in H2. exact H2.
    - apply N.ltb_lt. exact H3.
  Qed.
  Lemma tail_okb_unpack (t : text) : tail_okb U t = true ->
    match t with c :: _ => u_lingual U c = false /\ is_ascii_digit c = false | [] => True end.
  Proof.
    destruct t as [|c r]; [intros _; exact I|]. cbn [tail_okb]. rewrite andb_true_iff, !negb_true_iff. tauto.
  Qed.

  Lemma segs_ok_no_at : forall (l : list inst) (post : text),
    segs_ok U l post = true -> Forall (fun c => c <> 64%N) (mtext l post).
  Proof.
    induction l as [|i r IH]; intros post H; cbn [segs_ok mtext] in *.
    - apply Forall_forall. rewrite forallb_forall in H. intros c Hc. specialize (H c Hc).
      rewrite andb_true_iff, !negb_true_iff in H. apply N.eqb_neq. tauto.
    - rewrite !andb_true_iff in H. destruct H as [[[[Hp Hd] Hs] _] Hr].
      destruct (pre_okb_unpack _ Hp) as (_ & Hat & _). destruct (digits_okb_unpack _ Hd) as (_ & HD & _).
      unfold suffix_of in Hs. destruct (from_chars [i_a i; i_b i]) as [sx|] eqn:Hfc; [|discriminate].
      apply from_chars_row in Hfc. destruct (suffix_row _ _ _ Hfc) as (Ha & Hb & _).
      pose proof (proj1 (alpha_range _) Ha) as Ra. pose proof (proj1 (alpha_range _) Hb) as Rb.
      apply Forall_app. split; [exact Hat|]. apply Forall_app. split.
      + eapply Forall_impl; [|exact HD]. intros c Hc. apply digit_range in Hc. lia.
      + cbn [app]. constructor; [lia|]. constructor; [lia|]. apply IH. exact Hr.
  Qed.

  Lemma lex_multi : forall (l : list inst) (post : text) (fuel q : nat),
    segs_ok U l post = true ->
    (forall j, quiet (skipn j (mtext l post))) ->
    length (mtext l post) <= fuel ->
    exists L, lex_loop U ut et fuel q (mtext l post) = Ok L /\ mshp F_raw q l L.
  Proof.
    induction l as [|i r IH]; intros post fuel q Hseg Hq Hfuel.
    - cbn [mtext] in *. pose proof (segs_ok_no_at [] post Hseg) as Hat. cbn [mtext] in Hat.
      cbn [segs_ok] in Hseg.
      destruct (lex_loop_plain fuel post q Hfuel) as (L & HL & Hn & Hw); [|exact Hat|].
      { apply Forall_forall. rewrite forallb_forall in Hseg. intros c Hc. specialize (Hseg c Hc).
        rewrite andb_true_iff, !negb_true_iff in Hseg. tauto. }
      exists L. split; [exact HL | constructor; assumption].
    - pose proof Hseg as Hseg0. cbn [segs_ok] in Hseg. rewrite !andb_true_iff in Hseg.
      destruct Hseg as [[[[Hp Hd] Hs] Ht] Hr].
      destruct (pre_okb_unpack _ Hp) as (Hpre & _ & Hlast).
      destruct (digits_okb_unpack _ Hd) as (Hne & HD & Hlt).
      unfold suffix_of in Hs. destruct (from_chars [i_a i; i_b i]) as [sx|] eqn:Hfc; [|discriminate].
      apply from_chars_row in Hfc. rename Hfc into Hrow.
      apply tail_okb_unpack in Ht.
      destruct i as [pre D a b]. cbn [i_pre i_digits i_a i_b] in *. cbn [mtext i_pre i_digits i_a i_b] in *.
      unfold text, char in *.
      remember (mtext r post) as R eqn:ER. unfold text, char in *.
      assert (HDs : exists d0 D', D = d0 :: D') by (destruct D as [|x y]; [contradiction | eauto]).
      destruct HDs as (d0 & D' & ED).
      assert (Hd0 : is_ascii_digit d0 = true) by (rewrite ED in HD; inversion HD; assumption).
      assert (HT : pre ++ D ++ [a; b] ++ R = pre ++ d0 :: (D' ++ a :: b :: R)) by (rewrite ED; reflexivity).
      assert (Hlen : length (pre ++ D ++ [a; b] ++ R) = length pre + length D + 2 + length R).
      { rewrite !app_length. cbn [length]. lia. }
      assert (HlD : 1 <= length D) by (rewrite ED; cbn [length]; lia).
      destruct (lex_loop_pre (length pre) pre (le_n _) fuel q d0 (D' ++ a :: b :: R) Hd0 Hpre Hlast)
        as (LA & f' & HL & Hf & HnA & HwA).
      { intros j. unfold text, char in *. rewrite <- HT. apply Hq. }
      { unfold text, char in *. lia. }
      unfold text, char in *.
      assert (HD2 : d0 :: D' ++ a :: b :: R = D ++ a :: b :: R) by (rewrite ED; reflexivity).
      (* the number *)
      destruct f' as [|f1]; [lia|].
      pose proof (lex_token_number D a b sx R Hne HD Hlt Hrow) as HN. unfold text, char in HN. rewrite <- HD2 in HN.
      rewrite (lex_loop_step _ _ _ _ _ _ HN) in HL. unfold text, char in HL. rewrite HD2, skipn_app_len in HL.
      (* the suffix word *)
      destruct f1 as [|f2]; [lia|].
      assert (HqR : forall j, quiet (skipn j (a :: b :: R))).
      { intros j. specialize (Hq (j + (length pre + length D))).
        rewrite <- skipn_skipn in Hq. unfold text, char in *.
        rewrite app_assoc, <- app_length, skipn_app_len in Hq. exact Hq. }
      assert (HW : lex_token (a :: b :: R) = Some (2, KWord)).
      { apply (lex_token_suffix a b sx R Hrow Ht). exact (HqR 0). }
      rewrite (lex_loop_step _ _ _ _ _ _ HW) in HL. unfold text, char in HL. cbn [skipn] in HL.
      (* the rest *)
      destruct (IH post f2 (q + length pre + length D + 2) Hr) as (L & HLr & Hsh).
      { intros j. rewrite <- ER. specialize (HqR (j + 2)). rewrite <- skipn_skipn in HqR. exact HqR. }
      { rewrite <- ER. unfold text, char in *. lia. }
      rewrite <- ER in HLr. unfold text, char in *. rewrite HLr in HL. cbn [bind] in HL.
      exists (LA ++ F_raw q (mkinst pre D a b) ++ L). split.
      + change ([a; b] ++ R) with (a :: b :: R). unfold text, char in *. rewrite HL. reflexivity.
      + constructor; try assumption. unfold inst_len. cbn [i_pre i_digits].
        refine (eq_rect _ (fun k => mshp F_raw k r L) Hsh _ _). unfold text, char in *. lia.
  Qed.
End LexFacts.
