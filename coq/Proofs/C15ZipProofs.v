(* C15ZipProofs.v — FstDictionary::fuzzy_match's use of TWO automata (normalised query, its lower-case form) and the
   positional zip: when the two streams list the same words (every index word is within the bound of both strings or of
   neither — in particular for a lower-case query, where the strings coincide) the loop yields every word within the
   bound exactly once, with the SMALLER of its two distances; hence so does every admissible final result.  When the
   streams differ the zip pairs unrelated words (C15_fst_zip_incomplete): the premise is needed. *)
Require Import Base EditDistance DictModel Fuzzy C15Automaton EditDistanceProofs DictProofs FuzzyProofs
  C15AutomatonProofs ListLemmas.
From Coq Require Import Lia Permutation Sorting.Sorted.

Definition aligned (ws : list (text * meta)) (qn lq : text) (d : nat) : Prop :=
  forall w md, In (w, md) ws -> (lev qn w <= d <-> lev lq w <= d).

(* what the zip loop should produce: every index word within the bound once, at the smaller distance *)
Definition merged_min (ws : list (text * meta)) (qn lq : text) (d : nat) : list fres :=
  flat_map (fun wm => if lev qn (fst wm) <=? d
                      then [mkfres (fst wm) (Nat.min (lev qn (fst wm)) (lev lq (fst wm))) (snd wm)] else []) ws.

Lemma zip_aligned_gen (all : list (text * meta)) qn lq d : forall ws pre,
  all = pre ++ ws -> aligned ws qn lq d ->
  map_res (fun ul => let '(ci, ed) := zip_choose ul in
                     do wm <- nth_chk all ci; Ok (mkfres (fst wm) ed (snd wm)))
          (combine (flat_map (fun iw => let e := lev qn (fst (snd iw)) in if e <=? d then [(fst iw, e)] else [])
                             (enum_from (length pre) ws))
                   (flat_map (fun iw => let e := lev lq (fst (snd iw)) in if e <=? d then [(fst iw, e)] else [])
                             (enum_from (length pre) ws)))
  = Ok (merged_min ws qn lq d).
Proof.
  induction ws as [|[w md] ws IH]; intros pre Hall Hal; [reflexivity|].
  cbn [enum_from flat_map fst snd]. unfold merged_min. cbn [flat_map fst snd]. fold (merged_min ws qn lq d).
  assert (Hw : lev qn w <= d <-> lev lq w <= d) by (apply (Hal w md); now left).
  assert (IH' := IH (pre ++ [(w, md)])). rewrite app_length in IH'. cbn [length] in IH'.
  replace (length pre + 1) with (S (length pre)) in IH' by lia.
  assert (Hrest : aligned ws qn lq d) by (intros w' md' H'; apply (Hal w' md'); now right).
  specialize (IH' ltac:(rewrite <- app_assoc; exact Hall) Hrest).
  destruct (Nat.leb_spec (lev qn w) d) as [Hu|Hu]; destruct (Nat.leb_spec (lev lq w) d) as [Hl|Hl]; try lia.
  - cbn [app combine map_res]. unfold zip_choose at 1.
    assert (Hn : nth_chk all (length pre) = Ok (w, md)).
    { apply nth_chk_ok. rewrite Hall, nth_error_app2 by lia. now rewrite Nat.sub_diag. }
    destruct (Nat.leb_spec (lev qn w) (lev lq w)) as [Hm|Hm]; rewrite Hn; cbn [bind fst snd];
      rewrite IH'; cbn [bind app]; repeat f_equal; lia.
  - cbn [app]. exact IH'.
Qed.

(* under the stream contract, aligned streams: the zip loop's output *)
Theorem fst_merged_aligned stream (f : fst_dict) qn lq d :
  (forall x, stream (f_words f) x d = spec_stream lev (f_words f) x d) ->
  aligned (f_words f) qn lq d ->
  fst_merged stream f qn lq d = Ok (merged_min (f_words f) qn lq d).
Proof.
  intros Hc Hal. unfold fst_merged. rewrite !Hc. unfold spec_stream.
  exact (zip_aligned_gen (f_words f) qn lq d (f_words f) [] eq_refl Hal).
Qed.

(* hence every admissible final result reports, for each word, the smaller of its two true distances, and every index
   word within the bound is covered up to the cap *)
Theorem fst_fuzzy_aligned_min stream (f : fst_dict) q lq d k r :
  (forall x, stream (f_words f) x d = spec_stream lev (f_words f) x d) ->
  aligned (f_words f) (normalized q) lq d ->
  fst_fuzzy_outcome stream f q lq d k r ->
  forall x, In x r ->
    r_dist x = Nat.min (lev (normalized q) (r_word x)) (lev lq (r_word x)) /\
    In (r_word x, r_meta x) (f_words f) /\ lev (normalized q) (r_word x) <= d /\ lev lq (r_word x) <= d.
Proof.
  intros Hc Hal (merged & Em & Hadm) x Hx.
  rewrite (fst_merged_aligned stream f (normalized q) lq d Hc Hal) in Em. injection Em as <-.
  unfold fst_admissible in Hadm. repeat (apply andb_true_iff in Hadm as [Hadm ?]).
  rewrite forallb_forall in H1. apply H1 in Hx. apply existsb_exists in Hx as (m & Hin & E).
  apply fres_eqb_eq in E. subst m. unfold merged_min in Hin. apply in_flat_map in Hin as ([w md] & Hw & Hin).
  cbn [fst snd] in Hin. destruct (Nat.leb_spec (lev (normalized q) w) d) as [Hle|]; [|contradiction].
  destruct Hin as [<-|[]]. cbn [r_dist r_word r_meta]. repeat split; try assumption.
  now apply (Hal w md Hw).
Qed.

(* a lower-case query is always aligned *)
Lemma aligned_refl ws qn d : aligned ws qn qn d.
Proof. intros w md _. tauto. Qed.

(* the same over the automaton product, no hypothesis *)
Theorem fst_fuzzy_aligned_min_automaton (f : fst_dict) q lq d k :
  aligned (f_words f) (normalized q) lq d ->
  exists r, fst_fuzzy la_search f q lq d k = Ok r /\
    forall x, In x r ->
      r_dist x = Nat.min (lev (normalized q) (r_word x)) (lev lq (r_word x)) /\
      In (r_word x, r_meta x) (f_words f) /\ lev (normalized q) (r_word x) <= d /\ lev lq (r_word x) <= d.
Proof.
  intros Hal.
  assert (Hc : forall x, la_search (f_words f) x d = spec_stream lev (f_words f) x d)
    by (intros x; apply la_search_correct).
  destruct (fst_fuzzy_total la_search f d Hc q lq k) as (r & Hr & Ho).
  exists r. split; [exact Hr|]. exact (fst_fuzzy_aligned_min la_search f q lq d k r Hc Hal Ho).
Qed.

(* non-vacuity: {"AB", "Bc", "b"} (sorted), query "AB", lower-case "ab", bound 2: the three words are within the bound
   of both strings; "AB" gets its distance from the automaton of the query (0 < 2), "b" from the lower-case one (1 < 2) *)
Example aligned_example :
  let f := fst_new ascii_is_lower ascii_lower [(w_AB, 1); ([66; 99]%N, 2); ([98%N], 3)] in
  f_words f = [(w_AB, 1); ([66; 99]%N, 2); ([98%N], 3)] /\
  spec_stream lev (f_words f) w_AB 2 = [(0, 0); (1, 2); (2, 2)] /\
  spec_stream lev (f_words f) w_ab 2 = [(0, 2); (1, 2); (2, 1)] /\
  fst_merged (spec_stream lev) f w_AB w_ab 2
    = Ok [mkfres w_AB 0 1; mkfres [66; 99]%N 2 2; mkfres [98%N] 1 3] /\
  merged_min (f_words f) w_AB w_ab 2 = [mkfres w_AB 0 1; mkfres [66; 99]%N 2 2; mkfres [98%N] 1 3].
Proof. vm_compute. repeat split; reflexivity. Qed.
