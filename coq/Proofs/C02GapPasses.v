(* C02GapPasses.v — the passes of Document::parse on a GAPPED token vector (C02Gapped.Gapped: non-empty,
   ordered, disjoint tokens inside the text, but not necessarily adjacent — what IsolateEnglish, the Mask-based
   front-ends and Markdown hand to Document::parse).
   What holds (the positive half of finding F28): no pass panics; every pass is still a GROUPING of the vector
   (each output token spans a run of consecutive tokens of the VECTOR), so the result is again gapped: in
   bounds, ordered, disjoint, no zero-width token; quotes are paired.
   What does not hold (F28, C02_condense_across_gap_refuted): the lexical shape — the run need not be
   consecutive in the TEXT, the merged token then covers characters no token of the parser covered. *)
Require Import Base Overlap OverlapProofs Tables_lexer Lexer Condense ListLemmas TokenInv CondenseInv LexerProofs
  CondPatterns3 CondPattern CondSpaces CondInitialisms CondSuffixQuotes Shape DocumentProofs
  C02Wrappers C02Gapped C02Quotes C02WrappersProofs.
From Coq Require Import List Arith Lia ZArith.
Import ListNotations.

(* ================= condense_spaces ================= *)
(* on a gapped vector the inner loop merges at most ONE child, and only a child that starts where the run ends *)
Lemma cs_inner_gapped : forall fuel copy cursor start r1 a b c,
  (forall k, nth_error copy (cursor + k) = nth_error (start :: r1) k) ->
  Gapped a b (start :: r1) -> length (start :: r1) <= fuel ->
  cs_inner fuel copy cursor c (tend start) =
    match r1 with
    | child :: _ =>
        if tend start =? tstart child then
          match tkind_of child with
          | KSpace n => Ok (cursor + 3, c + n, tend child, [cursor + 1])
          | _ => Ok (cursor + 1, c, tend start, [])
          end
        else Ok (cursor + 1, c, tend start, [])
    | [] => Ok (cursor + 1, c, tend start, [])
    end.
Proof.
  intros fuel copy cursor start r1 a b c Hnth HT Hfuel.
  destruct fuel as [|f]; [cbn [length] in Hfuel; lia|].
  cbn [cs_inner]. rewrite (Hnth 1).
  destruct r1 as [|child r2]; cbn [nth_error]; [reflexivity|].
  inversion HT as [|a0 b0 t0 ts0 Hs Hlt HT1]; subst a0 b0 t0 ts0.
  inversion HT1 as [|a1 b1 t1 ts1 Hs1 Hlt1 HT2]; subst a1 b1 t1 ts1.
  destruct (tend start =? tstart child) eqn:Eadj; cbn [negb]; [|reflexivity].
  destruct (tkind_of child) eqn:Hk; try reflexivity.
  destruct f as [|f']; [cbn [length] in Hfuel; lia|].
  cbn [cs_inner]. replace (cursor + 1 + 1 + 1) with (cursor + 3) by lia. rewrite (Hnth 3). cbn [nth_error].
  destruct r2 as [|x [|y r3]]; cbn [nth_error bind]; try reflexivity.
  inversion HT2 as [|a2 b2 t2 ts2 Hs2 Hlt2 HT3]; subst a2 b2 t2 ts2.
  inversion HT3 as [|a3 b3 t3 ts3 Hs3 Hlt3 HT4]; subst a3 b3 t3 ts3.
  replace (tend child =? tstart y) with false by (symmetry; apply Nat.eqb_neq; lia).
  reflexivity.
Qed.

Lemma cs_outer_spec_gapped : forall fuel copy cursor a b,
  Gapped a b (skipn cursor copy) -> length (skipn cursor copy) < fuel ->
  exists upd q, cs_outer fuel copy cursor = Ok (upd, q) /\
    length upd = length (skipn cursor copy) /\
    QueueIn cursor (cursor + length upd) q /\
    Grouped G_spaces (skipn cursor copy) (remove_indices cursor q upd).
Proof.
  induction fuel as [|f IH]; intros copy cursor a b HT Hf; [lia|].
  assert (Hnth : forall k, nth_error copy (cursor + k) = nth_error (skipn cursor copy) k)
    by (intros k; symmetry; apply CondSpaces.nth_error_skipn).
  assert (Hskip : forall k, skipn (cursor + k) copy = skipn k (skipn cursor copy))
    by (intros k; rewrite skipn_skipn; f_equal; lia).
  assert (Hlen : length (skipn cursor copy) <= length copy) by (rewrite skipn_length; lia).
  assert (IH' : forall k, length (skipn k (skipn cursor copy)) < f ->
            exists upd q, cs_outer f copy (cursor + k) = Ok (upd, q) /\
              length upd = length (skipn k (skipn cursor copy)) /\
              QueueIn (cursor + k) (cursor + k + length upd) q /\
              Grouped G_spaces (skipn k (skipn cursor copy)) (remove_indices (cursor + k) q upd)).
  { intros k Hk. destruct (gapped_skipn _ _ _ k HT) as [a' HT'].
    rewrite <- Hskip in *. eapply IH; eassumption. }
  clear IH.
  assert (H0 : nth_error copy cursor = nth_error (skipn cursor copy) 0) by (rewrite <- Hnth; f_equal; lia).
  cbn [cs_outer]. rewrite H0. clear H0.
  remember (skipn cursor copy) as rest eqn:Hrest. clear Hrest.
  destruct rest as [|start r1]; cbn [nth_error].
  - exists [], []. split; [reflexivity|]. split; [reflexivity|]. split; [constructor|].
    cbn [remove_indices]. constructor.
  - destruct (tkind_of start) eqn:Hk.
    5: {
      rewrite (cs_inner_gapped (length copy) copy cursor start r1 a b n Hnth HT Hlen).
      destruct r1 as [|child r2].
      - (* a Space at the very end *)
        cbn [bind]. replace (cursor + 1 + 1) with (cursor + 2) by lia.
        destruct (IH' 2) as (upd' & q' & E & L & Q & Gr); [cbn [skipn length]; cbn [length] in Hf; lia|].
        rewrite E. cbn [bind]. unfold slice. rewrite (Hskip 1). cbn [skipn] in *. rewrite firstn_nil.
        cbn [length] in L. destruct upd' as [|u upd']; [|discriminate L].
        rewrite (CondSpaces.rebuild_same start (KSpace n) Hk).
        exists ([start] ++ [] ++ []), ([] ++ q'). split; [reflexivity|]. split; [reflexivity|].
        destruct (CondSpaces.glue [start] [] [] cursor (cursor + 2) [] q') as [HR HQ];
          [constructor|exact Q|left; reflexivity|].
        split; [exact HQ|]. rewrite HR. rewrite remove_indices_nil. cbn [remove_indices app].
        apply CondSpaces.grouped_single_cons; [apply G_spaces_single|constructor].
      - assert (PASS : forall res0, res0 = Ok (cursor + 1, n, tend start, @nil nat) ->
          exists upd q,
            (do '(cur', cnt, e, rm) <- res0;
             let passed := slice copy (cursor + 1) (cur' + 1) in
             do '(rest, q0) <- cs_outer f copy (cur' + 1);
             Ok (mktok (mkspan (tstart start) e) (KSpace cnt) :: passed ++ rest, rm ++ q0)) = Ok (upd, q) /\
            length upd = length (start :: child :: r2) /\
            QueueIn cursor (cursor + length upd) q /\
            Grouped G_spaces (start :: child :: r2) (remove_indices cursor q upd)).
        { intros res0 ->.
          cbn [bind]; replace (cursor + 1 + 1) with (cursor + 2) by lia.
          destruct (IH' 2) as (upd' & q' & E & L & Q & Gr); [cbn [skipn length]; cbn [length] in Hf; lia|].
          rewrite E; cbn [bind]; unfold slice; rewrite (Hskip 1).
          replace (cursor + 2 - (cursor + 1)) with 1 by lia.
          cbn [skipn firstn] in *.
          rewrite (CondSpaces.rebuild_same start (KSpace n) Hk).
          exists ([start] ++ [child] ++ upd'), ([] ++ q').
          split; [reflexivity|].
          split; [cbn [app length]; lia|].
          destruct (CondSpaces.glue [start] [child] upd' cursor (cursor + 2) [] q') as [HR HQ];
            [constructor|exact Q|right; cbn [length]; lia|].
          split; [exact HQ|]. rewrite HR. rewrite remove_indices_nil. cbn [app].
          apply CondSpaces.grouped_single_cons; [apply G_spaces_single|].
          apply CondSpaces.grouped_single_cons; [apply G_spaces_single|exact Gr]. }
        destruct (tend start =? tstart child) eqn:Eadj; [|apply PASS; reflexivity].
        destruct (tkind_of child) eqn:Hkc; try (apply PASS; reflexivity).
        (* merge: start absorbs child, the token after child is skipped *)
        clear PASS. rename n0 into m.
        cbn [bind]. replace (cursor + 3 + 1) with (cursor + 4) by lia.
        destruct (IH' 4) as (upd' & q' & E & L & Q & Gr);
          [cbn [length] in Hf; rewrite skipn_length; cbn [length]; lia|].
        rewrite E. cbn [bind]. unfold slice. rewrite (Hskip 1).
        replace (cursor + 4 - (cursor + 1)) with 3 by lia.
        change (skipn 4 (start :: child :: r2)) with (skipn 2 r2) in L, Gr.
        change (firstn 3 (skipn 1 (start :: child :: r2))) with (child :: firstn 2 r2).
        set (st := mktok (mkspan (tstart start) (tend child)) (KSpace (n + m))).
        exists ([st; child] ++ firstn 2 r2 ++ upd'), ([cursor + 1] ++ q').
        split; [reflexivity|].
        assert (Hl2 : length upd' = length r2 - 2) by (rewrite L, skipn_length; reflexivity).
        split; [rewrite !app_length, firstn_length; cbn [length]; lia|].
        destruct (CondSpaces.glue [st; child] (firstn 2 r2) upd' cursor (cursor + 4) [cursor + 1] q') as [HR HQ].
        { cbn [length]. constructor; [lia|lia|constructor]. }
        { exact Q. }
        { destruct (le_lt_dec 2 (length r2)) as [Hge|Hlt].
          - right. rewrite firstn_length. cbn [length]. lia.
          - left. destruct upd'; [reflexivity|cbn [length] in Hl2; lia]. }
        split; [exact HQ|]. rewrite HR.
        assert (HR1 : remove_indices cursor [cursor + 1] [st; child] = [st]).
        { cbn [remove_indices]. replace (cursor =? cursor + 1) with false by (symmetry; apply Nat.eqb_neq; lia).
          replace (S cursor =? cursor + 1) with true by (symmetry; apply Nat.eqb_eq; lia). reflexivity. }
        rewrite HR1.
        assert (Hsplit : start :: child :: r2 = [start; child] ++ firstn 2 r2 ++ skipn 2 r2)
          by (rewrite firstn_skipn; reflexivity).
        rewrite Hsplit. apply grouped_app; [|apply grouped_app; [|exact Gr]].
        + apply (CondSpaces.grouped_one G_spaces [start; child] (KSpace (n + m))); [discriminate|].
          right. exists start, child, n, m. auto.
        + apply grouped_refl. apply G_spaces_single.
    }
    all: (* start is not a Space *)
      (destruct (IH' 1) as (upd' & q' & E & L & Q & Gr); [cbn [skipn length]; cbn [length] in Hf; lia|]);
      rewrite E; cbn [bind]; cbn [skipn] in *;
      exists ([start] ++ [] ++ upd'), ([] ++ q');
      (split; [reflexivity|]);
      (split; [cbn [app length]; lia|]);
      (destruct (CondSpaces.glue [start] [] upd' cursor (cursor + 1) [] q') as [HR HQ];
        [constructor|exact Q|right; cbn [length]; lia|]);
      (split; [exact HQ|]); rewrite HR; rewrite remove_indices_nil; cbn [app];
      apply CondSpaces.grouped_single_cons; [apply G_spaces_single|exact Gr].
Qed.

Theorem condense_spaces_gapped : forall a b ts, Gapped a b ts ->
  exists ts', condense_spaces ts = Ok ts' /\ Grouped G_spaces ts ts'.
Proof.
  intros a b ts HT. unfold condense_spaces.
  destruct (cs_outer_spec_gapped (S (length ts)) ts 0 a b HT ltac:(cbn [skipn]; lia)) as (upd & q & E & _ & _ & Gr).
  rewrite E. cbn [bind]. eexists. split; [reflexivity|exact Gr].
Qed.

(* ================= condense_newlines: a grouping of ANY vector ================= *)
Lemma cn_outer_spec_any : forall fuel copy cursor,
  length (skipn cursor copy) < fuel ->
  exists upd q, cn_outer fuel copy cursor = Ok (upd, q) /\
    length upd = length (skipn cursor copy) /\
    QueueIn cursor (cursor + length upd) q /\
    Grouped G_newlines (skipn cursor copy) (remove_indices cursor q upd).
Proof.
  induction fuel as [|f IH]; intros copy cursor Hf; [lia|].
  assert (Hnth : forall k, nth_error copy (cursor + k) = nth_error (skipn cursor copy) k)
    by (intros k; symmetry; apply CondSpaces.nth_error_skipn).
  assert (Hskip : forall k, skipn (cursor + k) copy = skipn k (skipn cursor copy))
    by (intros k; rewrite skipn_skipn; f_equal; lia).
  assert (Hlen : length (skipn cursor copy) <= length copy) by (rewrite skipn_length; lia).
  assert (IH' : forall k, length (skipn k (skipn cursor copy)) < f ->
            exists upd q, cn_outer f copy (cursor + k) = Ok (upd, q) /\
              length upd = length (skipn k (skipn cursor copy)) /\
              QueueIn (cursor + k) (cursor + k + length upd) q /\
              Grouped G_newlines (skipn k (skipn cursor copy)) (remove_indices (cursor + k) q upd)).
  { intros k Hk. rewrite <- Hskip in *. eapply IH; eassumption. }
  clear IH.
  assert (H0 : nth_error copy cursor = nth_error (skipn cursor copy) 0) by (rewrite <- Hnth; f_equal; lia).
  cbn [cn_outer]. rewrite H0. clear H0.
  remember (skipn cursor copy) as rest eqn:Hrest. clear Hrest.
  destruct rest as [|start r1]; cbn [nth_error].
  - exists [], []. split; [reflexivity|]. split; [reflexivity|]. split; [constructor|].
    cbn [remove_indices]. constructor.
  - destruct (tkind_of start) eqn:Hk.
    6: {
      destruct (cn_inner_spec r1 (length copy) copy cursor n (tend start)) as (run & tail & ns & Er & Em & Ei).
      { intros k. replace (cursor + 1 + k) with (cursor + S k) by lia. rewrite Hnth. reflexivity. }
      { cbn [length] in Hlen. lia. }
      subst r1. rewrite Ei. cbn [bind].
      replace (cursor + 1 + length run + 1) with (cursor + (length run + 2)) by lia.
      assert (Hsk : skipn (length run + 2) (start :: run ++ tail) = skipn 1 tail).
      { replace (length run + 2) with (S (length run + 1)) by lia.
        change (skipn (S (length run + 1)) (start :: run ++ tail)) with (skipn (length run + 1) (run ++ tail)).
        apply CondSpaces.skipn_app_len. }
      destruct (IH' (length run + 2)) as (upd' & q' & E & L & Q & Gr).
      { rewrite Hsk, skipn_length. cbn [length] in Hf. rewrite app_length in Hf. lia. }
      rewrite Hsk in L, Gr. rewrite E. cbn [bind]. unfold slice. rewrite (Hskip 1).
      replace (cursor + (length run + 2) - (cursor + 1)) with (length run + 1) by lia.
      change (skipn 1 (start :: run ++ tail)) with (run ++ tail). rewrite CondSpaces.firstn_app_len.
      set (st := mktok (mkspan (tstart start) (run_end run (tend start))) (KNewline (n + list_sum ns))).
      exists ((st :: run) ++ firstn 1 tail ++ upd'), (seq (cursor + 1) (length run) ++ q').
      split; [cbn [app]; rewrite <- app_assoc; reflexivity|].
      assert (Hl2 : length upd' = length tail - 1) by (rewrite L, skipn_length; reflexivity).
      split; [cbn [app length]; rewrite !app_length, firstn_length; lia|].
      destruct (CondSpaces.glue (st :: run) (firstn 1 tail) upd' cursor (cursor + (length run + 2))
                  (seq (cursor + 1) (length run)) q') as [HR HQ].
      { cbn [length]. eapply queue_in_weaken; [|replace (cursor + S (length run)) with (cursor + 1 + length run) by lia;
                                                 apply CondSpaces.queue_in_seq]. lia. }
      { exact Q. }
      { destruct tail as [|t tail'].
        - left. destruct upd'; [reflexivity|cbn [length] in Hl2; lia].
        - right. cbn [firstn length]. lia. }
      split; [exact HQ|]. rewrite HR.
      assert (HR1 : remove_indices cursor (seq (cursor + 1) (length run)) (st :: run) = [st]).
      { rewrite CondSpaces.remove_indices_head; [|intros r Hin; apply in_seq in Hin; lia].
        replace (cursor + 1) with (S cursor) by lia. rewrite CondSpaces.remove_indices_seq. reflexivity. }
      rewrite HR1.
      assert (Hsplit : start :: run ++ tail = (start :: run) ++ firstn 1 tail ++ skipn 1 tail)
        by (rewrite firstn_skipn; reflexivity).
      rewrite Hsplit. apply grouped_app; [|apply grouped_app; [|exact Gr]].
      - assert (Hst : st = group_token (start :: run) (KNewline (n + list_sum ns))).
        { unfold st, group_token. cbn [group_start]. rewrite run_end_group. reflexivity. }
        rewrite Hst. apply CondSpaces.grouped_one; [discriminate|].
        destruct run as [|x run'].
        + left. exists start. split; [reflexivity|].
          destruct ns; [|discriminate Em]. change (list_sum []) with 0. rewrite Nat.add_0_r. symmetry. exact Hk.
        + right. exists (n :: ns). split; [cbn [length]; lia|]. split; [cbn [map] in *; congruence|reflexivity].
      - apply grouped_refl. apply G_newlines_single.
    }
    all: (* start is not a Newline *)
      (destruct (IH' 1) as (upd' & q' & E & L & Q & Gr); [cbn [skipn length]; cbn [length] in Hf; lia|]);
      rewrite E; cbn [bind]; cbn [skipn] in *;
      exists ([start] ++ [] ++ upd'), ([] ++ q');
      (split; [reflexivity|]);
      (split; [cbn [app length]; lia|]);
      (destruct (CondSpaces.glue [start] [] upd' cursor (cursor + 1) [] q') as [HR HQ];
        [constructor|exact Q|right; cbn [length]; lia|]);
      (split; [exact HQ|]); rewrite HR; rewrite remove_indices_nil; cbn [app];
      apply CondSpaces.grouped_single_cons; [apply G_newlines_single|exact Gr].
Qed.

Theorem condense_newlines_any : forall ts,
  exists ts', condense_newlines ts = Ok ts' /\ Grouped G_newlines ts ts'.
Proof.
  intros ts. unfold condense_newlines.
  destruct (cn_outer_spec_any (S (length ts)) ts 0 ltac:(cbn [skipn]; lia)) as (upd & q & E & _ & _ & Gr).
  rewrite E. cbn [bind]. eexists. split; [reflexivity|exact Gr].
Qed.

(* ================= condense_pattern ================= *)
Lemma hull_lo_fold_g : forall r c e v, Gapped c e r -> v <= c ->
  fold_left (fun m x => Nat.min m (Nat.min (tstart x) (tend x))) r v = v.
Proof.
  intros r c e v H. revert v.
  induction H as [c e Hce|c e t ts Hs Hlt Hts IH]; intros v Hv; cbn [fold_left]; [reflexivity|].
  replace (Nat.min v (Nat.min (tstart t) (tend t))) with v by lia. apply IH. lia.
Qed.

Lemma hull_hi_fold_g : forall r t0 c e, Gapped c e r -> tend t0 <= c ->
  fold_left (fun m x => Nat.max m (Nat.max (tstart x) (tend x))) r (tend t0) = tend (last r t0).
Proof.
  induction r as [|t r IH]; intros t0 c e H Hc; [reflexivity|].
  inversion H as [|c0 e0 t' ts' Hs Hlt Hts]; subst. cbn [fold_left].
  replace (Nat.max (tend t0) (Nat.max (tstart t) (tend t))) with (tend t) by lia.
  rewrite (IH t (tend t) e Hts (le_n _)). f_equal. symmetry. apply last_cons_tok.
Qed.

Lemma hull_gapped c e g : g <> [] -> Gapped c e g -> hull g = Ok (mkspan (group_start g) (group_end g)).
Proof.
  intros Hne H. destruct (gapped_group c e g Hne H) as [_ [Hlt _]].
  destruct H as [c e Hce|c e t ts Hs Hlt' Hts]; [contradiction|]. unfold hull.
  replace (Nat.min (tstart t) (tend t)) with (tstart t) by lia.
  replace (Nat.max (tstart t) (tend t)) with (tend t) by lia.
  rewrite (hull_lo_fold_g ts (tend t) e (tstart t) Hts) by lia.
  rewrite (hull_hi_fold_g ts t (tend t) e Hts (le_n _)).
  cbn [group_start] in *. unfold group_end in *. rewrite last_cons_tok in *.
  unfold span_new.
  replace (tend (last ts t) <? tstart t) with false by (symmetry; apply Nat.ltb_ge; lia). reflexivity.
Qed.

Section PatternGapped.
  Variable m : list token -> res nat.
  Variable edit : tkind -> tkind.
  Variable ts : list token.
  Variables a b : nat.
  Hypothesis HT : Gapped a b ts.

  Lemma cp_apply_spec_gapped : forall kept lo pre, length pre = lo -> lo <= length ts -> DS m ts lo kept ->
    exists suf' q, cp_apply edit kept (pre ++ skipn lo ts) = Ok (pre ++ suf', q) /\
      (forall r, In r q -> lo <= r) /\
      Grouped (G_pattern_in ts m edit) (skipn lo ts) (remove_indices lo q suf').
  Proof.
    induction kept as [|s kept IH]; intros lo pre Hpre Hlo HD.
    - exists (skipn lo ts), []. split; [reflexivity|]. split; [intros r []|].
      rewrite remove_indices_nil. apply grouped_refl. intros t. left. exists t. split; reflexivity.
    - inversion HD as [|lo' s' rest Hls [Hm1 [Hm2 Hm3]] HD']; subst lo' s' rest.
      destruct s as [st en]. cbn [sstart send] in *.
      destruct (skipn_cons_split ts lo st en Hls Hm1 Hm2) as [A0 [t0 [g' [E1 [LA [Lg E2]]]]]].
      pose proof (firstn_skipn st ts) as Ets. rewrite E2 in Ets.
      assert (exists c e, Gapped c e (t0 :: g')) as [c [e HTg]].
      { pose proof HT as HT'. rewrite <- Ets in HT'. apply gapped_app_inv in HT' as [c [_ HT2]].
        apply gapped_app_inv in HT2 as [e [HTg _]]. exists c, e. exact HTg. }
      pose proof (hull_gapped c e (t0 :: g') ltac:(discriminate) HTg) as Hh.
      remember (mktok (mkspan (group_start (t0 :: g')) (group_end (t0 :: g'))) (edit (tkind_of t0))) as x eqn:Ex.
      destruct (IH en (pre ++ A0 ++ x :: g')) as [suf' [q' [Hcp [Hq' HG]]]].
      { rewrite !app_length. cbn [length] in *. lia. }
      { lia. }
      { exact HD'. }
      destruct (cp_step_ops (pre ++ A0) t0 g' (skipn en ts) st en) as [Hsl [Hnth Hset]].
      { rewrite app_length. lia. }
      { exact Lg. }
      { exact Hm1. }
      exists (A0 ++ (x :: g') ++ suf'), (seq (st + 1) (en - (st + 1)) ++ q').
      split; [|split].
      + cbn [cp_apply sstart send]. rewrite E1.
        replace (pre ++ A0 ++ (t0 :: g') ++ skipn en ts) with ((pre ++ A0) ++ (t0 :: g') ++ skipn en ts)
          by (rewrite <- app_assoc; reflexivity).
        rewrite Hsl. cbn [bind]. rewrite Hh. cbn [bind]. rewrite Hnth. cbn [bind].
        rewrite Hset. cbn [bind]. rewrite <- Ex.
        replace ((pre ++ A0) ++ (x :: g') ++ skipn en ts) with ((pre ++ A0 ++ x :: g') ++ skipn en ts)
          by (rewrite <- !app_assoc; reflexivity).
        rewrite Hcp. cbn [bind]. f_equal. f_equal. rewrite <- !app_assoc. reflexivity.
      + intros r Hr. apply in_app_or in Hr. destruct Hr as [Hr|Hr].
        * apply in_seq in Hr. lia.
        * apply Hq' in Hr. lia.
      + rewrite E1.
        pose proof (remove_indices_app A0 ((x :: g') ++ suf') lo [] (seq (st + 1) (en - (st + 1)) ++ q')) as R1.
        change ([] ++ seq (st + 1) (en - (st + 1)) ++ q') with (seq (st + 1) (en - (st + 1)) ++ q') in R1.
        rewrite R1; clear R1.
        2:{ constructor. }
        2:{ intros r Hr. apply in_app_or in Hr. destruct Hr as [Hr|Hr].
            - apply in_seq in Hr. lia.
            - apply Hq' in Hr. lia. }
        rewrite remove_indices_nil. replace (lo + length A0) with st by lia.
        assert (length (x :: g') = en - st) as Lx by (cbn [length] in *; lia).
        rewrite remove_indices_app.
        2:{ apply CondPattern.queue_in_seq; [lia|]. rewrite Lx. lia. }
        2:{ intros r Hr. apply Hq' in Hr. rewrite Lx. lia. }
        rewrite Lx. replace (st + (en - st)) with en by lia.
        rewrite remove_indices_group by (cbn [length] in Lg; lia).
        apply grouped_app.
        * apply grouped_refl. intros t. left. exists t. split; reflexivity.
        * replace x with (group_token (t0 :: g') (edit (tkind_of t0))) by (symmetry; exact Ex).
          cbn [app]. apply (Grouped_cons (G_pattern_in ts m edit) (t0 :: g') (edit (tkind_of t0)) (skipn en ts)).
          -- discriminate.
          -- right. exists (firstn st ts), (skipn en ts). split; [symmetry; exact Ets|].
             split; [|reflexivity]. rewrite <- E2, Hm3, Lg. reflexivity.
          -- exact HG.
  Qed.
End PatternGapped.

Theorem condense_pattern_gapped : forall m edit a b ts,
  Gapped a b ts -> matcher_ok m ts -> monotone_ends m ts ->
  exists ts', condense_pattern m edit ts = Ok ts' /\ Grouped (G_pattern_in ts m edit) ts ts'.
Proof.
  intros m edit a b ts HT Hok Hmono.
  destruct (find_all_matches_spec m ts Hmono Hok) as [kept [Hf HD]].
  destruct (cp_apply_spec_gapped m edit ts a b HT kept 0 [] eq_refl (Nat.le_0_l _) HD) as [suf' [q [Hcp [_ HG]]]].
  cbn [app skipn] in Hcp, HG.
  exists (remove_indices 0 q suf'). split; [|exact HG].
  unfold condense_pattern. rewrite Hf. cbn [bind]. rewrite Hcp. reflexivity.
Qed.

(* the Latin pattern reads the text of Word tokens: fine as long as every token lies inside the text *)
Lemma gapped_tok_ok src ts a : Gapped a (length src) ts -> Forall (tok_ok src) ts.
Proof.
  intros H. pose proof (gapped_nonempty _ _ _ H) as N. pose proof (gapped_in_range _ _ _ H) as R.
  rewrite Forall_forall in *. intros t Hin. specialize (N t Hin). specialize (R t Hin). unfold tok_ok. cbn beta in *. lia.
Qed.

Theorem latin_ok_forall : forall src ts, Forall (tok_ok src) ts ->
  matcher_ok (latin_matches src) ts /\ monotone_ends (latin_matches src) ts.
Proof.
  intros src ts F.
  assert (forall i, latin_matches src (skipn i ts)
                    = Ok (Nat.max (alt1_val src (skipn i ts)) (alt2_val src (skipn i ts)))) as SP.
  { intros i. apply latin_spec. apply forall_skipn. exact F. }
  split.
  - apply matcher_ok_local. intros i _. rewrite SP. eexists. split; [reflexivity|].
    destruct (alt_vals_le src (skipn i ts)). lia.
  - apply monotone_from_no_inner. intros i d Hd0 Hd. unfold match_len in *. rewrite SP in *.
    rewrite (Nat.add_comm i d), <- skipn_skipn.
    apply latin_no_inner; [apply forall_skipn; exact F|exact Hd0|exact Hd].
Qed.

(* ================= condense_dotted_initialisms: needs only start <= end of every token ================= *)
Theorem condense_dotted_initialisms_wf : forall ts, Forall twf ts ->
  exists ts', condense_dotted_initialisms ts = Ok ts' /\ Grouped G_initialism ts ts'.
Proof.
  intros ts Hwf. rewrite cdi_unfold.
  destruct (length ts <? 2) eqn:E.
  - exists ts. split; [reflexivity|]. apply grouped_refl. exact G_init_single.
  - apply Nat.ltb_ge in E.
    destruct (di_N ts [] [] (length ts) Hwf ltac:(lia) ltac:(lia)) as (U & Q & HE & HL & HQ & HG).
    cbn [app length Nat.add] in HE, HQ, HG. rewrite HE. cbn [bind].
    exists (remove_indices 0 (rev (rev Q ++ [])) U). split; [reflexivity|].
    rewrite app_nil_r, rev_involutive. exact HG.
Qed.

(* ================= condense_number_suffixes: needs every token non-empty and inside the text ================= *)
Theorem condense_number_suffixes_good : forall src ts, Forall (good src) ts ->
  exists ts', condense_number_suffixes src ts = Ok ts' /\ Grouped (G_suffix src) ts ts'.
Proof.
  intros src ts HF.
  unfold condense_number_suffixes. destruct (length ts <? 2) eqn:E2.
  - exists ts. split; [reflexivity|]. apply grouped_refl. apply G_suffix_single.
  - pose proof (ns_loop_spec src ts [] 0 eq_refl HF) as Hns. cbn [app length] in Hns.
    rewrite Hns. cbn [bind]. unfold condense_indices.
    pose proof (ci_update_spec src ts [] 0 eq_refl) as Hup. cbn [app] in Hup.
    rewrite Hup. cbn [bind].
    destruct (starts src 0 ts) as [|a S'] eqn:ES.
    + exists ts. rewrite (starts_nil_upd src ts 0 ES). cbn [length rev ci_chunks bind].
      unfold slice_chk.
      assert (0 <? 0 = false) as -> by reflexivity.
      assert (length ts <? 0 = false) as -> by reflexivity.
      rewrite Nat.ltb_irrefl. rewrite Nat.sub_diag.
      cbn [orb bind skipn firstn app]. rewrite Nat.sub_0_r. rewrite firstn_all.
      split; [reflexivity|]. apply grouped_refl. apply G_suffix_single.
    + destruct (chunks_spec src (length ts) ts [] 0 a S' (le_n _) eq_refl HF ES) as [mid [Hmid [_ HG]]].
      cbn [app] in Hmid, HG. rewrite Nat.sub_0_r in HG.
      assert (a + 1 < 0 + length ts) as Ha
        by (apply (starts_bounds src ts 0 a); rewrite ES; left; reflexivity).
      assert (last (a :: S') 0 + 1 < 0 + length ts) as Hl
        by (apply (starts_bounds src ts 0); rewrite ES; apply last_in).
      destruct (rev_last_head S' a) as [rr Hrev].
      exists (firstn a (upd src ts) ++ mid ++ skipn (last (a :: S') 0 + 2) (upd src ts)).
      split; [|exact HG].
      unfold slice_chk at 1.
      assert (a <? 0 = false) as -> by reflexivity.
      assert (length (upd src ts) <? a = false) as ->
        by (apply Nat.ltb_ge; rewrite upd_length; lia).
      cbn [orb bind skipn]. rewrite Nat.sub_0_r. rewrite Hmid. cbn [bind]. rewrite Hrev.
      unfold slice_chk.
      assert (length (upd src ts) <? last (a :: S') 0 + 2 = false) as ->
        by (apply Nat.ltb_ge; rewrite upd_length; lia).
      rewrite Nat.ltb_irrefl. cbn [orb bind].
      rewrite (firstn_all2 (skipn (last (a :: S') 0 + 2) (upd src ts)))
        by (rewrite skipn_length; lia).
      reflexivity.
Qed.

Lemma gapped_good src ts a : Gapped a (length src) ts -> Forall (good src) ts.
Proof.
  intros H. pose proof (gapped_nonempty _ _ _ H) as N. pose proof (gapped_in_range _ _ _ H) as R.
  rewrite Forall_forall in *. intros t Hin. specialize (N t Hin). specialize (R t Hin). unfold good. cbn beta in *. lia.
Qed.

(* ================= no pass invents a twin (no tiling needed) ================= *)
Lemma grouped_notwins (G : list token -> tkind -> Prop) :
  (forall g k, g <> [] -> G g k ->
     (exists t, In t g /\ k = tkind_of t) \/ (forall tw, k <> KPunct (PQuote tw))) ->
  forall ts ts', Grouped G ts ts' -> Forall notwin ts -> Forall notwin ts'.
Proof.
  intros HG ts ts' H. induction H as [|g k rest rest' Hne Hg Hrest IH]; intros F; [constructor|].
  apply Forall_app in F. destruct F as [Fg Fr].
  constructor; [apply notwin_group; [exact Fg|apply HG; assumption]|apply IH; exact Fr].
Qed.

Ltac gn_single := left; eexists; split; [left; reflexivity|reflexivity].
Ltac gn_other := right; intros tw; discriminate.

(* ================= the whole of Document::parse on a gapped vector ================= *)
Section PipelineGapped.
  Variable src : text.

  Theorem document_passes_gapped t0 : Gapped 0 (length src) t0 ->
    exists t9, document_passes src t0 = Ok t9 /\ Gapped 0 (length src) t9 /\ Coarse t0 t9 /\
      QuotesOkBut (unpaired_quote t9) t9 /\ (NoTwins t0 -> QuotesOk t9).
  Proof.
    intros T0.
    destruct (condense_spaces_gapped _ _ _ T0) as [t1 [E1 G1]].
    pose proof (grouped_gapped _ _ _ G1 _ _ T0) as T1.
    destruct (condense_newlines_any t1) as [t2 [E2 G2]].
    pose proof (grouped_gapped _ _ _ G2 _ _ T1) as T2.
    pose proof (newlines_to_breaks_grouped t2) as G3.
    pose proof (grouped_gapped _ _ _ G3 _ _ T2) as T3.
    destruct (condense_number_suffixes_good src _ (gapped_good src _ 0 T3)) as [t4 [E4 G4]].
    pose proof (grouped_gapped _ _ _ G4 _ _ T3) as T4.
    destruct (contraction_ok src t4) as [MO5 ME5].
    destruct (condense_pattern_gapped _ (fun k => k) _ _ _ T4 MO5 ME5) as [t5 [E5 G5]].
    pose proof (grouped_gapped _ _ _ G5 _ _ T4) as T5.
    assert (Forall twf t5) as W5.
    { eapply Forall_impl; [|exact (gapped_nonempty _ _ _ T5)]. intros t Ht. unfold twf. cbn beta in Ht. lia. }
    destruct (condense_dotted_initialisms_wf _ W5) as [t6 [E6 G6]].
    pose proof (grouped_gapped _ _ _ G6 _ _ T5) as T6.
    destruct (ellipsis_ok src t6) as [MO7 ME7].
    destruct (condense_pattern_gapped _ (fun _ => KPunct PEllipsis) _ _ _ T6 MO7 ME7) as [t7 [E7 G7]].
    pose proof (grouped_gapped _ _ _ G7 _ _ T6) as T7.
    destruct (latin_ok_forall src t7 (gapped_tok_ok src _ 0 T7)) as [MO8 ME8].
    destruct (condense_pattern_gapped _ (fun k => k) _ _ _ T7 MO8 ME8) as [t8 [E8 G8]].
    pose proof (grouped_gapped _ _ _ G8 _ _ T7) as T8.
    destruct (match_quotes_any t8) as [t9 [E9 [SB [QB HL]]]].
    assert (Gapped 0 (length src) t9) as T9 by (destruct SB as [S1 _]; eapply same_spans_gapped; [exact S1|exact T8]).
    exists t9. split; [|split; [exact T9|split; [|split]]].
    - unfold document_passes. rewrite E1. cbn [bind]. rewrite E2. cbn [bind]. cbv zeta.
      rewrite E4. cbn [bind]. unfold condense_contractions. rewrite E5. cbn [bind]. rewrite E6. cbn [bind].
      unfold condense_ellipsis. rewrite E7. cbn [bind]. unfold condense_latin. rewrite E8. cbn [bind].
      rewrite E9. cbn [bind].
      rewrite (word_lookup_good src t9 (gapped_good src _ 0 T9)). reflexivity.
    - eapply coarse_trans; [eapply grouped_coarse; exact G1|].
      eapply coarse_trans; [eapply grouped_coarse; exact G2|].
      eapply coarse_trans; [eapply grouped_coarse; exact G3|].
      eapply coarse_trans; [eapply grouped_coarse; exact G4|].
      eapply coarse_trans; [eapply grouped_coarse; exact G5|].
      eapply coarse_trans; [eapply grouped_coarse; exact G6|].
      eapply coarse_trans; [eapply grouped_coarse; exact G7|].
      eapply coarse_trans; [eapply grouped_coarse; exact G8|].
      destruct SB as [S1 _]. apply same_spans_coarse. exact S1.
    - (* the unpaired quote of t8 is the unpaired quote of t9: same kinds up to twins *)
      assert (quote_indices t9 0 = quote_indices t8 0) as EQ.
      { destruct SB as [_ S2]. clear -S2. generalize 0. revert t9 S2.
        induction t8 as [|x l IH]; intros t9 S2 i.
        - destruct t9; [reflexivity|discriminate].
        - destruct t9 as [|y l']; [discriminate|]. cbn [map] in S2. injection S2 as A B.
          cbn [quote_indices]. rewrite (IH l' B (S i)).
          assert (is_quote (tkind_of y) = is_quote (tkind_of x)) as ->; [|reflexivity].
          unfold strip_twin in A. destruct (tkind_of y) as [|p| | | | | | | | | |];
            destruct (tkind_of x) as [|p0| | | | | | | | | |]; try discriminate; try reflexivity;
            try (destruct p; discriminate); try (destruct p0; discriminate).
          destruct p; destruct p0; try discriminate; reflexivity. }
      unfold unpaired_quote. rewrite EQ. exact QB.
    - intros NT.
      assert (Forall notwin t8) as NT8.
      { assert (Forall notwin t0) as N0 by exact NT.
        pose proof (grouped_notwins G_spaces) as K1.
        assert (Forall notwin t1) as N1.
        { eapply K1; [|exact G1|exact N0].
          intros g k _ [[t [-> ->]]|[x [y [n1 [n2 [-> [_ [_ ->]]]]]]]]; [gn_single|gn_other]. }
        assert (Forall notwin t2) as N2.
        { eapply (grouped_notwins G_newlines); [|exact G2|exact N1].
          intros g k _ [[t [-> ->]]|[ns [_ [_ ->]]]]; [gn_single|gn_other]. }
        assert (Forall notwin (newlines_to_breaks t2)) as N3.
        { eapply (grouped_notwins G_breaks); [|exact G3|exact N2].
          intros g k _ [t [-> ->]]. unfold newline_to_break.
          destruct (tkind_of t) as [ |p| |nb|sn|n| | | | | | ] eqn:E;
            try (left; exists t; split; [left; reflexivity|reflexivity]).
          destruct (2 <=? n).
          - right. intros tw. cbn [tkind_of]. discriminate.
          - left. exists t. split; [left; reflexivity|reflexivity]. }
        assert (Forall notwin t4) as N4.
        { eapply (grouped_notwins (G_suffix src)); [|exact G4|exact N3].
          intros g k _ [[t [-> ->]]|[x [y [nb [cs [sfx [-> [_ [_ [_ [_ [_ ->]]]]]]]]]]]]; [gn_single|gn_other]. }
        assert (Forall notwin t5) as N5.
        { eapply (grouped_notwins (G_pattern_in t4 (contraction_matches src) (fun k => k))); [|exact G5|exact N4].
          intros g k Hne [[t [-> ->]]|[pre [rest [_ [_ ->]]]]]; [gn_single|].
          left. exists (hd dummy_tok g). split; [apply hd_in; exact Hne|reflexivity]. }
        assert (Forall notwin t6) as N6.
        { eapply (grouped_notwins G_initialism); [|exact G6|exact N5].
          intros g k _ [[t [-> ->]]|[_ [_ ->]]]; [gn_single|gn_other]. }
        assert (Forall notwin t7) as N7.
        { eapply (grouped_notwins (G_pattern_in t6 (ellipsis_matches src) (fun _ => KPunct PEllipsis))); [|exact G7|exact N6].
          intros g k _ [[t [-> ->]]|[pre [rest [_ [_ ->]]]]]; [gn_single|gn_other]. }
        eapply (grouped_notwins (G_pattern_in t7 (latin_matches src) (fun k => k))); [|exact G8|exact N7].
        intros g k Hne [[t [-> ->]]|[pre [rest [_ [_ ->]]]]]; [gn_single|].
        left. exists (hd dummy_tok g). split; [apply hd_in; exact Hne|reflexivity]. }
      destruct (match_quotes_ok_if t8 (notwins_unpaired t8 NT8)) as [t9' [E9' [_ QO]]].
      assert (t9' = t9) as -> by congruence. exact QO.
  Qed.
End PipelineGapped.

(* ================= the wrapped plain-English documents ================= *)
Lemma sub_notwins xs ys : Sub xs ys -> NoTwins ys -> NoTwins xs.
Proof. intros HS H. unfold NoTwins in *. eapply sub_forall; eauto. Qed.

(* PlainEnglish wrapped by IsolateEnglish: never panics, the tokens are a gapped tiling of the text (in bounds,
   ordered, disjoint, none zero-width), quotes are paired — for ANY Unicode tables and ANY dictionary *)
Theorem document_plain_ie_gapped u dict s :
  exists ts, document_plain_ie u dict s = Ok ts /\ Gapped 0 (length s) ts /\ QuotesOk ts.
Proof.
  destruct (plain_tiling u s) as [t0 [E0 T0]].
  pose proof (plain_loop_notwins u _ _ _ _ E0) as N0.
  destruct (isolate_english_gapped dict s t0 0 (length s) (Nat.le_0_l _) (le_n _) (tiling_gapped _ _ _ T0))
    as [k [Ek [Sk Gk]]].
  destruct (document_passes_gapped s k Gk) as [t9 [E9 [G9 [_ [_ Q9]]]]].
  exists t9. split; [unfold document_plain_ie; rewrite E0; cbn [bind]; rewrite Ek; cbn [bind]; exact E9|].
  split; [exact G9|]. apply Q9. eapply sub_notwins; eauto.
Qed.

(* PlainEnglish wrapped by CollapseIdentifiers: never panics, the tokens still TILE the text, quotes are paired *)
Theorem document_plain_ci_tiling u dict s :
  exists ts, document_plain_ci u dict s = Ok ts /\ Tiling 0 (length s) ts /\ QuotesOk ts.
Proof.
  destruct (plain_tiling u s) as [r0 [E0 R0]].
  pose proof (plain_loop_notwins u _ _ _ _ E0) as NR.
  destruct (collapse_identifiers_tiling dict s r0 R0) as [t0 [Ec [Gc T0]]].
  assert (Forall notwin t0) as N0.
  { eapply (grouped_notwins (G_ident dict s)); [|exact Gc|exact NR].
    intros g k _ [[t [-> ->]]|[_ [_ [-> _]]]]; [gn_single|gn_other]. }
  destruct (passes_exist s t0 T0) as [t8 R]. pose proof R as R'. destruct R'.
  pose proof (grouped_inv _ _ _ nt_spaces _ _ pr_g1 _ _ T0 N0) as N1.
  pose proof (grouped_inv _ _ _ nt_newlines _ _ pr_g2 _ _ pr_T1 N1) as N2.
  pose proof (grouped_inv _ _ _ nt_breaks _ _ pr_g3 _ _ pr_T2 N2) as N3.
  pose proof (grouped_inv _ _ _ (nt_suffix s) _ _ pr_g4 _ _ pr_T3 N3) as N4.
  pose proof (grouped_inv _ _ _ (nt_pattern_id _) _ _ pr_g5 _ _ pr_T4 N4) as N5.
  pose proof (grouped_inv _ _ _ nt_initialism _ _ pr_g6 _ _ pr_T5 N5) as N6.
  pose proof (grouped_inv _ _ _ (nt_ellipsis _) _ _ pr_g7 _ _ pr_T6 N6) as N7.
  pose proof (grouped_inv _ _ _ (nt_pattern_in_id _ _) _ _ pr_g8 _ _ pr_T7 N7) as N8.
  destruct (passes_run_document s t0 t8 R N8) as [t9 [E9 [T9 [SB QO]]]].
  exists t9. split; [unfold document_plain_ci; rewrite E0; cbn [bind]; rewrite Ec; cbn [bind]; exact E9|].
  split; assumption.
Qed.

(* ================= finding F28 over the model ================= *)
(* "a. zz q.." with a dictionary that knows only `a`: PlainEnglish::parse tiles the nine characters;
   IsolateEnglish keeps the chunks `a.` and the final `.` (fewer than four tokens each) and drops the chunk
   ` zz q.` (five tokens, no known word); Document::parse then sees the two periods as NEIGHBOURS IN THE VECTOR
   and condense_ellipsis makes one Ellipsis token 1..9 of them — over the text `. zz q..`, which is neither `…`
   nor a run of periods: the shape clause of the property fails, bounds and order do not. *)
Definition f28_src : text := [97; 46; 32; 122; 122; 32; 113; 46; 46]%N.
Definition f28_dict : text -> bool := dict_of [[97%N]].
Definition f28_raw : list token :=
  [mktok (mkspan 0 1) KWord; mktok (mkspan 1 2) (KPunct PPeriod); mktok (mkspan 2 3) (KSpace 1);
   mktok (mkspan 3 5) KWord; mktok (mkspan 5 6) (KSpace 1); mktok (mkspan 6 7) KWord;
   mktok (mkspan 7 8) (KPunct PPeriod); mktok (mkspan 8 9) (KPunct PPeriod)].
Definition f28_kept : list token :=
  [mktok (mkspan 0 1) KWord; mktok (mkspan 1 2) (KPunct PPeriod); mktok (mkspan 8 9) (KPunct PPeriod)].
Definition f28_out : list token := [mktok (mkspan 0 1) KWord; mktok (mkspan 1 9) (KPunct PEllipsis)].

Theorem condense_across_gap_witness :
  plain_parse ascii_uni f28_src = Ok f28_raw /\
  isolate_english f28_dict f28_src f28_raw = Ok f28_kept /\
  Gapped 0 (length f28_src) f28_kept /\
  document_passes f28_src f28_kept = Ok f28_out /\
  Gapped 0 (length f28_src) f28_out /\
  ~ Shape ascii_uni true true f28_src f28_out.
Proof.
  split; [vm_compute; reflexivity|]. split; [vm_compute; reflexivity|]. split.
  - unfold f28_kept. repeat (constructor; [cbn; lia|cbn; lia|]). constructor. cbn. lia.
  - split; [vm_compute; reflexivity|]. split.
    + unfold f28_out. repeat (constructor; [cbn; lia|cbn; lia|]). constructor. cbn. lia.
    + intros H. unfold Shape, f28_out in H. inversion H as [|x l _ H2]; subst.
      inversion H2 as [|x l [_ K] _]; subst. cbn in K. destruct K as [K|[_ K]]; [discriminate|].
      inversion K as [|c r _ K2]; subst. inversion K2 as [|c r E _]; subst. discriminate.
Qed.

(* ---------- non-vacuity of the wrapper theorems ---------- *)
Example f28_raw_tiling : Tiling 0 (length f28_src) f28_raw /\ TokInv (length f28_src) f28_raw /\ NoTwins f28_raw.
Proof.
  assert (Tiling 0 (length f28_src) f28_raw) as T.
  { unfold f28_raw. repeat (constructor; [reflexivity|cbn; lia|]). constructor. }
  split; [exact T|]. split; [apply gapped_tokinv; apply tiling_gapped; exact T|].
  unfold NoTwins, f28_raw. repeat constructor; intros tw E; discriminate.
Qed.

(* "a_b c-d" with a dictionary that knows `a_b` only: the first identifier is collapsed, the second is not *)
Definition ci_src : text := [97; 95; 98; 32; 99; 45; 100]%N.
Definition ci_raw : list token :=
  [mktok (mkspan 0 1) KWord; mktok (mkspan 1 2) (KPunct PUnderscore); mktok (mkspan 2 3) KWord;
   mktok (mkspan 3 4) (KSpace 1);
   mktok (mkspan 4 5) KWord; mktok (mkspan 5 6) (KPunct PHyphen); mktok (mkspan 6 7) KWord].
Example collapse_example :
  plain_parse ascii_uni ci_src = Ok ci_raw /\
  collapse_identifiers (dict_of [[97; 95; 98]%N]) ci_src ci_raw
  = Ok [mktok (mkspan 0 3) KWord; mktok (mkspan 3 4) (KSpace 1);
        mktok (mkspan 4 5) KWord; mktok (mkspan 5 6) (KPunct PHyphen); mktok (mkspan 6 7) KWord] /\
  Tiling 0 (length ci_src) ci_raw.
Proof.
  split; [vm_compute; reflexivity|]. split; [vm_compute; reflexivity|].
  unfold ci_raw. repeat (constructor; [reflexivity|cbn; lia|]). constructor.
Qed.

Print Assumptions document_passes_gapped.
Print Assumptions document_plain_ie_gapped.
Print Assumptions document_plain_ci_tiling.
Print Assumptions condense_across_gap_witness.
