(* WordsMaximal.v — a Word token of PlainEnglish::parse is a WHOLE word: two Word tokens are never adjacent in
   the raw token stream.  (Before 7202fd4 lex_plural_digit looked ahead with is_ascii_alphanumeric and cut
   `as` off `asüsociations`: see plural_digit_old_splits_a_word below.)  The statement is about the RAW tokens;
   Document::parse legitimately leaves `a.` `b` (a closed initialism followed by a word) adjacent. *)
Require Import Base Overlap Tables_lexer Lexer Condense ListLemmas TokenInv LexerProofs.
From Coq Require Import Lia.

(* the Unicode laws needed (all monitored by the harness over every scalar value) *)
Definition word_laws (u : uni) : Prop :=
  (forall c, u_lingual u c = true -> u_alphabetic u c = true) /\
  (forall c, is_ascii_alphabetic c = true -> u_lingual u c = true) /\
  (forall c, is_ascii_digit c = true -> u_numeric u c = true).

Fixpoint NoAdjacentWords (ts : list token) : Prop :=
  match ts with
  | t1 :: ((t2 :: _) as r) => ~ (tkind_of t1 = KWord /\ tkind_of t2 = KWord) /\ NoAdjacentWords r
  | _ => True
  end.

Section WordsMaximal.
  Variable u : uni.
  Hypothesis laws : word_laws u.

  (* a character a Word token can start with *)
  Definition wstart (c : N) : bool := is_ascii_alphanumeric c || u_lingual u c || is_ascii_digit c.

  Lemma wstart_alnum c : wstart c = true -> u_alphanumeric u c = true.
  Proof.
    destruct laws as [L1 [L2 L3]]. unfold wstart, u_alphanumeric, is_ascii_alphanumeric. intros H.
    apply orb_prop in H. destruct H as [H|H]; [apply orb_prop in H; destruct H as [H|H]|].
    - apply orb_prop in H. destruct H as [H|H].
      + rewrite (L1 c (L2 c H)). reflexivity.
      + rewrite (L3 c H). apply orb_true_r.
    - rewrite (L1 c H). reflexivity.
    - rewrite (L3 c H). apply orb_true_r.
  Qed.

  Lemma wstart_word c : wstart c = true -> u_lingual u c || is_ascii_digit c = true.
  Proof.
    destruct laws as [L1 [L2 L3]]. unfold wstart, is_ascii_alphanumeric. intros H.
    apply orb_prop in H. destruct H as [H|H]; [apply orb_prop in H; destruct H as [H|H]|].
    - apply orb_prop in H. destruct H as [H|H]; [rewrite (L2 c H); reflexivity|rewrite H; apply orb_true_r].
    - rewrite H. reflexivity.
    - rewrite H. apply orb_true_r.
  Qed.

  (* only lex_plural_digit and lex_word produce Word tokens *)
  Lemma word_from u' src n : lex_token u' src = Some (n, KWord) ->
    lex_plural_digit u' src = Some (n, KWord) \/ lex_word u' src = Some (n, KWord).
  Proof.
    unfold lex_token.
    repeat match goal with
           | |- or_else ?a _ = Some _ -> _ =>
               let E := fresh "E" in destruct a as [[n' k']|] eqn:E; cbn [or_else];
               [intros H; assert (n' = n /\ k' = KWord) as [-> ->] by (split; congruence); clear H|]
           end.
    - exfalso. unfold lex_regexish in E. destruct src as [|c r]; [discriminate|]. destruct (ceq c 91); [|discriminate].
      destruct (regex_loop u' r 1); discriminate.
    - exfalso. unfold lex_punctuation, lex_quote in E0. destruct src as [|c r]; [discriminate|].
      destruct (mem_n c quote_chars); [discriminate|]. destruct (punct_from_char c); discriminate.
    - exfalso. unfold lex_tabs in E1. cbv zeta in E1. destruct (_ =? 0); discriminate.
    - exfalso. unfold lex_spaces in E2. cbv zeta in E2. destruct (_ =? 0); discriminate.
    - exfalso. unfold lex_newlines in E3. cbv zeta in E3. destruct (_ =? 0); discriminate.
    - left. reflexivity.
    - exfalso. unfold lex_hex_number in E5. destruct src as [|c0 [|c1 [|c2 r]]]; try discriminate.
      destruct (_ || _ || _); [discriminate|]. cbv zeta in E5.
      destruct (negb _); [discriminate|]. destruct (_ <? _)%N; discriminate.
    - exfalso. unfold lex_long_decade in E6.
      destruct src as [|c0 [|c1 [|c2 [|c3 [|c4 rest]]]]]; try discriminate.
      repeat match type of E6 with (if ?b then None else _) = _ => destruct b; [discriminate|] end.
      destruct rest as [|c5 r]; [discriminate|]. destruct (u_alphanumeric u' c5); discriminate.
    - exfalso. unfold lex_number in E7. destruct src as [|c0 r]; [discriminate|].
      destruct (negb _); [discriminate|]. cbv zeta in E7.
      destruct (rposition _ _); [|discriminate].
      revert E7. generalize (firstn (S n0) (c0 :: r)). intros s. generalize (length s).
      induction n1 as [|m IH]; cbn [longest_float]; [discriminate|]. cbv zeta.
      destruct (parse_finite (firstn (S m) s)) as [[[neg mant] ex]|]; [discriminate|exact IH].
    - exfalso. unfold lex_url in E8. destruct (position (ceq 58) src); [|discriminate].
      destruct (negb _); [discriminate|]. destruct (lex_ip_schemepart u' _); discriminate.
    - exfalso. unfold lex_email_address in E9. cbv zeta in E9.
      destruct (rposition _ _); [|discriminate]. destruct (negb _); [discriminate|].
      destruct (lex_hostname _); [|discriminate]. destruct (_ =? 0); discriminate.
    - exfalso. unfold lex_hostname_token in E10. destruct (lex_hostname src); [|discriminate].
      destruct (_ <=? 1); [discriminate|]. destruct (negb _); [discriminate|].
      destruct (nth_error _ _); [destruct (ceq _ 46); [discriminate|]|]; discriminate.
    - right. reflexivity.
    - unfold lex_catch. discriminate.
  Qed.

  Definition head_not_wstart (l : text) : Prop :=
    match l with [] => True | d :: _ => wstart d = false end.

  Lemma not_alnum_not_wstart d : u_alphanumeric u d = false -> wstart d = false.
  Proof. intros H. destruct (wstart d) eqn:W; [|reflexivity]. apply wstart_alnum in W. congruence. Qed.

  Lemma count_while_stop (p : N -> bool) l d r : skipn (count_while p l) l = d :: r -> p d = false.
  Proof.
    induction l as [|x l IH]; [discriminate|]. cbn [count_while]. destruct (p x) eqn:E; [exact IH|].
    cbn [skipn]. intros H. injection H as <- _. exact E.
  Qed.

  (* a Word token starts with a word-start character ... *)
  Lemma word_starts src n : lex_token u src = Some (n, KWord) -> exists c r, src = c :: r /\ wstart c = true.
  Proof.
    intros H. apply word_from in H. destruct H as [H|H].
    - unfold lex_plural_digit in H. destruct src as [|c0 r1]; [discriminate|].
      destruct (is_ascii_alphanumeric c0) eqn:A; cbn [negb] in H; [|discriminate].
      exists c0, r1. split; [reflexivity|]. unfold wstart. rewrite A. reflexivity.
    - unfold lex_word in H. cbv zeta in H. destruct src as [|c r]; [discriminate|].
      cbn [count_while] in H. destruct (u_lingual u c || is_ascii_digit c) eqn:P; [|discriminate].
      exists c, r. split; [reflexivity|]. unfold wstart. apply orb_prop in P. destruct P as [P|P]; rewrite P.
      + rewrite orb_true_r. reflexivity.
      + apply orb_true_r.
  Qed.

  (* ... and is followed by the end of the text or by a character no Word token can start with *)
  Lemma word_ends src n : lex_token u src = Some (n, KWord) -> head_not_wstart (skipn n src).
  Proof.
    intros H. apply word_from in H. destruct H as [H|H].
    - unfold lex_plural_digit in H. destruct src as [|c0 r1]; [discriminate|].
      destruct (negb (is_ascii_alphanumeric c0)); [discriminate|].
      destruct r1 as [|c t]; [discriminate|].
      destruct (ceq c 39).
      + destruct t as [|c' t']; [discriminate|]. destruct (ceq c' 115); [|discriminate].
        destruct t' as [|d t''].
        * injection H as <-. exact I.
        * destruct (u_alphanumeric u d) eqn:A; cbn [negb] in H; [discriminate|].
          injection H as <-. cbn [Nat.add skipn head_not_wstart]. apply not_alnum_not_wstart. exact A.
      + destruct (ceq c 115); [|discriminate].
        destruct t as [|d t''].
        * injection H as <-. exact I.
        * destruct (u_alphanumeric u d) eqn:A; cbn [negb] in H; [discriminate|].
          injection H as <-. cbn [Nat.add skipn head_not_wstart]. apply not_alnum_not_wstart. exact A.
    - unfold lex_word in H. cbv zeta in H.
      set (p := fun c => u_lingual u c || is_ascii_digit c) in *.
      destruct (count_while p src =? 0); [discriminate|].
      assert (n = count_while p src) as -> by congruence.
      unfold head_not_wstart.
      destruct (skipn (count_while p src) src) as [|d r] eqn:Es; [exact I|].
      apply count_while_stop in Es.
      destruct (wstart d) eqn:W; [|reflexivity]. apply wstart_word in W. unfold p in Es. rewrite W in Es. discriminate.
  Qed.

  Lemma plain_loop_head : forall fuel cursor rest t tl,
    plain_loop u fuel cursor rest = Ok (t :: tl) -> exists n, lex_token u rest = Some (n, tkind_of t).
  Proof.
    intros fuel cursor rest t tl H. destruct rest as [|c r]; [destruct fuel; discriminate|].
    destruct fuel as [|f]; [discriminate|]. cbn [plain_loop] in H.
    destruct (lex_token u (c :: r)) as [[n k]|]; [|discriminate].
    destruct (span_new cursor (cursor + n)) as [sp|]; [|discriminate]. cbn [bind] in H.
    destruct (plain_loop u f (cursor + n) (skipn n (c :: r))) as [tl'|]; [|discriminate]. cbn [bind] in H.
    exists n. assert (t = mktok sp k) as -> by congruence. reflexivity.
  Qed.

  Lemma plain_loop_maximal : forall fuel cursor rest ts,
    plain_loop u fuel cursor rest = Ok ts -> NoAdjacentWords ts.
  Proof.
    induction fuel as [|f IH]; intros cursor rest ts H.
    - destruct rest; cbn in H; [|discriminate]. assert (ts = []) as -> by congruence. exact I.
    - destruct rest as [|c r]; [cbn in H; assert (ts = []) as -> by congruence; exact I|].
      cbn [plain_loop] in H. destruct (lex_token u (c :: r)) as [[n k]|] eqn:E; [|discriminate].
      destruct (span_new cursor (cursor + n)) as [sp|]; [|discriminate]. cbn [bind] in H.
      destruct (plain_loop u f (cursor + n) (skipn n (c :: r))) as [tl|] eqn:Etl; [|discriminate].
      cbn [bind] in H. assert (ts = mktok sp k :: tl) as -> by congruence.
      pose proof (IH _ _ _ Etl) as Htl. destruct tl as [|t2 tl2]; [exact I|].
      cbn [NoAdjacentWords]. split; [|exact Htl].
      intros [K1 K2]. cbn [tkind_of] in K1. subst k.
      destruct (plain_loop_head _ _ _ _ _ Etl) as [n2 E2]. rewrite K2 in E2.
      pose proof (word_ends _ _ E) as We. destruct (word_starts _ _ E2) as [d [r2 [Er Wd]]].
      rewrite Er in We. cbn [head_not_wstart] in We. congruence.
  Qed.

  Theorem plain_words_maximal s ts : plain_parse u s = Ok ts -> NoAdjacentWords ts.
  Proof. unfold plain_parse. apply plain_loop_maximal. Qed.
End WordsMaximal.

Lemma ascii_uni_word_laws : word_laws ascii_uni.
Proof.
  split; [|split]; intros c H; cbn in *; exact H.
Qed.

(* history (FC06a, repaired by 7202fd4): with the ASCII-only look-ahead `as` was cut off `asüs`.
   `uni_u_umlaut` knows one non-ASCII letter, ü (U+00FC). *)
Definition lex_plural_digit_old (src : text) : option (nat * tkind) :=
  match src with
  | [] => None
  | c0 :: r1 =>
      if negb (is_ascii_alphanumeric c0) then None else
      let '(i, r2) := match r1 with
                      | c :: t => if ceq c 39 then (2, t) else (1, r1)
                      | [] => (1, r1)
                      end in
      match r2 with
      | c :: t => if ceq c 115 then
                    match t with
                    | [] => Some (i + 1, KWord)
                    | d :: _ => if negb (is_ascii_alphanumeric d) then Some (i + 1, KWord) else None
                    end
                  else None
      | [] => None
      end
  end.
Definition uni_u_umlaut : uni :=
  mkuni (fun c => in_range 9 13 c || ceq c 32) is_ascii_digit
        (fun c => is_ascii_alphabetic c || ceq c 252) (fun c => is_ascii_alphabetic c || ceq c 252).

Example plural_digit_old_splits_a_word :
  word_laws uni_u_umlaut /\
  lex_plural_digit_old [97; 115; 252; 115]%N = Some (2, KWord) /\
  lex_plural_digit uni_u_umlaut [97; 115; 252; 115]%N = None /\
  plain_parse uni_u_umlaut [97; 115; 252; 115]%N = Ok [mktok (mkspan 0 4) KWord].
Proof.
  split; [|vm_compute; repeat split; reflexivity].
  split; [|split]; intros c H; cbn in *; try exact H. rewrite H. reflexivity.
Qed.
