(* NumberPasses.v — C17, Document::parse layer.  The passes before condense_number_suffixes (spaces, newlines,
   newlines_to_breaks) neither remove nor alter a Number token or the two-letter word that follows it; the
   passes after it (contractions, dotted initialisms) neither remove nor alter the merged Number token; none
   of them panics on the token lists the lexer produces. *)
Require Import Base Overlap Suggestion Tables_number Number NumberArith ListLemmas SuggestionProofs NumberLex.
From Coq Require Import List Arith NArith Bool Lia.
Import ListNotations.

(* ------------------------------------------------------------------------------------------------ *)
(* remove_indices: only queued indices are removed, order is kept                                      *)
(* ------------------------------------------------------------------------------------------------ *)
Lemma ri_app {A} : forall (xs ys : list A) (i : nat) (q : list nat),
  exists q', incl q' q /\ remove_indices i q (xs ++ ys) = remove_indices i q xs ++ remove_indices (i + length xs) q' ys.
Proof.
  induction xs as [|x xs IH]; intros ys i q.
  - exists q. split; [apply incl_refl|]. cbn [app length remove_indices]. rewrite Nat.add_0_r.
    destruct ys; reflexivity.
  - cbn [app remove_indices length]. destruct q as [|r q0].
    + destruct (IH ys (S i) []) as [q' [Hi He]]. exists q'. split; [exact Hi|].
      rewrite He. cbn [app]. f_equal. f_equal. f_equal. lia.
    + destruct (i =? r).
      * destruct (IH ys (S i) q0) as [q' [Hi He]]. exists q'. split; [apply incl_tl; exact Hi|].
        rewrite He. f_equal. f_equal. lia.
      * destruct (IH ys (S i) (r :: q0)) as [q' [Hi He]]. exists q'. split; [exact Hi|].
        rewrite He. cbn [app]. f_equal. f_equal. f_equal. lia.
Qed.
Lemma ri_keep {A} (x : A) (ys : list A) (i : nat) (q : list nat) :
  (forall r, In r q -> r <> i) -> remove_indices i q (x :: ys) = x :: remove_indices (S i) q ys.
Proof.
  intros H. cbn [remove_indices]. destruct q as [|r q0]; [reflexivity|].
  destruct (i =? r) eqn:E; [|reflexivity]. apply Nat.eqb_eq in E. exfalso. apply (H r); [left; reflexivity | lia].
Qed.
Lemma ri_in {A} : forall (xs : list A) (i : nat) (q : list nat) (x : A), In x (remove_indices i q xs) -> In x xs.
Proof.
  induction xs as [|y xs IH]; intros i q x H; [exact H|].
  cbn [remove_indices] in H. destruct q as [|r q0].
  - destruct H as [H|H]; [left; exact H | right; eapply IH; exact H].
  - destruct (i =? r).
    + right; eapply IH; exact H.
    + destruct H as [H|H]; [left; exact H | right; eapply IH; exact H].
Qed.
Lemma ri_forall {A} (P : A -> Prop) (xs : list A) (i : nat) (q : list nat) :
  Forall P xs -> Forall P (remove_indices i q xs).
Proof. rewrite !Forall_forall. intros H x Hx. apply H. eapply ri_in. exact Hx. Qed.

(* the shape  A ++ Nt :: Wt :: B  survives remove_indices when neither Nt nor Wt is queued *)
Lemma ri_shape {A} (L : list A) (n w : A) (R : list A) (rm : list nat) :
  (forall j, In j rm -> j <> length L /\ j <> S (length L)) ->
  exists L' R', remove_indices 0 rm (L ++ n :: w :: R) = L' ++ n :: w :: R'
    /\ (forall P, Forall P L -> Forall P L') /\ (forall P, Forall P R -> Forall P R')
    /\ ((forall j, In j rm -> j <> S (S (length L))) -> match R with b :: _ => exists R'', R' = b :: R'' | [] => R' = [] end).
Proof.
  intros H.
  destruct (ri_app L (n :: w :: R) 0 rm) as [q1 [Hq1 E1]]. cbn [Nat.add] in E1.
  rewrite E1.
  rewrite (ri_keep n (w :: R) (length L) q1) by (intros r Hr; apply (H r); apply Hq1; exact Hr).
  rewrite (ri_keep w R (S (length L)) q1) by (intros r Hr; apply (H r); apply Hq1; exact Hr).
  exists (remove_indices 0 rm L), (remove_indices (S (S (length L))) q1 R).
  split; [reflexivity|]. split; [intros P; apply ri_forall|]. split; [intros P; apply ri_forall|].
  intros H2. destruct R as [|b R0]; [reflexivity|].
  rewrite ri_keep by (intros r Hr; apply H2; apply Hq1; exact Hr). eexists; reflexivity.
Qed.

(* the shape  A ++ Nt :: B  survives remove_indices when Nt is not queued *)
Lemma ri_shape1 {A} (L : list A) (n : A) (R : list A) (rm : list nat) :
  (forall j, In j rm -> j <> length L) ->
  exists L' R', remove_indices 0 rm (L ++ n :: R) = L' ++ n :: R'
    /\ (forall P, Forall P L -> Forall P L') /\ (forall P, Forall P R -> Forall P R').
Proof.
  intros H.
  destruct (ri_app L (n :: R) 0 rm) as [q1 [Hq1 E1]]. cbn [Nat.add] in E1.
  rewrite E1.
  rewrite (ri_keep n R (length L) q1) by (intros r Hr; apply (H r); apply Hq1; exact Hr).
  exists (remove_indices 0 rm L), (remove_indices (S (length L)) q1 R).
  split; [reflexivity|]. split; intros P; apply ri_forall.
Qed.

(* ------------------------------------------------------------------------------------------------ *)
(* pointwise updates                                                                                  *)
(* ------------------------------------------------------------------------------------------------ *)
(* y is x, or x was touchable (K) and y is still of the kind K2 *)
Definition upd (K K2 : token -> bool) (x y : token) : Prop := y = x \/ (K x = true /\ K2 y = true).

Lemma set_nth_ok {A} (l : list A) (i : nat) (y y' : A) :
  nth_error l i = Some y ->
  exists a b, l = a ++ y :: b /\ length a = i /\ set_nth l i y' = Ok (a ++ y' :: b).
Proof.
  intros H. apply nth_error_split in H. destruct H as (a & b & -> & Hl).
  exists a, b. split; [reflexivity|]. split; [exact Hl|]. rewrite <- Hl. apply set_nth_mid.
Qed.

Lemma Forall2_upd_set (R : token -> token -> Prop) (l1 l2 a b : list token) (y y' : token) :
  Forall2 R l1 l2 -> l2 = a ++ y :: b -> (forall x, R x y -> R x y') -> Forall2 R l1 (a ++ y' :: b).
Proof.
  intros HF -> Hy. apply Forall2_app_inv_r in HF. destruct HF as (a1 & r1 & Ha & Hr & ->).
  inversion Hr as [|x ? b1 ? Hxy Hb]; subst. apply Forall2_app; [exact Ha|]. constructor; [apply Hy; exact Hxy | exact Hb].
Qed.

Lemma F2_length {A B} (R : A -> B -> Prop) (l1 : list A) (l2 : list B) : Forall2 R l1 l2 -> length l1 = length l2.
Proof. induction 1; cbn [length]; congruence. Qed.
Lemma Forall2_nth {A B} (R : A -> B -> Prop) (l1 : list A) (l2 : list B) (i : nat) (y : B) :
  Forall2 R l1 l2 -> nth_error l2 i = Some y -> exists x, nth_error l1 i = Some x /\ R x y.
Proof.
  intros HF. revert i. induction HF as [|x0 y0 l1 l2 H0 HF IH]; intros i Hn.
  - destruct i; discriminate.
  - destruct i as [|i]; cbn [nth_error] in *.
    + injection Hn as <-. exists x0. split; [reflexivity | exact H0].
    + apply IH. exact Hn.
Qed.
Lemma Forall2_refl_upd K K2 (l : list token) : Forall2 (upd K K2) l l.
Proof. induction l; constructor; [left; reflexivity | assumption]. Qed.

(* splitting an updated list at the number and its suffix word *)
Lemma upd_shape K K2 (A : list token) (n w : token) (B toks' : list token) :
  Forall2 (upd K K2) (A ++ n :: w :: B) toks' -> K n = false -> K w = false ->
  exists A1 B1, toks' = A1 ++ n :: w :: B1 /\ length A1 = length A
    /\ Forall2 (upd K K2) A A1 /\ Forall2 (upd K K2) B B1.
Proof.
  intros HF Hn Hw. apply Forall2_app_inv_l in HF. destruct HF as (A1 & r1 & HA & Hr & ->).
  inversion Hr as [|? n' ? r2 Hnn Hr2]; subst. inversion Hr2 as [|? w' ? B1 Hww HB]; subst.
  destruct Hnn as [->|[Hc _]]; [|congruence]. destruct Hww as [->|[Hc _]]; [|congruence].
  exists A1, B1. split; [reflexivity|]. split; [symmetry; eapply F2_length; exact HA|]. split; assumption.
Qed.
Lemma upd_shape1 K K2 (A : list token) (n : token) (B toks' : list token) :
  Forall2 (upd K K2) (A ++ n :: B) toks' -> K n = false ->
  exists A1 B1, toks' = A1 ++ n :: B1 /\ length A1 = length A
    /\ Forall2 (upd K K2) A A1 /\ Forall2 (upd K K2) B B1.
Proof.
  intros HF Hn. apply Forall2_app_inv_l in HF. destruct HF as (A1 & r1 & HA & Hr & ->).
  inversion Hr as [|? n' ? B1 Hnn HB]; subst.
  destruct Hnn as [->|[Hc _]]; [|congruence].
  exists A1, B1. split; [reflexivity|]. split; [symmetry; eapply F2_length; exact HA|]. split; assumption.
Qed.
Lemma upd_forall K K2 (P : token -> Prop) (l l' : list token) :
  Forall2 (upd K K2) l l' -> (forall y, K2 y = true -> P y) -> Forall P l -> Forall P l'.
Proof.
  intros HF HK. induction HF as [|x y l l' Hxy HF IH]; intros HP; [constructor|].
  inversion HP; subst. constructor; [|apply IH; assumption].
  destruct Hxy as [->|[_ Hy]]; [assumption | apply HK; exact Hy].
Qed.

(* ------------------------------------------------------------------------------------------------ *)
(* token-list predicates                                                                              *)
(* ------------------------------------------------------------------------------------------------ *)
Definition at_ (P : token -> bool) (l : list token) (j : nat) : Prop :=
  exists t, nth_error l j = Some t /\ P t = true.

Lemma at_mid (P : token -> bool) (A : list token) (n : token) (B : list token) :
  at_ P (A ++ n :: B) (length A) -> P n = true.
Proof. intros [t [Ht Hp]]. rewrite nth_error_mid in Ht. injection Ht as <-. exact Hp. Qed.
Lemma at_mid_n (P : token -> bool) (A : list token) (n w : token) (B : list token) :
  at_ P (A ++ n :: w :: B) (length A) -> P n = true.
Proof. intros [t [Ht Hp]]. rewrite nth_error_mid in Ht. injection Ht as <-. exact Hp. Qed.
Lemma at_mid_w (P : token -> bool) (A : list token) (n w : token) (B : list token) :
  at_ P (A ++ n :: w :: B) (S (length A)) -> P w = true.
Proof.
  intros [t [Ht Hp]]. replace (A ++ n :: w :: B) with ((A ++ [n]) ++ w :: B) in Ht by (rewrite <- app_assoc; reflexivity).
  replace (S (length A)) with (length (A ++ [n])) in Ht by (rewrite app_length; cbn; lia).
  rewrite nth_error_mid in Ht. injection Ht as <-. exact Hp.
Qed.

  (* ============================================================================================== *)
  (* condense_spaces                                                                                  *)
  (* ============================================================================================== *)
  Definition Qs (copy : list token) (j : nat) : Prop :=
    at_ is_space copy j /\ ((1 <= j /\ at_ is_space copy (j - 1)) \/ (2 <= j /\ at_ is_space copy (j - 2))).

  Lemma cs_inner_spec : forall (fuel : nat) (copy : list token) (start : token) (cursor : nat) (rm : list nat),
    length copy - cursor < fuel -> is_space start = true ->
    (at_ is_space copy cursor \/ (1 <= cursor /\ at_ is_space copy (cursor - 1))) ->
    exists st' cur' rm', cs_inner fuel copy start cursor rm = Ok (st', cur', rm')
      /\ is_space st' = true /\ cursor < cur'
      /\ (forall j, In j rm' -> In j rm \/ Qs copy j).
  Proof.
    induction fuel as [|f IH]; intros copy start cursor rm Hlen Hs HP.
    - lia.
    - cbn [cs_inner].
      destruct (nth_error copy (S cursor)) as [child|] eqn:Ec.
      2:{ exists start, (S cursor), rm. repeat split; auto. }
      destruct (negb (send (tspan start) =? sstart (tspan child))).
      { exists start, (S cursor), rm. repeat split; auto. }
      destruct (tkind child) eqn:Ek; try (exists start, (S cursor), rm; repeat split; auto; fail).
      destruct (tkind start) eqn:Eks; try (unfold is_space in Hs; rewrite Eks in Hs; discriminate).
      assert (Hchild : at_ is_space copy (S cursor)).
      { exists child. split; [exact Ec|]. unfold is_space. rewrite Ek. reflexivity. }
      destruct (IH copy (mktok (mkspan (sstart (tspan start)) (send (tspan child))) (KSpace (n0 + n)))
                  (S (S cursor)) (rm ++ [S cursor])) as (st' & cur' & rm' & HE & Hst & Hcur & Hrm).
      + assert (S cursor < length copy) by (apply nth_error_Some; congruence). lia.
      + reflexivity.
      + right. split; [lia|]. replace (S (S cursor) - 1) with (S cursor) by lia. exact Hchild.
      + exists st', cur', rm'. split; [exact HE|]. split; [exact Hst|]. split; [lia|].
        intros j Hj. destruct (Hrm j Hj) as [Hin|HQ]; [|right; exact HQ].
        apply in_app_or in Hin. destruct Hin as [Hin|[<-|[]]]; [left; exact Hin|].
        right. split; [exact Hchild|].
        destruct HP as [HP|[H1 HP]].
        * left. split; [lia|]. replace (S cursor - 1) with cursor by lia. exact HP.
        * right. split; [lia|]. replace (S cursor - 2) with (cursor - 1) by lia. exact HP.
  Qed.

  Definition upd_s := upd is_space is_space.

  Lemma cs_outer_spec : forall (fuel : nat) (copy toks : list token) (cursor : nat) (rm : list nat),
    length toks - cursor < fuel -> Forall2 upd_s copy toks -> (forall j, In j rm -> Qs copy j) ->
    exists toks' rm', cs_outer fuel copy toks cursor rm = Ok (toks', rm')
      /\ Forall2 upd_s copy toks' /\ (forall j, In j rm' -> Qs copy j).
  Proof.
    induction fuel as [|f IH]; intros copy toks cursor rm Hlen HF Hrm; [lia|].
    cbn [cs_outer].
    destruct (nth_error toks cursor) as [st|] eqn:En.
    2:{ exists toks, rm. auto. }
    destruct (is_space st) eqn:Es.
    2:{ apply IH; [|exact HF | exact Hrm]. assert (cursor < length toks) by (apply nth_error_Some; congruence). lia. }
    destruct (Forall2_nth _ _ _ _ _ HF En) as [x [Hx Hxs]].
    assert (Hxsp : is_space x = true).
    { destruct Hxs as [->|[Hk _]]; [exact Es | exact Hk]. }
    pose proof (F2_length _ _ _ HF) as HL.
    destruct (cs_inner_spec (S (length copy)) copy st cursor rm) as (st' & cur' & rm' & HE & Hst & Hcur & Hrm').
    { lia. } { exact Es. } { left. exists x. split; assumption. }
    rewrite HE. cbn [bind].
    destruct (set_nth_ok toks cursor st st' En) as (a & b & Htoks & Ha & Hset).
    rewrite Hset. cbn [bind].
    apply IH.
    - rewrite app_length. cbn [length]. rewrite Htoks, app_length in Hlen. cbn [length] in Hlen. lia.
    - eapply Forall2_upd_set; [exact HF | exact Htoks |].
      intros x0 Hx0. right. split; [|exact Hst]. destruct Hx0 as [->|[Hk _]]; [exact Es | exact Hk].
    - intros j Hj. destruct (Hrm' j Hj) as [Hin|HQ]; [apply Hrm; exact Hin | exact HQ].
  Qed.

  Lemma not_number_space t : is_space t = true -> is_number t = false.
  Proof. unfold is_space, is_number. destruct (tkind t); congruence. Qed.
  Lemma not_word_space t : is_space t = true -> is_word t = false.
  Proof. unfold is_space, is_word. destruct (tkind t); congruence. Qed.
  Lemma not_apostrophe_space t : is_space t = true -> is_apostrophe t = false.
  Proof. unfold is_space, is_apostrophe. destruct (tkind t); congruence. Qed.

  (* the shape invariant carried through the passes *)
  Definition good_ctx (A B : list token) : Prop :=
    nonum A /\ nonum B /\ wordwf A /\ wordwf B.

  Lemma upd_good K (A A1 B B1 : list token) :
    (forall y, K y = true -> is_number y = false /\ is_word y = false) ->
    Forall2 (upd K K) A A1 -> Forall2 (upd K K) B B1 -> good_ctx A B -> good_ctx A1 B1.
  Proof.
    intros HK HA HB (H1 & H2 & H3 & H4).
    repeat split.
    - eapply upd_forall; [exact HA | | exact H1]. intros y Hy. apply HK. exact Hy.
    - eapply upd_forall; [exact HB | | exact H2]. intros y Hy. apply HK. exact Hy.
    - eapply upd_forall; [exact HA | | exact H3]. intros y Hy Hw. destruct (HK y Hy) as (_ & E). congruence.
    - eapply upd_forall; [exact HB | | exact H4]. intros y Hy Hw. destruct (HK y Hy) as (_ & E). congruence.
  Qed.

  Lemma good_ri (A A' B B' : list token) :
    (forall P, Forall P A -> Forall P A') -> (forall P, Forall P B -> Forall P B') ->
    good_ctx A B -> good_ctx A' B'.
  Proof.
    intros HA HB (H1 & H2 & H3 & H4). repeat split.
    - apply HA; exact H1. - apply HB; exact H2. - apply HA; exact H3. - apply HB; exact H4.
  Qed.

  Lemma condense_spaces_shape (A : list token) (n w : token) (B : list token) :
    is_space n = false -> is_space w = false -> good_ctx A B ->
    exists A' B', condense_spaces (A ++ n :: w :: B) = Ok (A' ++ n :: w :: B') /\ good_ctx A' B'.
  Proof.
    intros Hn Hw Hg. unfold condense_spaces.
    destruct (cs_outer_spec (S (length (A ++ n :: w :: B))) (A ++ n :: w :: B) (A ++ n :: w :: B) 0 [])
      as (toks' & rm & HE & HF & Hrm).
    { lia. } { apply Forall2_refl_upd. } { intros j []. }
    rewrite HE. cbn [bind fst snd].
    destruct (upd_shape _ _ _ _ _ _ _ HF Hn Hw) as (A1 & B1 & -> & HlA & HA & HB).
    destruct (ri_shape A1 n w B1 rm) as (A' & B' & HR & HPA & HPB & Hhd).
    { intros j Hj. rewrite HlA. specialize (Hrm j Hj). destruct Hrm as [Hj1 _]. split; intros ->.
      - apply at_mid_n in Hj1. congruence.
      - apply at_mid_w in Hj1. congruence. }
    exists A', B'. split; [rewrite HR; reflexivity|].
    eapply good_ri; [exact HPA | exact HPB | ].
    eapply (upd_good is_space); [|exact HA | exact HB | exact Hg].
    intros y Hy. split; [apply not_number_space | apply not_word_space]; exact Hy.
  Qed.

  (* ============================================================================================== *)
  (* condense_newlines, newlines_to_breaks                                                            *)
  (* ============================================================================================== *)
  Definition Qn (copy : list token) (j : nat) : Prop :=
    at_ is_newline copy j /\ 1 <= j /\ at_ is_newline copy (j - 1).

  Lemma cn_inner_spec : forall (fuel : nat) (copy : list token) (start : token) (cursor : nat) (rm : list nat),
    length copy - cursor < fuel -> is_newline start = true -> at_ is_newline copy cursor ->
    exists st' cur' rm', cn_inner fuel copy start cursor rm = Ok (st', cur', rm')
      /\ is_newline st' = true /\ cursor < cur'
      /\ (forall j, In j rm' -> In j rm \/ Qn copy j).
  Proof.
    induction fuel as [|f IH]; intros copy start cursor rm Hlen Hs HP; [lia|].
    cbn [cn_inner].
    destruct (nth_error copy (S cursor)) as [child|] eqn:Ec.
    2:{ exists start, (S cursor), rm. repeat split; auto. }
    destruct (tkind child) eqn:Ek; try (exists start, (S cursor), rm; repeat split; auto; fail).
    destruct (tkind start) eqn:Eks; try (unfold is_newline in Hs; rewrite Eks in Hs; discriminate).
    assert (Hchild : at_ is_newline copy (S cursor)).
    { exists child. split; [exact Ec|]. unfold is_newline. rewrite Ek. reflexivity. }
    destruct (IH copy (mktok (mkspan (sstart (tspan start)) (send (tspan child))) (KNewline (n0 + n)))
                (S cursor) (rm ++ [S cursor])) as (st' & cur' & rm' & HE & Hst & Hcur & Hrm).
    - assert (S cursor < length copy) by (apply nth_error_Some; congruence). lia.
    - reflexivity.
    - exact Hchild.
    - exists st', cur', rm'. split; [exact HE|]. split; [exact Hst|]. split; [lia|].
      intros j Hj. destruct (Hrm j Hj) as [Hin|HQ]; [|right; exact HQ].
      apply in_app_or in Hin. destruct Hin as [Hin|[<-|[]]]; [left; exact Hin|].
      right. split; [exact Hchild|]. split; [lia|]. replace (S cursor - 1) with cursor by lia. exact HP.
  Qed.

  Definition upd_n := upd is_newline is_newline.

  Lemma cn_outer_spec : forall (fuel : nat) (copy toks : list token) (cursor : nat) (rm : list nat),
    length toks - cursor < fuel -> Forall2 upd_n copy toks -> (forall j, In j rm -> Qn copy j) ->
    exists toks' rm', cn_outer fuel copy toks cursor rm = Ok (toks', rm')
      /\ Forall2 upd_n copy toks' /\ (forall j, In j rm' -> Qn copy j).
  Proof.
    induction fuel as [|f IH]; intros copy toks cursor rm Hlen HF Hrm; [lia|].
    cbn [cn_outer].
    destruct (nth_error toks cursor) as [st|] eqn:En.
    2:{ exists toks, rm. auto. }
    destruct (is_newline st) eqn:Es.
    2:{ apply IH; [|exact HF | exact Hrm]. assert (cursor < length toks) by (apply nth_error_Some; congruence). lia. }
    destruct (Forall2_nth _ _ _ _ _ HF En) as [x [Hx Hxs]].
    assert (Hxsp : is_newline x = true).
    { destruct Hxs as [->|[Hk _]]; [exact Es | exact Hk]. }
    pose proof (F2_length _ _ _ HF) as HL.
    destruct (cn_inner_spec (S (length copy)) copy st cursor rm) as (st' & cur' & rm' & HE & Hst & Hcur & Hrm').
    { lia. } { exact Es. } { exists x. split; assumption. }
    rewrite HE. cbn [bind].
    destruct (set_nth_ok toks cursor st st' En) as (a & b & Htoks & Ha & Hset).
    rewrite Hset. cbn [bind].
    apply IH.
    - rewrite app_length. cbn [length]. rewrite Htoks, app_length in Hlen. cbn [length] in Hlen. lia.
    - eapply Forall2_upd_set; [exact HF | exact Htoks |].
      intros x0 Hx0. right. split; [|exact Hst]. destruct Hx0 as [->|[Hk _]]; [exact Es | exact Hk].
    - intros j Hj. destruct (Hrm' j Hj) as [Hin|HQ]; [apply Hrm; exact Hin | exact HQ].
  Qed.

  Lemma not_number_newline t : is_newline t = true -> is_number t = false.
  Proof. unfold is_newline, is_number. destruct (tkind t); congruence. Qed.
  Lemma not_word_newline t : is_newline t = true -> is_word t = false.
  Proof. unfold is_newline, is_word. destruct (tkind t); congruence. Qed.
  Lemma not_apostrophe_newline t : is_newline t = true -> is_apostrophe t = false.
  Proof. unfold is_newline, is_apostrophe. destruct (tkind t); congruence. Qed.

  Lemma condense_newlines_shape (A : list token) (n w : token) (B : list token) :
    is_newline n = false -> is_newline w = false -> good_ctx A B ->
    exists A' B', condense_newlines (A ++ n :: w :: B) = Ok (A' ++ n :: w :: B') /\ good_ctx A' B'.
  Proof.
    intros Hn Hw Hg. unfold condense_newlines.
    destruct (cn_outer_spec (S (length (A ++ n :: w :: B))) (A ++ n :: w :: B) (A ++ n :: w :: B) 0 [])
      as (toks' & rm & HE & HF & Hrm).
    { lia. } { apply Forall2_refl_upd. } { intros j []. }
    rewrite HE. cbn [bind fst snd].
    destruct (upd_shape _ _ _ _ _ _ _ HF Hn Hw) as (A1 & B1 & -> & HlA & HA & HB).
    destruct (ri_shape A1 n w B1 rm) as (A' & B' & HR & HPA & HPB & Hhd).
    { intros j Hj. rewrite HlA. specialize (Hrm j Hj). destruct Hrm as [Hj1 _]. split; intros ->.
      - apply at_mid_n in Hj1. congruence.
      - apply at_mid_w in Hj1. congruence. }
    exists A', B'. split; [rewrite HR; reflexivity|].
    eapply good_ri; [exact HPA | exact HPB | ].
    eapply (upd_good is_newline); [|exact HA | exact HB | exact Hg].
    intros y Hy. split; [apply not_number_newline | apply not_word_newline]; exact Hy.
  Qed.

  Definition brk (t : token) : token :=
    match tkind t with KNewline n => if 2 <=? n then mktok (tspan t) KParBreak else t | _ => t end.
  Lemma newlines_to_breaks_map l : newlines_to_breaks l = map brk l.
  Proof. reflexivity. Qed.
  Lemma brk_id t : is_newline t = false -> brk t = t.
  Proof. unfold brk, is_newline. destruct (tkind t); congruence. Qed.
  Lemma brk_number t : is_number (brk t) = is_number t.
  Proof. unfold brk, is_number. destruct (tkind t) eqn:E; try (rewrite E; reflexivity). destruct (2 <=? n); [reflexivity | rewrite E; reflexivity]. Qed.
  Lemma brk_word t : is_word (brk t) = true -> brk t = t.
  Proof. unfold brk, is_word. destruct (tkind t) eqn:E; try reflexivity. destruct (2 <=? n); [cbn; discriminate | reflexivity]. Qed.
  Lemma brk_apostrophe t : is_apostrophe (brk t) = is_apostrophe t.
  Proof. unfold brk, is_apostrophe. destruct (tkind t) eqn:E; try (rewrite E; reflexivity). destruct (2 <=? n); [reflexivity | rewrite E; reflexivity]. Qed.

  Lemma newlines_to_breaks_shape (A : list token) (n w : token) (B : list token) :
    is_newline n = false -> is_newline w = false -> good_ctx A B ->
    exists A' B', newlines_to_breaks (A ++ n :: w :: B) = A' ++ n :: w :: B' /\ good_ctx A' B'.
  Proof.
    intros Hn Hw (H1 & H2 & H3 & H4).
    exists (map brk A), (map brk B). split.
    - rewrite newlines_to_breaks_map, map_app. cbn [map]. rewrite (brk_id _ Hn), (brk_id _ Hw). reflexivity.
    - unfold good_ctx, nonum, wordwf in *. rewrite !Forall_map. repeat split.
      + eapply Forall_impl; [|exact H1]. intros t Ht. rewrite brk_number. exact Ht.
      + eapply Forall_impl; [|exact H2]. intros t Ht. rewrite brk_number. exact Ht.
      + eapply Forall_impl; [|exact H3]. intros t Ht Hwd. pose proof (brk_word _ Hwd) as Eb. rewrite Eb in *. apply Ht. exact Hwd.
      + eapply Forall_impl; [|exact H4]. intros t Ht Hwd. pose proof (brk_word _ Hwd) as Eb. rewrite Eb in *. apply Ht. exact Hwd.
  Qed.

  (* ============================================================================================== *)
  (* condense_contractions                                                                            *)
  (* ============================================================================================== *)
  Lemma contraction_at_3 (l : list token) : contraction_at l <> 0 ->
    exists a b c rest, l = a :: b :: c :: rest /\ is_word a = true /\ is_apostrophe b = true /\ is_word c = true.
  Proof.
    destruct l as [|a [|b [|c rest]]]; cbn [contraction_at]; try (intros H; exfalso; apply H; reflexivity).
    destruct (is_word a && is_apostrophe b && is_word c) eqn:E; [|intros H; exfalso; apply H; reflexivity].
    intros _. rewrite !andb_true_iff in E. exists a, b, c, rest. tauto.
  Qed.
  Lemma contraction_at_val (l : list token) : contraction_at l = 0 \/ contraction_at l = 3.
  Proof.
    destruct l as [|a [|b [|c rest]]]; cbn [contraction_at]; auto.
    destruct (is_word a && is_apostrophe b && is_word c); auto.
  Qed.

  (* a match: three consecutive tokens word, apostrophe, word starting at index k *)
  Definition cmatch (l : list token) (m : span) : Prop :=
    exists a b c, send m = sstart m + 3
      /\ nth_error l (sstart m) = Some a /\ nth_error l (S (sstart m)) = Some b /\ nth_error l (S (S (sstart m))) = Some c
      /\ is_word a = true /\ is_apostrophe b = true /\ is_word c = true.

  Lemma matches_from_spec : forall (l pre : list token) (i : nat) (m : span),
    length pre = i -> In m (matches_from i l) -> cmatch (pre ++ l) m.
  Proof.
    induction l as [|x tl IH]; intros pre i m Hi Hin; [contradiction|].
    cbn [matches_from] in Hin. apply in_app_or in Hin. destruct Hin as [Hin|Hin].
    - destruct (0 <? contraction_at (x :: tl)) eqn:E; [|contradiction].
      destruct Hin as [<-|[]]. apply Nat.ltb_lt in E.
      destruct (contraction_at_val (x :: tl)) as [H0|H3]; [lia|].
      destruct (contraction_at_3 (x :: tl)) as (a & b & c & rest & Hl & Ha & Hb & Hc); [lia|].
      exists a, b, c. unfold span_new_with_len. cbn [sstart send]. rewrite H3, Hl, <- Hi.
      split; [reflexivity|]. split; [apply nth_error_mid|].
      split; [replace (pre ++ a :: b :: c :: rest) with ((pre ++ [a]) ++ b :: c :: rest) by (rewrite <- app_assoc; reflexivity);
              replace (S (length pre)) with (length (pre ++ [a])) by (rewrite app_length; cbn; lia); apply nth_error_mid|].
      split; [replace (pre ++ a :: b :: c :: rest) with ((pre ++ [a; b]) ++ c :: rest) by (rewrite <- app_assoc; reflexivity);
              replace (S (S (length pre))) with (length (pre ++ [a; b])) by (rewrite app_length; cbn; lia); apply nth_error_mid|].
      tauto.
    - replace (pre ++ x :: tl) with ((pre ++ [x]) ++ tl) by (rewrite <- app_assoc; reflexivity).
      apply (IH (pre ++ [x]) (S i)); [rewrite app_length; cbn; lia | exact Hin].
  Qed.

  Lemma find_all_matches_spec (l : list token) (m : span) : In m (find_all_matches l) -> cmatch l m.
  Proof.
    unfold find_all_matches. intros H.
    assert (Hin : In m (matches_from 0 l)).
    { destruct (length (matches_from 0 l) <? 2); [exact H | eapply ri_in; exact H]. }
    apply (matches_from_spec l [] 0 m eq_refl Hin).
  Qed.

  Lemma nth_mid_n (A : list token) (n w : token) (B : list token) : nth_error (A ++ n :: w :: B) (length A) = Some n.
  Proof. apply nth_error_mid. Qed.
  Lemma nth_mid_w (A : list token) (n w : token) (B : list token) : nth_error (A ++ n :: w :: B) (S (length A)) = Some w.
  Proof.
    replace (A ++ n :: w :: B) with ((A ++ [n]) ++ w :: B) by (rewrite <- app_assoc; reflexivity).
    replace (S (length A)) with (length (A ++ [n])) by (rewrite app_length; cbn; lia). apply nth_error_mid.
  Qed.
  Lemma nth_mid_b (A : list token) (n w : token) (B : list token) :
    nth_error (A ++ n :: w :: B) (S (S (length A))) = nth_error B 0.
  Proof.
    replace (A ++ n :: w :: B) with ((A ++ [n; w]) ++ B) by (rewrite <- app_assoc; reflexivity).
    rewrite nth_error_app2 by (rewrite app_length; cbn; lia). rewrite app_length. cbn [length].
    replace (S (S (length A)) - (length A + 2)) with 0 by lia. reflexivity.
  Qed.

  (* no contraction touches the (merged) number token: it is neither a word nor an apostrophe *)
  Lemma cmatch_avoids1 (A : list token) (n : token) (B : list token) (m : span) :
    is_word n = false -> is_apostrophe n = false ->
    cmatch (A ++ n :: B) m -> sstart m + 3 <= length A \/ length A + 1 <= sstart m.
  Proof.
    intros Hnw Hna (a & b & c & _ & Ha & Hb & Hc & Wa & Ab & Wc).
    destruct (Nat.eq_dec (S (S (sstart m))) (length A)) as [E|E].
    { rewrite E, nth_error_mid in Hc. injection Hc as <-. congruence. }
    destruct (Nat.eq_dec (S (sstart m)) (length A)) as [E1|E1].
    { rewrite E1, nth_error_mid in Hb. injection Hb as <-. congruence. }
    destruct (Nat.eq_dec (sstart m) (length A)) as [E2|E2].
    { rewrite E2, nth_error_mid in Ha. injection Ha as <-. congruence. }
    lia.
  Qed.

  Lemma hull_some (l : list token) : l <> [] -> exists h, hull l = Some h /\ sstart h <= send h.
  Proof.
    intros Hne. destruct l as [|t r]; [contradiction|]. unfold hull. cbn [flat_map app].
    eexists. split; [reflexivity|]. cbn [sstart send].
    assert (Hmin : forall cs c, fold_left Nat.min cs c <= c).
    { induction cs as [|x cs IH]; intros c; cbn [fold_left]; [lia|]. specialize (IH (Nat.min c x)). lia. }
    assert (Hmax : forall cs c, c <= fold_left Nat.max cs c).
    { induction cs as [|x cs IH]; intros c; cbn [fold_left]; [lia|]. specialize (IH (Nat.max c x)). lia. }
    specialize (Hmin (send (tspan t) :: flat_map (fun t0 => [sstart (tspan t0); send (tspan t0)]) r) (sstart (tspan t))).
    specialize (Hmax (send (tspan t) :: flat_map (fun t0 => [sstart (tspan t0); send (tspan t0)]) r) (sstart (tspan t))).
    lia.
  Qed.

  Lemma nth_error_set_other {A} (a b : list A) (y y' : A) (i : nat) :
    i <> length a -> nth_error (a ++ y' :: b) i = nth_error (a ++ y :: b) i.
  Proof.
    intros H. assert (i < length a \/ length a < i) as [Hlt|Hgt] by lia.
    - rewrite !nth_error_app1 by exact Hlt. reflexivity.
    - rewrite !nth_error_app2 by lia. destruct (i - length a) as [|k] eqn:E; [lia | reflexivity].
  Qed.

  Definition upd_w := upd is_word is_word.

  Lemma cp_apply_spec : forall (ms : list span) (copy toks : list token) (rm : list nat),
    Forall2 upd_w copy toks -> wordwf toks -> (forall m, In m ms -> cmatch copy m) ->
    exists toks' rm', cp_apply ms toks rm = Ok (toks', rm')
      /\ Forall2 upd_w copy toks' /\ wordwf toks'
      /\ (forall i, (forall m, In m ms -> sstart m <> i) -> nth_error toks' i = nth_error toks i)
      /\ (forall j, In j rm' -> In j rm \/ exists m, In m ms /\ sstart m < j < send m).
  Proof.
    induction ms as [|m ms IH]; intros copy toks rm HF Hwf Hms.
    - exists toks, rm. cbn [cp_apply]. repeat split; auto.
    - cbn [cp_apply].
      destruct (Hms m (or_introl eq_refl)) as (a & b & c & Hend & Ha & Hb & Hc & Wa & _ & _).
      pose proof (F2_length _ _ _ HF) as HL.
      assert (Hk : S (S (sstart m)) < length copy) by (apply nth_error_Some; congruence).
      unfold slice_chk. rewrite Hend.
      destruct ((sstart m + 3 <? sstart m) || (length toks <? sstart m + 3)) eqn:Eb.
      { exfalso. apply orb_true_iff in Eb. destruct Eb as [Eb|Eb]; apply Nat.ltb_lt in Eb; lia. }
      cbn [bind].
      destruct (hull_some (firstn (sstart m + 3 - sstart m) (skipn (sstart m) toks))) as (h & Hh & Hhwf).
      { intros E. apply (f_equal (@length token)) in E. rewrite firstn_length, skipn_length in E. cbn [length] in E. lia. }
      rewrite Hh.
      destruct (nth_error toks (sstart m)) as [t|] eqn:Et.
      2:{ apply nth_error_None in Et. lia. }
      unfold nth_chk. rewrite Et. cbn [bind].
      destruct (set_nth_ok toks (sstart m) t (mktok h (tkind t)) Et) as (pa & pb & Htoks & Hpa & Hset).
      rewrite Hset. cbn [bind].
      destruct (Forall2_nth _ _ _ _ _ HF Et) as [x [Hx Hxt]]. rewrite Ha in Hx. injection Hx as <-.
      assert (Wt : is_word t = true) by (destruct Hxt as [->|[_ Hy]]; assumption).
      assert (Wnew : is_word (mktok h (tkind t)) = true) by exact Wt.
      destruct (IH copy (pa ++ mktok h (tkind t) :: pb) (rm ++ seq (S (sstart m)) (sstart m + 3 - S (sstart m))))
        as (toks' & rm' & HE & HF' & Hwf' & Hoth & Hrm').
      + eapply Forall2_upd_set; [exact HF | exact Htoks |]. intros x0 Hx0. right. split; [|exact Wnew].
        destruct Hx0 as [->|[Hk0 _]]; [exact Wt | exact Hk0].
      + unfold wordwf in *. rewrite Htoks in Hwf. apply Forall_app in Hwf. destruct Hwf as [W1 W2].
        inversion W2; subst. apply Forall_app. split; [assumption|]. constructor; [|assumption].
        intros _. cbn [tspan]. exact Hhwf.
      + intros m' Hm'. apply Hms. right. exact Hm'.
      + exists toks', rm'. split; [exact HE|]. split; [exact HF'|]. split; [exact Hwf'|]. split.
        * intros i Hi. rewrite Hoth by (intros m' Hm'; apply Hi; right; exact Hm').
          rewrite Htoks. apply nth_error_set_other. rewrite Hpa. intros ->. apply (Hi m); [left; reflexivity | reflexivity].
        * intros j Hj. destruct (Hrm' j Hj) as [Hin|[m' [Hm' Hr]]].
          -- apply in_app_or in Hin. destruct Hin as [Hin|Hin]; [left; exact Hin|].
             right. exists m. split; [left; reflexivity|]. apply in_seq in Hin. lia.
          -- right. exists m'. split; [right; exact Hm' | exact Hr].
  Qed.

  Lemma not_number_word t : is_word t = true -> is_number t = false.
  Proof. unfold is_word, is_number. destruct (tkind t); congruence. Qed.

  Lemma condense_contractions_shape1 (A : list token) (n : token) (B : list token) :
    is_word n = false -> is_apostrophe n = false -> good_ctx A B ->
    exists A' B', condense_contractions (A ++ n :: B) = Ok (A' ++ n :: B') /\ good_ctx A' B'.
  Proof.
    intros Hnw Hna (H1 & H2 & H3 & H4). unfold condense_contractions.
    set (toks := A ++ n :: B).
    assert (Hwf0 : wordwf toks).
    { unfold wordwf, toks. apply Forall_app. split; [exact H3|]. constructor; [intros Hc; congruence | exact H4]. }
    destruct (cp_apply_spec (find_all_matches toks) toks toks []) as (toks' & rm & HE & HF & Hwf & Hoth & Hrm).
    { apply Forall2_refl_upd. } { exact Hwf0. } { intros m Hm. apply find_all_matches_spec. exact Hm. }
    rewrite HE. cbn [bind fst snd].
    assert (Hav : forall m, In m (find_all_matches toks) -> sstart m + 3 <= length A \/ length A + 1 <= sstart m).
    { intros m Hm. apply (cmatch_avoids1 A n B m Hnw Hna). apply find_all_matches_spec. exact Hm. }
    destruct (upd_shape1 _ _ _ _ _ _ HF Hnw) as (A1 & B1 & -> & HlA & HA & HB).
    destruct (ri_shape1 A1 n B1 rm) as (A' & B' & HR & HPA & HPB).
    { intros j Hj. rewrite HlA. destruct (Hrm j Hj) as [[]|[m [Hm Hr']]].
      specialize (Hav m Hm). destruct (find_all_matches_spec _ _ Hm) as (_ & _ & _ & Hend & _). lia. }
    exists A', B'. split; [rewrite HR; reflexivity|].
    unfold wordwf in Hwf. apply Forall_app in Hwf. destruct Hwf as [WA WB]. inversion WB as [|? ? _ WB1]; subst.
    repeat split.
    - apply HPA. eapply upd_forall; [exact HA | | exact H1]. intros y Hy. apply not_number_word. exact Hy.
    - apply HPB. eapply upd_forall; [exact HB | | exact H2]. intros y Hy. apply not_number_word. exact Hy.
    - apply HPA. exact WA.
    - apply HPB. exact WB1.
  Qed.

  (* ============================================================================================== *)
  (* condense_dotted_initialisms                                                                      *)
  (* ============================================================================================== *)
  Definition w1 (t : token) : bool := is_word t && (send (tspan t) - sstart (tspan t) =? 1).
  Definition upd_i := upd w1 is_word.

  Lemma In_removelast {A} (x : A) (l : list A) : In x (removelast l) -> In x l.
  Proof.
    induction l as [|y l IH]; [auto|]. cbn [removelast]. destruct l as [|z l']; [intros []|].
    intros [H|H]; [left; exact H | right; apply IH; exact H].
  Qed.
  Lemma last_error_in {A} (l : list A) (x : A) : last_error l = Some x -> In x l.
  Proof. intros H. apply last_error_nth in H. eapply nth_error_In. exact H. Qed.

  Definition di_inv (copy toks : list token) (cursor : nat) (rm : list nat) (st : option nat) : Prop :=
    Forall2 upd_i copy toks
    /\ (forall i, cursor - 1 <= i -> nth_error toks i = nth_error copy i)
    /\ 1 <= cursor
    /\ match st with Some s => s + 3 <= cursor /\ at_ w1 copy s | None => True end
    /\ (forall j, In j rm -> j < length copy /\ (at_ is_period copy j \/ at_ w1 copy j)).

  Definition di_post (copy toks : list token) (rm : list nat) (st : option nat) : Prop :=
    Forall2 upd_i copy toks
    /\ match st with Some s => at_ w1 copy s | None => True end
    /\ (forall j, In j rm -> j < length copy /\ (at_ is_period copy j \/ at_ w1 copy j)).

  Lemma Forall2_upd_set_at (R : token -> token -> Prop) (l1 l2 a b : list token) (y y' : token) :
    Forall2 R l1 l2 -> l2 = a ++ y :: b ->
    (forall x, nth_error l1 (length a) = Some x -> R x y -> R x y') -> Forall2 R l1 (a ++ y' :: b).
  Proof.
    intros HF -> Hy. apply Forall2_app_inv_r in HF. destruct HF as (a1 & r1 & Ha & Hr & ->).
    inversion Hr as [|x ? b1 ? Hxy Hb]; subst. apply Forall2_app; [exact Ha|]. constructor; [|exact Hb].
    apply Hy; [|exact Hxy]. rewrite <- (F2_length _ _ _ Ha). apply nth_error_mid.
  Qed.

  Lemma set_span_end_spec (copy toks : list token) (s e : nat) :
    Forall2 upd_i copy toks -> at_ w1 copy s ->
    exists toks', set_span_end toks s e = Ok toks' /\ Forall2 upd_i copy toks'
      /\ (forall i, i <> s -> nth_error toks' i = nth_error toks i).
  Proof.
    intros HF [x [Hx Hw]]. unfold set_span_end, nth_chk.
    pose proof (F2_length _ _ _ HF) as HL.
    destruct (nth_error toks s) as [t|] eqn:Et.
    2:{ apply nth_error_None in Et. assert (s < length copy) by (apply nth_error_Some; congruence). lia. }
    cbn [bind].
    destruct (set_nth_ok toks s t (mktok (mkspan (sstart (tspan t)) e) (tkind t)) Et) as (pa & pb & Htoks & Hpa & Hset).
    rewrite Hset. eexists. split; [reflexivity|].
    destruct (Forall2_nth _ _ _ _ _ HF Et) as [x' [Hx' Hxt]]. rewrite Hx in Hx'. injection Hx' as <-.
    assert (Wt : is_word t = true).
    { destruct Hxt as [->|[_ Hy]]; [|exact Hy]. unfold w1 in Hw. apply andb_true_iff in Hw. tauto. }
    split.
    - eapply Forall2_upd_set_at; [exact HF | exact Htoks |]. intros x0 Hx0 _. right.
      rewrite Hpa, Hx in Hx0. injection Hx0 as <-. split; [exact Hw | exact Wt].
    - intros i Hi. rewrite Htoks. apply nth_error_set_other. lia.
  Qed.

  Lemma di_loop_spec (copy : list token) : wordwf copy ->
    forall (fuel cursor : nat) (toks : list token) (rm : list nat) (st : option nat),
    length toks - cursor < fuel -> di_inv copy toks cursor rm st ->
    exists toks' rm' st', di_loop fuel cursor toks rm st = Ok (toks', rm', st') /\ di_post copy toks' rm' st'.
  Proof.
    intros Hwf. induction fuel as [|f IH]; intros cursor toks rm st Hfuel (I0 & I1 & I2 & I3 & I4); [lia|].
    pose proof (F2_length _ _ _ I0) as HL.
    cbn [di_loop]. destruct (length toks <=? cursor) eqn:Ec.
    { exists toks, rm, st. split; [reflexivity|]. split; [exact I0|]. split; [|exact I4].
      destruct st as [s|]; [tauto | exact I]. }
    apply Nat.leb_gt in Ec.
    unfold sub_chk at 1. destruct (cursor <? 1) eqn:E1; [apply Nat.ltb_lt in E1; lia|]. cbn [bind].
    destruct (nth_error copy (cursor - 1)) as [a|] eqn:Ea.
    2:{ apply nth_error_None in Ea. lia. }
    destruct (nth_error copy cursor) as [b|] eqn:Eb.
    2:{ apply nth_error_None in Eb. lia. }
    unfold nth_chk. rewrite (I1 (cursor - 1)) by lia. rewrite (I1 cursor) by lia. rewrite Ea, Eb. cbn [bind].
    (* the chunk test never panics: a is an original word token, hence well-formed *)
    assert (Hchunk : is_initialism_chunk a b = Ok (w1 a && is_period b)).
    { unfold is_initialism_chunk, w1. destruct (is_word a) eqn:Wa; [|reflexivity].
      unfold wordwf in Hwf. rewrite Forall_forall in Hwf. specialize (Hwf a (nth_error_In _ _ Ea) Wa).
      unfold span_len, sub_chk. destruct (send (tspan a) <? sstart (tspan a)) eqn:El; [apply Nat.ltb_lt in El; lia|].
      reflexivity. }
    rewrite Hchunk. cbn [bind].
    destruct (w1 a && is_period b) eqn:Ech.
    - apply andb_true_iff in Ech. destruct Ech as [Hw1 Hper].
      assert (Ha1 : at_ w1 copy (cursor - 1)) by (exists a; split; assumption).
      assert (Hb1 : at_ is_period copy cursor) by (exists b; split; assumption).
      destruct st as [s|].
      + apply IH; [lia|]. split; [exact I0|]. split; [intros i Hi; apply I1; lia|]. split; [lia|].
        split; [destruct I3; split; [lia | assumption]|].
        intros j Hj. apply in_app_or in Hj. destruct Hj as [Hj|[<-|[]]]; [|split; [lia | left; exact Hb1]].
        apply in_app_or in Hj. destruct Hj as [Hj|[<-|[]]]; [apply I4; exact Hj | split; [lia | right; exact Ha1]].
      + apply IH; [lia|]. split; [exact I0|]. split; [intros i Hi; apply I1; lia|]. split; [lia|].
        split; [split; [lia | exact Ha1]|].
        intros j Hj. apply in_app_or in Hj. destruct Hj as [Hj|[<-|[]]]; [apply I4; exact Hj | split; [lia | left; exact Hb1]].
    - destruct st as [s|].
      + destruct I3 as [I3a I3b].
        unfold sub_chk. destruct (cursor <? 2) eqn:E2; [apply Nat.ltb_lt in E2; lia|]. cbn [bind].
        destruct (cursor - 2 =? s + 1).
        * apply IH; [lia|]. split; [exact I0|]. split; [intros i Hi; apply I1; lia|]. split; [lia|]. split; [exact I|].
          intros j Hj. apply I4. apply In_removelast. exact Hj.
        * destruct (nth_error toks (cursor - 2)) as [e|] eqn:Ee.
          2:{ apply nth_error_None in Ee. lia. }
          cbn [bind].
          destruct (set_span_end_spec copy toks s (send (tspan e)) I0 I3b) as (toks' & Hset & HF' & Hoth).
          rewrite Hset. cbn [bind].
          apply IH.
          -- rewrite <- (F2_length _ _ _ HF'). lia.
          -- split; [exact HF'|]. split; [intros i Hi; rewrite Hoth by lia; apply I1; lia|]. split; [lia|]. split; [exact I|]. exact I4.
      + apply IH; [lia|]. split; [exact I0|]. split; [intros i Hi; apply I1; lia|]. split; [lia|]. split; [exact I|]. exact I4.
  Qed.

  Lemma not_number_w1 t : w1 t = true -> is_number t = false.
  Proof. unfold w1. intros H. apply andb_true_iff in H. apply not_number_word. tauto. Qed.

  Lemma condense_initialisms_shape1 (A : list token) (n : token) (B : list token) :
    is_word n = false -> is_period n = false -> good_ctx A B ->
    exists A' B', condense_dotted_initialisms (A ++ n :: B) = Ok (A' ++ n :: B') /\ nonum A' /\ nonum B'.
  Proof.
    intros Hnw Hnp (H1 & H2 & H3 & H4). unfold condense_dotted_initialisms.
    set (toks := A ++ n :: B).
    destruct (length toks <? 2) eqn:E2; [exists A, B; auto|].
    assert (Hwf0 : wordwf toks).
    { unfold wordwf, toks. apply Forall_app. split; [exact H3|]. constructor; [intros Hc; congruence | exact H4]. }
    destruct (di_loop_spec toks Hwf0 (S (length toks)) 1 toks [] None) as (toks1 & rm & st & HE & HF & Hst & Hrm).
    { lia. }
    { split; [apply Forall2_refl_upd|]. split; [intros i _; reflexivity|]. split; [lia|]. split; [exact I | intros j []]. }
    rewrite HE. cbn [bind].
    assert (Hn1 : w1 n = false) by (unfold w1; rewrite Hnw; reflexivity).
    (* the fix-up after the loop *)
    assert (Hfix : exists toks2 rm2,
              match st, last_error rm with
              | Some s, Some l =>
                  if l =? s + 1 then Ok (toks1, removelast rm)
                  else (do e <- nth_chk toks1 l; do toks2 <- set_span_end toks1 s (send (tspan e)); Ok (toks2, rm))
              | _, _ => Ok (toks1, rm)
              end = Ok (toks2, rm2)
              /\ Forall2 upd_i toks toks2
              /\ (forall j, In j rm2 -> j < length toks /\ (at_ is_period toks j \/ at_ w1 toks j))).
    { destruct st as [s|]; [|exists toks1, rm; auto].
      destruct (last_error rm) as [l|] eqn:El; [|exists toks1, rm; auto].
      destruct (l =? s + 1).
      - exists toks1, (removelast rm). split; [reflexivity|]. split; [exact HF|].
        intros j Hj. apply Hrm. apply In_removelast. exact Hj.
      - destruct (Hrm l (last_error_in _ _ El)) as [Hl _].
        pose proof (F2_length _ _ _ HF) as HL1.
        unfold nth_chk. destruct (nth_error toks1 l) as [e|] eqn:Ee.
        2:{ apply nth_error_None in Ee. lia. }
        cbn [bind].
        destruct (set_span_end_spec toks toks1 s (send (tspan e)) HF Hst) as (toks2 & Hset & HF2 & _).
        rewrite Hset. cbn [bind]. exists toks2, rm. auto. }
    destruct Hfix as (toks2 & rm2 & Hfx & HF2 & Hrm2).
    destruct st as [s|]; (destruct (last_error rm) as [l|]; rewrite Hfx; cbn [bind fst snd]);
    (destruct (upd_shape1 _ _ _ _ _ _ HF2 Hn1) as (A1 & B1 & -> & HlA & HA & HB);
     destruct (ri_shape1 A1 n B1 rm2) as (A' & B' & HR & HPA & HPB);
     [ intros j Hj; rewrite HlA; destruct (Hrm2 j Hj) as [_ [Hp|Hp]]; intros ->; apply at_mid in Hp; congruence
     | exists A', B'; split; [rewrite HR; reflexivity|]; split;
       [ apply HPA; eapply upd_forall; [exact HA | | exact H1]; intros y Hy; apply not_number_word; exact Hy
       | apply HPB; eapply upd_forall; [exact HB | | exact H2]; intros y Hy; apply not_number_word; exact Hy ] ]).
  Qed.
