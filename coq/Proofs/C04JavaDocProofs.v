(* C04JavaDocProofs.v — JavaDoc / JSDoc glue (Model/C04JavaDoc.v): totality (no panic, the fuel of
   mark_inline_tags is never exhausted), exact structural description of the three kind-rewriting
   passes, and the offsets theorem of JavaDoc::parse. *)
Require Import Base Mask ListLemmas MaskProofs MaskFrontends C04JavaDoc.
From Coq Require Import Lia.

(* ====================================================================================== *)
(** * list facts *)

Lemma skipn_app_len {A} (a b : list A) : skipn (length a) (a ++ b) = b.
Proof. induction a; cbn; auto. Qed.
Lemma firstn_app_len {A} (a b : list A) : firstn (length a) (a ++ b) = a.
Proof. induction a; cbn; [destruct b; reflexivity|]. now f_equal. Qed.
Lemma skipn_app_len_plus {A} (a b : list A) n : skipn (n + length a) (a ++ b) = skipn n b.
Proof. induction a; cbn; [now rewrite Nat.add_0_r|]. now rewrite Nat.add_succ_r. Qed.

Lemma position_split {A} (p : A -> bool) : forall l i, position p l = Some i ->
  exists l1 x l2, l = l1 ++ x :: l2 /\ length l1 = i /\ p x = true /\ Forall (fun y => p y = false) l1.
Proof.
  induction l as [|x t IH]; intros i H; cbn in H; [discriminate|].
  destruct (p x) eqn:E.
  - inversion H; subst. exists [], x, t. repeat split; auto.
  - destruct (position p t) as [j|] eqn:Ej; cbn in H; [|discriminate]. inversion H; subst.
    destruct (IH j eq_refl) as (l1 & y & l2 & -> & Hl & Hy & Hall).
    exists (x :: l1), y, l2. cbn. repeat split; auto.
Qed.

(* ====================================================================================== *)
(** * parse_inline_tag *)

Lemma scan_close_bound : forall rest c p, scan_close rest c = Some p -> c < p <= c + length rest.
Proof.
  induction rest as [|t r IH]; intros c p H; cbn in H; [discriminate|].
  destruct (is_close_curly t).
  - inversion H; subst. cbn. lia.
  - apply IH in H. cbn. lia.
Qed.

Lemma parse_inline_tag_bound l p : parse_inline_tag l = Some p -> 4 <= p <= length l.
Proof.
  unfold parse_inline_tag. destruct l as [|a [|b [|c rest]]]; try discriminate.
  destruct (is_open_curly a && is_at b && is_word c); [|discriminate].
  intros H. apply scan_close_bound in H. cbn [length]. lia.
Qed.

(* what an inline tag is: `{` `@` Word, then anything up to the FIRST `}`; p counts all of it *)
Lemma parse_inline_tag_shape l p : parse_inline_tag l = Some p ->
  exists a b c mid cl post, l = a :: b :: c :: mid ++ cl :: post /\ p = 4 + length mid /\
    is_open_curly a = true /\ is_at b = true /\ is_word c = true /\ is_close_curly cl = true /\
    Forall (fun t => is_close_curly t = false) mid.
Proof.
  unfold parse_inline_tag. destruct l as [|a [|b [|c rest]]]; try discriminate.
  destruct (is_open_curly a) eqn:Ea; [|discriminate]. destruct (is_at b) eqn:Eb; [|discriminate].
  destruct (is_word c) eqn:Ec; [|discriminate]. cbn [andb]. intros H.
  assert (G : forall rest k q, scan_close rest k = Some q ->
            exists mid cl post, rest = mid ++ cl :: post /\ q = k + 1 + length mid /\ is_close_curly cl = true /\
              Forall (fun t => is_close_curly t = false) mid).
  { clear. induction rest as [|t r IH]; intros k q H; cbn in H; [discriminate|].
    destruct (is_close_curly t) eqn:E.
    - inversion H; subst. exists [], t, r. cbn. repeat split; auto; lia.
    - destruct (IH _ _ H) as (mid & cl & post & -> & -> & Hc & Hall). exists (t :: mid), cl, post. cbn.
      repeat split; auto; lia. }
  destruct (G _ _ _ H) as (mid & cl & post & -> & -> & Hc & Hall).
  exists a, b, c, mid, cl, post. repeat split; auto.
Qed.

(* ====================================================================================== *)
(** * mark_inline_tags = the structural pass mit_s (k = tokens still to be marked) *)

Fixpoint mit_s (k : nat) (l : list tok) : list tok :=
  match l with
  | [] => []
  | t :: r =>
      match k with
      | S k' => unl t :: mit_s k' r
      | 0 => match (if is_open_curly t then parse_inline_tag l else None) with
             | Some (S p') => unl t :: mit_s p' r
             | _ => t :: mit_s 0 r
             end
      end
  end.

Lemma mit_s_marked : forall k l, k <= length l -> mit_s k l = map unl (firstn k l) ++ mit_s 0 (skipn k l).
Proof.
  induction k as [|k IH]; intros l H; [reflexivity|].
  destruct l as [|t r]; [cbn in H; lia|]. cbn [mit_s firstn skipn map app]. f_equal. apply IH. cbn in H. lia.
Qed.

Lemma mit_s_no_oc : forall l1 l2, Forall (fun x => is_open_curly x = false) l1 -> mit_s 0 (l1 ++ l2) = l1 ++ mit_s 0 l2.
Proof.
  induction l1 as [|t r IH]; intros l2 H; [reflexivity|]. inversion H; subst.
  cbn [app mit_s]. rewrite H2. f_equal. now apply IH.
Qed.

Lemma mark_range_app (A M B : list tok) :
  mark_range (A ++ M ++ B) (length A) (length A + length M) = Ok (A ++ map unl M ++ B).
Proof.
  unfold mark_range. rewrite !app_length.
  destruct (Nat.ltb_spec (length A + length M) (length A)); [lia|].
  destruct (Nat.ltb_spec (length A + (length M + length B)) (length A + length M)); [lia|]. cbn [orb].
  rewrite firstn_app_len. unfold slice. rewrite skipn_app_len.
  replace (length A + length M - length A) with (length M) by lia. rewrite firstn_app_len.
  replace (length A + length M) with (length M + length A) by lia.
  rewrite skipn_app_len_plus, skipn_app_len. reflexivity.
Qed.

Lemma mit_fuel_spec : forall f pre l, length l < f ->
  mit_fuel f (pre ++ l) (length pre) = Ok (pre ++ mit_s 0 l).
Proof.
  induction f as [|f IH]; intros pre l Hf; [lia|]. cbn [mit_fuel]. rewrite app_length.
  destruct (Nat.leb_spec (length pre + length l) (length pre)) as [Hle|Hgt].
  { destruct l; [reflexivity|cbn in Hle; lia]. }
  rewrite skipn_app_len.
  destruct (position is_open_curly l) as [i|] eqn:Ep.
  2:{ pose proof (position_none _ _ Ep) as Hall. f_equal. f_equal.
      rewrite <- (app_nil_r l) at 2. rewrite mit_s_no_oc by assumption. cbn. now rewrite app_nil_r. }
  destruct (position_split _ _ _ Ep) as (l1 & x & l2 & -> & Hl1 & Hx & Hall). subst i.
  rewrite app_assoc. replace (length l1 + length pre) with (length (pre ++ l1)) by (rewrite app_length; lia).
  rewrite skipn_app_len. rewrite <- app_assoc. rewrite mit_s_no_oc by assumption.
  rewrite app_length in Hf. cbn [length] in Hf.
  destruct (parse_inline_tag (x :: l2)) as [p|] eqn:Et.
  - pose proof (parse_inline_tag_bound _ _ Et) as Hp.
    set (M := firstn p (x :: l2)). set (B := skipn p (x :: l2)).
    assert (HM : length M = p) by (unfold M; rewrite firstn_length; lia).
    assert (HMB : x :: l2 = M ++ B) by (unfold M, B; now rewrite firstn_skipn).
    assert (Hmr : mark_range (pre ++ l1 ++ x :: l2) (length (pre ++ l1)) (length (pre ++ l1) + p)
                  = Ok ((pre ++ l1) ++ map unl M ++ B)).
    { rewrite HMB, app_assoc, <- HM. apply mark_range_app. }
    rewrite Hmr. cbn [bind].
    replace (length (pre ++ l1) + p) with (length ((pre ++ l1) ++ map unl M)) by (rewrite !app_length, map_length; lia).
    rewrite (app_assoc (pre ++ l1)). rewrite IH.
    2:{ unfold B. rewrite skipn_length. cbn [length] in *. lia. }
    f_equal. rewrite <- !app_assoc. f_equal. f_equal.
    destruct p as [|p']; [lia|]. cbn [mit_s]. rewrite Hx, Et.
    rewrite (mit_s_marked p' l2) by (cbn [length] in Hp; lia). unfold M, B. reflexivity.
  - replace (length (pre ++ l1) + 1) with (length ((pre ++ l1) ++ [x])) by (rewrite !app_length; cbn; lia).
    replace (pre ++ l1 ++ x :: l2) with (((pre ++ l1) ++ [x]) ++ l2) by (now rewrite <- !app_assoc).
    rewrite IH by lia. f_equal. rewrite <- !app_assoc. cbn [app mit_s]. rewrite Hx, Et. reflexivity.
Qed.

(* mark_inline_tags never panics, never runs out of fuel, and is the structural pass *)
Theorem mark_inline_tags_exact l : mark_inline_tags l = Ok (mit_s 0 l).
Proof. unfold mark_inline_tags. apply (mit_fuel_spec (S (length l)) [] l). lia. Qed.

(* ====================================================================================== *)
(** * kind-only passes *)

Definition kind_only (l l' : list tok) : Prop :=
  Forall2 (fun x y => tspan y = tspan x /\ (tkind y = tkind x \/ tkind y = K_UNLINTABLE)) l l'.

Lemma kind_only_refl l : kind_only l l.
Proof. induction l; constructor; auto. Qed.
Lemma kind_only_trans l1 l2 l3 : kind_only l1 l2 -> kind_only l2 l3 -> kind_only l1 l3.
Proof.
  intros H. revert l3. induction H as [|x y l l' (Hs & Hk) H IH]; intros l3 H3; inversion H3; subst; constructor.
  - destruct H2 as (Hs' & Hk'). split; [congruence|]. destruct Hk' as [Hk'|Hk']; [rewrite Hk'; assumption|now right].
  - now apply IH.
Qed.
Lemma kind_only_app a a' b b' : kind_only a a' -> kind_only b b' -> kind_only (a ++ b) (a' ++ b').
Proof. apply Forall2_app. Qed.
Lemma kind_only_unl l : kind_only l (map unl l).
Proof. induction l; constructor; cbn; auto. Qed.
Lemma kind_only_spans l l' : kind_only l l' -> map tspan l' = map tspan l.
Proof. induction 1 as [|x y l l' (Hs & _) H IH]; cbn; congruence. Qed.
Lemma kind_only_in l l' y : kind_only l l' -> In y l' ->
  exists x, In x l /\ tspan y = tspan x /\ (tkind y = tkind x \/ tkind y = K_UNLINTABLE).
Proof.
  induction 1 as [|x0 y0 l l' H0 H IH]; intros Hin; [destruct Hin|].
  destruct Hin as [<-|Hin]; [exists x0; split; [now left|assumption]|].
  destruct (IH Hin) as (x & Hx & Hr). exists x. split; [now right|assumption].
Qed.
Lemma kind_only_map_tpush by_ l l' : kind_only l l' -> kind_only (map (tpush by_) l) (map (tpush by_) l').
Proof. induction 1 as [|x y l l' (Hs & Hk) H IH]; cbn [map]; constructor; auto. cbn. rewrite Hs. auto. Qed.

Lemma mit_s_kind_only : forall l k, kind_only l (mit_s k l).
Proof.
  induction l as [|t r IH]; intros k; [constructor|]. cbn [mit_s].
  destruct k as [|k']; [|constructor; [cbn; auto|apply IH]].
  destruct (if is_open_curly t then parse_inline_tag (t :: r) else None) as [[|p']|]; constructor; cbn; auto; apply IH.
Qed.

(* ====================================================================================== *)
(** * the JavaDoc @tag window = the structural pass jd_s (k = tokens of a matched window still to be marked) *)

Definition match4 (a b c d : tok) : bool := is_at a && is_word b && is_space c && is_word d.

Fixpoint jd_s (k : nat) (l : list tok) : list tok :=
  match l with
  | [] => []
  | t :: r =>
      match k with
      | S k' => unl t :: jd_s k' r
      | 0 => match r with
             | b :: c :: d :: _ => if match4 t b c d then unl t :: jd_s 3 r else t :: jd_s 0 r
             | _ => t :: jd_s 0 r
             end
      end
  end.

Definition markk (k : nat) (l : list tok) : list tok := map unl (firstn k l) ++ skipn k l.

Lemma jd_s_short l k : length l <= 3 -> k <= 3 -> jd_s k l = markk k l.
Proof.
  intros Hl Hk. destruct l as [|a [|b [|c [|d ?]]]]; [| | | |cbn in Hl; lia];
  destruct k as [|[|[|[|?]]]]; try lia; reflexivity.
Qed.

Lemma nth_chk_app_r (pre l : list tok) j : nth_chk (pre ++ l) (length pre + j) = nth_chk l j.
Proof. unfold nth_chk. rewrite nth_error_app2 by lia. now replace (length pre + j - length pre) with j by lia. Qed.

Lemma set_nth_app_r (pre l : list tok) j x :
  set_nth (pre ++ l) (length pre + j) x = do l' <- set_nth l j x; Ok (pre ++ l').
Proof.
  induction pre as [|h t IH]; cbn [app length Nat.add set_nth].
  - destruct (set_nth l j x); reflexivity.
  - rewrite IH. destruct (set_nth l j x); reflexivity.
Qed.

Lemma set_unl_app_r (pre l : list tok) j :
  set_unl (pre ++ l) (length pre + j) = do l' <- set_unl l j; Ok (pre ++ l').
Proof.
  unfold set_unl. rewrite nth_chk_app_r. destruct (nth_chk l j) as [t|]; cbn [bind]; [|reflexivity].
  apply set_nth_app_r.
Qed.

Lemma jd_step_window pre w1 w2 w3 w4 r :
  jd_step (pre ++ w1 :: w2 :: w3 :: w4 :: r) (length pre + 3) =
  Ok (if match4 w1 w2 w3 w4 then pre ++ unl w1 :: unl w2 :: unl w3 :: unl w4 :: r
      else pre ++ w1 :: w2 :: w3 :: w4 :: r).
Proof.
  unfold jd_step, sub_chk.
  destruct (Nat.ltb_spec (length pre + 3) 3); [lia|]. destruct (Nat.ltb_spec (length pre + 3) 2); [lia|].
  destruct (Nat.ltb_spec (length pre + 3) 1); [lia|]. cbn [bind].
  replace (length pre + 3 - 3) with (length pre + 0) by lia.
  replace (length pre + 3 - 2) with (length pre + 1) by lia.
  replace (length pre + 3 - 1) with (length pre + 2) by lia.
  rewrite !nth_chk_app_r. cbn [nth_chk nth_error bind]. fold (match4 w1 w2 w3 w4).
  destruct (match4 w1 w2 w3 w4); [|reflexivity].
  rewrite set_unl_app_r. cbn. rewrite set_unl_app_r. cbn. rewrite set_unl_app_r. cbn. rewrite set_unl_app_r. cbn.
  reflexivity.
Qed.

Lemma match4_unl a b c d : match4 (unl a) b c d = false.
Proof. reflexivity. Qed.

Lemma jd_loop_spec : forall l0 pre k, k <= 3 ->
  jd_loop (pre ++ markk k l0) (seq (length pre + 3) (length l0 - 3)) = Ok (pre ++ jd_s k l0).
Proof.
  induction l0 as [|a r IH]; intros pre k Hk.
  { cbn. destruct k; reflexivity. }
  destruct (Nat.le_gt_cases (length (a :: r)) 3) as [Hs|Hl].
  { replace (length (a :: r) - 3) with 0 by lia. cbn [seq jd_loop]. now rewrite jd_s_short. }
  destruct r as [|b [|c [|d r']]]; try (cbn in Hl; lia).
  replace (length (a :: b :: c :: d :: r') - 3) with (S (length r')) by (cbn; lia).
  cbn [seq jd_loop].
  assert (Hnext : forall x k', k' <= 3 ->
            jd_loop (pre ++ x :: markk k' (b :: c :: d :: r')) (seq (S (length pre + 3)) (length r'))
            = Ok (pre ++ x :: jd_s k' (b :: c :: d :: r'))).
  { intros x k' Hk'. specialize (IH (pre ++ [x]) k' Hk').
    rewrite app_length in IH. cbn [length] in IH.
    replace (length pre + 1 + 3) with (S (length pre + 3)) in IH by lia.
    replace (S (S (S (length r'))) - 3) with (length r') in IH by lia.
    rewrite <- !app_assoc in IH. cbn [app] in IH. exact IH. }
  destruct k as [|k'].
  - change (markk 0 (a :: b :: c :: d :: r')) with (a :: b :: c :: d :: r').
    rewrite jd_step_window. cbn [bind jd_s]. destruct (match4 a b c d).
    + apply (Hnext (unl a) 3). lia.
    + apply (Hnext a 0). lia.
  - assert (Hm : markk (S k') (a :: b :: c :: d :: r') = unl a :: markk k' (b :: c :: d :: r')) by reflexivity.
    rewrite Hm. clear Hm.
    assert (Hw : exists w2 w3 w4, markk k' (b :: c :: d :: r') = w2 :: w3 :: w4 :: r').
    { destruct k' as [|[|[|?]]]; try lia; cbn; eauto. }
    destruct Hw as (w2 & w3 & w4 & Hw). rewrite Hw. rewrite jd_step_window, match4_unl. cbn [bind jd_s].
    rewrite <- Hw. apply Hnext. lia.
Qed.

(* the `for i in 3..tokens.len()` loop never panics and is the structural pass *)
Theorem jd_tags_exact l : jd_tags l = Ok (jd_s 0 l).
Proof. unfold jd_tags. exact (jd_loop_spec l [] 0 ltac:(lia)). Qed.

(* a matching window `@` Word Space Word marks exactly its four tokens and the pass resumes right after it;
   a non-matching position keeps its token *)
Lemma jd_s_window a b c d r :
  jd_s 0 (a :: b :: c :: d :: r) =
  if match4 a b c d then unl a :: unl b :: unl c :: unl d :: jd_s 0 r else a :: jd_s 0 (b :: c :: d :: r).
Proof. cbn [jd_s]. destruct (match4 a b c d); reflexivity. Qed.

Lemma jd_s_kind_only : forall l k, kind_only l (jd_s k l).
Proof.
  induction l as [|t r IH]; intros k; [constructor|]. cbn [jd_s].
  destruct k as [|k']; [|constructor; [cbn; auto|apply IH]].
  destruct r as [|b [|c [|d r']]]; try (constructor; [auto|apply IH]).
  destruct (match4 t b c d); (constructor; [cbn [unl tspan tkind]; auto|apply IH]).
Qed.

(* ====================================================================================== *)
(** * the leader-removal pass: remove_indices over jd_removable = the structural filter jd_strip *)

Fixpoint jd_strip (after_nl : bool) (l : list tok) : list tok :=
  match l with
  | [] => []
  | t :: r => if after_nl && is_removable t then jd_strip true r
              else t :: jd_strip (is_newline_kind (tkind t)) r
  end.

Lemma jd_removable_ge : forall l c b, Forall (fun j => c <= j) (jd_removable l c b).
Proof.
  induction l as [|t r IH]; intros c b; cbn [jd_removable]; [constructor|].
  destruct (b && is_removable t).
  - constructor; [lia|]. eapply Forall_impl; [|apply IH]. cbn. intros; lia.
  - eapply Forall_impl; [|apply IH]. cbn. intros; lia.
Qed.

Lemma remove_indices_strip : forall l i b, remove_indices l i (jd_removable l i b) = jd_strip b l.
Proof.
  induction l as [|t r IH]; intros i b; [reflexivity|]. cbn [jd_removable jd_strip].
  destruct (b && is_removable t).
  - cbn [remove_indices]. rewrite Nat.eqb_refl. apply IH.
  - pose proof (jd_removable_ge r (S i) (is_newline_kind (tkind t))) as Hge.
    cbn [remove_indices].
    destruct (jd_removable r (S i) (is_newline_kind (tkind t))) as [|n q] eqn:E.
    + f_equal. rewrite <- E. apply IH.
    + inversion Hge; subst. destruct (Nat.eqb_spec i n); [lia|]. f_equal. rewrite <- E. apply IH.
Qed.

Lemma jd_strip_in : forall l b t, In t (jd_strip b l) -> In t l.
Proof.
  induction l as [|x r IH]; intros b t H; [destruct H|]. cbn [jd_strip] in H.
  destruct (b && is_removable x).
  - right. eapply IH; eauto.
  - destruct H as [<-|H]; [now left|right; eapply IH; eauto].
Qed.

(* what is removed is a Star or Space token that follows a Newline through removed tokens only; a token that
   is neither Star nor Space is always kept *)
Lemma jd_strip_keeps : forall l b t, In t l -> is_removable t = false -> In t (jd_strip b l).
Proof.
  induction l as [|x r IH]; intros b t H Hr; [destruct H|]. cbn [jd_strip].
  destruct H as [->|H].
  - rewrite Hr, andb_false_r. now left.
  - destruct (b && is_removable x); [|right]; now apply IH.
Qed.

(* ====================================================================================== *)
(** * JavaDoc::parse *)

Section JavaDocProofs.
  Variable is_whitespace : N -> bool.
  Variable html : text -> list tok.

  Definition javadoc_spec (src : text) (actual : span) : list tok :=
    jd_s 0 (mit_s 0 (map (tpush (sstart actual)) (jd_strip false (html (slice src (sstart actual) (send actual)))))).

  (* never panics, terminates, and is: html parse of the comment without initiators; Star/Space runs after a
     Newline removed; shifted by the initiators' length; inline tags, then @tag windows, marked Unlintable *)
  Theorem javadoc_parse_exact (src : text) :
    exists actual, without_initiators is_whitespace src = Ok actual /\
      sstart actual <= send actual <= length src /\
      javadoc_parse is_whitespace html src = Ok (javadoc_spec src actual).
  Proof.
    destruct (without_initiators_spec is_whitespace src) as (a & Ha & (H1 & H2) & _).
    exists a. split; [assumption|]. split; [lia|]. unfold javadoc_parse, javadoc_spec. rewrite Ha. cbn [bind].
    rewrite (get_content_in src a) by (unfold span_wf; lia). cbn [bind].
    rewrite remove_indices_strip, mark_inline_tags_exact. cbn [bind]. apply jd_tags_exact.
  Qed.

  Hypothesis html_wf : forall c t0, In t0 (html c) -> sstart (tspan t0) <= send (tspan t0).
  Hypothesis html_in_bounds : forall c t0, In t0 (html c) -> send (tspan t0) <= length c.

  (* every token of the result is a token of the html parse of source[a..b) (the comment without initiators)
     at its true position: span shifted by a, kind unchanged or Unlintable, inside [a, b), same text in the
     file as in the inner parse *)
  Theorem javadoc_offsets (src : text) toks : javadoc_parse is_whitespace html src = Ok toks ->
    exists actual, without_initiators is_whitespace src = Ok actual /\
      sstart actual <= send actual <= length src /\
      let a := sstart actual in let b := send actual in
      Forall (fun tk => exists t0, In t0 (html (slice src a b)) /\ tspan tk = push_by (tspan t0) a /\
                (tkind tk = tkind t0 \/ tkind tk = K_UNLINTABLE) /\
                a <= sstart (tspan tk) /\ sstart (tspan tk) <= send (tspan tk) /\ send (tspan tk) <= b /\
                slice src (sstart (tspan tk)) (send (tspan tk))
                = slice (slice src a b) (sstart (tspan t0)) (send (tspan t0))) toks.
  Proof.
    intros H. destruct (javadoc_parse_exact src) as (actual & Ha & (H1 & H2) & He).
    exists actual. split; [assumption|]. split; [lia|]. cbv zeta.
    rewrite He in H. inversion H; subst toks. clear H. unfold javadoc_spec.
    set (c := slice src (sstart actual) (send actual)).
    set (l := map (tpush (sstart actual)) (jd_strip false (html c))).
    assert (Hk : kind_only l (jd_s 0 (mit_s 0 l))).
    { eapply kind_only_trans; [apply mit_s_kind_only|apply jd_s_kind_only]. }
    rewrite Forall_forall. intros tk Htk.
    destruct (kind_only_in _ _ _ Hk Htk) as (t1 & Ht1 & Hs & Hkd).
    unfold l in Ht1. apply in_map_iff in Ht1 as (t0 & <- & Ht0). apply jd_strip_in in Ht0.
    pose proof (html_in_bounds _ _ Ht0) as Hb. pose proof (html_wf _ _ Ht0) as Hw.
    unfold c in Hb. rewrite slice_length in Hb by lia.
    exists t0. rewrite Hs. cbn [tpush tspan tkind push_by sstart send] in *.
    repeat split; try assumption; try lia.
    unfold c. rewrite slice_slice by lia. f_equal; lia.
  Qed.

  (* conversely nothing but leader Stars/Spaces is lost: an html token that is neither Star nor Space appears in
     the result at its true position *)
  Theorem javadoc_keeps (src : text) actual t0 :
    without_initiators is_whitespace src = Ok actual ->
    In t0 (html (slice src (sstart actual) (send actual))) -> is_removable t0 = false ->
    exists tk, In tk (javadoc_spec src actual) /\ tspan tk = push_by (tspan t0) (sstart actual) /\
               (tkind tk = tkind t0 \/ tkind tk = K_UNLINTABLE).
  Proof.
    intros Ha Hin Hr. unfold javadoc_spec.
    set (l := map (tpush (sstart actual)) (jd_strip false (html (slice src (sstart actual) (send actual))))).
    assert (Hk : kind_only l (jd_s 0 (mit_s 0 l))).
    { eapply kind_only_trans; [apply mit_s_kind_only|apply jd_s_kind_only]. }
    assert (Hl : In (tpush (sstart actual) t0) l).
    { unfold l. apply in_map. now apply jd_strip_keeps. }
    clear -Hk Hl. revert Hl. induction Hk as [|x y l0 l0' Hxy H IH]; intros Hl; [destruct Hl|].
    destruct Hl as [->|Hl].
    - exists y. split; [now left|]. exact Hxy.
    - destruct (IH Hl) as (tk & Htk & Hr). exists tk. split; [now right|assumption].
  Qed.
End JavaDocProofs.

(* ====================================================================================== *)
(** * JsDoc::parse with the real post-passes *)

Lemma block_tag_pos_bound : forall l p, block_tag_pos l = Some p -> p < length l.
Proof.
  induction l as [|a r IH]; intros p H; [discriminate|]. cbn [block_tag_pos] in H.
  destruct r as [|b r']; [discriminate|].
  destruct (is_at a && is_word b); [inversion H; cbn; lia|].
  destruct (block_tag_pos (b :: r')) as [q|] eqn:E; [|discriminate]. inversion H; subst.
  specialize (IH q eq_refl). cbn [length] in *. lia.
Qed.

Definition jsdoc_post_s (l : list tok) : list tok :=
  let l1 := mit_s 0 l in
  match block_tag_pos l1 with
  | Some p => firstn p l1 ++ map unl (skipn p l1)
  | None => l1
  end.

Lemma jsdoc_post_exact l : jsdoc_post l = Ok (jsdoc_post_s l).
Proof.
  unfold jsdoc_post, jsdoc_post_s. rewrite mark_inline_tags_exact. cbn [bind].
  destruct (block_tag_pos (mit_s 0 l)) as [p|] eqn:E; [|reflexivity].
  apply block_tag_pos_bound in E. set (l1 := mit_s 0 l) in *.
  assert (Hm : mark_range l1 p (length l1) = Ok (firstn p l1 ++ map unl (skipn p l1))).
  { pose proof (mark_range_app (firstn p l1) (skipn p l1) []) as Hm.
    rewrite !app_nil_r, firstn_skipn in Hm. rewrite firstn_length, skipn_length in Hm.
    replace (Nat.min p (length l1)) with p in Hm by lia.
    replace (p + (length l1 - p)) with (length l1) in Hm by lia. exact Hm. }
  rewrite Hm. reflexivity.
Qed.

Lemma jsdoc_post_kind_only l : kind_only l (jsdoc_post_s l).
Proof.
  unfold jsdoc_post_s. eapply kind_only_trans; [apply (mit_s_kind_only l 0)|].
  destruct (block_tag_pos (mit_s 0 l)) as [p|]; [|apply kind_only_refl].
  rewrite <- (firstn_skipn p (mit_s 0 l)) at 1. apply kind_only_app; [apply kind_only_refl|apply kind_only_unl].
Qed.

Section JsDocProofs.
  Variable is_whitespace : N -> bool.
  Variable inner : text -> list tok.

  Lemma jsdoc_full_line_exact line :
    jsdoc_full_line is_whitespace inner line = jsdoc_parse_line is_whitespace inner jsdoc_post_s line.
  Proof.
    unfold jsdoc_full_line, jsdoc_parse_line.
    destruct (without_initiators is_whitespace line) as [a|]; cbn [bind]; [|reflexivity].
    destruct (span_len a) as [len|]; cbn [bind]; [|reflexivity]. destruct (len =? 0); [reflexivity|].
    destruct (get_content a line) as [c|]; cbn [bind]; [|reflexivity]. now rewrite jsdoc_post_exact.
  Qed.

  (* JsDoc::parse with mark_inline_tags + the block-tag pass = the line loop of Mask.v with the structural,
     total, kind-only post-pass *)
  Theorem jsdoc_full_exact src :
    jsdoc_full_parse is_whitespace inner src = jsdoc_parse is_whitespace inner jsdoc_post_s src.
  Proof.
    unfold jsdoc_full_parse, jsdoc_parse. generalize (length src) as total, 0 as off.
    induction (split_lines src) as [|line rest IH]; intros total off; cbn [jsdoc_full_loop jsdoc_loop]; [reflexivity|].
    rewrite jsdoc_full_line_exact, IH. reflexivity.
  Qed.

  Lemma jsdoc_parse_line_total post line : exists t, jsdoc_parse_line is_whitespace inner post line = Ok t.
  Proof.
    unfold jsdoc_parse_line. destruct (without_initiators_spec is_whitespace line) as (a & Ha & (H1 & H2) & _). rewrite Ha. cbn [bind].
    unfold span_len, sub_chk. destruct (Nat.ltb_spec (send a) (sstart a)); [lia|]. cbn [bind].
    destruct (send a - sstart a =? 0); [eauto|]. rewrite (get_content_in line a) by (unfold span_wf; lia). cbn [bind]. eauto.
  Qed.

  Theorem jsdoc_full_total src : exists toks, jsdoc_full_parse is_whitespace inner src = Ok toks.
  Proof.
    rewrite jsdoc_full_exact. unfold jsdoc_parse. generalize (length src) as total, 0 as off.
    induction (split_lines src) as [|line rest IH]; intros total off; cbn [jsdoc_loop]; [eauto|].
    destruct (jsdoc_parse_line_total jsdoc_post_s line) as [t ->]. cbn [bind].
    destruct (IH total (off + length line + 1)) as [r ->]. cbn [bind]. eauto.
  Qed.

  Hypothesis inner_wf : forall c t0, In t0 (inner c) -> sstart (tspan t0) <= send (tspan t0).
  Hypothesis inner_in_bounds : forall c t0, In t0 (inner c) -> send (tspan t0) <= length c.

  (* a token derived from the inner parse of one line, kind possibly rewritten to Unlintable *)
  Definition from_line_kind (src : text) (tk : tok) : Prop :=
    exists line off a t0,
      slice src off (off + length line) = line /\ off + length line <= length src /\
      without_initiators is_whitespace line = Ok a /\
      In t0 (inner (slice line (sstart a) (send a))) /\
      tspan tk = push_by (tspan t0) (off + sstart a) /\ (tkind tk = tkind t0 \/ tkind tk = K_UNLINTABLE) /\
      off + sstart a <= sstart (tspan tk) /\ sstart (tspan tk) <= send (tspan tk) /\ send (tspan tk) <= off + send a /\
      slice src (sstart (tspan tk)) (send (tspan tk))
      = slice (slice line (sstart a) (send a)) (sstart (tspan t0)) (send (tspan t0)).

  Lemma jsdoc_line_spec src line off toks :
    slice src off (off + length line) = line -> off + length line <= length src ->
    jsdoc_parse_line is_whitespace inner jsdoc_post_s line = Ok toks ->
    Forall (fun tk => from_line_kind src (tpush off tk)) toks.
  Proof.
    intros Hsl Hlen. unfold jsdoc_parse_line.
    destruct (without_initiators_spec is_whitespace line) as (a & Ha & (Ha1 & Ha2) & _). rewrite Ha. cbn [bind].
    unfold span_len, sub_chk. destruct (Nat.ltb_spec (send a) (sstart a)); [lia|]. cbn [bind].
    destruct (Nat.eqb_spec (send a - sstart a) 0); [intros Hr; inversion Hr; constructor|].
    rewrite (get_content_in line a) by (unfold span_wf; lia). cbn [bind]. intros Hr; inversion Hr; subst toks. clear Hr.
    rewrite Forall_forall. intros tk Htk. apply in_map_iff in Htk as (t1 & <- & Ht1).
    destruct (kind_only_in _ _ _ (jsdoc_post_kind_only _) Ht1) as (t0 & Ht0 & Hs & Hk).
    pose proof (inner_in_bounds _ _ Ht0) as Hb. pose proof (inner_wf _ _ Ht0) as Hw.
    rewrite slice_length in Hb by lia.
    exists line, off, a, t0. cbn [tpush tspan tkind push_by sstart send]. rewrite Hs.
    repeat split; try assumption; try lia; [unfold push_by; cbn [sstart send]; f_equal; lia|].
    rewrite slice_slice by lia.
    transitivity (slice (slice src off (off + length line)) (sstart a + sstart (tspan t0)) (sstart a + send (tspan t0)));
      [|now rewrite Hsl].
    rewrite slice_slice by lia. f_equal; lia.
  Qed.

  Lemma jsdoc_loop_spec src : forall lines off toks,
    lines_at src lines off ->
    jsdoc_loop is_whitespace inner jsdoc_post_s (length src) lines off = Ok toks ->
    Forall (fun tk => from_line_kind src tk \/
                      (tkind tk = K_NEWLINE1 /\ send (tspan tk) = sstart (tspan tk) + 1 /\ send (tspan tk) <= length src)) toks.
  Proof.
    induction lines as [|line rest IH]; intros off toks Hat Hrun; cbn [jsdoc_loop] in Hrun.
    - inversion Hrun. constructor.
    - cbn [lines_at] in Hat. destruct Hat as (Hsl & Hlen & Hrest).
      destruct (jsdoc_parse_line is_whitespace inner jsdoc_post_s line) as [lt|] eqn:El; cbn [bind] in Hrun; [|discriminate].
      destruct (jsdoc_loop is_whitespace inner jsdoc_post_s (length src) rest (off + length line + 1)) as [r|] eqn:Er; cbn [bind] in Hrun; [|discriminate].
      inversion Hrun; subst toks. clear Hrun. apply Forall_app. split; [|apply (IH _ _ Hrest Er)].
      pose proof (jsdoc_line_spec src line off lt Hsl Hlen El) as Hl.
      destruct (Nat.ltb_spec (off + length line) (length src)).
      * rewrite map_app. apply Forall_app. split.
        -- rewrite Forall_forall in *. intros tk Htk. apply in_map_iff in Htk as (t1 & <- & Ht1). left. now apply Hl.
        -- constructor; [|constructor]. right. cbn. repeat split; lia.
      * rewrite Forall_forall in *. intros tk Htk. apply in_map_iff in Htk as (t1 & <- & Ht1). left. now apply Hl.
  Qed.

  (* JsDoc::parse: every token is a one-char Newline(1) or an inner token of ONE line at line start + leader
     length + inner offset (kind unchanged or Unlintable), same text in the file as in the inner parse *)
  Theorem jsdoc_full_offsets src toks : jsdoc_full_parse is_whitespace inner src = Ok toks ->
    Forall (fun tk => from_line_kind src tk \/
                      (tkind tk = K_NEWLINE1 /\ send (tspan tk) = sstart (tspan tk) + 1 /\ send (tspan tk) <= length src)) toks.
  Proof. rewrite jsdoc_full_exact. intros H. exact (jsdoc_loop_spec src _ 0 toks (split_lines_at src) H). Qed.
End JsDocProofs.

(* ====================================================================================== *)
(** * witnesses *)

Definition T (s e : nat) (k : N) : tok := mktok (mkspan s e) k.

(* "{@ " unterminated (F4: used to hang): nothing is marked, the loop ends;
   "{@link A} x": the five tokens of the tag are Unlintable, the rest is kept *)
Example inline_tag_unterminated_terminates :
  mark_inline_tags [T 0 1 63; T 1 2 61; T 2 3 2001]%N = Ok [T 0 1 63; T 1 2 61; T 2 3 2001]%N /\
  mark_inline_tags [T 0 1 63; T 1 2 61; T 2 6 5; T 6 7 2001; T 7 8 5; T 8 9 64; T 9 10 2001; T 10 11 5]%N
  = Ok [T 0 1 2; T 1 2 2; T 2 6 2; T 6 7 2; T 7 8 2; T 8 9 2; T 9 10 2001; T 10 11 5]%N /\
  mark_inline_tags [T 0 1 63; T 1 2 61; T 2 6 5; T 6 7 2001; T 7 8 5]%N
  = Ok [T 0 1 63; T 1 2 61; T 2 6 5; T 6 7 2001; T 7 8 5]%N.
Proof. vm_compute. repeat split; reflexivity. Qed.

(* FC04i as the model has it: "@param xq_1 foo": At Word Space Word(xq) are Unlintable, `_` `1` (the rest of the
   parameter name) and the description are offered *)
Example javadoc_tag_window_one_word :
  jd_tags [T 0 1 61; T 1 6 5; T 6 7 2001; T 7 9 5; T 9 10 6; T 10 11 7; T 11 12 2001; T 12 15 5]%N
  = Ok [T 0 1 2; T 1 6 2; T 6 7 2; T 7 9 2; T 9 10 6; T 10 11 7; T 11 12 2001; T 12 15 5]%N.
Proof. vm_compute. reflexivity. Qed.
