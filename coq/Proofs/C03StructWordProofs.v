(* C03StructWordProofs.v (phase 7) — SentenceCapitalization's premise DISCHARGED.
   (a) tokens non-empty and inside the source  =>  every parsed source (with_len(1) included) stays inside the document;
       the tokens of a plain-English document (Condense.document_plain, C02) are such tokens: C02's document_plain_tiling
       (imported: the tokens tile [0,|s|) — consecutive, NON-EMPTY);  hence for plain-English documents NO struct rule of the
       table keeps a premise: `struct_rows_unclassified_ne = []`.
   (b) word tokens non-empty (C02's TokInv: zero-width tokens are Newline / ParagraphBreak only) + tokens inside the source
       => the same for rows whose with_len(1) sites are guarded by `kind.is_word()` (generated list struct_word_guards). *)
From Coq Require Import List Arith NArith Bool String Lia.
Require Import Base Cache CacheProofs C03LintGroup C03LintGroupProofs C03Roots C03RootsProofs Tables_c03roots.
Require Import C03StructRoots Tables_c03structroots C03StructRootsProofs C03StructWord.
Require Lexer Condense TokenInv DocumentProofs C02Gapped LexerProofs.
Import ListNotations.
Local Open Scope nat_scope.

Section Ne.
  Variable kind : Type.
  Notation toks := (list (Cache.tok kind)).

  (* a non-empty token inside the source *)
  Definition tok_ne_within (n : nat) (t : Cache.tok kind) : Prop := sstart (snd t) < send (snd t) /\ send (snd t) <= n.

  Lemma tok_ne_within_within n t : tok_ne_within n t -> tok_within 0 n t.
  Proof. unfold tok_ne_within, tok_within. lia. Qed.

  Lemma with_len1_in n (s : span) : sstart s < send s -> send s <= n -> span_in n (with_len s 1).
  Proof. unfold span_in, with_len. cbn [sstart send]. lia. Qed.

  Theorem eval_dsrc_in_ne n (ts : toks) dyn a s :
    Forall (tok_ne_within n) ts -> dsrc_classified_ne a = true -> eval_dsrc ts dyn a = Some s -> span_in n s.
  Proof.
    intros F C E. destruct (dsrc_classified a) eqn:CA.
    - eapply eval_dsrc_in; [|exact CA|exact E]. eapply Forall_impl; [|exact F]. intros t. apply tok_ne_within_within.
    - destruct a; cbn [dsrc_classified dsrc_classified_ne] in CA, C; try discriminate. cbn [eval_dsrc] in E.
      destruct (nth_error ts (dyn 0)) as [t|] eqn:N; [|discriminate]. injection E as <-.
      apply nth_error_In in N. rewrite Forall_forall in F. destruct (F t N) as [A B]. now apply with_len1_in.
  Qed.

  Corollary eval_dsrc_in_ne_pin n (ts : toks) dyn a s :
    Forall (fun t : Cache.tok kind => sstart (snd t) < send (snd t) /\ send (snd t) <= n) ts ->
    a <> DUnknown -> eval_dsrc ts dyn a = Some s -> span_in n s.
  Proof. intros F C. apply eval_dsrc_in_ne; [exact F|destruct a; try reflexivity; now elim C]. Qed.

  Definition tokens_nonempty_in_source (dtoks : ldoc kind -> toks) : Prop :=
    forall d, doc_ok kind d -> Forall (tok_ne_within (List.length (l_src d))) (dtoks d).

  Lemma tokens_nonempty_in_source_weaken dtoks : tokens_nonempty_in_source dtoks -> tokens_in_source dtoks.
  Proof. intros H d Hd. eapply Forall_impl; [|exact (H d Hd)]. intros t. apply tok_ne_within_within. Qed.

  Theorem struct_wrule_in_ne dtoks srcs sel :
    tokens_nonempty_in_source dtoks -> forallb dsrc_classified_ne srcs = true -> wrule_ok (struct_wrule dtoks srcs sel).
  Proof.
    intros HT HC t d Hd. unfold struct_wrule. apply Forall_flat_map_intro. intros [[i dyn] payload] _.
    destruct (nth_error srcs i) as [a|] eqn:N; [|constructor].
    destruct (eval_dsrc (dtoks d) dyn a) as [s|] eqn:E; [|constructor]. constructor; [|constructor].
    unfold lint_in. cbn [cl_span]. eapply eval_dsrc_in_ne; [apply HT, Hd| |exact E].
    apply nth_error_In in N. rewrite forallb_forall in HC. now apply HC.
  Qed.

  (* ---- (b) the guarded reading ---- *)
  Variable isw : kind -> bool.
  Definition word_tokens_nonempty (dtoks : ldoc kind -> toks) : Prop :=
    forall d, doc_ok kind d -> Forall (fun t => isw (fst t) = true -> sstart (snd t) < send (snd t)) (dtoks d).

  Theorem eval_dsrc_w_in n (ts : toks) dyn a s :
    Forall (tok_within 0 n) ts -> Forall (fun t => isw (fst t) = true -> sstart (snd t) < send (snd t)) ts ->
    dsrc_classified_ne a = true -> eval_dsrc_w isw ts dyn a = Some s -> span_in n s.
  Proof.
    intros F W C E. destruct (dsrc_classified a) eqn:CA.
    - eapply eval_dsrc_in; [exact F|exact CA|]. destruct a; try exact E; discriminate.
    - destruct a; cbn [dsrc_classified dsrc_classified_ne] in CA, C; try discriminate. cbn [eval_dsrc_w] in E.
      destruct (nth_error ts (dyn 0)) as [t|] eqn:N; [|discriminate]. destruct (isw (fst t)) eqn:I; [|discriminate].
      injection E as <-. apply nth_error_In in N. rewrite Forall_forall in F, W.
      destruct (F t N) as (_ & _ & B). apply with_len1_in; [now apply W|exact B].
  Qed.

  Theorem struct_wrule_w_in dtoks srcs sel :
    tokens_in_source dtoks -> word_tokens_nonempty dtoks -> forallb dsrc_classified_ne srcs = true ->
    wrule_ok (struct_wrule_w isw dtoks srcs sel).
  Proof.
    intros HT HW HC t d Hd. unfold struct_wrule_w. apply Forall_flat_map_intro. intros [[i dyn] payload] _.
    destruct (nth_error srcs i) as [a|] eqn:N; [|constructor].
    destruct (eval_dsrc_w isw (dtoks d) dyn a) as [s|] eqn:E; [|constructor]. constructor; [|constructor].
    unfold lint_in. cbn [cl_span]. eapply eval_dsrc_w_in; [apply HT, Hd|apply HW, Hd| |exact E].
    apply nth_error_In in N. rewrite forallb_forall in HC. now apply HC.
  Qed.
End Ne.
Arguments tok_ne_within {kind}.
Arguments tokens_nonempty_in_source {kind}.
Arguments word_tokens_nonempty {kind}.

(* ---------- the lexer side (C02, imported): tokens of a plain-English document ---------- *)
Lemma tiling_tokens_ne_within enc n ts :
  TokenInv.Tiling 0 n ts -> Forall (tok_ne_within n) (plain_ctoks enc ts).
Proof.
  intros T. pose proof (TokenInv.tiling_nonempty _ _ _ T) as NE. pose proof (TokenInv.tiling_in_range _ _ _ T) as IR.
  unfold plain_ctoks. apply Forall_forall. intros x Hx. apply in_map_iff in Hx. destruct Hx as (t & <- & Ht).
  rewrite Forall_forall in NE, IR. specialize (NE t Ht). specialize (IR t Ht). unfold tok_ne_within. cbn [snd].
  unfold Lexer.tstart, Lexer.tend in *. lia.
Qed.

(* every token of Document::new_plain_english(s) — in particular the first word of a sentence — is non-empty and inside s:
   no hypothesis, ANY Unicode tables, any encoding of the kinds *)
Theorem plain_tokens_pin u enc (d : ldoc pkind) :
  Forall (fun t : Cache.tok pkind => sstart (snd t) < send (snd t) /\ send (snd t) <= List.length (l_src d)) (plain_dtoks u enc d).
Proof.
  unfold plain_dtoks. destruct (DocumentProofs.document_plain_tiling u (l_src d)) as (ts & E & T & _).
  rewrite E. now apply tiling_tokens_ne_within.
Qed.
Theorem plain_tokens_nonempty_in_source u enc : tokens_nonempty_in_source (plain_dtoks u enc).
Proof. intros d _. apply plain_tokens_pin. Qed.

(* the other front-ends, as far as C02 has them: under TokInv a Word token is non-empty (zero-width tokens are Newline /
   ParagraphBreak) — the premise of reading (b), for any encoding whose `isw` accepts Word tokens only *)
Theorem tokinv_word_tokens_nonempty (enc : Lexer.token -> pkind) (isw : pkind -> bool) n ts :
  (forall t, isw (enc t) = true -> Lexer.tkind_of t = Lexer.KWord) ->
  C02Gapped.TokInv n ts ->
  Forall (fun t : Cache.tok pkind => isw (fst t) = true -> sstart (snd t) < send (snd t)) (plain_ctoks enc ts).
Proof.
  intros HW (WF & _ & _ & ZW). unfold plain_ctoks. apply Forall_forall. intros x Hx. apply in_map_iff in Hx.
  destruct Hx as (t & <- & Ht). cbn [fst snd]. intros I. apply HW in I.
  rewrite Forall_forall in WF. specialize (WF t Ht). unfold TokenInv.ZeroWidthOnlyBreaks in ZW. rewrite Forall_forall in ZW.
  specialize (ZW t Ht). unfold Lexer.tstart, Lexer.tend in *.
  destruct (Nat.eq_dec (sstart (Lexer.tspan t)) (send (Lexer.tspan t))) as [EQ|NEQ]; [|lia].
  specialize (ZW EQ). rewrite I in ZW. destruct ZW.
Qed.

(* ---------- rules of the table ---------- *)
Definition struct_table_rule_ne (dtoks : ldoc pkind -> list (Cache.tok pkind)) (r : wrule pkind) : Prop :=
  exists row sel, In row struct_rule_bodies /\ drow_classified_ne row = true /\ r = struct_wrule dtoks (drow_srcs row) sel.
Definition struct_table_rule_w (isw : pkind -> bool) (dtoks : ldoc pkind -> list (Cache.tok pkind)) (r : wrule pkind) : Prop :=
  exists row sel, In row struct_rule_bodies /\ drow_classified_ne row = true /\ drow_guarded struct_word_guards row = true /\
                  r = struct_wrule_w isw dtoks (drow_srcs row) sel.

Lemma drow_classified_ne_srcs row : drow_classified_ne row = true -> forallb dsrc_classified_ne (drow_srcs row) = true.
Proof.
  unfold drow_classified_ne, drow_srcs. intros H. apply andb_true_iff in H. destruct H as [H _].
  rewrite forallb_forall in *. intros a Ha. apply in_map_iff in Ha. destruct Ha as (s & <- & Hs).
  specialize (H s Hs). unfold dsite_classified_ne in H. apply andb_true_iff in H. tauto.
Qed.

Theorem table_struct_rules_ok_ne dtoks (linters : list (N * wrule pkind)) :
  tokens_nonempty_in_source dtoks ->
  (forall n r, In (n, r) linters -> struct_table_rule_ne dtoks r \/ wrule_ok r) -> wrules_ok pkind linters.
Proof.
  intros HT H n r t d Hin Hd. destruct (H n r Hin) as [(row & sel & _ & HC & ->)|HO]; [|now apply HO].
  apply struct_wrule_in_ne; [exact HT|now apply drow_classified_ne_srcs|exact Hd].
Qed.

Theorem table_struct_rules_ok_w isw dtoks (linters : list (N * wrule pkind)) :
  tokens_in_source dtoks -> word_tokens_nonempty isw dtoks ->
  (forall n r, In (n, r) linters -> struct_table_rule_w isw dtoks r \/ wrule_ok r) -> wrules_ok pkind linters.
Proof.
  intros HT HW H n r t d Hin Hd. destruct (H n r Hin) as [(row & sel & _ & HC & _ & ->)|HO]; [|now apply HO].
  apply struct_wrule_w_in; [exact HT|exact HW|now apply drow_classified_ne_srcs|exact Hd].
Qed.

(* ---------- what the table says today (re-checked on every run) ---------- *)
Definition struct_rows_unclassified_ne : list string :=
  map d_name (filter (fun r => negb (drow_classified_ne r)) struct_rule_bodies).
Definition struct_rows_unguarded : list string :=
  map d_name (filter (fun r => negb (drow_guarded struct_word_guards r)) struct_rule_bodies).
(* for plain-English documents NO struct rule keeps a premise; every with_len(1) site is guarded by is_word(); the rows that
   needed a premise before (struct_rules_with_premise) are still rows of the table *)
Lemma struct_table_plain_today :
  struct_rows_unclassified_ne = [] /\ struct_rows_unguarded = [] /\
  forallb (fun n => existsb (fun r => String.eqb (d_name r) n && existsb (fun s => match d_src s with DWithLen1 => true | _ => false end) (d_sites r))
                            struct_rule_bodies) struct_rules_with_premise = true /\
  15 <= List.length (filter drow_classified_ne struct_rule_bodies).
Proof. repeat split; vm_compute; try reflexivity; repeat constructor. Qed.

(* LintGroup::lint on PLAIN-ENGLISH documents: whole-document rules = rows of the struct table reading document.tokens =
   the tokens of Document::new_plain_english (C02 model), pattern rules = rules of the pattern table: over every history NO
   premise on any rule of either table and NO token hypothesis *)
Theorem plain_struct_lintgroup_history_in_bounds
    (cfg : Type) (enabled : cfg -> N -> bool) (cfg_hash : cfg -> N) (tok_hash : list (Cache.tok pkind) -> N)
    (u : Lexer.uni) (enc : Lexer.token -> pkind)
    (linters : list (N * wrule pkind)) (plinters : list (N * prule pkind)) :
  (forall n r, In (n, r) linters -> struct_table_rule_ne (plain_dtoks u enc) r \/ wrule_ok r) ->
  (forall n r, In (n, r) plinters -> table_rule r) ->
  forall h st, hist_ok cfg pkind h -> cache_ok (lg_cache st) ->
    exists st' outs, lg_run cfg pkind enabled cfg_hash tok_hash linters plinters h st = Ok (st', outs) /\
                     cache_ok (lg_cache st') /\ map fst outs = hist_docs cfg pkind h /\ outs_in pkind outs.
Proof.
  intros HW HP. apply table_lintgroup_history_in_bounds; [|exact HP].
  eapply table_struct_rules_ok_ne; [apply plain_tokens_nonempty_in_source|exact HW].
Qed.

(* ---------- non-vacuity: the row of SentenceCapitalization over the tokens of the plain-English document "ab cd." ---------- *)
Definition exw_name : string := "SentenceCapitalization"%string.
Definition exw_row : drow :=
  match find (fun r => String.eqb (d_name r) "SentenceCapitalization") struct_rule_bodies with Some r => r | None => mkdrow ""%string ""%string [] end.
Definition exw_enc (t : Lexer.token) : pkind := (match Lexer.tkind_of t with Lexer.KWord => 1 | _ => 0 end, 0%N, 0).
Definition exw_isw (k : pkind) : bool := match k with (1, _, _) => true | _ => false end.
Definition exw_src : text := [97; 98; 32; 99; 100; 46]%N.
Definition exw_doc : ldoc pkind := mkldoc exw_src [] 0%N.
Definition exw_sel : dsel pkind :=
  fun _ _ => [(0, fun _ => 0, 7%N);      (* first_word = "ab": 0..1 *)
              (0, fun _ => 1, 7%N);      (* the space: with_len(1) is still inside (non-empty token); the guarded reading skips it *)
              (0, fun _ => 3, 7%N);      (* the final ".": 5..6, the end of the source *)
              (0, fun _ => 9, 7%N)].     (* no such token *)
Definition exw_rule : wrule pkind := struct_wrule (plain_dtoks LexerProofs.ascii_uni exw_enc) (drow_srcs exw_row) exw_sel.
Definition exw_rule_w : wrule pkind := struct_wrule_w exw_isw (plain_dtoks LexerProofs.ascii_uni exw_enc) (drow_srcs exw_row) exw_sel.
Example plain_struct_rule_example :
  d_name exw_row = exw_name /\ drow_srcs exw_row = [DWithLen1] /\
  drow_classified exw_row = false /\ drow_classified_ne exw_row = true /\ drow_guarded struct_word_guards exw_row = true /\
  struct_table_rule_ne (plain_dtoks LexerProofs.ascii_uni exw_enc) exw_rule /\
  map snd (plain_dtoks LexerProofs.ascii_uni exw_enc exw_doc) = [mkspan 0 2; mkspan 2 3; mkspan 3 5; mkspan 5 6] /\
  exw_rule 0 exw_doc = [mkclint (mkspan 0 1) 7%N; mkclint (mkspan 2 3) 7%N; mkclint (mkspan 5 6) 7%N] /\
  exw_rule_w 0 exw_doc = [mkclint (mkspan 0 1) 7%N] /\
  Forall (lint_in (List.length exw_src)) (exw_rule 0 exw_doc).
Proof.
  split; [vm_compute; reflexivity|]. split; [vm_compute; reflexivity|]. split; [vm_compute; reflexivity|].
  split; [vm_compute; reflexivity|]. split; [vm_compute; reflexivity|].
  split.
  { exists exw_row, exw_sel. split; [|split; [vm_compute; reflexivity|reflexivity]].
    unfold exw_row. destruct (find (fun r => String.eqb (d_name r) "SentenceCapitalization") struct_rule_bodies) as [r|] eqn:Fd; [|vm_compute in Fd; discriminate].
    apply find_some in Fd. exact (proj1 Fd). }
  split; [vm_compute; reflexivity|]. split; [vm_compute; reflexivity|]. split; [vm_compute; reflexivity|].
  refine (struct_wrule_in_ne pkind (plain_dtoks LexerProofs.ascii_uni exw_enc) (drow_srcs exw_row) exw_sel _ _ 0 exw_doc _).
  - apply plain_tokens_nonempty_in_source.
  - vm_compute; reflexivity.
  - intros ts [].
Qed.
