(* C02MarkdownProofs.v — the Markdown glue of C02: under the explicit contract md_contract of the pulldown-cmark
   event stream (Model/C02Markdown.v), Markdown::parse never panics and its tokens have the token invariant of the
   property; more precisely EVERY token (the zero-width ones too) lies inside the text, the covering tokens are
   ordered and disjoint, the zero-width tokens are Newline / ParagraphBreak.
   Ingredients: C04's UTF-8 facts (MaskProofs: utf8_index, char_index_split; MaskFrontends: md_advance_spec),
   the tiling theorem of PlainEnglish::parse (LexerProofs.plain_tiling) for every Text chunk, and the fact that
   VecExt::remove_indices returns a sub-sequence for EVERY queue (the wikilink passes hand it unsorted queues). *)
Require Import Base Overlap Mask MaskProofs.
Require Import OverlapProofs Tables_lexer Lexer Condense ListLemmas TokenInv CondenseInv LexerProofs
  C02Wrappers C02Gapped C02Markdown WordsMaximal.
From Coq Require Import List Arith Lia.
Import ListNotations.

(* ---------- sub-sequences: remove_indices (any queue), the final pop ---------- *)
Lemma remove_indices_sub {A} : forall (xs : list A) i q, Sub (remove_indices i q xs) xs.
Proof.
  induction xs as [|x xs IH]; intros i q; cbn [remove_indices]; [constructor|].
  destruct q as [|r q'].
  - constructor. apply IH.
  - destruct (i =? r); [apply Sub_drop|apply Sub_keep]; apply IH.
Qed.

Lemma sub_app_r {A} (xs ys : list A) : Sub xs (xs ++ ys).
Proof.
  pose proof (sub_app xs xs [] ys (sub_refl xs) (sub_nil_l ys)) as H. rewrite app_nil_r in H. exact H.
Qed.

Lemma sub_trans {A} : forall (ys zs : list A), Sub ys zs -> forall xs, Sub xs ys -> Sub xs zs.
Proof.
  induction 1 as [|y ys zs H IH|z ys zs H IH]; intros xs Hx.
  - exact Hx.
  - inversion Hx; subst; [apply Sub_keep|apply Sub_drop]; auto.
  - apply Sub_drop. auto.
Qed.

Lemma mk_pop_last_sub src toks : Sub (mk_pop_last src toks) toks.
Proof.
  unfold mk_pop_last. destruct (rev toks) as [|l before] eqn:E; [apply sub_refl|].
  destruct (is_break_tok l && _); [|apply sub_refl].
  assert (toks = rev before ++ [l]) as ->.
  { rewrite <- (rev_involutive toks), E. reflexivity. }
  apply sub_app_r.
Qed.

Lemma remove_hidden_sub ts : Sub (remove_hidden_wikilink_tokens ts) ts.
Proof. apply remove_indices_sub. Qed.
Lemma remove_brackets_sub ts : Sub (remove_wikilink_brackets ts) ts.
Proof. apply remove_indices_sub. Qed.

(* ---------- every token inside the text ---------- *)
Definition InText (n : nat) (ts : list token) : Prop := Forall (fun t => tstart t <= tend t /\ tend t <= n) ts.

Lemma ordered_from_weaken : forall l lo1 lo2, lo2 <= lo1 -> OrderedFrom lo1 l -> OrderedFrom lo2 l.
Proof.
  induction l as [|t l IHl]; intros lo1 lo2 Hle HO; [constructor|].
  inversion HO; subst; [apply OF_zero; eauto|apply OF_cons; auto; lia].
Qed.

(* a tiling piece in front of an ordered rest *)
Lemma tiling_then_ordered a b xs : Tiling a b xs -> forall lo m ys, lo <= a -> b <= m -> OrderedFrom m ys ->
  OrderedFrom lo (xs ++ ys).
Proof.
  induction 1 as [a|a b t ts H1 H2 H3 IH]; intros lo m ys Hlo Hm HO; cbn [app].
  - eapply ordered_from_weaken; [|exact HO]. lia.
  - apply OF_cons; [unfold covers_chars; lia|lia|]. eapply IH; [lia|exact Hm|exact HO].
Qed.

Lemma tiling_intext a b n xs : Tiling a b xs -> b <= n -> InText n xs.
Proof.
  intros H Hb. pose proof (tiling_in_range _ _ _ H) as Hr. pose proof (tiling_nonempty _ _ _ H) as Hn.
  unfold InText. rewrite Forall_forall in *. intros t Ht. specialize (Hr t Ht). specialize (Hn t Ht). cbn in *. lia.
Qed.

(* push_by on a tiling *)
Lemma tiling_push by_ : forall a b ts, Tiling a b ts -> Tiling (a + by_) (b + by_) (map (pushtok by_) ts).
Proof.
  induction 1 as [a|a b t ts H1 H2 H3 IH]; cbn [map]; [constructor|].
  constructor.
  - unfold pushtok, tstart, push_by; cbn. unfold tstart in H1. lia.
  - unfold pushtok, tend, push_by; cbn. unfold tend in H2. lia.
  - replace (tend (pushtok by_ t)) with (tend t + by_) by (unfold pushtok, tend, push_by; reflexivity). exact IH.
Qed.

(* what a leaf event pushes: nothing, or a tiling of [a, b') with b' inside its source range *)
Definition Piece (a m : nat) (out : list token) : Prop := out = [] \/ exists b, Tiling a b out /\ b <= m.

Lemma piece_single a n m k : 1 <= n -> a + n <= m -> Piece a m [mktok (span_new_with_len a n) k].
Proof.
  intros Hn Hm. right. exists (a + n). split; [|exact Hm]. unfold span_new_with_len.
  apply tiling_single. lia.
Qed.

Lemma mk_text_piece u ilt (src : text) stack tc cl m : 1 <= cl -> tc + cl <= m -> m <= length src ->
  exists out, mk_text u ilt src stack tc cl = Ok out /\ Piece tc m out.
Proof.
  intros Hcl Hm Hlen.
  assert (Hlexed : exists out,
            (do chunk <- slice_chk src tc (tc + cl); do ts <- plain_parse u chunk; Ok (map (pushtok tc) ts)) = Ok out /\
            Piece tc m out).
  { unfold slice_chk. destruct (Nat.ltb_spec (tc + cl) tc); [lia|].
    destruct (Nat.ltb_spec (length src) (tc + cl)); [lia|]. cbn [orb bind].
    set (chunk := firstn (tc + cl - tc) (skipn tc src)).
    assert (Hlc : length chunk = cl).
    { unfold chunk. rewrite firstn_length, skipn_length. lia. }
    destruct (plain_tiling u chunk) as [ts [Hp Ht]]. rewrite Hp. cbn [bind]. eexists; split; [reflexivity|].
    right. exists (tc + cl). split; [|exact Hm]. rewrite Hlc in Ht.
    pose proof (tiling_push tc 0 cl ts Ht) as H'. rewrite Nat.add_0_l, (Nat.add_comm cl tc) in H'. exact H'. }
  assert (Hunl : Piece tc m [unl_tok tc cl]) by (apply piece_single; assumption).
  unfold mk_text. destruct stack as [|tag rest]; [exact Hlexed|].
  destruct tag; cbn [tag_is_prose]; try exact Hlexed;
    try (eexists; split; [reflexivity|]; first [exact Hunl | left; reflexivity]).
  destruct ilt; cbn [negb]; [eexists; split; [reflexivity|exact Hunl]|exact Hlexed].
Qed.

(* the cursor advance (the two facts of C04's MaskFrontends.v, re-proved here so that this file depends on MaskProofs only) *)
Lemma md_advance_spec bs tb tc rs tb' tc' : tc = char_index bs tb -> is_boundary bs tb = true ->
  md_advance bs tb tc rs = Ok (tb', tc') ->
  tb' = Nat.max tb rs /\ tc' = char_index bs tb' /\ is_boundary bs tb' = true.
Proof.
  intros Hc Hb. unfold md_advance. destruct (Nat.ltb_spec tb rs).
  - rewrite str_slice_ok. destruct ((tb <=? rs) && is_boundary bs tb && is_boundary bs rs) eqn:E; cbn [bind]; [|discriminate].
    intros H'. inversion H'; subst. apply andb_true_iff in E as [_ E]. repeat split; try lia; [|assumption].
    symmetry. apply char_index_split. lia.
  - intros H'. inversion H'; subst. repeat split; try lia; assumption.
Qed.
Lemma md_advance_ok bs tb tc rs : is_boundary bs tb = true -> is_boundary bs rs = true ->
  exists r, md_advance bs tb tc rs = Ok r.
Proof.
  intros Hb Hr. unfold md_advance. destruct (Nat.ltb_spec tb rs); [|eauto].
  rewrite str_slice_ok, Hb, Hr. destruct (Nat.leb_spec tb rs); [|lia]. cbn. eauto.
Qed.

(* ---------- the loop ---------- *)
Lemma tiling_last a b xs : Tiling a b xs -> xs <> [] -> exists t pre, rev xs = t :: pre /\ tend t = b.
Proof.
  induction 1 as [a|a b t ts H1 H2 H3 IH]; intros Hne; [contradiction|].
  destruct ts as [|t2 ts2].
  - inversion H3; subst. exists t, []. split; reflexivity.
  - destruct (IH ltac:(discriminate)) as (l & pre & E & Hl). cbn [rev] in *. rewrite E. cbn [app].
    exists l, (pre ++ [t]). split; [reflexivity|exact Hl].
Qed.

Lemma tiling_end_unique xs : forall a b c, Tiling a b xs -> Tiling a c xs -> b = c.
Proof.
  induction xs as [|t ts IH]; intros a b c H1 H2; inversion H1; inversion H2; subst; [reflexivity|].
  eapply IH; eassumption.
Qed.

Lemma cu_top_idem cu le : cu_top (cu_top cu le) le = cu_top cu le.
Proof. unfold cu_top. destruct le; lia. Qed.

Section Loop.
  Variable u : uni.
  Variable ilt : bool.
  Variable src : text.
  Hypothesis Hv : Forall valid_char src.
  Let bs := encode src.

  Lemma boundary_char_le b : is_boundary bs b = true -> char_index bs b <= length src.
  Proof. intros Hb. destruct (utf8_index src b Hv Hb) as (k & Hk & _ & Hik & _). fold bs in Hik. lia. Qed.

  (* what one event that the guard does not skip pushes: nothing, one zero-width break at the cursor, or a tiling of
     [tc', tc' + n) inside the text; and what tokens.last() is afterwards *)
  Definition StepSpec (tc' : nat) (e : mevent) (lastend : option nat) (out : list token) : Prop :=
    (out = [] /\ last_end out lastend = lastend) \/
    (exists k, out = [mktok (span_new_with_len tc' 0) k] /\ last_end out lastend = Some tc' /\
               match k with KNewline _ | KParagraphBreak => True | _ => False end) \/
    (exists n, Tiling tc' (tc' + n) out /\ last_end out lastend = Some (tc' + n) /\ 1 <= n /\
               tc' + n <= length src /\ is_leaf (me_ev e) = true).

  Lemma last_end_tiling a b out lastend : Tiling a b out -> a < b -> last_end out lastend = Some b.
  Proof.
    intros Ht Hab. assert (Hne : out <> []) by (intros ->; inversion Ht; lia).
    destruct (tiling_last _ _ _ Ht Hne) as (l & pre & El & Hl). unfold last_end. rewrite El, Hl. reflexivity.
  Qed.

  (* tc' = the char offset of the event's own range start (the event is not behind the cursor) *)
  Lemma step_spec stack tc' e lastend :
    tc' = char_index bs (me_rs e) -> ev_ok bs e = true ->
    exists out, mk_step u ilt src bs stack tc' e = Ok out /\ StepSpec tc' e lastend out.
  Proof.
    intros Hc HK. unfold ev_ok in HK. apply andb_true_iff in HK as [Hrs HK].
    assert (Single : forall n k, is_leaf (me_ev e) = true -> 1 <= n -> tc' + n <= length src ->
                                 StepSpec tc' e lastend [mktok (span_new_with_len tc' n) k]).
    { intros n k Hl Hn Hfit. right; right. exists n.
      assert (Ht : Tiling tc' (tc' + n) [mktok (span_new_with_len tc' n) k]) by (unfold span_new_with_len; apply tiling_single; lia).
      split; [exact Ht|]. split; [eapply last_end_tiling; [exact Ht|lia]|]. auto. }
    (* the leaf clauses: the range is well-formed and holds `cnt` characters from tc' on *)
    assert (Leaf : is_leaf (me_ev e) = true ->
              me_rs e <= me_re e /\ is_boundary bs (me_re e) = true /\
              tc' + count_chars (slice bs (me_rs e) (me_re e)) <= length src).
    { intros Hl. rewrite Hl in HK. apply andb_true_iff in HK as [HK _]. apply andb_true_iff in HK as [H1 H2].
      apply Nat.leb_le in H1. split; [exact H1|]. split; [exact H2|].
      pose proof (boundary_char_le _ H2) as Hre. pose proof (char_index_split bs _ _ H1) as Hs. lia. }
    unfold mk_step. destruct (me_ev e) as [t| | | | |n|n|n|] eqn:Ev; cbn [is_leaf] in *.
    - destruct t; (eexists; split; [reflexivity|]); try (left; split; reflexivity).
      right; left. eexists. split; [reflexivity|]. split; [|exact I].
      unfold last_end, tend, span_new_with_len; cbn. f_equal; lia.
    - eexists; split; [reflexivity|]. right; left. eexists. split; [reflexivity|]. split; [|exact I].
      unfold last_end, tend, span_new_with_len; cbn. f_equal; lia.
    - eexists; split; [reflexivity|]. left; split; reflexivity.
    - destruct (Leaf eq_refl) as (L1 & L2 & L3). apply andb_true_iff in HK as [_ HK]. apply Nat.leb_le in HK.
      eexists; split; [reflexivity|]. apply Single; [reflexivity|lia|lia].
    - destruct (Leaf eq_refl) as (L1 & L2 & L3). apply andb_true_iff in HK as [_ HK]. apply Nat.leb_le in HK.
      eexists; split; [reflexivity|]. apply Single; [reflexivity|lia|lia].
    - destruct (Leaf eq_refl) as (L1 & L2 & L3). apply andb_true_iff in HK as [_ HK]. apply Nat.leb_le in HK.
      destruct (Nat.eqb_spec n 0) as [Hz|Hnz].
      + eexists; split; [reflexivity|]. left; split; reflexivity.
      + eexists; split; [reflexivity|]. unfold unl_tok. apply Single; [reflexivity|lia|lia].
    - (* Text *)
      destruct (Leaf eq_refl) as (L1 & L2 & L3).
      assert (Hcl : md_chunk_len bs (me_rs e) (me_re e) n
                    = Ok (Nat.min n (count_chars (slice bs (me_rs e) (me_re e))))).
      { unfold md_chunk_len. rewrite str_slice_ok, Hrs, L2.
        destruct (Nat.leb_spec (me_rs e) (me_re e)); [|lia]. reflexivity. }
      rewrite Hcl. cbn [bind].
      set (cl := Nat.min n (count_chars (slice bs (me_rs e) (me_re e)))) in *.
      destruct (Nat.eqb_spec cl 0) as [Hz|Hnz].
      + eexists; split; [reflexivity|]. left; split; reflexivity.
      + destruct (mk_text_piece u ilt src stack tc' cl (tc' + cl) ltac:(lia) (le_n _) ltac:(unfold cl; lia)) as (o & Ho & Hpc).
        rewrite Ho. eexists; split; [reflexivity|].
        destruct Hpc as [->|(b & Ht & Hb')]; [left; split; reflexivity|].
        destruct o as [|o0 orest] eqn:Eo; [left; split; reflexivity|]. rewrite <- Eo in *.
        assert (Hne : o <> []) by (rewrite Eo; discriminate).
        assert (b = tc' + cl) as ->.
        { (* a piece of mk_text is the whole chunk *)
          pose proof (tiling_le _ _ _ Ht) as Hle.
          unfold mk_text in Ho.
          assert (Hlexed : forall o', (do chunk <- slice_chk src tc' (tc' + cl); do ts <- plain_parse u chunk; Ok (map (pushtok tc') ts)) = Ok o' ->
                                      Tiling tc' (tc' + cl) o').
          { unfold slice_chk. destruct (Nat.ltb_spec (tc' + cl) tc'); [lia|].
            destruct (Nat.ltb_spec (length src) (tc' + cl)); [unfold cl in *; lia|]. cbn [orb bind].
            set (chunk := firstn (tc' + cl - tc') (skipn tc' src)).
            assert (Hlc : length chunk = cl) by (unfold chunk; rewrite firstn_length, skipn_length; lia).
            destruct (plain_tiling u chunk) as [ts [Hpp Htt]]. rewrite Hpp. cbn [bind]. intros o' E; injection E as <-.
            rewrite Hlc in Htt. pose proof (tiling_push tc' 0 cl ts Htt) as H'.
            rewrite Nat.add_0_l, (Nat.add_comm cl tc') in H'. exact H'. }
          assert (Hunl : Tiling tc' (tc' + cl) [unl_tok tc' cl]).
          { unfold unl_tok, span_new_with_len. apply tiling_single. lia. }
          assert (Hfull : Tiling tc' (tc' + cl) o).
          { destruct stack as [|tag rest]; [apply Hlexed; exact Ho|].
            destruct tag; cbn [tag_is_prose] in Ho;
              try (apply Hlexed; exact Ho); try (injection Ho as <-; exact Hunl);
              try (injection Ho as E0; symmetry in E0; contradiction).
            destruct ilt; cbn [negb] in Ho; [injection Ho as <-; exact Hunl|apply Hlexed; exact Ho]. }
          exact (tiling_end_unique _ _ _ _ Ht Hfull). }
        right; right. exists cl. split; [exact Ht|]. split; [eapply last_end_tiling; [exact Ht|lia]|].
        split; [lia|]. split; [unfold cl in *; lia|rewrite Ev; reflexivity].
    - destruct (Leaf eq_refl) as (L1 & L2 & L3). apply andb_true_iff in HK as [_ HK]. apply andb_true_iff in HK as [HK1 HK2].
      apply Nat.leb_le in HK1, HK2.
      eexists; split; [reflexivity|]. unfold unl_tok. apply Single; [reflexivity|lia|lia].
    - eexists; split; [reflexivity|]. left; split; reflexivity.
  Qed.

  Theorem mk_loop_inv : forall evs tb tc cu lastend stack,
    is_boundary bs tb = true -> tc = char_index bs tb ->
    md_contractb bs evs = true ->
    exists out, mk_loop u ilt src bs evs tb tc cu lastend stack = Ok out /\
      InText (length src) out /\ OrderedFrom (cu_top cu lastend) out /\ ZeroWidthOnlyBreaks out.
  Proof.
    induction evs as [|e rest IH]; intros tb tc cu lastend stack Hb Hc HK.
    - cbn [mk_loop]. eexists; split; [reflexivity|]. split; [constructor|]. split; constructor.
    - unfold md_contractb in HK. cbn [forallb] in HK. apply andb_true_iff in HK as [HKe HKrest].
      assert (HK1 : is_boundary bs (me_rs e) = true).
      { unfold ev_ok in HKe. apply andb_true_iff in HKe as [H _]. exact H. }
      cbn [mk_loop]. cbv zeta.
      destruct (md_advance_ok bs tb tc (me_rs e) Hb HK1) as [[tb' tc'] E]. rewrite E. cbn [bind].
      destruct (md_advance_spec _ _ _ _ _ _ Hc Hb E) as (H1 & H2 & H3).
      set (cu' := cu_top cu lastend) in *.
      destruct (is_leaf (me_ev e) && ((me_rs e <? tb) || (tc' <? cu'))) eqn:Hskip.
      + destruct (IH tb' tc' cu' lastend stack H3 H2 HKrest) as (r & Hr & R1 & R2 & R3).
        exists r. split; [exact Hr|]. split; [exact R1|]. split; [|exact R3].
        unfold cu' in R2. rewrite cu_top_idem in R2. exact R2.
      + pose proof (boundary_char_le tb' H3) as Htc. rewrite <- H2 in Htc.
        (* a non-leaf event, or a leaf that is neither behind the cursor nor before covered_until *)
        assert (Hpos : is_leaf (me_ev e) = true -> tc' = char_index bs (me_rs e) /\ cu' <= tc').
        { intros Hl. rewrite Hl in Hskip. cbn [andb] in Hskip. apply orb_false_iff in Hskip as [Hs1 Hs2].
          apply Nat.ltb_ge in Hs1, Hs2. split; [|exact Hs2]. rewrite H2, H1. f_equal. lia. }
        assert (Hstep : exists out, mk_step u ilt src bs stack tc' e = Ok out /\ StepSpec tc' e lastend out).
        { destruct (is_leaf (me_ev e)) eqn:Hl.
          - destruct (Hpos eq_refl) as [Hp _]. apply step_spec; assumption.
          - (* non-leaf arms do not read the range *)
            unfold mk_step, StepSpec. destruct (me_ev e) as [t| | | | |n|n|n|]; try discriminate Hl.
            + destruct t; (eexists; split; [reflexivity|]); try (left; split; reflexivity).
              right; left. eexists. split; [reflexivity|]. split; [|exact I].
              unfold last_end, tend, span_new_with_len; cbn. f_equal; lia.
            + eexists; split; [reflexivity|]. right; left. eexists. split; [reflexivity|]. split; [|exact I].
              unfold last_end, tend, span_new_with_len; cbn. f_equal; lia.
            + eexists; split; [reflexivity|]. left; split; reflexivity.
            + eexists; split; [reflexivity|]. left; split; reflexivity. }
        destruct Hstep as (out & Ho & Hcases). rewrite Ho. cbn [bind].
        destruct (IH tb' tc' cu' (last_end out lastend) (mk_stack stack (me_ev e)) H3 H2 HKrest) as (r & Hr & R1 & R2 & R3).
        rewrite Hr. cbn [bind]. eexists; split; [reflexivity|].
        destruct Hcases as [[-> Hle]|[(k & -> & Hle & Hk)|(n & Ht & Hle & Hn & Hfit & Hlf)]]; cbn [app]; rewrite Hle in R2.
        * unfold cu' in R2. rewrite cu_top_idem in R2. auto.
        * split; [|split].
          -- constructor; [|exact R1]. unfold span_new_with_len, tstart, tend; cbn. lia.
          -- apply OF_zero; [unfold covers_chars, span_new_with_len, tstart, tend; cbn; lia|].
             eapply ordered_from_weaken; [|exact R2]. unfold cu_top. lia.
          -- constructor; [|exact R3]. intros _. cbn [tkind_of]. exact Hk.
        * destruct (Hpos Hlf) as [_ Hcu]. split; [|split].
          -- apply Forall_app. split; [|exact R1]. eapply tiling_intext; [exact Ht|lia].
          -- eapply tiling_then_ordered; [exact Ht|exact Hcu| |exact R2]. unfold cu_top. lia.
          -- apply Forall_app. split; [|exact R3]. eapply tiling_no_zero_width. exact Ht.
  Qed.
End Loop.

(* ---------- C02_markdown_glue ---------- *)
Lemma intext_tokinv n ts : InText n ts -> OrderedDisjoint ts -> ZeroWidthOnlyBreaks ts -> TokInv n ts.
Proof.
  intros H1 H2 H3. split; [|split; [|split]]; try assumption.
  - eapply Forall_impl; [|exact H1]. cbn. intros t [A _]. exact A.
  - unfold InBounds. eapply Forall_impl; [|exact H1]. cbn. intros t [_ B] _. exact B.
Qed.

Theorem markdown_glue u ilt src evs :
  Forall valid_char src -> md_contract src evs ->
  exists raw ts,
    markdown_raw u ilt src evs = Ok raw /\ markdown_parse u ilt src evs = Ok ts /\ Sub ts raw /\
    TokInv (length src) raw /\ TokInv (length src) ts /\
    Forall (fun t => tend t <= length src) ts.
Proof.
  intros Hv HK. unfold md_contract in HK.
  destruct (mk_loop_inv u ilt src Hv evs 0 0 0 None [] eq_refl eq_refl HK) as (raw & Hr & R1 & R2 & R3).
  unfold markdown_parse, markdown_raw. rewrite Hr. cbn [bind]. eexists _, _. split; [reflexivity|]. split; [reflexivity|].
  assert (HS : Sub (remove_wikilink_brackets (remove_hidden_wikilink_tokens (mk_pop_last src raw))) raw).
  { eapply sub_trans; [apply mk_pop_last_sub|]. eapply sub_trans; [apply remove_hidden_sub|]. apply remove_brackets_sub. }
  assert (HT : TokInv (length src) raw).
  { apply intext_tokinv; [exact R1| |exact R3]. exact R2. }
  split; [exact HS|]. split; [exact HT|]. split; [eapply tokinv_sub; [exact HS|exact HT]|].
  eapply sub_forall; [exact HS|]. eapply Forall_impl; [|exact R1]. cbn. intros t [_ B]. exact B.
Qed.

(* ---------- non-vacuity; the repaired findings FC02a / FC02b as positive facts; the residual FC02c ---------- *)
Definition mev_ (e : mev) (rs re : nat) : mevent := mkmev e rs re.

(* "ü [[a|b]] `c`\n" with the event stream pulldown-cmark 0.13 really delivers (recorded by the harness, replayed by
   corpus/C02/markdown.json): the contract holds, the wikilink target `[[a|` and the closing `]]` are gone *)
Definition md_ex_src : text := [252; 32; 91; 91; 97; 124; 98; 93; 93; 32; 96; 99; 96; 10]%N.
Definition md_ex_evs : list mevent :=
  [mev_ (MStart TParagraph) 0 15; mev_ (MText 2) 0 3; mev_ (MStart TLink) 3 9; mev_ (MText 1) 7 8; mev_ MEndOther 3 9;
   mev_ (MText 1) 10 11; mev_ (MCodeLike 1) 11 14; mev_ MEndBreaking 0 15].
Lemma markdown_glue_example :
  Forall valid_char md_ex_src /\ md_contract md_ex_src md_ex_evs /\
  markdown_parse uni_u_umlaut false md_ex_src md_ex_evs
  = Ok [mktok (mkspan 0 1) KWord; mktok (mkspan 1 2) (KSpace 1); mktok (mkspan 6 7) KWord;
        mktok (mkspan 9 10) (KSpace 1); mktok (mkspan 10 11) KUnlintable; mktok (mkspan 10 10) KParagraphBreak].
Proof.
  split; [|split; vm_compute; reflexivity].
  apply Forall_forall. intros c Hc. apply valid_charb_spec.
  assert (forallb valid_charb md_ex_src = true) as H by (vm_compute; reflexivity).
  rewrite forallb_forall in H. apply H. exact Hc.
Qed.

(* FC02b (repaired by 8b26ba4): "[[a|]] b" — pulldown-cmark 0.13 reports the text after a wikilink with an empty
   display text TWICE (both times with the source range 6..8).  The stream MEETS the contract (nothing is asked about the
   order of the events), the covered_until guard skips the repeat, the tokens are ordered and disjoint *)
Definition md_dup_src : text := [91; 91; 97; 124; 93; 93; 32; 98]%N.
Definition md_dup_evs : list mevent :=
  [mev_ (MStart TParagraph) 0 8; mev_ (MStart TLink) 0 5; mev_ (MText 1) 4 5; mev_ (MText 1) 5 6; mev_ (MText 2) 6 8;
   mev_ MEndOther 0 5; mev_ (MText 2) 6 8; mev_ MEndBreaking 0 8].
Definition md_dup_out : list token :=
  [mktok (mkspan 4 5) (KPunct PCloseSquare); mktok (mkspan 5 6) (KPunct PCloseSquare);
   mktok (mkspan 6 7) (KSpace 1); mktok (mkspan 7 8) KWord].
Theorem markdown_repeated_text_skipped :
  md_contract md_dup_src md_dup_evs /\
  markdown_parse ascii_uni false md_dup_src md_dup_evs = Ok md_dup_out /\
  Tiling 4 8 md_dup_out.
Proof.
  split; [vm_compute; reflexivity|]. split; [vm_compute; reflexivity|].
  unfold md_dup_out. repeat (constructor; cbn; try lia).
Qed.

(* FC02a (repaired by a37d1cc): "$$$$" — DisplayMath with an empty payload makes no token at all *)
Definition md_math_src : text := [36; 36; 36; 36]%N.
Definition md_math_evs : list mevent :=
  [mev_ (MStart TParagraph) 0 4; mev_ (MCodeLike 0) 0 4; mev_ MEndBreaking 0 4].
Theorem markdown_empty_math_no_token :
  md_contract md_math_src md_math_evs /\
  markdown_parse ascii_uni false md_math_src md_math_evs = Ok [].
Proof. split; vm_compute; reflexivity. Qed.

(* HISTORY — the loop before a37d1cc / 8b26ba4 (no skip of an empty Code / Math payload, no covered_until guard) *)
Definition mk_step_old (u : uni) (ilt : bool) (src : text) (bs : list N) (stack : list md_tag) (tc : nat) (e : mevent)
  : res (list token) :=
  match me_ev e with
  | MCodeLike n => Ok [unl_tok tc n]
  | _ => mk_step u ilt src bs stack tc e
  end.
Fixpoint mk_loop_old (u : uni) (ilt : bool) (src : text) (bs : list N) (evs : list mevent) (tb tc : nat)
         (stack : list md_tag) : res (list token) :=
  match evs with
  | [] => Ok []
  | e :: rest =>
      do '(tb, tc) <- md_advance bs tb tc (me_rs e);
      do out <- mk_step_old u ilt src bs stack tc e;
      do r <- mk_loop_old u ilt src bs rest tb tc (mk_stack stack (me_ev e));
      Ok (out ++ r)
  end.
Definition markdown_parse_old (u : uni) (ilt : bool) (src : text) (evs : list mevent) : res (list token) :=
  do toks <- mk_loop_old u ilt src (encode src) evs 0 0 [];
  Ok (remove_wikilink_brackets (remove_hidden_wikilink_tokens (mk_pop_last src toks))).

Lemma markdown_old_witnesses :
  (markdown_parse_old ascii_uni false md_dup_src md_dup_evs
   = Ok (md_dup_out ++ [mktok (mkspan 6 7) (KSpace 1); mktok (mkspan 7 8) KWord]) /\
   ~ OrderedDisjoint (md_dup_out ++ [mktok (mkspan 6 7) (KSpace 1); mktok (mkspan 7 8) KWord])) /\
  (markdown_parse_old ascii_uni false md_math_src md_math_evs = Ok [mktok (mkspan 0 0) KUnlintable] /\
   ~ ZeroWidthOnlyBreaks [mktok (mkspan 0 0) KUnlintable]).
Proof.
  split; split; try (vm_compute; reflexivity).
  - unfold OrderedDisjoint, md_dup_out. cbn [app]. intros H.
    repeat match goal with
           | H : OrderedFrom _ (_ :: _) |- _ => inversion H; clear H; subst
           end;
      unfold covers_chars, tstart, tend in *; cbn in *; lia.
  - intros H. inversion H as [|t l H1 H2]; subst. apply H1. reflexivity.
Qed.

(* FC02c (repaired by b736ef8; the residue of FC02b): "x ![[a|]] Old _a_ b" — the repeat happens inside an IMAGE, whose
   texts push no token (only the emphasised `a` does, 15..16), so covered_until stays at 16 while the cursor reaches
   byte 17; the repeated Text " Old " (range 9..14) lies BEHIND the cursor and is skipped by the behind_cursor test;
   the stream meets the contract and the tokens are a gapped tiling *)
Definition md_back_src : text := [120; 32; 33; 91; 91; 97; 124; 93; 93; 32; 79; 108; 100; 32; 95; 97; 95; 32; 98]%N.
Definition md_back_evs : list mevent :=
  [mev_ (MStart TParagraph) 0 19; mev_ (MText 2) 0 2; mev_ (MStart TOtherTag) 2 8; mev_ (MText 1) 7 8; mev_ (MText 1) 8 9;
   mev_ (MText 5) 9 14; mev_ (MStart TEmphasis) 14 17; mev_ (MText 1) 15 16; mev_ MEndOther 14 17; mev_ (MText 2) 17 19;
   mev_ MEndOther 2 8; mev_ (MText 5) 9 14; mev_ (MStart TEmphasis) 14 17; mev_ (MText 1) 15 16; mev_ MEndOther 14 17;
   mev_ (MText 2) 17 19; mev_ MEndBreaking 0 19].
Definition md_back_out : list token :=
  [mktok (mkspan 0 1) KWord; mktok (mkspan 1 2) (KSpace 1); mktok (mkspan 15 16) KWord;
   mktok (mkspan 17 18) (KSpace 1); mktok (mkspan 18 19) KWord].
Theorem markdown_backward_event_skipped :
  md_contract md_back_src md_back_evs /\
  markdown_parse ascii_uni false md_back_src md_back_evs = Ok md_back_out /\
  Gapped 0 19 md_back_out.
Proof.
  split; [vm_compute; reflexivity|]. split; [vm_compute; reflexivity|].
  unfold md_back_out. repeat (constructor; cbn; try lia).
Qed.

(* HISTORY — the loop of 8b26ba4 (covered_until guard only, no behind_cursor test): the repeated " Old " is placed at
   the cursor and `&source[17..22]` of a 19-character source panics *)
Fixpoint mk_loop_8b26ba4 (u : uni) (ilt : bool) (src : text) (bs : list N) (evs : list mevent) (tb tc cu : nat)
         (lastend : option nat) (stack : list md_tag) : res (list token) :=
  match evs with
  | [] => Ok []
  | e :: rest =>
      do '(tb, tc) <- md_advance bs tb tc (me_rs e);
      let cu := cu_top cu lastend in
      if is_leaf (me_ev e) && (tc <? cu) then mk_loop_8b26ba4 u ilt src bs rest tb tc cu lastend stack
      else
        do out <- mk_step u ilt src bs stack tc e;
        do r <- mk_loop_8b26ba4 u ilt src bs rest tb tc cu (last_end out lastend) (mk_stack stack (me_ev e));
        Ok (out ++ r)
  end.
Lemma markdown_8b26ba4_witness :
  mk_loop_8b26ba4 ascii_uni false md_back_src (encode md_back_src) md_back_evs 0 0 0 None [] = Panic PIndex.
Proof. vm_compute. reflexivity. Qed.

(* ---------- the tables the translator reads from markdown.rs (Tables_lexer.v: md_break_arms, md_breaking_ends,
   md_prose_tags) against the model ---------- *)
Definition md_tag_name (t : md_tag) : list N :=
  match t with
  | TParagraph => [80; 97; 114; 97; 103; 114; 97; 112; 104] | TLink => [76; 105; 110; 107]
  | THeading => [72; 101; 97; 100; 105; 110; 103] | TItem => [73; 116; 101; 109]
  | TTableCell => [84; 97; 98; 108; 101; 67; 101; 108; 108] | TEmphasis => [69; 109; 112; 104; 97; 115; 105; 115]
  | TStrong => [83; 116; 114; 111; 110; 103]
  | TStrikethrough => [83; 116; 114; 105; 107; 101; 116; 104; 114; 111; 117; 103; 104]
  | TCodeBlock => [67; 111; 100; 101; 66; 108; 111; 99; 107] | TList => [76; 105; 115; 116] | TOtherTag => []
  end%N.
Definition md_all_tags : list md_tag :=
  [TParagraph; TLink; THeading; TItem; TTableCell; TEmphasis; TStrong; TStrikethrough; TCodeBlock; TList; TOtherTag].

(* the tags whose Text is lexed as prose = the list in the code's `if !(matches!(tag, ..) || ..) { continue }`,
   Link only when !ignore_link_title *)
Theorem md_prose_table ilt :
  map md_tag_name (filter (tag_is_prose ilt) md_all_tags)
  = map fst (filter (fun p => negb (snd p && ilt)) md_prose_tags).
Proof. destruct ilt; vm_compute; reflexivity. Qed.

(* SoftBreak / HardBreak / Start(List): span length and Newline count as the code writes them *)
Theorem md_break_table u ilt src bs stack tc rs re :
  map (fun e => match mk_step u ilt src bs stack tc (mkmev e rs re) with
                | Ok [t] => Some (Lexer.tspan t, tkind_of t)
                | _ => None
                end) [MSoftBreak; MHardBreak; MStart TList]
  = map (fun '(_, len, n) => Some (span_new_with_len tc len, KNewline n)) md_break_arms.
Proof. reflexivity. Qed.

(* the End(..) tags that push a ParagraphBreak (the harness maps exactly these to MEndBreaking) *)
Theorem md_breaking_ends_pinned :
  md_breaking_ends = map md_tag_name [TParagraph; TItem; THeading; TCodeBlock; TTableCell].
Proof. reflexivity. Qed.

Print Assumptions markdown_glue.
Print Assumptions markdown_backward_event_skipped.
