(* ServerLemmas.v — basic facts about Model/Server.v: url equality, association lists, projections. *)
Require Import Base Server.

Lemma url_eqb_refl : forall u, url_eqb u u = true.
Proof. destruct u; cbn; rewrite ?Nat.eqb_refl; reflexivity. Qed.

Lemma url_eqb_eq : forall a b, url_eqb a b = true <-> a = b.
Proof.
  split.
  - destruct a, b; cbn; intro H; try discriminate.
    + apply andb_true_iff in H as [H1 H2]. apply Nat.eqb_eq in H1, H2. subst; reflexivity.
    + apply Nat.eqb_eq in H. subst; reflexivity.
  - intros ->. apply url_eqb_refl.
Qed.

Lemma url_eqb_neq : forall a b, url_eqb a b = false <-> a <> b.
Proof.
  intros a b. split.
  - intros H E. apply url_eqb_eq in E. congruence.
  - intro H. destruct (url_eqb a b) eqn:E; [apply url_eqb_eq in E; contradiction|reflexivity].
Qed.

Lemma url_eqb_sym : forall a b, url_eqb a b = url_eqb b a.
Proof.
  intros a b. destruct (url_eqb a b) eqn:E.
  - apply url_eqb_eq in E. subst. symmetry. apply url_eqb_refl.
  - symmetry. apply url_eqb_neq. apply url_eqb_neq in E. congruence.
Qed.

Lemma url_eq_dec : forall a b : url, {a = b} + {a <> b}.
Proof.
  intros a b. destruct (url_eqb a b) eqn:E; [left; apply url_eqb_eq; exact E|right; apply url_eqb_neq; exact E].
Qed.

Section AssocLemmas.
  Context {V : Type}.
  Implicit Types m : list (url * V).

  Lemma lookup_remove_eq : forall u m, lookup u (remove u m) = None.
  Proof.
    induction m as [|[k v] m IH]; cbn; [reflexivity|].
    destruct (url_eqb u k) eqn:E; [exact IH|]. cbn. rewrite E. exact IH.
  Qed.

  Lemma lookup_remove_neq : forall u k m, url_eqb u k = false -> lookup u (remove k m) = lookup u m.
  Proof.
    induction m as [|[k' v] m IH]; cbn; intro H; [reflexivity|].
    destruct (url_eqb k k') eqn:E.
    - apply url_eqb_eq in E. subst k'. rewrite H. apply IH, H.
    - cbn. destruct (url_eqb u k'); [reflexivity|apply IH, H].
  Qed.

  Lemma lookup_upsert_eq : forall u v m, lookup u (upsert u v m) = Some v.
  Proof. intros. unfold upsert. cbn. rewrite url_eqb_refl. reflexivity. Qed.

  Lemma lookup_upsert_neq : forall u k v m, url_eqb u k = false -> lookup u (upsert k v m) = lookup u m.
  Proof. intros. unfold upsert. cbn. rewrite H. apply lookup_remove_neq, H. Qed.

  Lemma lookup_upsert : forall u k v m, lookup u (upsert k v m) = if url_eqb u k then Some v else lookup u m.
  Proof.
    intros. destruct (url_eqb u k) eqn:E.
    - apply url_eqb_eq in E. subst. apply lookup_upsert_eq.
    - apply lookup_upsert_neq, E.
  Qed.

  Lemma lookup_remove : forall u k m, lookup u (remove k m) = if url_eqb u k then None else lookup u m.
  Proof.
    intros. destruct (url_eqb u k) eqn:E.
    - apply url_eqb_eq in E. subst. apply lookup_remove_eq.
    - apply lookup_remove_neq, E.
  Qed.

  Lemma lookup_filter_key : forall (p : url -> bool) u m,
    lookup u (filter (fun kv => p (fst kv)) m) = if p u then lookup u m else None.
  Proof.
    induction m as [|[k v] m IH]; cbn; [destruct (p u); reflexivity|].
    destruct (p k) eqn:Pk; cbn.
    - destruct (url_eqb u k) eqn:E; [apply url_eqb_eq in E; subst; rewrite Pk; reflexivity|exact IH].
    - destruct (url_eqb u k) eqn:E; [apply url_eqb_eq in E; subst; rewrite Pk in IH |- *; exact IH|exact IH].
  Qed.

  Lemma lookup_In_keys : forall u m v, lookup u m = Some v -> In u (keys m).
  Proof.
    induction m as [|[k v'] m IH]; cbn; intros v H; [discriminate|].
    destruct (url_eqb u k) eqn:E; [left; symmetry; apply url_eqb_eq, E|right; eapply IH, H].
  Qed.

  Lemma keys_In_lookup : forall u m, In u (keys m) -> exists v, lookup u m = Some v.
  Proof.
    induction m as [|[k v'] m IH]; cbn; intros H; [contradiction|].
    destruct (url_eqb u k) eqn:E; [eexists; reflexivity|].
    destruct H as [H|H]; [subst; rewrite url_eqb_refl in E; discriminate|apply IH, H].
  Qed.
End AssocLemmas.

Lemma lookup_map_val : forall {V W : Type} (f : V -> W) u (m : list (url * V)),
  lookup u (map (fun kv => (fst kv, f (snd kv))) m) = option_map f (lookup u m).
Proof.
  induction m as [|[k v] m IH]; cbn; [reflexivity|]. destruct (url_eqb u k); [reflexivity|exact IH].
Qed.

Lemma keys_map_val : forall {V W : Type} (f : V -> W) (m : list (url * V)),
  keys (map (fun kv => (fst kv, f (snd kv))) m) = keys m.
Proof. induction m as [|[k v] m IH]; cbn; [reflexivity|]. f_equal. exact IH. Qed.

Lemma mem_url_In : forall u l, mem_url u l = true <-> In u l.
Proof.
  intros u l. unfold mem_url. rewrite existsb_exists. split.
  - intros [x [Hx E]]. apply url_eqb_eq in E. subst. exact Hx.
  - intro H. exists u. split; [exact H|apply url_eqb_refl].
Qed.

Lemma list_eqb_refl : forall l, list_eqb l l = true.
Proof. induction l; cbn; [reflexivity|]. rewrite Nat.eqb_refl. exact IHl. Qed.

Lemma list_eqb_eq : forall a b, list_eqb a b = true -> a = b.
Proof.
  induction a; destruct b; cbn; intro H; try discriminate; [reflexivity|].
  apply andb_true_iff in H as [H1 H2]. apply Nat.eqb_eq in H1. subst. f_equal. apply IHa, H2.
Qed.

Lemma dictv_eqb_refl : forall d, dictv_eqb d d = true.
Proof. intros [a b c]. unfold dictv_eqb. cbn. rewrite !list_eqb_refl, Nat.eqb_refl. reflexivity. Qed.

Lemma dictv_eqb_eq : forall a b, dictv_eqb a b = true -> a = b.
Proof.
  intros [a1 a2 a3] [b1 b2 b3]. unfold dictv_eqb. cbn. intro H.
  apply andb_true_iff in H as [H H3]. apply andb_true_iff in H as [H1 H2].
  apply list_eqb_eq in H1, H2. apply Nat.eqb_eq in H3. subst. reflexivity.
Qed.

(* every key of the map is visited by order_keys, whatever the order hint *)
Lemma order_keys_complete : forall order ks u, In u ks -> In u (order_keys order ks).
Proof.
  intros order ks u H. unfold order_keys. apply in_or_app.
  destruct (mem_url u order) eqn:E.
  - left. apply filter_In. split; [apply mem_url_In, E|apply mem_url_In, H].
  - right. apply filter_In. split; [exact H|rewrite E; reflexivity].
Qed.

Lemma order_keys_sound : forall order ks u, In u (order_keys order ks) -> In u ks.
Proof.
  intros order ks u H. unfold order_keys in H. apply in_app_or in H as [H|H]; apply filter_In in H as [H1 H2].
  - apply mem_url_In, H2.
  - exact H1.
Qed.

(* last_pub / lastword after a publication *)
Lemma lastword_send : forall w u v p, lastword (send v p w) u = if url_eqb u v then p else lastword w u.
Proof. intros. unfold lastword, send. cbn. destruct (url_eqb u v); reflexivity. Qed.
