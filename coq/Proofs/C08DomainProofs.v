(* C08DomainProofs.v — the domain of the LSP-line-end theorems.  The property's quantifier names "LF and CRLF
   line ends": a text with a lone CR (a '\r' not followed by '\n') is OUTSIDE it.  The theorems read with
   harper's own line ends (`resolve`: lines end at '\n' only) hold for every text, lone CR included; the
   ones read the way an LSP 3.17 client reads positions (`resolve_lsp`: '\n', '\r\n' and '\r' end a line)
   carry the premise `no_lone_cr`, and this file shows it cannot be dropped: in "a\rb" the position harper
   publishes for index 2 - (0,2) - denotes nothing for such a client (its line 0 is "a"), although the index
   is not between a CR and its LF. *)
Require Import Base Suggestion PosConv ListLemmas PosConvProofs.

Lemma lone_cr_premise_needed :
  exists t i p, i <= length t /\ ~ no_lone_cr t /\ ~ inside_crlf t i /\
    index_to_position t i = Ok p /\ resolve t p = Some i /\ resolve_lsp t p = None.
Proof.
  exists [97; 13; 98]%N, 2, (0, 2). split; [cbn; lia|]. split.
  - cbn. intros [_ [H _]]. destruct (H eq_refl) as [t'' E]. discriminate E.
  - split.
    + intros [a [b [E _]]].
      assert (I : In NL [97; 13; 98]%N) by (rewrite E; apply in_or_app; right; right; now left).
      cbn in I. destruct I as [I|[I|[I|[]]]]; discriminate I.
    + now vm_compute.
Qed.

(* ... and a quick fix lands elsewhere: replacing [2,3) of "a\rb" by "c" - harper's edit, applied by a
   client that ends lines at a lone CR, is rejected (no such position), while harper's own reading gives "a\rc" *)
Lemma lone_cr_edit_needed :
  exists t sp nt r, span_in (length t) sp /\ ~ no_lone_cr t /\
    text_edit (ReplaceWith nt) sp t = Ok (r, nt) /\
    client_apply t r nt = Some [97; 13; 99]%N /\ client_apply_lsp t r nt = None.
Proof.
  exists [97; 13; 98]%N, (mkspan 2 3), [99%N], ((0, 2), (0, 3)). split; [unfold span_in; cbn [length sstart send]; lia|]. split.
  - cbn. intros [_ [H _]]. destruct (H eq_refl) as [t'' E]. discriminate E.
  - now vm_compute.
Qed.
