(* C19SessionProofs.v — the log of a harper-ls session history is the list of the lints applied, each exactly once,
   BECAUSE save_stats (which appends all records held and drains nothing) is called from `shutdown` alone.
   ls_stats_sites_ok pins that against the sources (generated Tables_statssession.v): a new call site of save_stats
   (e.g. in did_save) makes it — and everything stated over ls_save_stats_callers — fail. *)
From Coq Require Import List String Bool Lia.
Require Import Base JsonEscape Stats StatsProofs C19Record C19RecordProofs Tables_statssession C19Session.
Import ListNotations.

Lemma ls_stats_sites_ok :
  ls_save_stats_callers = ["shutdown"%string] /\ ls_save_stats_calls = 1 /\ ls_record_pushers = ["execute_command"%string] /\
  ls_stats_drained = false /\ ls_save_stats_reads_only = true.
Proof. repeat split; reflexivity. Qed.

Section SessionProofs.
  Variable A : Type.
  Notation step := (ls_step A ["shutdown"%string]).

  Lemma calls_save_shutdown h : calls_save ["shutdown"%string] h = String.eqb h "shutdown"%string.
  Proof. unfold calls_save. cbn [existsb]. apply orb_false_r. Qed.

  Lemma fold_no_shutdown : forall evs mem log, no_shutdown A evs ->
    fold_left step evs (mem, log) = (mem ++ recorded A evs, log).
  Proof.
    induction evs as [|ev evs IH]; intros mem log H; cbn [fold_left recorded].
    - rewrite app_nil_r. reflexivity.
    - assert (no_shutdown A evs) as H' by (intros h Hin; apply H; right; exact Hin).
      destruct ev as [r|h]; cbn [ls_step].
      + rewrite IH by exact H'. rewrite <- app_assoc. reflexivity.
      + rewrite calls_save_shutdown. destruct (String.eqb_spec h "shutdown"%string) as [E|E].
        * exfalso. apply (H h); [left; reflexivity|exact E].
        * apply IH. exact H'.
  Qed.

  (* one process: exactly the lints applied in it are appended, once *)
  Theorem ls_session_appends_once log evs : no_shutdown A evs ->
    ls_session A ["shutdown"%string] log evs = log ++ recorded A evs.
  Proof.
    intros H. unfold ls_session. rewrite fold_left_app, fold_no_shutdown by exact H. cbn [fold_left ls_step].
    rewrite calls_save_shutdown, String.eqb_refl. reflexivity.
  Qed.

  Theorem ls_history_appends_once : forall ss log, Forall (no_shutdown A) ss ->
    ls_history A ["shutdown"%string] log ss = log ++ concat (map (recorded A) ss).
  Proof.
    induction ss as [|evs ss IH]; intros log H; cbn [ls_history fold_left map concat].
    - rewrite app_nil_r. reflexivity.
    - inversion H as [|? ? H1 H2]; subst. fold (ls_history A ["shutdown"%string] (ls_session A ["shutdown"%string] log evs) ss).
      rewrite IH by exact H2. rewrite ls_session_appends_once by exact H1. rewrite <- app_assoc. reflexivity.
  Qed.
End SessionProofs.

(* with the call sites as the sources have them, at the level of the file: whatever was on a well-terminated log, after
   any history of sessions (record / didSave / didChange / didClose / configuration / ..., shutdown, restart) Stats::read
   gives the old records followed by the lints applied, in order, each exactly once *)
Theorem ls_history_log_once (F : Type) (finite : F -> Prop) (print_f64 : F -> bytes) (parse_f64 : bytes -> option F) :
  float_rt F finite print_f64 parse_f64 ->
  forall file old (ss : list (list (ls_event (record F)))),
  terminated file -> read (record F) (de_record F finite print_f64 parse_f64) file = Some old ->
  Forall (no_shutdown (record F)) ss ->
  Forall (Forall (good F finite print_f64 parse_f64)) (map (recorded (record F)) ss) ->
  read (record F) (de_record F finite print_f64 parse_f64)
    (file ++ write (record F) (ser_record F finite print_f64 parse_f64) (ls_history (record F) ls_save_stats_callers [] ss))
  = Some (old ++ concat (map (recorded (record F)) ss)).
Proof.
  intros Hf file old ss Ht Ho Hn Hg. destruct ls_stats_sites_ok as [-> _].
  rewrite ls_history_appends_once by exact Hn. cbn [app].
  pose proof (record_log_sessions F finite print_f64 parse_f64 Hf file old [concat (map (recorded (record F)) ss)] Ht Ho) as R.
  cbn [sessions fold_left concat] in R. unfold append_session in R. rewrite app_nil_r in R. apply R.
  constructor; [|constructor]. clear R Hn. induction Hg as [|l ls Hl _ IH]; [constructor|]. cbn [concat]. apply Forall_app. split; assumption.
Qed.

(* what a second call site does (the model follows the table, whatever it says): with did_save calling save_stats too,
   record 1, didSave, record 2, shutdown leaves 1, 1, 2 on the log *)
Example ls_second_call_site_duplicates :
  ls_history nat ["did_save"%string; "shutdown"%string] [] [[EvRecord nat 1; EvHandler nat "did_save"%string; EvRecord nat 2]] = [1; 1; 2] /\
  ls_history nat ["shutdown"%string] [] [[EvRecord nat 1; EvHandler nat "did_save"%string; EvRecord nat 2]; [EvHandler nat "did_open"%string; EvRecord nat 3]] = [1; 2; 3] /\
  no_shutdown nat [EvRecord nat 1; EvHandler nat "did_save"%string; EvRecord nat 2].
Proof.
  split; [vm_compute; reflexivity|]. split; [vm_compute; reflexivity|].
  intros h [E|[E|[E|[]]]]; try discriminate. injection E as <-. discriminate.
Qed.
