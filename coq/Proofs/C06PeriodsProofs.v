(* C06PeriodsProofs.v — phase 7, step 2 (the PASSES half only): periods ANYWHERE in the token vector (several sentences).
   passes_identity_periods: every pass of Document::parse is the identity on a tiling whose kinds are Word / Space / separator punctuation /
   Period, without adjacent Space tokens, in which every Period is followed by a Space token or by nothing, and no Word in front of a Period
   is one condense_latin looks for (etc / vs / al) — periods_ok, decidable.  It generalises passes_identity_dot (one final Period).
   The LEXER half (PlainEnglish::parse yields such a vector on `Sentence one. Sentence two.`) is not proved: dispatch_dot is stated for a text
   whose only `.` is its last character. *)
Require Import Base Overlap Tables_lexer Lexer Condense ListLemmas TokenInv CondenseInv LexerProofs
  CondPatterns3 CondPattern CondSpaces CondInitialisms CondSuffixQuotes.
Require Import Tables_spellnorm SpellDecision SpellDecisionProofs C06Words C06WordsProofs C06AlnumProofs C06TextProofs
  C06Sentence C06SentenceProofs C06SentenceDot C06SentenceDotProofs.
From Coq Require Import Lia.

Definition after_period_ok (r : list token) : bool :=
  match r with [] => true | s :: _ => is_space_kind (tkind_of s) end.
Definition before_period_ok (src : text) (t : token) (r : list token) : bool :=
  match r with p :: _ => negb (is_word (tkind_of t) && is_period (tkind_of p) && latin_hit src t) | [] => true end.
Fixpoint periods_ok (src : text) (ts : list token) : bool :=
  match ts with
  | [] => true
  | t :: r => (if is_period (tkind_of t) then after_period_ok r else true) && before_period_ok src t r && periods_ok src r
  end.

Lemma periods_ok_at src : forall pre t r, periods_ok src (pre ++ t :: r) = true ->
  (is_period (tkind_of t) = true -> after_period_ok r = true) /\ before_period_ok src t r = true.
Proof.
  induction pre as [|x pre IH]; intros t r H.
  - cbn [app periods_ok] in H. apply andb_true_iff in H as [H _]. apply andb_true_iff in H as [A B]. split; [|exact B].
    intros P. rewrite P in A. exact A.
  - cbn [app periods_ok] in H. apply andb_true_iff in H as [_ H]. exact (IH t r H).
Qed.

Lemma word_not_space k : is_word k = true -> is_space_kind k = false.
Proof. destruct k; try discriminate; reflexivity. Qed.

Theorem passes_identity_periods src ts : Tiling 0 (length src) ts ->
  Forall (fun t => simple2 (tkind_of t) = true) ts -> no_adj_spaces ts -> periods_ok src ts = true ->
  document_passes src ts = Ok ts.
Proof.
  intros T F2 NA PO. unfold document_passes.
  (* condense_spaces *)
  destruct (condense_spaces_grouped _ _ ts T) as (t1 & E1 & G1).
  assert (t1 = ts) as ->.
  { apply (grouped_id _ _ _ G1 []). cbn [app]. intros pre g rest k E Hne [S|(a & b & n1 & n2 & -> & Ka & Kb & _)]; [exact S|].
    exfalso. rewrite E in NA. cbn [app] in NA. apply (no_adj_at pre a b rest NA). rewrite Ka, Kb. split; reflexivity. }
  rewrite E1. cbn [bind].
  (* condense_newlines *)
  destruct (condense_newlines_grouped _ _ ts T) as (t2 & E2 & G2).
  assert (t2 = ts) as ->.
  { apply (grouped_id _ _ _ G2 []). cbn [app]. intros pre g rest k E Hne [S|(ns & L & M & _)]; [exact S|].
    exfalso. destruct g as [|t g']; [contradiction|]. destruct ns as [|n ns']; [discriminate|].
    cbn [map] in M. injection M as M _. pose proof (simple2_in ts pre (t :: g') rest t F2 E (or_introl eq_refl)) as K.
    rewrite M in K. discriminate. }
  rewrite E2. cbn [bind]. rewrite (breaks_id2 ts F2).
  (* condense_number_suffixes *)
  destruct (condense_number_suffixes_grouped src ts T) as (t4 & E4 & G4).
  assert (t4 = ts) as ->.
  { apply (grouped_id _ _ _ G4 []). cbn [app]. intros pre g rest k E Hne [S|(a & b & nb & cs & sfx & -> & Ka & _)]; [exact S|].
    exfalso. pose proof (simple2_in ts pre [a; b] rest a F2 E (or_introl eq_refl)) as K. rewrite Ka in K. discriminate. }
  rewrite E4. cbn [bind].
  (* condense_contractions *)
  destruct (contraction_ok src ts) as [Ok5 Mo5].
  destruct (condense_pattern_grouped_in (contraction_matches src) (fun k => k) _ _ ts T Ok5 Mo5) as (t5 & E5 & G5).
  assert (t5 = ts) as ->.
  { apply (grouped_id _ _ _ G5 []). cbn [app]. intros pre g rest k E Hne [S|(pre' & rest' & _ & M & _)]; [exact S|].
    exfalso. destruct (contraction_match_inv src g rest' Hne M) as (a & b & c & -> & _ & Ab & _).
    pose proof (simple2_in ts pre [a; b; c] rest b F2 E (or_intror (or_introl eq_refl))) as K.
    destruct (tkind_of b) as [|q| | | | | | | | | |]; try discriminate. destruct q; discriminate. }
  unfold condense_contractions. rewrite E5. cbn [bind].
  (* condense_dotted_initialisms: the second (letter, period) pair would start right behind a Period — there is a Space or nothing *)
  destruct (condense_dotted_initialisms_grouped _ _ ts T) as (t6 & E6 & G6).
  assert (t6 = ts) as ->.
  { apply (grouped_id _ _ _ G6 []). cbn [app]. intros pre g rest k E Hne [S|(IP & L4 & _)]; [exact S|].
    exfalso. inversion IP as [w q Ww Lw Pq Eg|w q r Ww Lw Pq IPr Eg]; subst g; [cbn [length] in L4; lia|].
    assert (exists w2 r2, r = w2 :: r2 /\ is_word (tkind_of w2) = true) as (w2 & r2 & -> & Ww2).
    { inversion IPr; subst; eauto. }
    assert (E' : ts = (pre ++ [w]) ++ q :: (w2 :: r2 ++ rest)) by (rewrite E, <- app_assoc; reflexivity).
    pose proof PO as PO'. rewrite E' in PO'. destruct (periods_ok_at src _ _ _ PO') as [A _]. specialize (A Pq).
    cbn [after_period_ok] in A. rewrite (word_not_space _ Ww2) in A. discriminate. }
  rewrite E6. cbn [bind].
  (* condense_ellipsis: two Periods in a row *)
  destruct (ellipsis_ok src ts) as [Ok7 Mo7].
  destruct (condense_pattern_grouped (ellipsis_matches src) (fun _ => KPunct PEllipsis) _ _ ts T Ok7 Mo7) as (t7 & E7 & G7).
  assert (t7 = ts) as ->.
  { apply (grouped_id _ _ _ G7 []). cbn [app]. intros pre g rest k E Hne [S|(rest' & M & _)]; [exact S|].
    exfalso. destruct (ellipsis_match_inv src g rest' Hne M) as [L2 FP]. destruct g as [|t [|t' g']]; cbn [length] in L2; try lia.
    pose proof (Forall_inv FP) as Pt. pose proof (Forall_inv (Forall_inv_tail FP)) as Pt'. cbn beta in Pt, Pt'.
    assert (E' : ts = pre ++ t :: (t' :: g' ++ rest)) by (rewrite E; reflexivity).
    pose proof PO as PO'. rewrite E' in PO'. destruct (periods_ok_at src _ _ _ PO') as [A _]. specialize (A Pt).
    cbn [after_period_ok] in A. rewrite (period_not_space _ Pt') in A. discriminate. }
  unfold condense_ellipsis. rewrite E7. cbn [bind].
  (* condense_latin: the Word in front of a Period is none of etc / vs / al *)
  destruct (latin_ok src ts T) as [Ok8 Mo8].
  destruct (condense_pattern_grouped_in (latin_matches src) (fun k => k) _ _ ts T Ok8 Mo8) as (t8 & E8 & G8).
  assert (t8 = ts) as ->.
  { apply (grouped_id _ _ _ G8 []). cbn [app]. intros pre g rest k E Hne [S|(pre' & rest' & E0 & M & _)]; [exact S|].
    exfalso. pose proof (tiling_tok_ok src ts T) as OKts. rewrite E0 in OKts. apply Forall_app in OKts as [_ OK].
    assert (exists g1 w q, g = g1 ++ [w; q] /\ is_period (tkind_of q) = true /\ is_word (tkind_of w) = true /\
                           latin_hit src w = true) as (g1 & w & q & -> & Pq & Ww & Hw).
    { destruct (latin_match_inv src g rest' Hne OK M)
        as [(w & q & -> & Ww & Pq & Hin)|(w1 & ws & w2 & q & -> & _ & _ & _ & Ww & Pq & _ & _ & L2 & Z2)].
      - exists [], w, q. split; [reflexivity|]. split; [exact Pq|]. split; [exact Ww|]. unfold latin_hit. rewrite Hin. reflexivity.
      - exists (w1 :: ws), w2, q. split; [reflexivity|]. split; [exact Pq|]. split; [exact Ww|]. unfold latin_hit. rewrite L2, Z2.
        cbn [Nat.eqb andb]. apply orb_true_r. }
    assert (E' : ts = (pre ++ g1) ++ w :: (q :: rest)) by (rewrite E, <- !app_assoc; reflexivity).
    pose proof PO as PO'. rewrite E' in PO'. destruct (periods_ok_at src _ _ _ PO') as [_ B].
    cbn [before_period_ok] in B. rewrite Ww, Pq, Hw in B. discriminate. }
  unfold condense_latin. rewrite E8. cbn [bind].
  (* match_quotes, the dictionary loop *)
  unfold match_quotes. rewrite (quote_indices_none2 ts 0 F2). cbn [mq_loop bind].
  rewrite (word_lookup_ok src ts T). reflexivity.
Qed.
