(* C07CrashThenProofs.v — crash, restart, further adds: the left-over temporary file never reaches the dictionary. *)
Require Import Base DictIO DictIOProofs C07Collide C07CollideProofs Tables_c07save C07CrashThen.
From Coq Require Import Permutation.

(* the frame of save_effects is the frame the translator read off save_dict *)
Lemma frame_writes : forall p ws, frame_of (write_effects p ws) = [].
Proof. intros p ws. unfold frame_of, write_effects. induction ws as [|w r IH]; [reflexivity|]. cbn [flat_map app call_of]. exact IH. Qed.
Theorem save_frame : forall p ws, frame_of (save_effects p ws) = save_dict_frame.
Proof.
  intros p ws. unfold save_effects, frame_of. cbn [flat_map call_of]. rewrite flat_map_app.
  fold (frame_of (write_effects (TmpP p) ws)). rewrite frame_writes. cbn [flat_map call_of app]. now rewrite path_eqb_refl.
Qed.

Section CrashThen.
  Variable is_lower : N -> bool.
  Variable lower : N -> list N.
  Variable iter_order : list word -> list word.
  Hypothesis iter_perm : forall l, Permutation (iter_order l) l.
  Notation wid := (word_id is_lower lower).
  Notation append_word := (append_word is_lower lower).
  Notation extend_words := (extend_words is_lower lower).
  Notation dict_at := (dict_at is_lower lower).
  Notation load_dict := (load_dict is_lower lower).
  Notation add_to := (add_to is_lower lower iter_order).
  Notation adds_to := (adds_to is_lower lower iter_order).
  Notation dict_wf := (dict_wf is_lower lower).
  Notation fs_ok := (fs_ok is_lower lower).
  Notation words_iter := (words_iter iter_order).

  (* every crash state of an add is a file system the theorems about adds apply to *)
  Lemma crash_state_ok : forall p w s s', fs_ok s -> is_tmp p = false -> line_safe w ->
    In s' (crash_states None (s, []) (save_effects p (words_iter (append_word (dict_at p s) w)))) -> fs_ok s'.
  Proof.
    intros p w s s' Hok Hp Hw Hin. set (D := append_word (dict_at p s) w) in *.
    assert (HwfD : dict_wf D) by (apply wf_append, wf_dict_at).
    assert (HsD : Forall line_safe (words_of D)) by now apply (safe_appended is_lower lower).
    destruct (save_crash_sound p _ s s' Hin) as [Hcases Hoth].
    intros q d Hq Hl. destruct (path_eqb q p) eqn:E.
    - apply path_eqb_eq in E. subst q. destruct Hcases as [[Ha _]|[Ha _]].
      + apply (Hok p d Hp). unfold DictIO.load_dict in *. now rewrite <- Ha.
      + destruct (load_serialized is_lower lower iter_order iter_perm p s' D HwfD HsD Ha) as [d' [Hl' [_ Hs']]]. rewrite Hl' in Hl.
        inversion Hl; now subst.
    - assert (Hne : q <> p) by (intro; subst; rewrite path_eqb_refl in E; discriminate).
      apply (Hok q d Hq). unfold DictIO.load_dict in *. rewrite <- (Hoth q Hne); [exact Hl|now apply not_tmp_neq].
  Qed.

  Lemma extend_equiv : forall ws a b, dict_equiv a b -> dict_equiv (extend_words a ws) (extend_words b ws).
  Proof.
    induction ws as [|w ws IH] using rev_ind; intros a b E; [exact E|].
    rewrite !(extend_snoc is_lower lower). apply (append_equiv is_lower lower). now apply IH.
  Qed.

  Lemma add_to_tmp_gone : forall p w s, fs_read (TmpP p) (add_to p w s) = None.
  Proof. intros p w s. unfold DictIO.add_to, DictIO.save_dict. rewrite save_words_eq. apply read_renamed_tmp. Qed.

  (* THE statement: the add of w dies at ANY crash point (whatever it leaves in <name>.tmp); then any further completed adds
     ws (shorter or longer words): the dictionary reloads to exactly old + ws or old + w + ws — nothing else — and no
     temporary file is left once an add completed *)
  Theorem crash_then_add : forall p w s s' ws,
    fs_ok s -> is_tmp p = false -> line_safe w -> Forall line_safe ws ->
    In s' (crash_states None (s, []) (save_effects p (words_iter (append_word (dict_at p s) w)))) ->
    (dict_equiv (dict_at p (adds_to p ws s')) (extend_words (dict_at p s) ws) \/
     dict_equiv (dict_at p (adds_to p ws s')) (extend_words (append_word (dict_at p s) w) ws)) /\
    fs_ok (adds_to p ws s') /\
    (ws <> [] -> fs_read (TmpP p) (adds_to p ws s') = None).
  Proof.
    intros p w s s' ws Hok Hp Hw Hws Hin.
    pose proof (crash_state_ok p w s s' Hok Hp Hw Hin) as Hok'.
    destruct (adds_to_spec is_lower lower iter_order iter_perm p ws s' Hok' Hp Hws) as [E Hok2].
    split; [|split; [exact Hok2|]].
    - destruct (add_crash is_lower lower iter_order iter_perm p w s s' Hok Hp Hw Hin) as [H|H].
      + left. intro k. rewrite E. now rewrite H.
      + right. intro k. rewrite E. now apply extend_equiv.
    - intro Hne. destruct ws as [|a r] using rev_ind; [now contradiction Hne|].
      unfold C07CollideProofs.adds_to. rewrite fold_left_app. cbn [fold_left]. apply add_to_tmp_gone.
  Qed.

  (* ... because the create truncates: what the temporary sibling holds before an add is irrelevant for every file afterwards *)
  Theorem leftover_tmp_irrelevant : forall p w s c q, is_tmp p = false ->
    fs_read q (add_to p w (fs_write (TmpP p) c s)) = fs_read q (add_to p w s).
  Proof.
    intros p w s c q Hp.
    assert (Hd : dict_at p (fs_write (TmpP p) c s) = dict_at p s).
    { unfold DictIO.dict_at, DictIO.load_dict. rewrite fs_read_write_other by apply tmp_neq'. reflexivity. }
    unfold DictIO.add_to, DictIO.save_dict. rewrite Hd, !save_words_eq.
    set (ws := words_iter (append_word (dict_at p s) w)).
    destruct (path_eqb q p) eqn:E1.
    - apply path_eqb_eq in E1. subst q. now rewrite !read_after_save_same.
    - assert (H1 : q <> p) by (intro; subst; rewrite path_eqb_refl in E1; discriminate).
      destruct (path_eqb q (TmpP p)) eqn:E2.
      + apply path_eqb_eq in E2. subst q. unfold after_save. now rewrite !read_renamed_tmp.
      + assert (H2 : q <> TmpP p) by (intro; subst; rewrite path_eqb_refl in E2; discriminate).
        rewrite !read_after_save_other by assumption. now apply fs_read_write_other.
  Qed.
End CrashThen.

(* ---- concrete: {alpha}; the add of a long word dies after the flush (its text is complete in user.txt.tmp); restart;
        add zulu.  With File::create the dictionary reloads to {alpha, zulu}; WITHOUT truncation the tail of the left-over
        survives the shorter save and reloads as a word nobody added ---- *)
Definition w_long : word := [102; 114; 97; 103; 105; 108; 105; 115; 116; 105; 99; 119; 111; 114; 100]%N.   (* fragilisticword *)
Definition w_zulu : word := [122; 117; 108; 117]%N.
Definition s_alpha : fsys := run_fs a_is_lower a_lower [] id_order fs_empty [AddWord SUser w_alpha].
Definition crash_ix : nat := 61.     (* of 64 crash states: after the flush, before the rename *)
Lemma notrunc_refuted :
  let s1 := run_fs a_is_lower a_lower [] id_order s_alpha [CrashAdd SUser w_long crash_ix] in
  length (add_crash_states a_is_lower a_lower id_order SUser w_long s_alpha) = 64 /\
  fs_read (TmpP UserP) s1 = Some (Clean (serialize [w_alpha; w_long])) /\
  option_map words_of (load_dict a_is_lower a_lower UserP s1) = Some [w_alpha] /\
  (* the code as it is: truncating create *)
  option_map words_of (load_dict a_is_lower a_lower UserP (add_to a_is_lower a_lower id_order UserP w_zulu s1)) = Some [w_alpha; w_zulu] /\
  (* without truncation: "alpha\nzulu\n" over "alpha\nfragilisticword\n" leaves "alpha\nzulu\nlisticword\n" *)
  option_map words_of (load_dict a_is_lower a_lower UserP (add_to_notrunc a_is_lower a_lower id_order UserP w_zulu s1))
    = Some [w_alpha; w_zulu; [108; 105; 115; 116; 105; 99; 119; 111; 114; 100]%N] /\
  (* a LONGER later word hides the defect *)
  option_map words_of (load_dict a_is_lower a_lower UserP
     (add_to_notrunc a_is_lower a_lower id_order UserP (w_long ++ w_zulu) s1)) = Some [w_alpha; w_long ++ w_zulu].
Proof. vm_compute. repeat split. Qed.
