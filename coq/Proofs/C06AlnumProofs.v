(* C06AlnumProofs.v — the one-word characterisation extended from letters to what lex_word really accepts:
   a word that STARTS with a letter and goes on with letters or ASCII digits (MP3, IPv4, Y2K), optionally followed by
   one apostrophe (' or U+2019) and another such word (MP3's, F1's).  Same route as C06WordsProofs.v: every sub-lexer
   before lex_word declines except lex_plural_digit (which answers what lex_word answers, or glues `x's`), then
   plain_loop, then the passes (contraction pass merges Word ' Word).
   New premise digit_law: an ASCII digit is numeric (char::is_numeric) — needed because lex_plural_digit looks at
   `is_alphanumeric` of the character after `Xs`.  Monitored over the ten digits by the harness. *)
Require Import Base Overlap Tables_lexer Lexer Condense ListLemmas TokenInv CondPattern C06Words C06WordsProofs.
From Coq Require Import Lia.

Definition digit_law (u : uni) : Prop := forall c, is_ascii_digit c = true -> u_numeric u c = true.

(* letter, then letters or ASCII digits *)
Definition word_body (u : uni) (a : text) : bool :=
  match a with c0 :: a' => u_lingual u c0 && forallb (wordc u) a' | [] => false end.

Definition alnum_word (u : uni) (w : text) : Prop :=
  word_body u w = true \/
  (exists (a : text) (q : char) (b : text),
     w = a ++ q :: b /\ word_body u a = true /\ is_apostrophe_char q = true /\ word_body u b = true).

Lemma digit_range c : is_ascii_digit c = true -> (48 <= c <= 57)%N.
Proof.
  unfold is_ascii_digit, in_range. intros H. apply andb_true_iff in H as [H1 H2].
  apply N.leb_le in H1, H2. split; assumption.
Qed.

Lemma digit_safe c : is_ascii_digit c = true -> safe c = true.
Proof.
  intros H. apply digit_range in H. unfold safe, ceq, mem_n. cbn [existsb].
  destruct (N.eqb_spec 58 c) as [E|_]; [exfalso; lia|].
  destruct (N.eqb_spec 64 c) as [E|_]; [exfalso; lia|].
  destruct (N.eqb_spec c 46) as [E|_]; [exfalso; lia|]. reflexivity.
Qed.

Section Alnum.
  Variable u : uni.
  Hypothesis laws : letter_laws u.
  Hypothesis dlaw : digit_law u.

  Lemma wordc_safe c : wordc u c = true -> safe c = true.
  Proof. unfold wordc. intros H. apply orb_prop in H as [H|H]; [apply (ling_safe u laws c H)|apply digit_safe; exact H]. Qed.

  Lemma wordc_alnum c : wordc u c = true -> u_alphanumeric u c = true.
  Proof.
    unfold wordc. intros H. apply orb_prop in H as [H|H]; [apply (ling_alnum u laws c H)|].
    unfold u_alphanumeric. rewrite (dlaw c H). apply orb_true_r.
  Qed.

  Lemma wordc_not_39 c : wordc u c = true -> ceq c 39 = false.
  Proof.
    unfold wordc. intros H. apply orb_prop in H as [H|H].
    - destruct (ling_neq u laws c 39 H) as [E _]; [cbv; discriminate|exact E].
    - apply digit_range in H. unfold ceq. apply N.eqb_neq. lia.
  Qed.

  Lemma body_inv a : word_body u a = true ->
    exists c0 a', a = c0 :: a' /\ u_lingual u c0 = true /\ forallb (wordc u) a' = true.
  Proof.
    destruct a as [|c0 a']; [discriminate|]. cbn [word_body]. intros H. apply andb_true_iff in H as [H0 H1].
    exists c0, a'. auto.
  Qed.

  Lemma body_wordc a : word_body u a = true -> forallb (wordc u) a = true.
  Proof.
    intros H. destruct (body_inv a H) as (c0 & a' & -> & H0 & H1). cbn [forallb]. unfold wordc at 1. rewrite H0, H1. reflexivity.
  Qed.

  Lemma body_safe a : word_body u a = true -> forallb safe a = true.
  Proof.
    intros H. apply body_wordc in H. apply forallb_forall. intros x Hx. apply wordc_safe.
    eapply forallb_forall in H; eassumption.
  Qed.

  (* what may follow the first word: nothing, or an apostrophe and another word *)
  Definition tail_ok2 (rest : text) : Prop :=
    rest = [] \/ exists q b, rest = q :: b /\ is_apostrophe_char q = true /\ word_body u b = true.

  Lemma tail2_safe rest : tail_ok2 rest -> forallb safe rest = true.
  Proof.
    intros [->|(q & b & -> & Hq & Hb)]; [reflexivity|]. cbn [forallb]. rewrite (apos_safe q Hq). cbn [andb].
    apply body_safe. exact Hb.
  Qed.

  Lemma lex_word_body a rest : word_body u a = true -> tail_ok2 rest ->
    lex_word u (a ++ rest) = Some (length a, KWord).
  Proof.
    intros Ha Ht. unfold lex_word. change (fun c => u_lingual u c || is_ascii_digit c) with (wordc u).
    pose proof (body_wordc a Ha) as Hw.
    assert (E : count_while (wordc u) (a ++ rest) = length a).
    { destruct Ht as [->|(q & b & -> & Hq & _)]; [rewrite app_nil_r; apply count_while_all; exact Hw|].
      apply count_while_app_stop; [exact Hw|apply (apos_not_wordc u laws); exact Hq]. }
    rewrite E. destruct a; [discriminate|]. reflexivity.
  Qed.

  Lemma plural_digit_body a rest : word_body u a = true -> tail_ok2 rest ->
    lex_plural_digit u (a ++ rest) = None \/
    lex_plural_digit u (a ++ rest) = Some (length a, KWord) \/
    (exists c0, a = [c0] /\ rest = [39; 115]%N /\ lex_plural_digit u (a ++ rest) = Some (3, KWord)).
  Proof.
    intros Ha Ht. destruct (body_inv a Ha) as (c0 & a' & -> & H0 & Ha'). cbn [app]. unfold lex_plural_digit.
    destruct (negb (is_ascii_alphanumeric c0)); [left; reflexivity|].
    destruct a' as [|c1 a''].
    - cbn [app]. destruct Ht as [->|(q & b & -> & Hq & Hb)]; [left; reflexivity|].
      destruct (apos_cases q Hq) as [->| ->].
      + change (ceq 39 39) with true. cbn iota.
        destruct b as [|c t]; [left; reflexivity|]. destruct (ceq c 115) eqn:Ec; [|left; reflexivity].
        destruct t as [|d t'].
        * right; right. exists c0. unfold ceq in Ec. apply N.eqb_eq in Ec. subst c. repeat split; reflexivity.
        * cbn [word_body forallb] in Hb. apply andb_true_iff in Hb as [_ Hb]. apply andb_true_iff in Hb as [Hd _].
          rewrite (wordc_alnum d Hd). left; reflexivity.
      + change (ceq 8217 39) with false. cbn iota. change (ceq 8217 115) with false. left; reflexivity.
    - cbn [app forallb] in *. apply andb_true_iff in Ha' as [H1 Ha''].
      rewrite (wordc_not_39 c1 H1).
      destruct (ceq c1 115); [|left; reflexivity].
      destruct a'' as [|d a3].
      + cbn [app]. destruct Ht as [->|(q & b & -> & Hq & Hb)]; [right; left; reflexivity|].
        destruct laws as (_ & _ & _ & _ & _ & _ & Lq). destruct (Lq q Hq) as [-> _]. right; left; reflexivity.
      + cbn [app forallb] in *. apply andb_true_iff in Ha'' as [Hd _]. rewrite (wordc_alnum d Hd). left; reflexivity.
  Qed.

  Lemma lex_token_body a rest : word_body u a = true -> tail_ok2 rest ->
    lex_token u (a ++ rest) = Some (length a, KWord) \/
    (exists c0, a = [c0] /\ rest = [39; 115]%N /\ lex_token u (a ++ rest) = Some (3, KWord)).
  Proof.
    intros Ha Ht.
    assert (D : lex_token u (a ++ rest) =
                or_else (lex_plural_digit u (a ++ rest)) (or_else (lex_word u (a ++ rest)) (lex_catch (a ++ rest)))).
    { destruct (body_inv a Ha) as (c0 & a' & E & H0 & _). rewrite E. cbn [app]. apply (letter_start_dispatch u laws); [exact H0|].
      change (c0 :: a' ++ rest) with ((c0 :: a') ++ rest). rewrite <- E. rewrite forallb_app.
      apply andb_true_iff. split; [apply body_safe; exact Ha|apply tail2_safe; exact Ht]. }
    rewrite D, (lex_word_body a rest Ha Ht).
    destruct (plural_digit_body a rest Ha Ht) as [E|[E|(c0 & -> & -> & E)]]; rewrite E; cbn [or_else].
    - left; reflexivity.
    - left; reflexivity.
    - right. exists c0. repeat split; reflexivity.
  Qed.

  Lemma plain_body a : word_body u a = true -> plain_parse u a = Ok [mktok (mkspan 0 (length a)) KWord].
  Proof.
    intros Ha. unfold plain_parse.
    destruct (lex_token_body a [] Ha (or_introl eq_refl)) as [E|(c0 & _ & Hr & _)]; [|discriminate].
    rewrite app_nil_r in E. destruct a as [|c r]; [discriminate|]. cbn [length].
    rewrite (plain_step u _ 0 c r _ _ E). rewrite skipn_all. rewrite plain_loop_nil. reflexivity.
  Qed.

  Lemma plain_apostrophe_body (a : text) (q : char) (b : text) : word_body u a = true -> is_apostrophe_char q = true -> word_body u b = true ->
    plain_parse u (a ++ q :: b) = Ok (apos_tokens (length a) (length b)) \/
    plain_parse u (a ++ q :: b) = Ok [mktok (mkspan 0 (length (a ++ q :: b))) KWord].
  Proof.
    intros Ha Hq Hb. unfold plain_parse.
    assert (Ht : tail_ok2 (q :: b)) by (right; exists q, b; auto).
    destruct (lex_token_body a (q :: b) Ha Ht) as [E|(c0 & -> & Hr & E)].
    - left. destruct a as [|c r]; [discriminate|]. destruct b as [|cb rb]; [discriminate|].
      rewrite app_length. cbn [length app] in *. rewrite !Nat.add_succ_r.
      rewrite (plain_step u _ 0 c (r ++ q :: cb :: rb) _ _ E).
      change (c :: r ++ q :: cb :: rb) with ((c :: r) ++ q :: cb :: rb).
      rewrite skipn_app, skipn_all2 by (cbn [length]; lia). cbn [length]. rewrite Nat.sub_diag. cbn [skipn app].
      rewrite (plain_step u _ _ q (cb :: rb) _ _ (lex_token_apostrophe u q (cb :: rb) Hq)). cbn [skipn].
      destruct (lex_token_body (cb :: rb) [] Hb (or_introl eq_refl)) as [Eb|(c0 & _ & Hr & _)]; [|discriminate].
      rewrite app_nil_r in Eb. cbn [Nat.add].
      rewrite (plain_step u _ _ cb rb _ _ Eb). rewrite skipn_all. rewrite plain_loop_nil. cbn [bind length].
      unfold apos_tokens. cbn [length Nat.add]. reflexivity.
    - right. injection Hr as -> ->. cbn [app length] in *. rewrite (plain_step u _ 0 c0 _ _ _ E).
      cbn [skipn]. rewrite plain_loop_nil. reflexivity.
  Qed.

  Theorem alnum_word_document w : alnum_word u w -> document_plain u w = Ok [mktok (mkspan 0 (length w)) KWord].
  Proof.
    intros [Hw|(a & q & b & -> & Ha & Hq & Hb)]; unfold document_plain.
    - rewrite (plain_body w Hw). cbn [bind]. apply passes_single_word. destruct w; discriminate.
    - assert (Hne : a ++ q :: b <> []) by (destruct a; discriminate).
      destruct (plain_apostrophe_body a q b Ha Hq Hb) as [E|E]; rewrite E; cbn [bind].
      + apply passes_apostrophe.
        * destruct a; [discriminate|cbn; lia].
        * destruct b; [discriminate|cbn; lia].
        * rewrite app_length. cbn [length]. lia.
      + apply passes_single_word. exact Hne.
  Qed.

  Theorem alnum_word_one_word w : alnum_word u w -> one_word u w = true.
  Proof.
    intros H. unfold one_word. rewrite (alnum_word_document w H). cbn [tkind_of is_word tstart tend tspan sstart send andb].
    rewrite !Nat.eqb_refl. reflexivity.
  Qed.

  (* the old class is inside the new one *)
  Lemma letters_body a : a <> [] -> all_letters u a = true -> word_body u a = true.
  Proof.
    destruct a as [|c r]; [contradiction|]. intros _ H. cbn [all_letters forallb] in H. apply andb_true_iff in H as [H0 H1].
    cbn [word_body]. rewrite H0. cbn [andb]. apply forallb_forall. intros x Hx. unfold wordc.
    eapply forallb_forall in H1; [|exact Hx]. rewrite H1. reflexivity.
  Qed.

  Theorem simple_word_alnum w : simple_word u w -> alnum_word u w.
  Proof.
    intros [[Hne Hw]|(a & q & b & -> & Ha0 & Hb0 & Ha & Hq & Hb)].
    - left. apply letters_body; assumption.
    - right. exists a, q, b. repeat split; try assumption; apply letters_body; assumption.
  Qed.
End Alnum.

(* decidable form, for tables: is w an alnum word?  (split at the first apostrophe character) *)
Fixpoint split_apos (w : text) : option (text * text) :=
  match w with
  | [] => None
  | c :: r => if is_apostrophe_char c then Some ([], r)
              else match split_apos r with Some (a, b) => Some (c :: a, b) | None => None end
  end.
Definition alnum_wordb (u : uni) (w : text) : bool :=
  word_body u w || match split_apos w with Some (a, b) => word_body u a && word_body u b | None => false end.

Lemma split_apos_spec w a b : split_apos w = Some (a, b) -> exists q, w = a ++ q :: b /\ is_apostrophe_char q = true.
Proof.
  revert a b. induction w as [|c r IH]; intros a b; [discriminate|]. cbn [split_apos].
  destruct (is_apostrophe_char c) eqn:E.
  - intros H. injection H as <- <-. exists c. split; [reflexivity|exact E].
  - destruct (split_apos r) as [[a' b']|]; [|discriminate]. intros H. injection H as <- <-.
    destruct (IH a' b' eq_refl) as (q & -> & Hq). exists q. split; [reflexivity|exact Hq].
Qed.

Lemma alnum_wordb_sound u w : alnum_wordb u w = true -> alnum_word u w.
Proof.
  unfold alnum_wordb. intros H. apply orb_prop in H as [H|H]; [left; exact H|].
  destruct (split_apos w) as [[a b]|] eqn:S; [|discriminate]. apply andb_true_iff in H as [Ha Hb].
  destruct (split_apos_spec w a b S) as (q & -> & Hq). right. exists a, q, b. auto.
Qed.
