(* C19TextRecords.v — the records of the property, with the `lexer`, `value` and `shape` contracts of
   C19_text_records_* all discharged: a float is the exact value the modelled lexer (C02's Model/Lexer.v) computes
   for a literal — sign, decimal mantissa, decimal exponent — and "finite" is Lexer.f64_finite.  What remains is
   serde_json's f64 printer/parser round trip on finite values (`float_rt`). *)
From Coq Require Import String Ascii.
From Coq Require Import List ZArith Lia.
Require Import Base JsonEscape Stats StatsProofs C19Record C19RecordProofs Lexer LexerProofs C19LexerFinite Condense C19DocNumbers.
Import ListNotations.

Definition lexval := (bool * N * Z)%type.                              (* (-1)^neg * mant * 10^exp10 *)
Definition lexval_finite (v : lexval) : Prop := let '(_, mant, ex) := v in f64_finite mant ex = true.
Definition value_of (nb : Lexer.number) : lexval := (n_neg nb, n_mant nb, n_exp10 nb).

(* r was made from the text s: every Number value in its context is the value of a Number token of
   PlainEnglish::parse(s) (RecordKind::from_lint copies the tokens that intersect the lint; the passes of
   Document::parse between the lexer and the linters attach suffixes and merge tokens but never build a Number value —
   source-shape flag of C19_source_shape); a configuration update holds no Number at all *)
Definition made_from_text (u : uni) (r : record lexval) : Prop :=
  exists s ts, plain_parse u s = Ok ts /\ incl (numbers lexval r) (map value_of (flat_map token_numbers ts)).

Theorem from_text_numbers_finite u r : made_from_text u r -> Forall lexval_finite (numbers lexval r).
Proof.
  intros [s [ts [E I]]]. apply Forall_forall. intros v Hv. apply I in Hv. apply in_map_iff in Hv.
  destruct Hv as [nb [<- Hin]]. pose proof (token_numbers_finite ts (plain_parse_finite u s ts E)) as Fin.
  rewrite Forall_forall in Fin. exact (Fin nb Hin).
Qed.

Section TextRecordsConcrete.
  Variable u : uni.
  Variable print_f64 : lexval -> bytes.
  Variable parse_f64 : bytes -> option lexval.
  Hypothesis Hf : float_rt lexval lexval_finite print_f64 parse_f64.
  Notation ser := (ser_record lexval lexval_finite print_f64 parse_f64).
  Notation de := (de_record lexval lexval_finite print_f64 parse_f64).
  Definition text_record (r : record lexval) : Prop := rust_value lexval print_f64 parse_f64 r /\ made_from_text u r.

  Lemma text_record_good r : text_record r -> good lexval lexval_finite print_f64 parse_f64 r.
  Proof. intros [H1 H2]. split; [exact H1|apply (from_text_numbers_finite u), H2]. Qed.

  Theorem text_log_roundtrip rs : Forall text_record rs -> read (record lexval) de (write (record lexval) ser rs) = Some rs.
  Proof. intros H. apply (record_log_roundtrip _ _ _ _ Hf). eapply Forall_impl; [|exact H]. exact text_record_good. Qed.
  Theorem text_log_append a c : Forall text_record a -> Forall text_record c ->
    read (record lexval) de (write (record lexval) ser a ++ write (record lexval) ser c) = Some (a ++ c).
  Proof.
    intros Ha Hc. apply (record_log_append _ _ _ _ Hf); (eapply Forall_impl; [|eassumption]); exact text_record_good.
  Qed.
  Theorem text_log_sessions file old ss : terminated file -> read (record lexval) de file = Some old ->
    Forall (Forall text_record) ss ->
    read (record lexval) de (sessions (record lexval) ser file ss) = Some (old ++ concat ss).
  Proof.
    intros Ht Ho H. apply (record_log_sessions _ _ _ _ Hf); [exact Ht|exact Ho|].
    eapply Forall_impl; [|exact H]. intros l Hl. eapply Forall_impl; [|exact Hl]. exact text_record_good.
  Qed.
End TextRecordsConcrete.

(* non-vacuity: the lint record for `1e308` (one finite Number token, made from that text) *)
Definition ex_text_record : record lexval :=
  (RKLint lexval 1%nat [([49; 101; 51; 48; 56]%N, TKNumber lexval ((false, 1%N, 308%Z), (None, (10%N, 0%N))))],
   (7%Z, jb "00000000-0000-0000-0000-000000000002")).
Example made_from_text_example : made_from_text ascii_digits_uni ex_text_record /\
  Forall lexval_finite (numbers lexval ex_text_record) /\ ~ lexval_finite (false, 1%N, 999%Z).
Proof.
  split; [|split].
  - exists [49; 101; 51; 48; 56]%N. eexists. split; [vm_compute; reflexivity|]. intros v Hv. exact Hv.
  - repeat constructor.
  - vm_compute. discriminate.
Qed.

(* ================= phase 4: records made from the DOCUMENT (what the linters, hence RecordKind::from_lint, see) ================= *)
(* r was made from Document::new_plain_english(s): every Number value in its context is the value of a Number token of
   the document — lexer AND the passes of Document::parse (C02's Model/Condense.v).  No source-shape flag is involved any
   more: that the passes build no Number value is C19DocNumbers.document_number_values. *)
Definition made_from_document (u : uni) (r : record lexval) : Prop :=
  exists s ts, document_plain u s = Ok ts /\ incl (numbers lexval r) (map value_of (flat_map token_numbers ts)).

Lemma in_token_numbers ts nb : In nb (flat_map token_numbers ts) <-> exists t, In t ts /\ tkind_of t = KNumber nb.
Proof.
  rewrite in_flat_map. split; intros [t [Hin H]]; exists t; (split; [exact Hin|]); unfold token_numbers in *.
  - destruct (tkind_of t); try contradiction. destruct H as [->|[]]. reflexivity.
  - rewrite H. left. reflexivity.
Qed.

Theorem made_from_document_text u r : made_from_document u r -> made_from_text u r.
Proof.
  intros [s [ts [E I]]]. destruct (plain_tiling u s) as [t0 [E0 _]]. exists s, t0. split; [exact E0|].
  intros v Hv. apply I in Hv. apply in_map_iff in Hv. destruct Hv as [nb [<- Hin]].
  apply in_token_numbers in Hin. destruct Hin as [t [Hin Ek]].
  destruct (document_number_values u s t0 ts E0 E t nb Hin Ek) as [t' [nb0 [Hin' [Ek' [S1 [S2 [S3 _]]]]]]].
  apply in_map_iff. exists nb0. split; [unfold value_of; congruence|].
  apply in_token_numbers. exists t'. split; assumption.
Qed.

Theorem from_document_numbers_finite u r : made_from_document u r -> Forall lexval_finite (numbers lexval r).
Proof. intros H. apply (from_text_numbers_finite u), made_from_document_text, H. Qed.

Section DocRecordsConcrete.
  Variable u : uni.
  Variable print_f64 : lexval -> bytes.
  Variable parse_f64 : bytes -> option lexval.
  Hypothesis Hf : float_rt lexval lexval_finite print_f64 parse_f64.
  Notation ser := (ser_record lexval lexval_finite print_f64 parse_f64).
  Notation de := (de_record lexval lexval_finite print_f64 parse_f64).
  Definition doc_record (r : record lexval) : Prop := rust_value lexval print_f64 parse_f64 r /\ made_from_document u r.

  Lemma doc_record_text r : doc_record r -> text_record u print_f64 parse_f64 r.
  Proof. intros [H1 H2]. split; [exact H1|apply made_from_document_text, H2]. Qed.

  Theorem doc_log_roundtrip rs : Forall doc_record rs -> read (record lexval) de (write (record lexval) ser rs) = Some rs.
  Proof. intros H. apply (text_log_roundtrip u _ _ Hf). eapply Forall_impl; [|exact H]. exact doc_record_text. Qed.
  Theorem doc_log_append a c : Forall doc_record a -> Forall doc_record c ->
    read (record lexval) de (write (record lexval) ser a ++ write (record lexval) ser c) = Some (a ++ c).
  Proof.
    intros Ha Hc. apply (text_log_append u _ _ Hf); (eapply Forall_impl; [|eassumption]); exact doc_record_text.
  Qed.
  Theorem doc_log_sessions file old ss : terminated file -> read (record lexval) de file = Some old ->
    Forall (Forall doc_record) ss ->
    read (record lexval) de (sessions (record lexval) ser file ss) = Some (old ++ concat ss).
  Proof.
    intros Ht Ho H. apply (text_log_sessions u _ _ Hf); [exact Ht|exact Ho|].
    eapply Forall_impl; [|exact H]. intros l Hl. eapply Forall_impl; [|exact Hl]. exact doc_record_text.
  Qed.
End DocRecordsConcrete.

(* non-vacuity: the lint record for the document of `2nd` — ONE Number token (2, suffix Nd) made by the suffix pass
   out of the lexer's Number 2 and the Word `nd` *)
Definition ex_doc_record : record lexval :=
  (RKLint lexval 1%nat [([50; 110; 100]%N, TKNumber lexval ((false, 2%N, 0%Z), (Some 2%nat, (10%N, 0%N))))],
   (7%Z, jb "00000000-0000-0000-0000-000000000003")).
Example made_from_document_example : made_from_document ascii_uni ex_doc_record.
Proof.
  exists [50; 110; 100]%N. eexists. split; [vm_compute; reflexivity|]. intros v Hv. exact Hv.
Qed.
