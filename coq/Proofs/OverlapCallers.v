(* OverlapCallers.v — the call sites C13's consequence rests on still apply remove_overlaps
   (table regenerated from the Rust sources on every run). *)
From Coq Require Import List String Bool.
Require Import Tables_overlapcallers.

Lemma overlap_call_sites_ok :
  forallb (fun e => snd e) overlap_call_sites = true /\ List.length overlap_call_sites = 4.
Proof. split; vm_compute; reflexivity. Qed.
