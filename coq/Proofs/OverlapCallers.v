(* OverlapCallers.v — the call sites C13's consequence rests on still apply remove_overlaps
   (table regenerated from the Rust sources on every run). *)
From Coq Require Import List String Bool.
Require Import Tables_overlapcallers.

Lemma overlap_call_sites_ok :
  forallb (fun e => snd e) overlap_call_sites = true /\ List.length overlap_call_sites = 4.
Proof. split; vm_compute; reflexivity. Qed.

(* phase 3: the statements that touch the lint vector at each site, in source order, are exactly the
   steps Model/C13Callers.v composes (wasm_lint: remove_overlaps THEN remove_ignored THEN the per-lint map;
   cli_lint: --count and the empty case return BEFORE remove_overlaps, then one label per lint;
   CurrencyPlacement: three generators (pairs, first triple, windows of four) then remove_overlaps;
   merge_linters!: extend per sub-linter then remove_overlaps), and the census of callers is the known one. *)
Open Scope string_scope.
Import ListNotations.
Definition expected_skeletons : list (string * list string) := [
  ("wasm_lint", ["lint_group"; "remove_overlaps"; "remove_ignored"; "map_each"]);
  ("cli_lint", ["lint_group"; "count_len_return"; "empty_return"; "remove_overlaps"; "label_each"]);
  ("currency_placement", ["new"; "extend_ab"; "extend_ac"; "extend_ac"; "remove_overlaps"; "return"]);
  ("merge_linters_macro", ["new"; "extend_sub"; "remove_overlaps"; "return"])
].
Definition expected_census : list (string * nat) := [
  ("harper-cli/src/main.rs", 1);
  ("harper-core/src/lib.rs", 1);
  ("harper-core/src/linting/currency_placement.rs", 1);
  ("harper-core/src/linting/merge_linters.rs", 1);
  ("harper-wasm/src/lib.rs", 1)
].
Lemma overlap_call_skeletons_ok :
  overlap_call_skeletons = expected_skeletons /\ overlap_call_census = expected_census.
Proof. split; vm_compute; reflexivity. Qed.
