(* C14Flat.v — C14, phase 4: the open finding F13d characterised exactly, and what it needs on REAL documents.

   1. flat_collision_iff / flat_failure_iff: two lints get the same context although the property tells them apart
      (different tokens before / under / after the flagged text) IF AND ONLY IF they have the same report, the same
      FLAT list before ++ flagged ++ after, and the list is SPLIT differently between the three windows (number of tokens
      before, number of flagged tokens).  With a hash that does not collide on the two contexts this is exactly the
      class of "only that lint" failures between two lints: the harness's classifier for the known finding
      (same context in the model, same flat list, different split) is the failing class, nothing wider.
   2. Lints of real rules flag whole tokens (the hull of the matched tokens: C01/C03 span schemas).  On a document whose
      tokens tile the text (every plain-English document: C02_document_tiling) the three windows of such a lint are
      computed in closed form (aligned_parts): the flagged tokens are the matched ones; before = the token in front,
      plus the one in front of that exactly when the first is one character long; after likewise.  Hence
      aligned_collision_needs: two token-aligned lints (of any two tiled documents) can collide in the F13d way ONLY IF
      one of them touches the start or the end of its text, or a ONE-CHARACTER token stands directly in front of /
      behind one of them.  Both escapes are real: aligned_collision_edge_example, aligned_collision_one_char_example. *)
Require Import Base Suggestion Ignore ListLemmas IgnoreProofs C14Hash.
From Coq Require Import Lia.

(* ---------------------------------------------------------------------------------------------- *)
(* 1. the failing class, exactly                                                                    *)
(* ---------------------------------------------------------------------------------------------- *)
Definition parts := (list ftok * list ftok * list ftok)%type.
Definition flat_of (w : parts) : list ftok := let '(b, p, a) := w in b ++ p ++ a.
(* where the flat list is cut: tokens before, flagged tokens *)
Definition split_of (w : parts) : nat * nat := let '(b, p, a) := w in (length b, length p).

Lemma app_eq_len {A} (a a' b b' : list A) : length a = length a' -> a ++ b = a' ++ b' -> a = a' /\ b = b'.
Proof.
  revert a'. induction a as [|x a IH]; intros [|x' a'] L E; cbn in L; try discriminate.
  - split; [reflexivity|exact E].
  - cbn [app] in E. inversion E. subst. destruct (IH a' ltac:(lia) H1) as [-> ->]. split; reflexivity.
Qed.

Lemma parts_eq_iff (w w' : parts) : w = w' <-> flat_of w = flat_of w' /\ split_of w = split_of w'.
Proof.
  split; [intros ->; split; reflexivity|].
  destruct w as [[b p] a], w' as [[b' p'] a']. cbn [flat_of split_of]. intros [F S]. inversion S as [[Lb Lp]].
  destruct (app_eq_len _ _ _ _ Lb F) as [-> F']. destruct (app_eq_len _ _ _ _ Lp F') as [-> ->]. reflexivity.
Qed.

Lemma split_dec (w w' : parts) : {split_of w = split_of w'} + {split_of w <> split_of w'}.
Proof. decide equality; apply Nat.eq_dec. Qed.

Lemma nb_tokens_of_parts l d w : nb_parts l d = Ok w -> nb_tokens l d = Ok (flat_of w).
Proof. intros E. unfold nb_tokens. rewrite E. destruct w as [[b p] a]. reflexivity. Qed.

(* same context although the property tells the lints apart  <=>  same report, same flat list, different split *)
Theorem flat_collision_iff l d c w l' d' c' w' :
  context l d = Ok c -> context l' d' = Ok c' -> nb_parts l d = Ok w -> nb_parts l' d' = Ok w' ->
  (c = c' /\ w <> w') <-> (same_report l l' /\ flat_of w = flat_of w' /\ split_of w <> split_of w').
Proof.
  intros Ec Ec' Ew Ew'.
  pose proof (context_same_iff _ _ _ _ _ _ Ec Ec') as I.
  rewrite (nb_tokens_of_parts _ _ _ Ew), (nb_tokens_of_parts _ _ _ Ew') in I.
  split.
  - intros [E N]. apply I in E. destruct E as [R F]. assert (F' : flat_of w = flat_of w') by congruence. split; [exact R|]. split; [exact F'|].
    intros S. apply N. apply parts_eq_iff. split; assumption.
  - intros [R [F S]]. split; [apply I; split; [exact R|rewrite F; reflexivity]|].
    intros ->. apply S. reflexivity.
Qed.

(* and these are exactly the "only that lint" failures between two lints when the hash does not collide on their two
   contexts: after ignoring l (and nothing else), l' — which the property tells apart from l — is hidden *)
Theorem flat_failure_iff (hash : ctx -> N) l d c w l' d' c' w' s1 :
  context l d = Ok c -> context l' d' = Ok c' -> nb_parts l d = Ok w -> nb_parts l' d' = Ok w' ->
  hash_injective_on hash [c'; c] ->
  ignore_lint context hash [] l d = Ok s1 ->
  (is_ignored context hash s1 l' d' = Ok true /\ (~ same_report l l' \/ w <> w'))
  <-> (same_report l l' /\ flat_of w = flat_of w' /\ split_of w <> split_of w').
Proof.
  intros Ec Ec' Ew Ew' Hinj Ei.
  assert (Hc : contexts_of context [(l, d)] [c]) by (constructor; [exact Ec|constructor]).
  assert (Ea : ignore_all context hash [] [(l, d)] = Ok s1) by (cbn [ignore_all]; rewrite Ei; reflexivity).
  pose proof (ignored_iff hash _ _ _ _ _ _ Hc Ea Ec' Hinj) as I.
  pose proof (flat_collision_iff _ _ _ _ _ _ _ _ Ec Ec' Ew Ew') as J.
  pose proof (context_same_iff _ _ _ _ _ _ Ec Ec') as K.
  split.
  - intros [Hi Hd]. apply I in Hi. destruct Hi as [Hi|[]]. subst c'.
    destruct (proj1 K eq_refl) as [R _]. apply J. split; [reflexivity|].
    destruct Hd as [Hd|Hd]; [contradiction|exact Hd].
  - intros H. apply J in H. destruct H as [E N]. split; [apply I; left; exact E|right; exact N].
Qed.

(* ---------------------------------------------------------------------------------------------- *)
(* 2. token-aligned lints on documents whose tokens tile the text                                   *)
(* ---------------------------------------------------------------------------------------------- *)
Fixpoint tiles (a b : nat) (ts : list token) : Prop :=
  match ts with
  | [] => a = b
  | t :: r => sstart (tspan t) = a /\ a < send (tspan t) /\ tiles (send (tspan t)) b r
  end.

Definition wtoks (ts : list token) (w : span) : list token := filter (fun t => overlaps (tspan t) w) ts.

Lemma get_tokens_indices_gen w : forall ts pre,
  get_tokens (pre ++ ts) (indices_from (length pre) ts w) = wtoks ts w.
Proof.
  induction ts as [|t r IH]; intros pre; cbn [indices_from wtoks filter get_tokens]; [reflexivity|].
  assert (E : pre ++ t :: r = (pre ++ [t]) ++ r) by (rewrite <- app_assoc; reflexivity).
  assert (L : S (length pre) = length (pre ++ [t])) by (rewrite app_length; cbn; lia).
  destruct (overlaps (tspan t) w).
  - cbn [get_tokens]. rewrite nth_error_app2 by lia. rewrite Nat.sub_diag. cbn [nth_error].
    f_equal. rewrite E, L. apply IH.
  - rewrite E, L. apply IH.
Qed.

Lemma get_tokens_indices d w : get_tokens (dtoks d) (token_indices_intersecting d w) = wtoks (dtoks d) w.
Proof. exact (get_tokens_indices_gen w (dtoks d) []). Qed.

Lemma wtoks_app a b w : wtoks (a ++ b) w = wtoks a w ++ wtoks b w.
Proof. apply filter_app. Qed.

Lemma tiles_app xs : forall a c ys, tiles a c (xs ++ ys) <-> exists b, tiles a b xs /\ tiles b c ys.
Proof.
  induction xs as [|x xs IH]; intros a c ys; cbn [app tiles].
  - split; [intros H; exists a; split; [reflexivity|exact H]|intros [b [-> H]]; exact H].
  - rewrite IH. split.
    + intros [H1 [H2 [b [H3 H4]]]]. exists b. repeat split; assumption.
    + intros [b [[H1 [H2 H3]] H4]]. repeat split; try assumption. exists b. split; assumption.
Qed.

Lemma tiles_bounds ts : forall a b, tiles a b ts ->
  a <= b /\ Forall (fun t => a <= sstart (tspan t) /\ sstart (tspan t) < send (tspan t) /\ send (tspan t) <= b) ts.
Proof.
  induction ts as [|t r IH]; intros a b H; cbn [tiles] in H.
  - subst. split; [lia|constructor].
  - destruct H as [H1 [H2 H3]]. destruct (IH _ _ H3) as [L F]. split; [lia|]. constructor; [lia|].
    eapply Forall_impl; [|exact F]. cbn. intros t' [A [B C]]. lia.
Qed.

Lemma wtoks_none ts w : Forall (fun t => overlaps (tspan t) w = false) ts -> wtoks ts w = [].
Proof. induction 1 as [|t r H _ IH]; cbn [wtoks filter]; [reflexivity|]. rewrite H. exact IH. Qed.

Lemma wtoks_all ts w : Forall (fun t => overlaps (tspan t) w = true) ts -> wtoks ts w = ts.
Proof. induction 1 as [|t r H _ IH]; cbn [wtoks filter]; [reflexivity|]. rewrite H. f_equal. exact IH. Qed.

(* tokens that end at or before the window's start / start at or behind its end do not intersect it *)
Lemma wtoks_left a b ts w : tiles a b ts -> b <= sstart w -> wtoks ts w = [].
Proof.
  intros T L. apply wtoks_none. destruct (tiles_bounds _ _ _ T) as [_ F]. eapply Forall_impl; [|exact F].
  cbn. intros t [A [B C]]. unfold overlaps. apply andb_false_iff. right. apply Nat.ltb_ge. lia.
Qed.
Lemma wtoks_right a b ts w : tiles a b ts -> send w <= a -> wtoks ts w = [].
Proof.
  intros T L. apply wtoks_none. destruct (tiles_bounds _ _ _ T) as [_ F]. eapply Forall_impl; [|exact F].
  cbn. intros t [A [B C]]. unfold overlaps. apply andb_false_iff. left. apply Nat.ltb_ge. lia.
Qed.
Lemma wtoks_inside a b ts w : tiles a b ts -> sstart w <= a -> b <= send w -> wtoks ts w = ts.
Proof.
  intros T L R. apply wtoks_all. destruct (tiles_bounds _ _ _ T) as [_ F]. eapply Forall_impl; [|exact F].
  cbn. intros t [A [B C]]. unfold overlaps. apply andb_true_iff. split; apply Nat.ltb_lt; lia.
Qed.

Definition one_char (t : token) : Prop := send (tspan t) = S (sstart (tspan t)).
Lemma one_char_dec t : {one_char t} + {~ one_char t}.
Proof. apply Nat.eq_dec. Qed.

(* the tokens in front of position s that intersect the two characters before s *)
Inductive before_shape : list token -> list token -> Prop :=
| BS_nil : before_shape [] []
| BS_long : forall p t, ~ one_char t -> before_shape (p ++ [t]) [t]
| BS_first : forall t, one_char t -> before_shape [t] [t]
| BS_two : forall p t' t, one_char t -> before_shape (p ++ [t'; t]) [t'; t].

Lemma tiles_snoc a b p t : tiles a b (p ++ [t]) <-> tiles a (sstart (tspan t)) p /\ sstart (tspan t) < b /\ send (tspan t) = b.
Proof.
  rewrite tiles_app. cbn [tiles]. split.
  - intros [m [H1 [H2 [H3 H4]]]]. subst m. split; [exact H1|]. lia.
  - intros [H1 [H2 H3]]. exists (sstart (tspan t)). repeat split; [exact H1|lia|exact H3].
Qed.

Lemma wtoks_one t w : wtoks [t] w = if overlaps (tspan t) w then [t] else [].
Proof. reflexivity. Qed.

Lemma exists_last_or_nil {A} (l : list A) : l = [] \/ exists p t, l = p ++ [t].
Proof.
  destruct l as [|x r]; [left; reflexivity|right].
  destruct (@exists_last _ (x :: r)) as [p [t E]]; [discriminate|]. exists p, t. exact E.
Qed.

Lemma before_tokens s pre : tiles 0 s pre -> before_shape pre (wtoks pre (mkspan (s - 2) s)).
Proof.
  intros T. destruct (exists_last_or_nil pre) as [->|[p [t ->]]]; [constructor|].
  apply tiles_snoc in T. destruct T as [Tp [Lt Et]].
  assert (Ot : overlaps (tspan t) (mkspan (s - 2) s) = true).
  { unfold overlaps. cbn [sstart send]. apply andb_true_iff. split; apply Nat.ltb_lt; lia. }
  rewrite wtoks_app, wtoks_one, Ot.
  destruct (one_char_dec t) as [O|O].
  - unfold one_char in O.
    destruct (exists_last_or_nil p) as [->|[p' [t' ->]]].
    + cbn [wtoks filter app]. constructor. exact O.
    + apply tiles_snoc in Tp. destruct Tp as [Tp' [Lt' Et']].
      assert (Ot' : overlaps (tspan t') (mkspan (s - 2) s) = true).
      { unfold overlaps. cbn [sstart send]. apply andb_true_iff. split; apply Nat.ltb_lt; lia. }
      rewrite wtoks_app, wtoks_one, Ot'.
      rewrite (wtoks_left _ _ _ _ Tp') by (cbn [sstart]; lia).
      cbn [app]. rewrite <- app_assoc. cbn [app]. constructor. exact O.
  - rewrite (wtoks_left _ _ _ _ Tp) by (cbn [sstart]; unfold one_char in O; lia).
    cbn [app]. constructor. exact O.
Qed.

(* the tokens from position e on that intersect the two characters from e *)
Inductive after_shape : list token -> list token -> Prop :=
| AS_nil : after_shape [] []
| AS_long : forall t r, ~ one_char t -> after_shape (t :: r) [t]
| AS_last : forall t, one_char t -> after_shape [t] [t]
| AS_two : forall t t' r, one_char t -> after_shape (t :: t' :: r) [t; t'].

Lemma after_tokens e n post : tiles e n post -> after_shape post (wtoks post (mkspan e (e + 2))).
Proof.
  intros T. destruct post as [|t r]; [constructor|].
  cbn [tiles] in T. destruct T as [St [Lt Tr]].
  assert (Ot : overlaps (tspan t) (mkspan e (e + 2)) = true).
  { unfold overlaps. cbn [sstart send]. apply andb_true_iff. split; apply Nat.ltb_lt; lia. }
  change (t :: r) with ([t] ++ r). rewrite wtoks_app, wtoks_one, Ot. cbn [app].
  destruct (one_char_dec t) as [O|O].
  - unfold one_char in O. destruct r as [|t' r'].
    + cbn [wtoks filter]. apply AS_last. exact O.
    + cbn [tiles] in Tr. destruct Tr as [St' [Lt' Tr']].
      assert (Ot' : overlaps (tspan t') (mkspan e (e + 2)) = true).
      { unfold overlaps. cbn [sstart send]. apply andb_true_iff. split; apply Nat.ltb_lt; lia. }
      change (t' :: r') with ([t'] ++ r'). rewrite wtoks_app, wtoks_one, Ot'.
      rewrite (wtoks_right _ _ _ _ Tr') by (cbn [send]; lia).
      cbn [app]. apply AS_two. exact O.
  - rewrite (wtoks_right _ _ _ _ Tr) by (cbn [send]; unfold one_char in O; lia).
    apply AS_long. exact O.
Qed.

(* a lint that flags whole tokens: the tokens of the document are pre ++ mid ++ post, mid (not empty) covers
   exactly the flagged span *)
Record aligned (d : doc) (l : ilint) (pre mid post : list token) : Prop := mk_aligned {
  al_toks : dtoks d = pre ++ mid ++ post;
  al_pre : tiles 0 (sstart (il_span l)) pre;
  al_mid : tiles (sstart (il_span l)) (send (il_span l)) mid;
  al_post : tiles (send (il_span l)) (length (dsrc d)) post;
  al_flags : mid <> [] }.

(* the three windows of a token-aligned lint, as tokens, in closed form *)
Theorem aligned_windows d l pre mid post :
  aligned d l pre mid post ->
  before_shape pre (wtoks (dtoks d) (before_window (il_span l))) /\
  wtoks (dtoks d) (il_span l) = mid /\
  after_shape post (wtoks (dtoks d) (after_window (il_span l))).
Proof.
  intros [Et Tp Tm To Hne]. set (s := sstart (il_span l)) in *. set (e := send (il_span l)) in *.
  destruct (tiles_bounds _ _ _ Tm) as [Lse _].
  rewrite Et, !wtoks_app. unfold before_window, after_window. fold s e.
  rewrite (wtoks_right _ _ _ _ Tm) by (cbn [send]; lia).
  rewrite (wtoks_right _ _ _ _ To) by (cbn [send]; lia).
  rewrite (wtoks_left _ _ _ (il_span l) Tp) by (fold s; lia).
  rewrite (wtoks_inside _ _ _ (il_span l) Tm) by (fold s e; lia).
  rewrite (wtoks_right _ _ _ (il_span l) To) by (fold e; lia).
  rewrite (wtoks_left _ _ _ (mkspan e (e + 2)) Tp) by (cbn [sstart]; lia).
  rewrite (wtoks_left _ _ _ (mkspan e (e + 2)) Tm) by (cbn [sstart]; lia).
  rewrite !app_nil_r. cbn [app]. split; [apply before_tokens; exact Tp|]. split; [reflexivity|].
  eapply after_tokens; exact To.
Qed.

Lemma map_res_length {A B} (f : A -> res B) l : forall l', map_res f l = Ok l' -> length l' = length l.
Proof.
  induction l as [|x r IH]; intros l' E; cbn [map_res] in E.
  - inversion E. reflexivity.
  - destruct (f x) as [y|]; cbn [bind] in E; [|discriminate].
    destruct (map_res f r) as [ys|]; cbn [bind] in E; [|discriminate]. inversion E. cbn. f_equal. apply IH. reflexivity.
Qed.

(* the parts of the property's neighbourhood have as many tokens as the three windows *)
Lemma nb_parts_lengths l d b p a :
  nb_parts l d = Ok (b, p, a) ->
  length b = length (wtoks (dtoks d) (before_window (il_span l))) /\
  length p = length (wtoks (dtoks d) (il_span l)) /\
  length a = length (wtoks (dtoks d) (after_window (il_span l))).
Proof.
  unfold nb_parts, window_tokens. rewrite !get_tokens_indices. intros E.
  destruct (map_res _ (wtoks (dtoks d) (before_window (il_span l)))) as [b0|] eqn:Eb; cbn [bind] in E; [|discriminate].
  destruct (map_res _ (wtoks (dtoks d) (il_span l))) as [p0|] eqn:Ep; cbn [bind] in E; [|discriminate].
  destruct (map_res _ (wtoks (dtoks d) (after_window (il_span l)))) as [a0|] eqn:Ea; cbn [bind] in E; [|discriminate].
  inversion E. rewrite !map_length.
  rewrite (map_res_length _ _ _ Eb), (map_res_length _ _ _ Ep), (map_res_length _ _ _ Ea). repeat split.
Qed.

(* the lint touches the start or the end of its text *)
Definition at_edge (pre post : list token) : Prop := pre = [] \/ post = [].
(* a one-character token stands directly in front of the flagged tokens or directly behind them *)
Definition one_char_border (pre post : list token) : Prop :=
  (exists p t, pre = p ++ [t] /\ one_char t) \/ (exists t r, post = t :: r /\ one_char t).

Lemma before_shape_count pre b : before_shape pre b ->
  pre = [] \/ (exists p t, pre = p ++ [t] /\ one_char t) \/ length b = 1.
Proof.
  intros H. destruct H.
  - left. reflexivity.
  - right. right. reflexivity.
  - right. left. exists [], t. split; [reflexivity|assumption].
  - right. left. exists (p ++ [t']), t. split; [rewrite <- app_assoc; reflexivity|assumption].
Qed.
Lemma after_shape_count post a : after_shape post a ->
  post = [] \/ (exists t r, post = t :: r /\ one_char t) \/ length a = 1.
Proof.
  intros H. destruct H.
  - left. reflexivity.
  - right. right. reflexivity.
  - right. left. exists t, []. split; [reflexivity|assumption].
  - right. left. exists t, (t' :: r). split; [reflexivity|assumption].
Qed.

(* F13d between two lints that flag whole tokens of tiled documents (two lints of one document, or of two) needs a lint at
   the edge of its text or a one-character token at the border of one of the flagged spans *)
Theorem aligned_collision_needs d1 l1 pre1 mid1 post1 w1 d2 l2 pre2 mid2 post2 w2 :
  aligned d1 l1 pre1 mid1 post1 -> aligned d2 l2 pre2 mid2 post2 ->
  nb_parts l1 d1 = Ok w1 -> nb_parts l2 d2 = Ok w2 ->
  flat_of w1 = flat_of w2 -> w1 <> w2 ->
  at_edge pre1 post1 \/ at_edge pre2 post2 \/ one_char_border pre1 post1 \/ one_char_border pre2 post2.
Proof.
  intros A1 A2 E1 E2 F N.
  destruct (aligned_windows _ _ _ _ _ A1) as [B1 [M1 C1]]. destruct (aligned_windows _ _ _ _ _ A2) as [B2 [M2 C2]].
  destruct w1 as [[b1 p1] a1], w2 as [[b2 p2] a2].
  destruct (nb_parts_lengths _ _ _ _ _ E1) as [Lb1 [Lp1 La1]]. destruct (nb_parts_lengths _ _ _ _ _ E2) as [Lb2 [Lp2 La2]].
  apply before_shape_count in B1, B2. apply after_shape_count in C1, C2. unfold at_edge, one_char_border.
  destruct B1 as [B1|[B1|B1]]; [tauto|tauto|]. destruct B2 as [B2|[B2|B2]]; [tauto|tauto|].
  destruct C1 as [C1|[C1|C1]]; [tauto|tauto|]. destruct C2 as [C2|[C2|C2]]; [tauto|tauto|].
  exfalso. apply N. apply parts_eq_iff. split; [exact F|]. cbn [split_of flat_of] in *.
  assert (L : length (b1 ++ p1 ++ a1) = length (b2 ++ p2 ++ a2)) by (rewrite F; reflexivity).
  rewrite !app_length in L. f_equal; lia.
Qed.

(* the number of tokens in front of a token-aligned lint that enter its context: 0 at the start of the text, 2 when the
   token in front is one character long and is not the first token, else 1 *)
Definition one_char_b (t : token) : bool := send (tspan t) =? S (sstart (tspan t)).
Definition before_count (pre : list token) : nat :=
  match rev pre with
  | [] => 0
  | t :: r => if one_char_b t then (match r with [] => 1 | _ => 2 end) else 1
  end.

Lemma one_char_b_spec t : one_char_b t = true <-> one_char t.
Proof. unfold one_char_b, one_char. apply Nat.eqb_eq. Qed.

Lemma before_shape_length pre b : before_shape pre b -> length b = before_count pre.
Proof.
  intros H. unfold before_count. destruct H as [|p t O|t O|p t' t O].
  - reflexivity.
  - rewrite rev_app_distr. cbn [rev app]. destruct (one_char_b t) eqn:E; [apply one_char_b_spec in E; contradiction|reflexivity].
  - cbn [rev app]. apply one_char_b_spec in O. rewrite O. reflexivity.
  - rewrite rev_app_distr. cbn [rev app]. apply one_char_b_spec in O. rewrite O. reflexivity.
Qed.

(* two token-aligned lints share a context although the property tells them apart IF AND ONLY IF they have the same
   report, the same flat list, and (tokens in front that enter the context, flagged tokens) differ — stated on the
   documents' own token vectors *)
Theorem aligned_collision_iff d1 l1 pre1 mid1 post1 c1 w1 d2 l2 pre2 mid2 post2 c2 w2 :
  aligned d1 l1 pre1 mid1 post1 -> aligned d2 l2 pre2 mid2 post2 ->
  context l1 d1 = Ok c1 -> context l2 d2 = Ok c2 -> nb_parts l1 d1 = Ok w1 -> nb_parts l2 d2 = Ok w2 ->
  (c1 = c2 /\ w1 <> w2) <->
  (same_report l1 l2 /\ flat_of w1 = flat_of w2 /\
   (before_count pre1, length mid1) <> (before_count pre2, length mid2)).
Proof.
  intros A1 A2 Ec1 Ec2 E1 E2.
  destruct (aligned_windows _ _ _ _ _ A1) as [B1 [M1 _]]. destruct (aligned_windows _ _ _ _ _ A2) as [B2 [M2 _]].
  assert (S1 : split_of w1 = (before_count pre1, length mid1)).
  { destruct w1 as [[b p] a]. destruct (nb_parts_lengths _ _ _ _ _ E1) as [Lb [Lp _]]. cbn [split_of].
    rewrite Lb, Lp, M1, (before_shape_length _ _ B1). reflexivity. }
  assert (S2 : split_of w2 = (before_count pre2, length mid2)).
  { destruct w2 as [[b p] a]. destruct (nb_parts_lengths _ _ _ _ _ E2) as [Lb [Lp _]]. cbn [split_of].
    rewrite Lb, Lp, M2, (before_shape_length _ _ B2). reflexivity. }
  rewrite <- S1, <- S2. exact (flat_collision_iff _ _ _ _ _ _ _ _ Ec1 Ec2 E1 E2).
Qed.

(* ---------------------------------------------------------------------------------------------- *)
(* non-vacuity: both escapes are real                                                               *)
(* ---------------------------------------------------------------------------------------------- *)
Definition fl_tok (a b : nat) (k : tkind) : token := mktok (mkspan a b) k.
Definition fl_lint (a b : nat) : ilint := mkilint (mkspan a b) 0%N [] [] 0%N.

(* `ab  cd  ab  cd` (two spaces each time: no one-character token anywhere).  The lint `ab  ` at the START of the text
   and the lint `  ` behind the second `ab` have the same flat list (ab, two spaces, cd), split 0+2+1 and 1+1+1 *)
Definition fl_edge_src : text := [97; 98; 32; 32; 99; 100; 32; 32; 97; 98; 32; 32; 99; 100]%N.
Definition fl_edge_toks : list token :=
  [fl_tok 0 2 (KWord None); fl_tok 2 4 (KSpace 2); fl_tok 4 6 (KWord None); fl_tok 6 8 (KSpace 2);
   fl_tok 8 10 (KWord None); fl_tok 10 12 (KSpace 2); fl_tok 12 14 (KWord None)].
Definition fl_edge_doc : doc := mkdoc fl_edge_src fl_edge_toks.

Example aligned_collision_edge_example :
  aligned fl_edge_doc (fl_lint 0 4) [] (firstn 2 fl_edge_toks) (skipn 2 fl_edge_toks) /\
  aligned fl_edge_doc (fl_lint 10 12) (firstn 5 fl_edge_toks) (firstn 1 (skipn 5 fl_edge_toks)) (skipn 6 fl_edge_toks) /\
  context (fl_lint 0 4) fl_edge_doc = context (fl_lint 10 12) fl_edge_doc /\
  is_ok (context (fl_lint 0 4) fl_edge_doc) = true /\
  nb_parts (fl_lint 0 4) fl_edge_doc <> nb_parts (fl_lint 10 12) fl_edge_doc /\
  Forall (fun t => ~ one_char t) fl_edge_toks.
Proof.
  split; [constructor; cbn; repeat split; try lia; try reflexivity; discriminate|].
  split; [constructor; cbn; repeat split; try lia; try reflexivity; discriminate|].
  split; [vm_compute; reflexivity|]. split; [vm_compute; reflexivity|].
  split; [vm_compute; discriminate|]. repeat constructor; unfold one_char; cbn; lia.
Qed.

(* `it's teh end`: the lints ` teh` and `teh ` lie inside the text; a one-character token (the space) stands at the
   border of both *)
Definition fl_one_src : text := [105; 116; 39; 115; 32; 116; 101; 104; 32; 101; 110; 100]%N.
Definition fl_one_toks : list token :=
  [fl_tok 0 4 (KWord None); fl_tok 4 5 (KSpace 1); fl_tok 5 8 (KWord None); fl_tok 8 9 (KSpace 1); fl_tok 9 12 (KWord None)].
Definition fl_one_doc : doc := mkdoc fl_one_src fl_one_toks.

Example aligned_collision_one_char_example :
  aligned fl_one_doc (fl_lint 4 8) (firstn 1 fl_one_toks) (firstn 2 (skipn 1 fl_one_toks)) (skipn 3 fl_one_toks) /\
  aligned fl_one_doc (fl_lint 5 9) (firstn 2 fl_one_toks) (firstn 2 (skipn 2 fl_one_toks)) (skipn 4 fl_one_toks) /\
  context (fl_lint 4 8) fl_one_doc = context (fl_lint 5 9) fl_one_doc /\
  is_ok (context (fl_lint 4 8) fl_one_doc) = true /\
  nb_parts (fl_lint 4 8) fl_one_doc <> nb_parts (fl_lint 5 9) fl_one_doc /\
  ~ at_edge (firstn 1 fl_one_toks) (skipn 3 fl_one_toks) /\ ~ at_edge (firstn 2 fl_one_toks) (skipn 4 fl_one_toks).
Proof.
  split; [constructor; cbn; repeat split; try lia; try reflexivity; discriminate|].
  split; [constructor; cbn; repeat split; try lia; try reflexivity; discriminate|].
  split; [vm_compute; reflexivity|]. split; [vm_compute; reflexivity|].
  split; [vm_compute; discriminate|]. split; intros [H|H]; discriminate H.
Qed.
