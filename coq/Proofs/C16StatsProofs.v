(* C16StatsProofs.v — the statistics of harper_wasm::Linter over the concrete Record (Model/C16Stats.v):
   the statistics file round trip WITHOUT a premise about serde (C19's record_value_roundtrip does the work; what is
   left is C19's float_rt and "the records are values of the Rust types whose Numbers are finite"), the whole API
   projected onto Model/Wasm.v, the time window of summarize_stats, the JsValue twins, the tables. *)
Require Import Base Overlap Suggestion LintJson Wasm JsonEscape Stats C16Api C19Record C16Stats.
Require Import ListLemmas WasmProofs StatsProofs C16ApiProofs C19RecordProofs Tables_wasmsurface.
From Coq Require Import List Arith ZArith NArith Lia.
Import ListNotations.

(* clocks in the Examples of Properties/C16.v (no Z numerals in scope there) *)
Definition zn (n : nat) : Z := Z.of_nat n.

(* C19Record's table of LintKind names is C16's (kind_name, the name print_wlint writes) and the generated enum *)
Lemma kind_table :
  (forall k, (kind_idx k < List.length lintkind_names)%nat /\ nth (kind_idx k) lintkind_names [] = jb (kind_name k))
  /\ map jb lint_kind_enum = lintkind_names
  /\ map kind_idx all_kinds = seq 0 (List.length lintkind_names).
Proof.
  split; [|split; vm_compute; reflexivity].
  intros k. destruct k; (split; [cbn; lia|vm_compute; reflexivity]).
Qed.

Section CStats.
  Variable F : Type.
  Variable finite : F -> Prop.
  Variable print_f64 : F -> bytes.
  Variable parse_f64 : bytes -> option F.
  Variable curated : Wasm.config.
  Variable word_id : text -> N.
  Variable raw_lints : text -> language -> Wasm.config -> dict -> nat -> list rlint.
  Variable ctx : rlint -> text -> language -> dict -> N.
  Variable title_case : text -> text.
  Variable likely_english : text -> dict -> bool.
  Variable isolate : text -> dict -> text.
  Variable descriptions : list (N * text).
  Variable fat_context : text -> language -> dict -> span -> list (fattoken F).

  Notation ser := (ser_record F finite print_f64 parse_f64).
  Notation de := (de_record F finite print_f64 parse_f64).
  Notation good := (good F finite print_f64 parse_f64).
  Notation cstep := (C16Stats.cstep F finite print_f64 parse_f64 curated word_id raw_lints ctx title_case likely_english isolate descriptions fat_context).
  Notation crun := (C16Stats.crun F finite print_f64 parse_f64 curated word_id raw_lints ctx title_case likely_english isolate descriptions fat_context).
  Notation xs := (C16Stats.xs curated word_id raw_lints ctx title_case likely_english isolate).
  Notation xrun0 := (C16Api.xrun curated word_id raw_lints ctx title_case likely_english isolate (fun _ => []) (fun _ => None)).
  Notation run := (Wasm.run curated word_id raw_lints ctx).
  Notation lint := (api_lint curated raw_lints ctx).
  Notation record_now := (C16Stats.record_now F fat_context).
  Notation window := (C16Stats.window F).
  Notation summary_of_records := (C16Stats.summary_of_records F).

  (* ---------- the linter of Model/Wasm.v under the whole API ---------- *)
  Lemma cstep_base env st log c :
    fst (fst (cstep env (st, log) c)) = match yproj c with Some x => fst (xs st x) | None => st end.
  Proof.
    destruct c as [[b|t|t|t| | |f]|a b| | | |c'|]; cbn [C16Stats.cstep yproj]; try reflexivity;
      try (destruct (xs st _) as [st' o]; reflexivity).
    - destruct b; cbn [C16Stats.cstep yproj]; destruct (xs st _) as [st' o]; reflexivity.
    - destruct (read (record F) de f); reflexivity.
  Qed.

  (* what a call appends to the records: apply_suggestion one record of the lint's kind stamped with the clock and
     the uuid of the call, import_stats_file the records it read, everything else nothing *)
  Definition log_delta (env : Z * text) (st : state) (c : ycall) : list (record F) :=
    match c with
    | YX (XBase (CApply t l s)) => [record_now t l (s_lint_dict st) env]
    | YX (XImportStats f) => match read (record F) de f with Some rs => rs | None => [] end
    | _ => []
    end.
  Lemma cstep_log env st log c : snd (fst (cstep env (st, log) c)) = log ++ log_delta env st c.
  Proof.
    destruct c as [[b|t|t|t| | |f]|a b| | | |c'|]; cbn [C16Stats.cstep log_delta]; try (rewrite app_nil_r; reflexivity);
      try (destruct (xs st _) as [st' o]; cbn [fst snd]; rewrite app_nil_r; reflexivity).
    - destruct b; cbn [C16Stats.cstep log_delta]; destruct (xs st _) as [st' o]; cbn [fst snd];
        try (rewrite app_nil_r; reflexivity); reflexivity.
    - destruct (read (record F) de f); cbn [fst snd]; [reflexivity|rewrite app_nil_r; reflexivity].
  Qed.

  Lemma crun_base h : forall st log,
    fst (fst (crun (st, log) h)) = fst (xrun0 st (yproj_calls h)).
  Proof.
    induction h as [|[env c] h IH]; intros st log; [reflexivity|].
    cbn [C16Stats.crun yproj_calls].
    pose proof (cstep_base env st log c) as B.
    destruct (cstep env (st, log) c) as [[st1 log1] o] eqn:E. cbn [fst] in B.
    specialize (IH st1 log1). destruct (crun (st1, log1) h) as [cs2 os] eqn:E2. cbn [fst] in IH |- *.
    destruct (yproj c) as [x|].
    - cbn [C16Api.xrun]. unfold C16Stats.xs in B. destruct (xstep _ _ _ _ _ _ _ _ _ st x) as [st1' o'].
      cbn [fst] in B. subst st1'. destruct (xrun0 st1 (yproj_calls h)) as [st2 os']. exact IH.
    - subst st1. exact IH.
  Qed.

  (* a history over EVERY export of harper-wasm, with any clock and any uuids: the linter ends as after the history
     of its Model/Wasm.v calls but for the statistics — lints every text alike, exports the same words.  So every
     theorem about `run` covers histories in which summarize_stats, the JsValue functions, the statistics file and
     the rule descriptions are interleaved. *)
  Theorem crun_lints_as_run h st log :
    let a := fst (fst (crun (st, log) h)) in
    let b := fst (run st (base_calls (yproj_calls h))) in
    same_but_stats a b /\ (forall t lang, lint a t lang = lint b t lang) /\ export_words a = export_words b.
  Proof.
    cbv zeta. rewrite crun_base.
    exact (xrun_lints_as_run curated word_id raw_lints ctx title_case likely_english isolate (fun _ => []) (fun _ => None)
             (yproj_calls h) st).
  Qed.

  (* the JsValue exports: each does to the linter and answers what its twin does (the body of each is pinned by
     Tables_wasmsurface, C16_api_bodies) *)
  Theorem cstep_twin env cs c c' : twin c = Some c' -> cstep env cs c = cstep env cs c'.
  Proof.
    destruct cs as [st log].
    destruct c as [x|a b| | | |k|]; cbn [twin]; intros E; inversion E; subst; reflexivity.
  Qed.

  (* read-only exports leave linter and records alone *)
  Theorem cstep_frame env cs c :
    match c with
    | YSummarize _ _ | YGetDescriptions | YGetDescriptionsObject | YGetConfigObject | YGetDefaultConfigObject
    | YX XGenerateStats => fst (cstep env cs c) = cs
    | _ => True
    end.
  Proof.
    destruct cs as [st log]. destruct c as [[b|t|t|t| | |f]|a b| | | |k|]; try exact I; reflexivity.
  Qed.

  (* ---------- summarize_stats ---------- *)
  Definition in_window (a b : option Z) (r : record F) : bool :=
    (match a with Some a => (a <? when_of F r)%Z | None => true end) &&
    (match b with Some b => (when_of F r <? b)%Z | None => true end).
  Lemma filter_filter {A} (p q : A -> bool) l : filter q (filter p l) = filter (fun x => p x && q x) l.
  Proof.
    induction l as [|x l IH]; [reflexivity|]. cbn [filter]. destruct (p x); cbn [filter andb]; [|exact IH].
    destruct (q x); [rewrite IH|]; reflexivity || exact IH.
  Qed.
  Lemma filter_true {A} (l : list A) : filter (fun _ => true) l = l.
  Proof. induction l as [|x l IH]; [reflexivity|]. cbn [filter]. rewrite IH. reflexivity. Qed.
  Lemma window_filter a b rs : window a b rs = filter (in_window a b) rs.
  Proof.
    unfold C16Stats.window, in_window. destruct a as [a|], b as [b|].
    - apply filter_filter.
    - erewrite filter_ext; [reflexivity|]. intros r. cbn. now rewrite andb_true_r.
    - reflexivity.
    - symmetry. apply filter_true.
  Qed.

  (* the two retain passes keep exactly the records strictly inside (start, end), in order; the summary counts each
     of them once under its kind (C19's summary_counts); without bounds it is the summary of all records *)
  Theorem summarize_stats_window env st log a b :
    exists s, cstep env (st, log) (YSummarize a b) = ((st, log), YSummary s)
      /\ s = summary_of_records (filter (in_window a b) log)
      /\ (forall k, get_count nat Nat.eqb C19Record.config s k
                    = count_occ Nat.eq_dec (lint_kinds F (filter (in_window a b) log)) k)
      /\ total_applied _ _ s = List.length (lint_kinds F (filter (in_window a b) log))
      /\ (a = None -> b = None -> s = summary_of_records log).
  Proof.
    exists (summary_of_records (window a b log)). split; [reflexivity|]. rewrite window_filter.
    split; [reflexivity|]. split; [|split].
    - intros k. exact (proj1 (summary_counts F (filter (in_window a b) log) k)).
    - exact (proj1 (proj2 (summary_counts F (filter (in_window a b) log) 0%nat))).
    - intros -> ->. unfold in_window. cbn [andb]. now rewrite filter_true.
  Qed.

  (* the record apply_suggestion pushes is counted under the kind of the lint *)
  Lemma record_now_kind t l d env :
    lint_kinds F [record_now t l d env] = [kind_idx (LintJson.rkind (winner l))].
  Proof. reflexivity. Qed.

  (* ---------- the statistics file ---------- *)
  Hypothesis Hf : float_rt F finite print_f64 parse_f64.

  (* generate_stats_file of a linter whose records are Rust values with finite Numbers, imported into ANY linter:
     accepted, appends exactly those records in order and nothing else; the importing linter then writes its own
     file followed by the imported one (a linter without records: the same file) *)
  Theorem stats_file_roundtrip_concrete env st log :
    Forall good log ->
    exists f, cstep env (st, log) (YX XGenerateStats) = ((st, log), YFileOut f)
      /\ forall env' st' log',
           cstep env' (st', log') (YX (XImportStats f)) = ((st', log' ++ log), YOut (XOut OUnit))
           /\ (exists f', cstep env' (st', log') (YX XGenerateStats) = ((st', log'), YFileOut f')
                          /\ snd (cstep env' (st', log' ++ log) (YX XGenerateStats)) = YFileOut (f' ++ f))
           /\ (log' = [] -> snd (cstep env' (st', log' ++ log) (YX XGenerateStats)) = YFileOut f).
  Proof.
    intros G. exists (write (record F) ser log). split; [reflexivity|]. intros env' st' log'.
    split; [|split].
    - cbn [C16Stats.cstep]. rewrite (record_log_roundtrip F finite print_f64 parse_f64 Hf log G). reflexivity.
    - exists (write (record F) ser log'). split; [reflexivity|]. cbn [C16Stats.cstep snd]. unfold write.
      rewrite flat_map_app. reflexivity.
    - intros ->. reflexivity.
  Qed.

  (* the records stay Rust values with finite Numbers along a history in which every apply_suggestion pushes such a
     record (tokens of the document, an i64 clock, a uuid) and every file that import_stats_file accepts holds such
     records; a file some linter generated from such records is one (own_file_good) *)
  Definition call_good (env : Z * text) (st : state) (c : ycall) : Prop :=
    match c with
    | YX (XBase (CApply t l s)) => good (record_now t l (s_lint_dict st) env)
    | YX (XImportStats f) => forall rs, read (record F) de f = Some rs -> Forall good rs
    | _ => True
    end.
  Fixpoint hist_good (cs : cstate F) (h : list ((Z * text) * ycall)) : Prop :=
    match h with
    | [] => True
    | (env, c) :: r => call_good env (fst cs) c /\ hist_good (fst (cstep env cs c)) r
    end.
  Lemma delta_good env st c : call_good env st c -> Forall good (log_delta env st c).
  Proof.
    destruct c as [[b|t|t|t| | |f]|a b| | | |k|]; cbn [call_good log_delta]; try (intros _; apply Forall_nil).
    - destruct b; try (intros _; apply Forall_nil). intros H. constructor; [exact H|constructor].
    - intros H. destruct (read (record F) de f) as [rs|]; [apply H; reflexivity|constructor].
  Qed.
  Theorem crun_log_good h : forall cs, Forall good (snd cs) -> hist_good cs h -> Forall good (snd (fst (crun cs h))).
  Proof.
    induction h as [|[env c] h IH]; intros [st log] G H; [exact G|].
    cbn [hist_good fst] in H. destruct H as [Hc Hr]. cbn [C16Stats.crun].
    pose proof (cstep_log env st log c) as L.
    destruct (cstep env (st, log) c) as [cs1 o] eqn:E. cbn [fst] in L, Hr.
    assert (Forall good (snd cs1)) as G1.
    { rewrite L. apply Forall_app. split; [exact G|apply delta_good, Hc]. }
    specialize (IH cs1 G1 Hr). destruct (crun cs1 h) as [cs2 os]. exact IH.
  Qed.
  Lemma own_file_good rs0 : Forall good rs0 -> call_good (0%Z, []) (new curated 0) (YX (XImportStats (write (record F) ser rs0))).
  Proof.
    intros G rs E. cbn in E. rewrite (record_log_roundtrip F finite print_f64 parse_f64 Hf rs0 G) in E.
    inversion E; subst. exact G.
  Qed.

  (* what makes the record of an apply_suggestion good: the fat tokens are Rust values with finite Numbers, the clock
     is an i64, the uuid its hyphenated form — the kind index is in range by kind_table *)
  Lemma record_now_good t l d env :
    Forall (fattoken_wf F (fun _ => True) print_f64 parse_f64) (fat_context t (wlang l) d (rspan (winner l))) ->
    Forall finite (flat_map (tk_numbers F) (fat_context t (wlang l) d (rspan (winner l)))) ->
    i64_okb (fst env) = true -> Forall scalar (snd env) -> uuid_textb (snd env) = true ->
    good (record_now t l d env).
  Proof.
    intros Hc Hn Hw Hs Hu. split; [|exact Hn].
    unfold rust_value, record_ok, C16Stats.record_now. cbn [fst snd recordkind_wf].
    split; [split; [apply (proj1 kind_table)|exact Hc]|]. split; [exact Hw|]. split; [exact Hs|exact Hu].
  Qed.
End CStats.
