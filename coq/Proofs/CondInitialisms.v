(* CondInitialisms.v — Document::condense_dotted_initialisms (Condense.condense_dotted_initialisms / di_loop)
   on a tiling: never panics, and the result is a grouping of the input where every run of TWO OR MORE
   (one-letter word, period) pairs has become one Word token and every other token is kept (G_initialism).

   Shape of the proof: the token vector is always  pre ++ S  where `pre` is the already processed part (it is
   never read again; only the run-start token inside it may still be rewritten) and S is what the loop has not
   looked at.  Two mutually dependent claims by strong induction on the number of unprocessed tokens:
     NClaim (start = None)            and
     RClaim (start = Some (length pre), inside a run `run` of pairs, InitPairs run). *)
Require Import Base Overlap OverlapProofs Tables_lexer Lexer Condense ListLemmas TokenInv CondenseInv LexerProofs.
From Coq Require Import Lia.

(* ---------- list helpers ---------- *)
Lemma nth_error_mid {A} (pre : list A) x r : nth_error (pre ++ x :: r) (length pre) = Some x.
Proof. rewrite nth_error_app2 by lia. rewrite Nat.sub_diag. reflexivity. Qed.

Lemma nth_error_off {A} (pre l : list A) k : nth_error (pre ++ l) (length pre + k) = nth_error l k.
Proof. rewrite nth_error_app2 by lia. f_equal. lia. Qed.

Lemma nth_error_off2 {A} (pre run l : list A) k :
  nth_error (pre ++ run ++ l) (length pre + length run + k) = nth_error l k.
Proof. rewrite app_assoc, <- app_length. apply nth_error_off. Qed.

Lemma set_nth_mid {A} (pre : list A) x y r : set_nth (pre ++ x :: r) (length pre) y = Ok (pre ++ y :: r).
Proof. induction pre as [|h t IH]; cbn [app length set_nth]; [reflexivity|]. rewrite IH. reflexivity. Qed.

Lemma last_nth {A} (l : list A) d : l <> [] -> nth_error l (length l - 1) = Some (last l d).
Proof.
  induction l as [|x l IH]; intros Hne; [contradiction|].
  destruct l as [|y l']; [reflexivity|].
  cbn [length] in *. replace (S (S (length l')) - 1) with (S (S (length l') - 1)) by lia.
  cbn [nth_error]. rewrite IH by discriminate. reflexivity.
Qed.

Lemma rev_seq_head a k : rev (seq a (S k)) = (a + k) :: rev (seq a k).
Proof. rewrite seq_S, rev_app_distr. reflexivity. Qed.

Lemma app3_assoc {A} (pre U0 : list A) t X : (pre ++ U0 ++ [t]) ++ X = pre ++ U0 ++ t :: X.
Proof. rewrite <- !app_assoc. reflexivity. Qed.

(* ---------- queues ---------- *)
Lemma queue_in_both lo lo' hi hi' q : lo' <= lo -> hi <= hi' -> QueueIn lo hi q -> QueueIn lo' hi' q.
Proof.
  intros Hl Hh H. revert lo' Hl. induction H as [lo hi|lo hi r q Hlo Hhi Hq IH]; intros lo' Hl; constructor; try lia.
  apply IH; lia.
Qed.

Lemma queue_in_In lo hi q r : QueueIn lo hi q -> In r q -> lo <= r.
Proof.
  intros H. induction H as [lo hi|lo hi r0 q Hlo Hhi Hq IH]; intros Hin; [destruct Hin|].
  destruct Hin as [<-|Hin]; [lia|]. specialize (IH Hin). lia.
Qed.

Lemma queue_in_app lo mid hi q0 q1 :
  lo <= mid -> mid <= hi -> QueueIn lo mid q0 -> QueueIn mid hi q1 -> QueueIn lo hi (q0 ++ q1).
Proof.
  intros Hlm Hmh H0 H1. induction H0 as [lo mid|lo mid r q Hlo Hhi Hq IH]; cbn [app].
  - eapply queue_in_weaken; [exact Hlm|exact H1].
  - constructor; [lia|lia|]. apply IH; [lia|lia|exact H1].
Qed.

Lemma queue_in_seq : forall n a, QueueIn a (a + n) (seq a n).
Proof.
  induction n as [|n IH]; intros a; cbn [seq]; constructor; [lia|lia|].
  replace (a + S n) with (S a + n) by lia. apply IH.
Qed.

Lemma remove_indices_skip {A} lo hi q i (x : A) xs :
  QueueIn lo hi q -> i < lo -> remove_indices i q (x :: xs) = x :: remove_indices (S i) q xs.
Proof.
  intros HQ Hi. destruct HQ as [lo hi|lo hi r q Hlo Hhi Hq]; cbn [remove_indices]; [reflexivity|].
  replace (i =? r) with false by (symmetry; apply Nat.eqb_neq; lia). reflexivity.
Qed.

Lemma remove_indices_seq {A} : forall (l : list A) i, remove_indices i (seq i (length l)) l = [].
Proof.
  induction l as [|x l IH]; intros i; cbn [length seq remove_indices]; [reflexivity|].
  rewrite Nat.eqb_refl. apply IH.
Qed.

(* ---------- groups ---------- *)
Lemma G_init_single t : G_initialism [t] (tkind_of t).
Proof. left. exists t. split; reflexivity. Qed.

Lemma grouped_single_cons t ts ts' :
  Grouped G_initialism ts ts' -> Grouped G_initialism (t :: ts) (t :: ts').
Proof.
  intros H.
  pose proof (Grouped_cons G_initialism [t] (tkind_of t) ts ts' ltac:(discriminate) (G_init_single t) H) as H1.
  rewrite group_token_single in H1. exact H1.
Qed.

Lemma initpairs_len r : InitPairs r -> 2 <= length r.
Proof. induction 1; cbn [length]; lia. Qed.

Lemma initpairs_snoc run w p :
  InitPairs run -> is_word (tkind_of w) = true -> tlen w = 1 -> is_period (tkind_of p) = true ->
  InitPairs (run ++ [w; p]).
Proof.
  intros H Hw Hl Hp. induction H as [w0 p0 Hw0 Hl0 Hp0|w0 p0 r Hw0 Hl0 Hp0 Hr IH]; cbn [app].
  - apply IP_more; auto. apply IP_last; auto.
  - apply IP_more; auto.
Qed.

(* ---------- the loop, one step at a time ---------- *)
Definition twf (t : token) : Prop := tstart t <= tend t.
Definition chunkb (a b : token) : bool := is_word (tkind_of a) && (tlen a =? 1) && is_period (tkind_of b).

Lemma chunk_eval a b : twf a ->
  (if is_word (tkind_of a) then do l <- span_len (tspan a); Ok ((l =? 1) && is_period (tkind_of b)) else Ok false)
  = Ok (chunkb a b).
Proof.
  intros Hwf. unfold chunkb, tlen. destruct (is_word (tkind_of a)); [|reflexivity].
  unfold span_len, sub_chk. unfold twf, tstart, tend in *.
  replace (send (tspan a) <? sstart (tspan a)) with false by (symmetry; apply Nat.ltb_ge; lia).
  reflexivity.
Qed.

(* the closing step (in the loop with e = cursor - 2, after the loop with e = to_remove.back()) *)
Definition di_closing (toks : list token) (s e : nat) (qrev : list nat) : res (list token * list nat) :=
  if e =? s + 1 then Ok (toks, tl qrev)
  else
    do et <- nth_chk toks e;
    do st <- nth_chk toks s;
    do toks1 <- set_nth toks s (with_end st (tend et));
    Ok (toks1, qrev).

Definition di_close (toks1 : list token) (start : option nat) (qrev : list nat) : res (list token * list nat) :=
  match start, qrev with
  | Some s, last :: _ => di_closing toks1 s last qrev
  | _, _ => Ok (toks1, qrev)
  end.

(* everything that happens after entering the loop at `cursor` *)
Definition di_final (fuel : nat) (toks : list token) (cursor : nat) (start : option nat) (qrev : list nat)
  : res (list token * list nat) :=
  do '(t1, st, qr) <- di_loop fuel toks cursor start qrev;
  di_close t1 st qr.

Lemma cdi_unfold toks :
  condense_dotted_initialisms toks =
  if length toks <? 2 then Ok toks else
  do '(toks2, qrev2) <- di_final (length toks) toks 1 None [];
  Ok (remove_indices 0 (rev qrev2) toks2).
Proof.
  unfold condense_dotted_initialisms, di_final. destruct (length toks <? 2); [reflexivity|].
  destruct (di_loop (length toks) toks 1 None []) as [[[t1 st] qr]|w]; cbn [bind]; [|reflexivity].
  unfold di_close, di_closing. destruct st as [s|]; [|reflexivity]. destruct qr as [|l qr']; reflexivity.
Qed.

Lemma di_loop_step f toks c st q a b :
  1 <= c -> c < length toks -> nth_error toks (c - 1) = Some a -> nth_error toks c = Some b -> twf a ->
  di_loop (S f) toks c st q =
  if chunkb a b then
    di_loop f toks (c + 1 + 1) (match st with None => Some (c - 1) | Some _ => st end)
            (c :: match st with None => q | Some _ => (c - 1) :: q end)
  else
    do '(toks', q') <- match st with
                       | Some s => do c2 <- sub_chk c 2; di_closing toks s c2 q
                       | None => Ok (toks, q)
                       end;
    di_loop f toks' (c + 1) None q'.
Proof.
  intros Hc1 Hc Ha Hb Hwf.
  assert (sub_chk c 1 = Ok (c - 1)) as E1.
  { unfold sub_chk. replace (c <? 1) with false by (symmetry; apply Nat.ltb_ge; lia). reflexivity. }
  cbn [di_loop]. replace (length toks <=? c) with false by (symmetry; apply Nat.leb_gt; lia).
  rewrite E1. cbn [bind]. unfold nth_chk at 1 2. rewrite Ha, Hb. cbn [bind].
  rewrite (chunk_eval a b Hwf). cbn [bind].
  unfold di_closing. destruct (chunkb a b); destruct st as [s|]; reflexivity.
Qed.

Lemma di_final_step f toks c st q a b :
  1 <= c -> c < length toks -> nth_error toks (c - 1) = Some a -> nth_error toks c = Some b -> twf a ->
  di_final (S f) toks c st q =
  if chunkb a b then
    di_final f toks (c + 1 + 1) (match st with None => Some (c - 1) | Some _ => st end)
            (c :: match st with None => q | Some _ => (c - 1) :: q end)
  else
    do '(toks', q') <- match st with
                       | Some s => do c2 <- sub_chk c 2; di_closing toks s c2 q
                       | None => Ok (toks, q)
                       end;
    di_final f toks' (c + 1) None q'.
Proof.
  intros Hc1 Hc Ha Hb Hwf. unfold di_final. rewrite (di_loop_step f toks c st q a b) by assumption.
  destruct (chunkb a b); [reflexivity|].
  destruct st as [s|]; [|reflexivity].
  destruct (sub_chk c 2) as [c2|w]; cbn [bind]; [|reflexivity].
  destruct (di_closing toks s c2 q) as [[t' q']|w]; reflexivity.
Qed.

Lemma di_final_exit f toks c st q : length toks <= c -> di_final (S f) toks c st q = di_close toks st q.
Proof.
  intros H. unfold di_final. cbn [di_loop].
  replace (length toks <=? c) with true by (symmetry; apply Nat.leb_le; lia). reflexivity.
Qed.

Lemma di_close_run toks s L q :
  2 <= L ->
  di_close toks (Some s) (rev (seq (s + 1) (L - 1)) ++ q) =
  di_closing toks s (s + L - 1) (rev (seq (s + 1) (L - 1)) ++ q).
Proof.
  intros HL. destruct L as [|[|k]]; try lia.
  replace (S (S k) - 1) with (S k) by lia. rewrite rev_seq_head. cbn [app di_close].
  replace (s + S (S k) - 1) with (s + 1 + k) by lia. reflexivity.
Qed.

(* the closing step on a complete run *)
Lemma close_run pre run rest q :
  InitPairs run ->
  exists U0 Q0,
    di_closing (pre ++ run ++ rest) (length pre) (length pre + length run - 1)
               (rev (seq (length pre + 1) (length run - 1)) ++ q) = Ok (pre ++ U0 ++ rest, rev Q0 ++ q) /\
    length U0 = length run /\
    QueueIn (length pre) (length pre + length run) Q0 /\
    Grouped G_initialism run (remove_indices (length pre) Q0 U0).
Proof.
  intros HIP. inversion HIP as [w p Hw Hl Hp Erun|w p r Hw Hl Hp Hr Erun]; subst run.
  - (* a lone pair: pop_back *)
    exists [w; p], []. unfold di_closing. cbn [length].
    replace (length pre + 2 - 1 =? length pre + 1) with true by (symmetry; apply Nat.eqb_eq; lia).
    split; [reflexivity|]. split; [reflexivity|]. split; [constructor|].
    rewrite remove_indices_nil. apply grouped_refl. exact G_init_single.
  - (* two or more pairs *)
    pose proof (initpairs_len r Hr) as Hr2.
    set (run0 := w :: p :: r) in *.
    set (pe := last run0 dummy_tok).
    assert (nth_error (pre ++ run0 ++ rest) (length pre + length run0 - 1) = Some pe) as Hlast.
    { replace (length pre + length run0 - 1) with (length pre + (length run0 - 1))
        by (unfold run0; cbn [length]; lia).
      rewrite nth_error_off. rewrite nth_error_app1 by (unfold run0; cbn [length]; lia).
      apply last_nth. unfold run0. discriminate. }
    exists (with_end w (tend pe) :: p :: r), (seq (length pre + 1) (length run0 - 1)).
    split; [|split; [|split]].
    + unfold di_closing.
      replace (length pre + length run0 - 1 =? length pre + 1) with false
        by (symmetry; apply Nat.eqb_neq; unfold run0; cbn [length]; lia).
      unfold nth_chk. rewrite Hlast. cbn [bind].
      unfold run0 at 1 2. cbn [app]. rewrite nth_error_mid. cbn [bind].
      rewrite set_nth_mid. cbn [bind]. reflexivity.
    + reflexivity.
    + eapply queue_in_both; [| |apply queue_in_seq]; unfold run0; cbn [length]; lia.
    + rewrite (remove_indices_skip (length pre + 1) (length pre + 1 + (length run0 - 1)))
        by (try apply queue_in_seq; lia).
      replace (length run0 - 1) with (length (p :: r)) by (unfold run0; cbn [length]; lia).
      replace (length pre + 1) with (S (length pre)) by lia.
      rewrite remove_indices_seq.
      assert (with_end w (tend pe) = group_token run0 KWord) as ->.
      { unfold with_end, group_token, group_end. fold dummy_tok. fold pe. unfold run0 at 1. cbn [group_start].
        destruct (tkind_of w); try discriminate. reflexivity. }
      rewrite <- (app_nil_r run0) at 1. constructor.
      * unfold run0. discriminate.
      * right. split; [exact HIP|]. split; [unfold run0; cbn [length]; lia|reflexivity].
      * constructor.
Qed.

(* gluing a finished segment in front of the rest *)
Lemma glue_grouped s hi U0 Q0 run U1 Q1 rest1 :
  length U0 = length run ->
  QueueIn s (s + length run) Q0 ->
  QueueIn (s + length run) hi Q1 ->
  Grouped G_initialism run (remove_indices s Q0 U0) ->
  Grouped G_initialism rest1 (remove_indices (s + length run) Q1 U1) ->
  Grouped G_initialism (run ++ rest1) (remove_indices s (Q0 ++ Q1) (U0 ++ U1)).
Proof.
  intros HL HQ0 HQ1 HG0 HG1. rewrite remove_indices_app.
  - rewrite HL. apply grouped_app; assumption.
  - rewrite HL. exact HQ0.
  - intros r Hin. rewrite HL. eapply queue_in_In; eassumption.
Qed.

(* ---------- the two claims ---------- *)
Definition NClaim (ss : list token) : Prop :=
  forall pre q fuel, Forall twf ss -> 1 <= fuel -> length ss <= fuel ->
  exists U Q,
    di_final fuel (pre ++ ss) (length pre + 1) None q = Ok (pre ++ U, rev Q ++ q) /\
    length U = length ss /\
    QueueIn (length pre) (length pre + length ss) Q /\
    Grouped G_initialism ss (remove_indices (length pre) Q U).

Definition RClaim (rest : list token) : Prop :=
  forall pre run q fuel, InitPairs run -> Forall twf rest -> 1 <= fuel -> length rest <= fuel ->
  exists U Q,
    di_final fuel (pre ++ run ++ rest) (length pre + length run + 1) (Some (length pre))
             (rev (seq (length pre + 1) (length run - 1)) ++ q) = Ok (pre ++ U, rev Q ++ q) /\
    length U = length run + length rest /\
    QueueIn (length pre) (length pre + (length run + length rest)) Q /\
    Grouped G_initialism (run ++ rest) (remove_indices (length pre) Q U).

Lemma chunkb_true a b :
  chunkb a b = true -> is_word (tkind_of a) = true /\ tlen a = 1 /\ is_period (tkind_of b) = true.
Proof.
  unfold chunkb. intros H. apply andb_true_iff in H as [H Hp]. apply andb_true_iff in H as [Hw Hl].
  apply Nat.eqb_eq in Hl. auto.
Qed.

Lemma N_step n :
  (forall ss, length ss < n -> NClaim ss) -> (forall rest, length rest < n -> RClaim rest) ->
  forall ss, length ss < S n -> NClaim ss.
Proof.
  intros IHN IHR ss Hlen pre q fuel Hwf Hf1 Hfl.
  destruct fuel as [|f]; [lia|].
  destruct ss as [|w [|p r]].
  - exists [], []. rewrite di_final_exit by (rewrite app_length; cbn [length]; lia).
    split; [reflexivity|]. split; [reflexivity|]. split; constructor.
  - exists [w], []. rewrite di_final_exit by (rewrite app_length; cbn [length]; lia).
    split; [reflexivity|]. split; [reflexivity|]. split; [constructor|].
    rewrite remove_indices_nil. apply grouped_refl. exact G_init_single.
  - cbn [length] in Hlen, Hfl.
    assert (twf w) as Hww by (inversion Hwf; assumption).
    assert (Forall twf (p :: r)) as Hwpr by (inversion Hwf; assumption).
    assert (Forall twf r) as Hwr by (inversion Hwpr; assumption).
    rewrite (di_final_step f _ _ _ _ w p);
      [ | lia | rewrite app_length; cbn [length]; lia
        | replace (length pre + 1 - 1) with (length pre) by lia; apply nth_error_mid
        | rewrite nth_error_off; reflexivity | exact Hww ].
    destruct (chunkb w p) eqn:Hch.
    + (* a run starts *)
      destruct (chunkb_true _ _ Hch) as [Hw [Hl Hp]].
      destruct (IHR r ltac:(lia) pre [w; p] q f (IP_last w p Hw Hl Hp) Hwr ltac:(lia) ltac:(lia))
        as (U & Q & HE & HL & HQ & HG).
      exists U, Q. split; [|split; [|split]].
      * replace (length pre + 1 + 1 + 1) with (length pre + length [w; p] + 1) by (cbn [length]; lia).
        replace (length pre + 1 - 1) with (length pre) by lia. exact HE.
      * exact HL.
      * exact HQ.
      * exact HG.
    + (* the token w stays single *)
      cbn [bind].
      destruct (IHN (p :: r) ltac:(cbn [length]; lia) (pre ++ [w]) q f Hwpr ltac:(lia) ltac:(cbn [length]; lia))
        as (U' & Q' & HE & HL & HQ & HG).
      rewrite <- !app_assoc in HE. cbn [app] in HE. rewrite app_length in HE, HQ, HG. cbn [length] in HE, HL, HQ, HG.
      exists (w :: U'), Q'. split; [exact HE|]. split; [cbn [length]; lia|]. split.
      * eapply queue_in_both; [| |exact HQ]; cbn [length]; lia.
      * rewrite (remove_indices_skip _ _ _ _ _ _ HQ) by lia.
        apply grouped_single_cons. replace (S (length pre)) with (length pre + 1) by lia. exact HG.
Qed.

Lemma R_step n :
  (forall ss, length ss < n -> NClaim ss) -> (forall rest, length rest < n -> RClaim rest) ->
  forall rest, length rest < S n -> RClaim rest.
Proof.
  intros IHN IHR rest Hlen pre run q fuel HIP Hwf Hf1 Hfl.
  pose proof (initpairs_len _ HIP) as HL2.
  destruct fuel as [|f]; [lia|].
  assert (length rest <= 1 \/ exists t0 t1 rest', rest = t0 :: t1 :: rest') as [Hshort|(t0 & t1 & rest' & ->)].
  { destruct rest as [|t0 [|t1 rest']]; cbn [length]; [left; lia|left; lia|right; eauto]. }
  - (* the loop ends inside the run (at most one token follows it) *)
    rewrite di_final_exit by (rewrite !app_length; lia).
    rewrite di_close_run by exact HL2.
    destruct (close_run pre run rest q HIP) as (U0 & Q0 & HC & HL0 & HQ0 & HG0).
    rewrite HC. exists (U0 ++ rest), Q0. split; [reflexivity|]. split; [rewrite app_length; lia|]. split.
    + eapply queue_in_both; [| |exact HQ0]; lia.
    + rewrite <- (app_nil_r Q0).
      eapply (glue_grouped _ (length pre + length run)); try eassumption; [constructor|].
      rewrite remove_indices_nil. apply grouped_refl. exact G_init_single.
  - cbn [length] in Hlen, Hfl.
    assert (twf t0) as Hw0 by (inversion Hwf; assumption).
    assert (Forall twf (t1 :: rest')) as Hw1 by (inversion Hwf; assumption).
    assert (Forall twf rest') as Hwr by (inversion Hw1; assumption).
    rewrite (di_final_step f _ _ _ _ t0 t1);
      [ | lia | rewrite !app_length; cbn [length]; lia
        | replace (length pre + length run + 1 - 1) with (length pre + length run + 0) by lia;
          rewrite nth_error_off2; reflexivity
        | rewrite nth_error_off2; reflexivity | exact Hw0 ].
    destruct (chunkb t0 t1) eqn:Hch.
    + (* the run goes on *)
      destruct (chunkb_true _ _ Hch) as [Hw [Hl Hp]].
      destruct (IHR rest' ltac:(lia) pre (run ++ [t0; t1]) q f (initpairs_snoc _ _ _ HIP Hw Hl Hp) Hwr
                    ltac:(lia) ltac:(lia)) as (U & Q & HE & HL & HQ & HG).
      rewrite <- app_assoc in HE, HG. cbn [app] in HE, HG.
      rewrite app_length in HE, HL, HQ. cbn [length] in HE, HL, HQ.
      exists U, Q. split; [|split; [|split]].
      * replace (length pre + length run + 1 + 1 + 1) with (length pre + (length run + 2) + 1) by lia.
        replace (length run + 2 - 1) with (S (S (length run - 1))) in HE by lia.
        rewrite !rev_seq_head in HE. cbn [app] in HE.
        replace (length pre + 1 + S (length run - 1)) with (length pre + length run + 1) in HE by lia.
        replace (length pre + 1 + (length run - 1)) with (length pre + length run + 1 - 1) in HE by lia.
        exact HE.
      * cbn [length]. lia.
      * eapply queue_in_both; [| |exact HQ]; cbn [length]; lia.
      * exact HG.
    + (* the run is closed; t0 stays single; the scan resumes at t1 *)
      assert (sub_chk (length pre + length run + 1) 2 = Ok (length pre + length run - 1)) as E2.
      { unfold sub_chk. replace (length pre + length run + 1 <? 2) with false by (symmetry; apply Nat.ltb_ge; lia).
        f_equal. lia. }
      rewrite E2. cbn [bind].
      destruct (close_run pre run (t0 :: t1 :: rest') q HIP) as (U0 & Q0 & HC & HL0 & HQ0 & HG0).
      rewrite HC. cbn [bind].
      destruct (IHN (t1 :: rest') ltac:(cbn [length]; lia) (pre ++ U0 ++ [t0]) (rev Q0 ++ q) f Hw1
                    ltac:(lia) ltac:(cbn [length]; lia)) as (U' & Q' & HE & HL & HQ & HG).
      rewrite !app3_assoc in HE. rewrite !app_length in HE, HQ, HG. cbn [length] in HE, HL, HQ, HG.
      rewrite HL0 in HE, HQ, HG.
      exists (U0 ++ t0 :: U'), (Q0 ++ Q'). split; [|split; [|split]].
      * replace (length pre + length run + 1 + 1) with (length pre + (length run + 1) + 1) by lia.
        rewrite HE. rewrite rev_app_distr, <- app_assoc. reflexivity.
      * rewrite app_length. cbn [length]. lia.
      * eapply (queue_in_app _ (length pre + length run)); [lia|cbn [length]; lia|exact HQ0|].
        eapply queue_in_both; [| |exact HQ]; cbn [length]; lia.
      * eapply (glue_grouped _ (length pre + (length run + 1) + S (length rest'))); try eassumption.
        -- eapply queue_in_both; [| |exact HQ]; lia.
        -- rewrite (remove_indices_skip _ _ _ _ _ _ HQ) by lia.
           apply grouped_single_cons.
           replace (S (length pre + length run)) with (length pre + (length run + 1)) by lia. exact HG.
Qed.

Lemma di_claims : forall n,
  (forall ss, length ss < n -> NClaim ss) /\ (forall rest, length rest < n -> RClaim rest).
Proof.
  induction n as [|n [IHN IHR]].
  - split; intros l Hl; lia.
  - split; [apply N_step|apply R_step]; assumption.
Qed.

Lemma di_N ss : NClaim ss.
Proof. apply (proj1 (di_claims (S (length ss)))). lia. Qed.

(* ---------- the theorem ---------- *)
Theorem condense_dotted_initialisms_grouped : forall a b ts, Tiling a b ts ->
  exists ts', condense_dotted_initialisms ts = Ok ts' /\ Grouped G_initialism ts ts'.
Proof.
  intros a b ts HT. rewrite cdi_unfold.
  destruct (length ts <? 2) eqn:E.
  - exists ts. split; [reflexivity|]. apply grouped_refl. exact G_init_single.
  - apply Nat.ltb_ge in E.
    assert (Forall twf ts) as Hwf.
    { eapply Forall_impl; [|exact (tiling_nonempty _ _ _ HT)]. intros t Ht. unfold twf. cbn beta in Ht. lia. }
    destruct (di_N ts [] [] (length ts) Hwf ltac:(lia) ltac:(lia)) as (U & Q & HE & HL & HQ & HG).
    cbn [app length Nat.add] in HE, HQ, HG. rewrite HE. cbn [bind].
    exists (remove_indices 0 (rev (rev Q ++ [])) U). split; [reflexivity|].
    rewrite app_nil_r, rev_involutive. exact HG.
Qed.

(* non-vacuity: "U.S.A. x." — the three pairs become one Word 0..6, the lone pair "x." is kept *)
Example condense_dotted_initialisms_example :
  let w i := mktok (mkspan i (i + 1)) KWord in
  let p i := mktok (mkspan i (i + 1)) (KPunct PPeriod) in
  let ts := [w 0; p 1; w 2; p 3; w 4; p 5; mktok (mkspan 6 7) (KSpace 1); w 7; p 8] in
  Tiling 0 9 ts /\
  condense_dotted_initialisms ts =
    Ok [mktok (mkspan 0 6) KWord; mktok (mkspan 6 7) (KSpace 1); w 7; p 8].
Proof.
  cbv zeta. split; [|vm_compute; reflexivity].
  repeat (constructor; [reflexivity|cbn; lia|]). constructor.
Qed.

Print Assumptions condense_dotted_initialisms_grouped.
Print Assumptions condense_dotted_initialisms_example.
