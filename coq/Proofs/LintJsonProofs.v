(* LintJsonProofs.v — the parsers of Model/LintJson.v read back what its printers write:
   parse (print x ++ rest) = Some (x, rest) for strings (all escapes), numbers, Span, Suggestion,
   Lint (core and wasm wrapper) and the ignore list; hence from_json (to_json x) = Some x. *)
From Coq Require Import String.
Require Import Base Suggestion LintJson.
From Coq Require Import List.
From Coq Require Import DecimalNat DecimalN DecimalPos DecimalFacts.
Local Open Scope N_scope.
Local Open Scope list_scope.

(* ---------- literals ---------- *)
Lemma expect_app l rest : expect l (l ++ rest) = Some rest.
Proof. induction l as [|c l IH]; cbn [expect app]; [reflexivity|]. now rewrite N.eqb_refl. Qed.

Lemma expect_mismatch c l d r : (c =? d) = false -> expect (c :: l) (d :: r) = None.
Proof. intros H. cbn [expect]. now rewrite H. Qed.

(* ---------- numbers ---------- *)
Definition not_digit_head (rest : text) : Prop :=
  match rest with [] => True | c :: _ => digit_of c = None end.

Lemma read_uint_chars d rest : not_digit_head rest -> read_uint (uint_chars d ++ rest) = (d, rest).
Proof.
  intros H. induction d; cbn [uint_chars app];
    try (cbn [read_uint];
         match goal with |- context [digit_of ?c] => let v := eval vm_compute in (digit_of c) in change (digit_of c) with v end;
         cbv beta iota; rewrite IHd; reflexivity).
  destruct rest as [|c r]; cbn [read_uint]; [reflexivity|]. cbn [not_digit_head] in H. now rewrite H.
Qed.

Lemma unorm_nonnil d : Decimal.unorm d <> Decimal.Nil.
Proof. induction d; cbn [Decimal.unorm]; try discriminate. exact IHd. Qed.

Lemma nat_to_uint_nonnil n : Nat.to_uint n <> Decimal.Nil.
Proof.
  pose proof (DecimalNat.Unsigned.to_of (Nat.to_uint n)) as H.
  rewrite DecimalNat.Unsigned.of_to in H. rewrite H. apply unorm_nonnil.
Qed.

Lemma N_to_uint_nonnil n : N.to_uint n <> Decimal.Nil.
Proof. destruct n as [|p]; cbn [N.to_uint]; [discriminate|apply DecimalPos.Unsigned.to_uint_nonnil]. Qed.

Lemma parse_nat_print n rest : not_digit_head rest -> parse_nat (print_nat n ++ rest) = Some (n, rest).
Proof.
  intros H. unfold parse_nat, print_nat. rewrite (read_uint_chars _ _ H).
  pose proof (nat_to_uint_nonnil n) as NN.
  destruct (Nat.to_uint n) eqn:E; try congruence; rewrite <- E, DecimalNat.Unsigned.of_to; reflexivity.
Qed.

Lemma parse_N_print n rest : not_digit_head rest -> parse_N (print_N n ++ rest) = Some (n, rest).
Proof.
  intros H. unfold parse_N, print_N. rewrite (read_uint_chars _ _ H).
  pose proof (N_to_uint_nonnil n) as NN.
  destruct (N.to_uint n) eqn:E; try congruence; rewrite <- E, DecimalN.Unsigned.of_to; reflexivity.
Qed.

Lemma uint_chars_head d : d <> Decimal.Nil -> exists c t, uint_chars d = c :: t /\ c <> 93 /\ c <> 34.
Proof. destruct d; intros H; try congruence; cbn [uint_chars]; eexists; eexists; (split; [reflexivity|split; discriminate]). Qed.

Lemma ndh_cons c r : digit_of c = None -> not_digit_head (c :: r).
Proof. intros H. exact H. Qed.

(* ---------- strings ---------- *)
Lemma psb_cons c r :
  parse_str_body (c :: r) =
  if c =? 34 then Some ([], r)
  else if c =? 92 then
    match r with
    | [] => None
    | e :: r1 =>
        let simple (v : N) :=
          match parse_str_body r1 with Some (s, rest) => Some (v :: s, rest) | None => None end in
        if e =? 34 then simple 34
        else if e =? 92 then simple 92
        else if e =? 47 then simple 47
        else if e =? 98 then simple 8
        else if e =? 102 then simple 12
        else if e =? 110 then simple 10
        else if e =? 114 then simple 13
        else if e =? 116 then simple 9
        else if e =? 117 then
          match r1 with
          | h1 :: h2 :: h3 :: h4 :: r2 =>
              match hexval h1, hexval h2, hexval h3, hexval h4 with
              | Some a, Some b, Some c', Some d =>
                  let v := ((a * 16 + b) * 16 + c') * 16 + d in
                  if (55296 <=? v) && (v <=? 57343) then None
                  else match parse_str_body r2 with
                       | Some (s, rest) => Some (v :: s, rest)
                       | None => None
                       end
              | _, _, _, _ => None
              end
          | _ => None
          end
        else None
    end
  else if c <? 32 then None
  else match parse_str_body r with Some (s, rest) => Some (c :: s, rest) | None => None end.
Proof. reflexivity. Qed.

Lemma lt_32_cases c : c < 32 ->
  In c [0;1;2;3;4;5;6;7;8;9;10;11;12;13;14;15;16;17;18;19;20;21;22;23;24;25;26;27;28;29;30;31].
Proof.
  intros H. rewrite <- (N2Nat.id c). assert (N.to_nat c < 32)%nat as Hn by lia.
  remember (N.to_nat c) as n eqn:En. clear En H c.
  do 32 (destruct n as [|n]; [cbn; tauto|]). lia.
Qed.

Lemma esc_char_roundtrip c X s rest :
  parse_str_body X = Some (s, rest) ->
  parse_str_body (esc_char c ++ X) = Some (c :: s, rest).
Proof.
  intros IH. unfold esc_char.
  destruct (c =? 34) eqn:E1; [apply N.eqb_eq in E1; subst c; cbn [app]; rewrite psb_cons; cbv beta iota zeta;
    change (92 =? 34) with false; change (92 =? 92) with true; change (34 =? 34) with true; cbv iota; now rewrite IH|].
  destruct (c =? 92) eqn:E2; [apply N.eqb_eq in E2; subst c; cbn [app]; rewrite psb_cons; cbv beta iota zeta;
    change (92 =? 34) with false; change (92 =? 92) with true; cbv iota; now rewrite IH|].
  destruct (c =? 8) eqn:E3; [apply N.eqb_eq in E3; subst c; cbn [app]; rewrite psb_cons; cbv beta iota zeta;
    change (92 =? 34) with false; change (92 =? 92) with true; change (98 =? 34) with false; change (98 =? 92) with false;
    change (98 =? 47) with false; change (98 =? 98) with true; cbv iota; now rewrite IH|].
  destruct (c =? 9) eqn:E4; [apply N.eqb_eq in E4; subst c; cbn [app]; rewrite psb_cons; cbv beta iota zeta;
    change (92 =? 34) with false; change (92 =? 92) with true; change (116 =? 34) with false; change (116 =? 92) with false;
    change (116 =? 47) with false; change (116 =? 98) with false; change (116 =? 102) with false; change (116 =? 110) with false;
    change (116 =? 114) with false; change (116 =? 116) with true; cbv iota; now rewrite IH|].
  destruct (c =? 10) eqn:E5; [apply N.eqb_eq in E5; subst c; cbn [app]; rewrite psb_cons; cbv beta iota zeta;
    change (92 =? 34) with false; change (92 =? 92) with true; change (110 =? 34) with false; change (110 =? 92) with false;
    change (110 =? 47) with false; change (110 =? 98) with false; change (110 =? 102) with false; change (110 =? 110) with true;
    cbv iota; now rewrite IH|].
  destruct (c =? 12) eqn:E6; [apply N.eqb_eq in E6; subst c; cbn [app]; rewrite psb_cons; cbv beta iota zeta;
    change (92 =? 34) with false; change (92 =? 92) with true; change (102 =? 34) with false; change (102 =? 92) with false;
    change (102 =? 47) with false; change (102 =? 98) with false; change (102 =? 102) with true; cbv iota; now rewrite IH|].
  destruct (c =? 13) eqn:E7; [apply N.eqb_eq in E7; subst c; cbn [app]; rewrite psb_cons; cbv beta iota zeta;
    change (92 =? 34) with false; change (92 =? 92) with true; change (114 =? 34) with false; change (114 =? 92) with false;
    change (114 =? 47) with false; change (114 =? 98) with false; change (114 =? 102) with false; change (114 =? 110) with false;
    change (114 =? 114) with true; cbv iota; now rewrite IH|].
  destruct (c <? 32) eqn:E8.
  - apply N.ltb_lt in E8. apply lt_32_cases in E8. clear E1 E2 E3 E4 E5 E6 E7.
    cbn [In] in E8.
    repeat (destruct E8 as [E8|E8];
            [subst c; cbn [app]; rewrite psb_cons; cbn; rewrite IH; reflexivity|]).
    contradiction.
  - cbn [app]. rewrite psb_cons, E1, E2, E8, IH. reflexivity.
Qed.

Lemma parse_str_body_print s rest :
  parse_str_body (flat_map esc_char s ++ cQuote :: rest) = Some (s, rest).
Proof.
  induction s as [|c s IH]; cbn [flat_map app].
  - rewrite psb_cons. change (cQuote =? 34) with true. reflexivity.
  - rewrite <- app_assoc. now apply esc_char_roundtrip.
Qed.

Lemma parse_str_print s rest : parse_str (print_str s ++ rest) = Some (s, rest).
Proof.
  unfold print_str, parse_str. cbn [app]. change (cQuote =? 34) with true. cbv iota.
  rewrite <- app_assoc. cbn [app]. apply parse_str_body_print.
Qed.

Lemma print_str_head s : exists t, print_str s = 34 :: t.
Proof. unfold print_str. eexists. reflexivity. Qed.

Lemma parse_char_print c rest : parse_char (print_char c ++ rest) = Some (c, rest).
Proof. unfold parse_char, print_char. now rewrite parse_str_print. Qed.

(* ---------- sequences ---------- *)
Definition sep_head (rest : text) : Prop := exists c r, rest = c :: r /\ (c = 44 \/ c = 93).

Lemma sep_head_ndh rest : sep_head rest -> not_digit_head rest.
Proof. intros [c [r [-> [->| ->]]]]; reflexivity. Qed.

Section SeqProofs.
  Context {A : Type} (p : parser A) (pr : A -> text) (Q : A -> Prop).
  Hypothesis Hp : forall a rest, Q a -> sep_head rest -> p (pr a ++ rest) = Some (a, rest).
  Hypothesis Hhead : forall a, Q a -> exists c t, pr a = c :: t /\ c <> 93.

  Lemma seq_more_length (l : list A) : (length l <= length (flat_map (fun x => cComma :: pr x) l))%nat.
  Proof.
    induction l as [|a l IH]; cbn [flat_map length app]; [lia|]. rewrite app_length. lia.
  Qed.

  Lemma parse_seq_more_print l : forall fuel rest, Forall Q l -> (length l < fuel)%nat ->
    parse_seq_more p fuel (flat_map (fun x => cComma :: pr x) l ++ cRBracket :: rest) = Some (l, rest).
  Proof.
    induction l as [|a l IH]; intros fuel rest HQ Hf; (destruct fuel as [|f]; [lia|]); cbn [flat_map app parse_seq_more].
    - change (cRBracket =? 93) with true. reflexivity.
    - change (cComma =? 93) with false. change (cComma =? 44) with true. cbv iota.
      inversion HQ as [|? ? Qa Ql]; subst. rewrite <- app_assoc. rewrite Hp; [|exact Qa|].
      + rewrite IH; [reflexivity|exact Ql|cbn [length] in Hf; lia].
      + destruct l as [|b l']; cbn [flat_map app]; eexists; eexists; (split; [reflexivity|]); [now right|now left].
  Qed.

  Lemma parse_seq_print l rest : Forall Q l ->
    parse_seq p (print_seq pr l ++ cRBracket :: rest) = Some (l, rest).
  Proof.
    intros HQ. destruct l as [|a l]; cbn [print_seq app].
    - unfold parse_seq. change (cRBracket =? 93) with true. reflexivity.
    - inversion HQ as [|? ? Qa Ql]; subst. destruct (Hhead a Qa) as [c [t [E Hc]]].
      unfold parse_seq. rewrite <- app_assoc. rewrite E. cbn [app].
      apply N.eqb_neq in Hc. rewrite Hc. change (c :: t ++ ?x) with ((c :: t) ++ x). rewrite <- E.
      rewrite Hp; [|exact Qa|].
      + rewrite parse_seq_more_print; [reflexivity|exact Ql|].
        rewrite app_length. pose proof (seq_more_length l) as SL. cbn [length]. unfold text, char in *. lia.
      + destruct l as [|b l']; cbn [flat_map app]; eexists; eexists; (split; [reflexivity|]); [now right|now left].
  Qed.
End SeqProofs.

(* ---------- Span ---------- *)
Ltac lit_head := vm_compute; reflexivity.

Lemma ndh_lit_app (s : String.string) X :
  match lit s with c :: _ => digit_of c = None | [] => False end -> not_digit_head (lit s ++ X).
Proof. destruct (lit s) as [|c r]; [contradiction|]. intros H. exact H. Qed.

Lemma parse_span_print s rest : parse_span (print_span s ++ rest) = Some (s, rest).
Proof.
  unfold parse_span, print_span. rewrite <- !app_assoc.
  rewrite expect_app. cbn [ebind].
  rewrite parse_nat_print by (apply ndh_lit_app; lit_head). cbn [pbind].
  rewrite expect_app. cbn [ebind].
  rewrite parse_nat_print by (apply ndh_lit_app; lit_head). cbn [pbind].
  rewrite expect_app. cbn [ebind]. destruct s; reflexivity.
Qed.

(* ---------- Suggestion ---------- *)
Lemma parse_chars_print cs rest : parse_chars (print_chars cs ++ rest) = Some (cs, rest).
Proof.
  unfold parse_chars, print_chars. rewrite <- !app_assoc. rewrite expect_app. cbn [ebind app].
  apply (parse_seq_print parse_char print_char (fun _ => True)).
  - intros a r _ _. apply parse_char_print.
  - intros a _. unfold print_char. destruct (print_str_head [a]) as [t ->]. eexists; eexists. split; [reflexivity|discriminate].
  - apply Forall_forall. intros; exact I.
Qed.

Lemma parse_suggestion_print s rest : parse_suggestion (print_suggestion s ++ rest) = Some (s, rest).
Proof.
  unfold parse_suggestion. destruct s as [cs|cs|]; cbn [print_suggestion].
  - rewrite <- !app_assoc.
    replace (expect (lit """Remove"""%string) _) with (@None text) by (symmetry; apply expect_mismatch; lit_head).
    rewrite expect_app. rewrite parse_chars_print. cbn [pbind]. rewrite expect_app. reflexivity.
  - rewrite <- !app_assoc.
    replace (expect (lit """Remove"""%string) _) with (@None text) by (symmetry; apply expect_mismatch; lit_head).
    set (X := print_chars cs ++ lit "}"%string ++ rest).
    replace (expect (lit "{""ReplaceWith"":"%string) _) with (@None text).
    2:{ symmetry. change (lit "{""ReplaceWith"":"%string) with (123 :: 34 :: 82 :: lit "eplaceWith"":"%string).
        change (lit "{""InsertAfter"":"%string ++ X) with (123 :: 34 :: 73 :: lit "nsertAfter"":"%string ++ X).
        cbn [expect]. change (123 =? 123) with true. change (34 =? 34) with true. change (82 =? 73) with false. reflexivity. }
    rewrite expect_app. cbn [ebind]. subst X. rewrite parse_chars_print. cbn [pbind]. rewrite expect_app. reflexivity.
  - rewrite expect_app. reflexivity.
Qed.

Lemma print_suggestion_head s : exists c t, print_suggestion s = c :: t /\ c <> 93.
Proof. destruct s; eexists; eexists; (split; [vm_compute lit; cbn [app]; reflexivity|discriminate]). Qed.

Lemma parse_wsuggestion_print s rest : parse_wsuggestion (print_wsuggestion s ++ rest) = Some (s, rest).
Proof.
  unfold parse_wsuggestion, print_wsuggestion. rewrite <- !app_assoc.
  rewrite expect_app. cbn [ebind]. rewrite parse_suggestion_print. cbn [pbind].
  rewrite expect_app. reflexivity.
Qed.

(* ---------- Lint ---------- *)
Lemma parse_kind_print k rest : parse_kind (print_str (lit (kind_name k)) ++ rest) = Some (k, rest).
Proof. unfold parse_kind. rewrite parse_str_print. cbn [pbind]. destruct k; vm_compute; reflexivity. Qed.

Lemma parse_lang_print l rest : parse_lang (print_str (lit (lang_name l)) ++ rest) = Some (l, rest).
Proof. unfold parse_lang. rewrite parse_str_print. cbn [pbind]. destruct l; vm_compute; reflexivity. Qed.

Lemma parse_rlint_print l rest : rlint_wf l -> parse_rlint (print_rlint l ++ rest) = Some (l, rest).
Proof.
  intros W. unfold parse_rlint, print_rlint. rewrite <- !app_assoc.
  rewrite expect_app. cbn [ebind]. rewrite parse_span_print. cbn [pbind].
  rewrite expect_app. cbn [ebind]. rewrite parse_kind_print. cbn [pbind].
  rewrite expect_app. cbn [ebind].
  cbn [app].
  rewrite (parse_seq_print parse_suggestion print_suggestion (fun _ => True)).
  2:{ intros a r _ _. apply parse_suggestion_print. }
  2:{ intros a _. apply print_suggestion_head. }
  2:{ apply Forall_forall. intros; exact I. }
  cbn [pbind]. rewrite expect_app. cbn [ebind]. rewrite parse_str_print. cbn [pbind].
  rewrite expect_app. cbn [ebind].
  rewrite parse_nat_print by (apply ndh_lit_app; lit_head). cbn [pbind].
  unfold rlint_wf in W. destruct (255 <? rprio l)%nat eqn:E; [apply Nat.ltb_lt in E; lia|].
  rewrite expect_app. cbn [ebind]. destruct l; reflexivity.
Qed.

Lemma parse_wlint_print l rest : rlint_wf (winner l) -> parse_wlint (print_wlint l ++ rest) = Some (l, rest).
Proof.
  intros W. unfold parse_wlint, print_wlint. rewrite <- !app_assoc.
  rewrite expect_app. cbn [ebind]. rewrite (parse_rlint_print _ _ W). cbn [pbind].
  rewrite expect_app. cbn [ebind]. rewrite parse_str_print. cbn [pbind].
  rewrite expect_app. cbn [ebind]. rewrite parse_lang_print. cbn [pbind].
  rewrite expect_app. cbn [ebind]. destruct l; reflexivity.
Qed.

Lemma parse_ignored_print hs rest : parse_ignored (print_ignored hs ++ rest) = Some (hs, rest).
Proof.
  unfold parse_ignored, print_ignored. rewrite <- !app_assoc.
  rewrite expect_app. cbn [ebind app].
  rewrite (parse_seq_print parse_N print_N (fun _ => True)).
  - cbn [pbind]. rewrite expect_app. reflexivity.
  - intros a r _ S. apply parse_N_print. now apply sep_head_ndh.
  - intros a _. destruct (uint_chars_head _ (N_to_uint_nonnil a)) as [c [t [E [H _]]]].
    exists c, t. split; [exact E|exact H].
  - apply Forall_forall. intros; exact I.
Qed.

(* ---------- from_json (to_json x) = Some x ---------- *)
Theorem span_json_roundtrip s : span_from_json (print_span s) = Some s.
Proof. unfold span_from_json, complete. rewrite <- (List.app_nil_r (print_span s)), parse_span_print. reflexivity. Qed.

Theorem suggestion_json_roundtrip s : suggestion_from_json (print_wsuggestion s) = Some s.
Proof. unfold suggestion_from_json, complete. rewrite <- (List.app_nil_r (print_wsuggestion s)), parse_wsuggestion_print. reflexivity. Qed.

Theorem lint_json_roundtrip l : rlint_wf (winner l) -> lint_from_json (print_wlint l) = Some l.
Proof. intros W. unfold lint_from_json, complete. rewrite <- (List.app_nil_r (print_wlint l)), (parse_wlint_print _ _ W). reflexivity. Qed.

Theorem ignored_json_roundtrip hs : ignored_from_json (print_ignored hs) = Some hs.
Proof. unfold ignored_from_json, complete. rewrite <- (List.app_nil_r (print_ignored hs)), parse_ignored_print. reflexivity. Qed.

(* the escaping never emits a raw control character, quote or backslash except as part of an escape:
   the JSON text of a string has no character below 0x20 *)
Lemma esc_char_no_control c : Forall (fun x => 32 <= x) (esc_char c).
Proof.
  unfold esc_char.
  repeat match goal with |- context [if ?b then _ else _] => destruct b eqn:? end;
    try (repeat constructor; lia).
  - apply N.ltb_lt in Heqb6. apply lt_32_cases in Heqb6. cbn [In] in Heqb6.
    repeat (destruct Heqb6 as [<-|Heqb6]; [vm_compute; repeat constructor; discriminate|]). contradiction.
  - apply N.ltb_ge in Heqb6. repeat constructor. exact Heqb6.
Qed.
