(* C14Prepend.v — C14, phase 3: the context of a lint when the document is edited and its quotation marks are
   RE-PAIRED by the real Document::match_quotes (C02's frozen model Condense.match_quotes, C02Quotes.match_quotes_any).
     1. context_edit_requoted — ANY token vectors (no C02 invariant needed beyond position bounds): the document is
        X ++ M ++ Y; the tokens of X and Y change freely (quotes come and go, so every pair of M may change
        partner); match_quotes runs on both versions; the context of a lint whose two-character windows lie in M
        (2 <= s, s <= |M|, e + 2 <= |M|) is the same, under any two dictionaries.
     2. plain_prepend — reachability through the modelled Document::new_plain_english: P ++ D with P ending
        `terminator \n \n` (P MAY contain quotation marks — C12's premise quote_free is NOT needed here) and D not
        starting with a newline: the document of P ++ D has, for every lint of D with 2 <= start, the context it
        has in the document of D.  The passes 1–8 of Document::parse split as in C12CondSplit.passes_split (the
        proof below is that proof without its quote-freeness steps); match_quotes is handled by match_quotes_any. *)
Require ParaSplit ParaSplitProofs.
Require Import Base Overlap OverlapProofs Tables_lexer Lexer Condense ListLemmas TokenInv CondenseInv LexerProofs
  CondPatterns3 CondPattern CondSpaces CondInitialisms CondSuffixQuotes Shape DocumentProofs C12Doc LexSplitProofs
  C12CondSpaces C12CondSuffix C12CondPattern C12CondPatterns3 C12CondInit C12CondQuotes C12LexEnds C12CondSplit
  C02Quotes C14Edit.
Require Ignore IgnoreProofs C14EditProofs.
From Coq Require Import List Arith Lia.
Import ListNotations.

(* ================= twins and dictionary metadata never reach the context ================= *)
Section Emb.
  Variable pcode : punct -> N.
  Variable ncode : number -> N.
  Variable scode : num_suffix -> N.
  Notation emb_kind := (emb_kind pcode ncode scode).
  Notation emb_tok := (emb_tok pcode ncode scode).
  Notation doc_of := (doc_of pcode ncode scode).

  Definition no_meta : token -> option N := fun _ => None.

  Lemma blank_emb_strip wm wm' k :
    Ignore.blank_kind (emb_kind wm k) = Ignore.blank_kind (emb_kind wm' (strip_twin k)).
  Proof. destruct k as [|p| | | | | | | | | |]; try reflexivity. destruct p; reflexivity. Qed.

  Lemma map_two {A B C D} (a : A -> B) (b : A -> C) (g : B -> C -> D) : forall l l',
    map a l = map a l' -> map b l = map b l' -> map (fun t => g (a t) (b t)) l = map (fun t => g (a t) (b t)) l'.
  Proof.
    induction l as [|x l IH]; intros [|y l'] Ea Eb; try discriminate; [reflexivity|].
    cbn [map] in *. injection Ea as Ea1 Ea2. injection Eb as Eb1 Eb2. rewrite Ea1, Eb1, (IH l' Ea2 Eb2). reflexivity.
  Qed.

  (* the same vector up to twin_loc, under two dictionaries: the same document as far as the context looks *)
  Lemma blank_doc_same_but_twins wm wm' src ts ts' :
    SameButTwins ts ts' -> Ignore.blank_doc (doc_of wm' src ts') = Ignore.blank_doc (doc_of wm src ts).
  Proof.
    intros [Hs Hk]. unfold Ignore.blank_doc, doc_of. cbn [Ignore.dsrc Ignore.dtoks]. f_equal. rewrite !map_map.
    transitivity (map (fun t => Ignore.mktok (tspan t) (Ignore.blank_kind (emb_kind None (strip_twin (tkind_of t))))) ts').
    - apply map_ext. intros t. unfold Ignore.blank_token, C14Edit.emb_tok. cbn [Ignore.tspan Ignore.tkd].
      rewrite (blank_emb_strip (wm' t) None). reflexivity.
    - transitivity (map (fun t => Ignore.mktok (tspan t) (Ignore.blank_kind (emb_kind None (strip_twin (tkind_of t))))) ts).
      + apply (map_two tspan (fun t => strip_twin (tkind_of t))
                 (fun sp k => Ignore.mktok sp (Ignore.blank_kind (emb_kind None k))) ts' ts Hs Hk).
      + apply map_ext. intros t. unfold Ignore.blank_token, C14Edit.emb_tok. cbn [Ignore.tspan Ignore.tkd].
        rewrite (blank_emb_strip (wm t) None). reflexivity.
  Qed.

  (* match_quotes, whatever it re-pairs, and the dictionary, whatever it knows, leave every context alone *)
  Theorem context_requoted wm wm' src ts q l :
    match_quotes ts = Ok q ->
    Ignore.context l (doc_of wm' src q) = Ignore.context l (doc_of wm src ts).
  Proof.
    intros E. destruct (match_quotes_any ts) as [q' [E' [SB _]]]. rewrite E in E'. injection E' as <-.
    apply IgnoreProofs.same_blank_doc_same_context. apply blank_doc_same_but_twins. exact SB.
  Qed.

  (* ================= glued vectors ================= *)
  Lemma emb_shift n t : emb_tok no_meta (shift_tk n t) = C14EditProofs.shift_tok n (emb_tok no_meta t).
  Proof. reflexivity. Qed.

  Lemma doc_of_glue X T n S : n = length X ->
    forall src, doc_of no_meta (X ++ src) (T ++ map (shift_tk n) S)
    = C14EditProofs.prepend_doc X (map (emb_tok no_meta) T) (doc_of no_meta src S).
  Proof.
    intros -> src. unfold doc_of, C14EditProofs.prepend_doc. cbn [Ignore.dsrc Ignore.dtoks]. f_equal.
    rewrite map_app, !map_map. f_equal.
  Qed.

  Definition ends_by (n : nat) (ts : list token) : Prop := Forall (fun t => tend t <= n) ts.
  Definition lies_in (n : nat) (ts : list token) : Prop := Forall (fun t => tstart t <= tend t /\ tend t <= n) ts.
  Definition lies_behind (m n : nat) (ts : list token) : Prop :=
    Forall (fun t => m <= tstart t /\ tstart t <= tend t /\ tend t <= n) ts.

  Lemma doc_of_around X TX M TM Y TY :
    doc_of no_meta (X ++ M ++ Y) (TX ++ map (shift_tk (length X)) (TM ++ TY))
    = C14EditProofs.around X (map (emb_tok no_meta) TX) M (map (emb_tok no_meta) TM) Y (map (emb_tok no_meta) TY).
  Proof.
    rewrite (doc_of_glue X TX (length X) (TM ++ TY) eq_refl (M ++ Y)). unfold C14EditProofs.around. f_equal.
    unfold doc_of, C14EditProofs.append_doc. cbn [Ignore.dsrc Ignore.dtoks]. rewrite map_app. reflexivity.
  Qed.

  Lemma forall_emb (Q : Ignore.token -> Prop) (R : token -> Prop) ts :
    (forall t, R t -> Q (emb_tok no_meta t)) -> Forall R ts -> Forall Q (map (emb_tok no_meta) ts).
  Proof. intros H HR. apply Forall_map. eapply Forall_impl; [|exact HR]. exact H. Qed.

  (* THE EDIT THEOREM over real re-pairing.  Document before: X ++ M ++ Y, after: X' ++ M ++ Y'.  The token vectors
     handed to match_quotes are ANY vectors of the glued form (whatever twin_loc they arrive with); TX/TY against
     TX'/TY' are unrelated — tokens inserted, removed, quotes added or dropped, so match_quotes pairs the quotes
     of M differently.  Premise about the edit: M keeps its tokens TM, and the lint's windows lie in M. *)
  Theorem context_edit_requoted wm wm' X TX X' TX' M TM Y TY Y' TY' l :
    lies_in (length M) TM ->
    ends_by (length X) TX -> ends_by (length X') TX' ->
    lies_behind (length M) (length (M ++ Y)) TY -> lies_behind (length M) (length (M ++ Y')) TY' ->
    2 <= sstart (Ignore.il_span l) -> sstart (Ignore.il_span l) <= length M -> send (Ignore.il_span l) + 2 <= length M ->
    exists q q',
      match_quotes (TX ++ map (shift_tk (length X)) (TM ++ TY)) = Ok q /\
      match_quotes (TX' ++ map (shift_tk (length X')) (TM ++ TY')) = Ok q' /\
      Ignore.context (Ignore.shift_lint (length X) l) (doc_of wm (X ++ M ++ Y) q)
      = Ignore.context (Ignore.shift_lint (length X') l) (doc_of wm' (X' ++ M ++ Y') q').
  Proof.
    intros HM HX HX' HY HY' H2 H3 H4.
    destruct (match_quotes_any (TX ++ map (shift_tk (length X)) (TM ++ TY))) as [q [E _]].
    destruct (match_quotes_any (TX' ++ map (shift_tk (length X')) (TM ++ TY'))) as [q' [E' _]].
    exists q, q'. split; [exact E|]. split; [exact E'|].
    rewrite (context_requoted no_meta wm _ _ q _ E), (context_requoted no_meta wm' _ _ q' _ E').
    rewrite !doc_of_around.
    apply C14EditProofs.context_edit; try assumption.
    - unfold IgnoreProofs.doc_wf. cbn [Ignore.dsrc Ignore.dtoks]. eapply forall_emb; [|exact HM].
      intros t Ht. exact Ht.
    - eapply forall_emb; [|exact HX]. intros t Ht. exact Ht.
    - eapply forall_emb; [|exact HX']. intros t Ht. exact Ht.
    - eapply forall_emb; [|exact HY]. intros t [Ha [Hb Hc]]. split; [exact Ha|]. split; [exact Hb|exact Hc].
    - eapply forall_emb; [|exact HY']. intros t [Ha [Hb Hc]]. split; [exact Ha|]. split; [exact Hb|exact Hc].
  Qed.
End Emb.

(* ================= Document::parse on P ++ D, P with quotation marks ================= *)
Definition ends_para (P : text) : Prop := exists P0 t, P = P0 ++ [t; NL; NL] /\ is_terminator_char t.

Lemma ends_para_ends_nl P : ends_para P -> ends_nl P.
Proof. intros (P0 & t & -> & _). right. exists (P0 ++ [t; NL]). now rewrite <- app_assoc. Qed.

(* the first eight passes of Document::parse (everything before match_quotes) *)
Definition passes8 (src : text) (toks : list token) : res (list token) :=
  do t1 <- condense_spaces toks;
  do t2 <- condense_newlines t1;
  let t3 := newlines_to_breaks t2 in
  do t4 <- condense_number_suffixes src t3;
  do t5 <- condense_contractions src t4;
  do t6 <- condense_dotted_initialisms t5;
  do t7 <- condense_ellipsis src t6;
  condense_latin src t7.

Lemma document_passes_8 src toks :
  document_passes src toks = (do t8 <- passes8 src toks; do t9 <- match_quotes t8; do _ <- word_lookup_check src t9; Ok t9).
Proof.
  unfold document_passes, passes8.
  destruct (condense_spaces toks) as [t1|]; cbn [bind]; [|reflexivity].
  destruct (condense_newlines t1) as [t2|]; cbn [bind]; [|reflexivity]. cbv zeta.
  destruct (condense_number_suffixes src (newlines_to_breaks t2)) as [t4|]; cbn [bind]; [|reflexivity].
  destruct (condense_contractions src t4) as [t5|]; cbn [bind]; [|reflexivity].
  destruct (condense_dotted_initialisms t5) as [t6|]; cbn [bind]; [|reflexivity].
  destruct (condense_ellipsis src t6) as [t7|]; cbn [bind]; [|reflexivity]. reflexivity.
Qed.

Section Split.
  Variable u : uni.
  Hypothesis nl_whitespace : u_whitespace u NL = true.
  Hypothesis nl_not_numeric : u_numeric u NL = false.
  Hypothesis nl_not_alphabetic : u_alphabetic u NL = false.
  Hypothesis nl_not_lingual : u_lingual u NL = false.

  (* C12LexEnds.raw_ends without the quote-freeness it never used *)
  Lemma raw_ends_para P tp : ends_para P -> plain_parse u P = Ok tp ->
    exists tp0 x nl m, tp = tp0 ++ [x; nl] /\ is_space_kind (tkind_of x) = false /\
                       tkind_of nl = KNewline m /\ 2 <= m.
  Proof.
    intros [P0 [t [-> Ht]]] H. unfold plain_parse in H.
    change (P0 ++ [t; NL; NL]) with (P0 ++ t :: repeat NL (S 1)) in H.
    assert (t <> NL /\ blankc t = false) as [Hn Hb]
      by (destruct Ht as [Ht | [Ht | Ht]]; subst t; split; try reflexivity; unfold NL; discriminate).
    destruct (plain_loop_end u nl_whitespace nl_not_numeric nl_not_alphabetic nl_not_lingual t 1 Hn Hb _ _ _ _ H)
      as (ts0 & x & nl & -> & Hx & Hnl).
    exists ts0, x, nl, 2. repeat split; try assumption. lia.
  Qed.

  (* passes 1–8 split at the paragraph break, quotation marks or not (C12CondSplit.passes_split, steps 1–8) *)
  Theorem passes8_split P D tp td :
    ends_para P -> no_leading_nl D -> plain_parse u P = Ok tp -> plain_parse u D = Ok td ->
    exists a8 b8,
      passes8 P tp = Ok a8 /\ passes8 D td = Ok b8 /\
      passes8 (P ++ D) (tp ++ map (shift_tk (length P)) td) = Ok (a8 ++ map (shift_tk (length P)) b8) /\
      Tiling 0 (length P) a8 /\ Tiling 0 (length D) b8.
  Proof.
    intros HP HD Hp Hd.
    destruct (plain_tiling u P) as [tp' [Hp' TA0]]. rewrite Hp in Hp'. injection Hp' as <-.
    destruct (plain_tiling u D) as [td' [Hd' TB0]]. rewrite Hd in Hd'. injection Hd' as <-.
    destruct (raw_ends_para P tp HP Hp)
      as (tp0 & x & nl & m & Etp & Hx & Hnl & Hm).
    pose proof (raw_head u D td HD Hd) as HB0.
    destruct (passes_exist P tp TA0) as [a8 RA].
    destruct RA as [a1 a2 a4 a5 a6 a7 Ea1 Ga1 Ea2 Ga2 Ga3 Ea4 Ga4 Ea5 Ga5 Ea6 Ga6 Ea7 Ga7 Ea8 Ga8 TA1 TA2 TA3 TA4 TA5 TA6 TA7 TA8].
    destruct (passes_exist D td TB0) as [b8 RB].
    destruct RB as [b1 b2 b4 b5 b6 b7 Eb1 Gb1 Eb2 Gb2 Gb3 Eb4 Gb4 Eb5 Gb5 Eb6 Gb6 Eb7 Gb7 Eb8 Gb8 TB1 TB2 TB3 TB4 TB5 TB6 TB7 TB8].
    set (n := length P) in *.
    assert (EN : length (P ++ D) = length D + n) by (rewrite app_length; unfold n; lia).
    (* the passes as functions *)
    pose proof (condense_spaces_fun _ _ _ TA0) as Fa1. rewrite Ea1 in Fa1. injection Fa1 as Fa1.
    pose proof (condense_spaces_fun _ _ _ TB0) as Fb1. rewrite Eb1 in Fb1. injection Fb1 as Fb1.
    pose proof (condense_newlines_fun _ _ _ TA1) as Fa2. rewrite Ea2 in Fa2. injection Fa2 as Fa2.
    pose proof (condense_newlines_fun _ _ _ TB1) as Fb2. rewrite Eb2 in Fb2. injection Fb2 as Fb2.
    pose proof (condense_number_suffixes_fun _ _ TA3) as Fa4. rewrite Ea4 in Fa4. injection Fa4 as Fa4.
    pose proof (condense_number_suffixes_fun _ _ TB3) as Fb4. rewrite Eb4 in Fb4. injection Fb4 as Fb4.
    pose proof (condense_dotted_initialisms_fun _ _ _ TA5) as Fa6. rewrite Ea6 in Fa6. injection Fa6 as Fa6.
    pose proof (condense_dotted_initialisms_fun _ _ _ TB5) as Fb6. rewrite Eb6 in Fb6. injection Fb6 as Fb6.
    (* the end of P's tokens, pass by pass *)
    assert (Etp' : tp = (tp0 ++ [x]) ++ [nl]) by (rewrite Etp, <- app_assoc; reflexivity).
    destruct (grouped_last _ _ _ Ga1 _ _ Etp') as (l1 & g1 & k1 & El1 & HG1).
    destruct (lb_spaces _ _ _ _ HG1 Hnl) as [-> ->]. cbn [app] in El1. rewrite group_token_single in El1.
    destruct (grouped_last _ _ _ Ga2 _ _ El1) as (l2 & g2 & k2 & El2 & HG2).
    destruct (lb_newlines _ _ _ _ HG2 Hnl) as (m2 & -> & Hm2).
    assert (EB3 : ends_break (newlines_to_breaks a2)).
    { exists (newlines_to_breaks l2), (newline_to_break (group_token (g2 ++ [nl]) (KNewline m2))).
      split; [rewrite El2; unfold newlines_to_breaks; rewrite map_app; reflexivity|].
      unfold newline_to_break. cbn [tkind_of group_token].
      replace (2 <=? m2) with true by (symmetry; apply Nat.leb_le; lia). reflexivity. }
    pose proof (grouped_ends_break _ _ _ (lb_suffix P) Ga4 EB3) as EB4.
    pose proof (grouped_ends_break _ _ _ (lb_contraction P) Ga5 EB4) as EB5.
    pose proof (grouped_ends_break _ _ _ lb_initialism Ga6 EB5) as EB6.
    pose proof (grouped_ends_break _ _ _ (lb_ellipsis P) Ga7 EB6) as EB7.
    pose proof (grouped_ends_break _ _ _ (fun g0 t k => lb_latin P a7 g0 t k TA7) Ga8 EB7) as EB8.
    pose proof (grouped_head_nn _ _ Gb1 HB0) as HB1.
    (* ---- the glued run, pass by pass ---- *)
    (* 1 condense_spaces *)
    assert (S1 : condense_spaces (tp ++ map (shift_tk n) td) = Ok (a1 ++ map (shift_tk n) b1)).
    { rewrite (condense_spaces_fun _ _ _ (tiling_glue n _ _ _ TA0 TB0)).
      rewrite (sp_spec_app (length tp) tp _ (le_n _)).
      - rewrite (sp_spec_shift n (length td) td (le_n _)). rewrite <- Fa1, <- Fb1. reflexivity.
      - rewrite Etp. apply sp_closed_end; [exact Hx|rewrite Hnl; reflexivity]. }
    (* 2 condense_newlines *)
    assert (S2 : condense_newlines (a1 ++ map (shift_tk n) b1) = Ok (a2 ++ map (shift_tk n) b2)).
    { rewrite (condense_newlines_fun _ _ _ (tiling_glue n _ _ _ TA1 TB1)).
      rewrite nl_spec_app by (apply head_nn_shift; exact HB1).
      rewrite nl_spec_shift, <- Fa2, <- Fb2. reflexivity. }
    (* 3 newlines_to_breaks *)
    assert (S3 : newlines_to_breaks (a2 ++ map (shift_tk n) b2) = newlines_to_breaks a2 ++ map (shift_tk n) (newlines_to_breaks b2))
      by (rewrite breaks_app; rewrite breaks_shift; reflexivity).
    (* 4 condense_number_suffixes *)
    assert (TG3 : Tiling 0 (length (P ++ D)) (newlines_to_breaks a2 ++ map (shift_tk n) (newlines_to_breaks b2)))
      by (rewrite EN; apply tiling_glue; assumption).
    assert (S4 : condense_number_suffixes (P ++ D) (newlines_to_breaks a2 ++ map (shift_tk n) (newlines_to_breaks b2))
                 = Ok (a4 ++ map (shift_tk n) b4)).
    { rewrite (condense_number_suffixes_fun _ _ TG3).
      rewrite (sfx_spec_app (P ++ D) (length (newlines_to_breaks a2)) _ _ (le_n _) (ends_break_sfx_closed _ EB3)).
      rewrite (sfx_spec_src_l P D (length (newlines_to_breaks a2)) _ (le_n _)).
      - unfold n. rewrite (sfx_spec_shift P D (length (newlines_to_breaks b2)) _ (le_n _)).
        rewrite <- Fa4, <- Fb4. reflexivity.
      - pose proof (tiling_in_range _ _ _ TA3) as R. eapply Forall_impl; [|exact R]. cbn beta. intros t Ht. unfold n in Ht. lia. }
    (* 5 condense_contractions *)
    assert (S5 : condense_contractions (P ++ D) (a4 ++ map (shift_tk n) b4) = Ok (a5 ++ map (shift_tk n) b5)).
    { destruct (contraction_ok P a4) as [okA monoA].
      exact (condense_pattern_split (contraction_matches (P ++ D)) (contraction_matches P) (contraction_matches D)
               (fun k => k) n a4 b4 (contraction_HL (P ++ D) P a4 _ EB4) (contraction_HR (P ++ D) D n)
               okA monoA a5 b5 Ea5 Eb5). }
    (* 6 condense_dotted_initialisms *)
    assert (S6 : condense_dotted_initialisms (a5 ++ map (shift_tk n) b5) = Ok (a6 ++ map (shift_tk n) b6)).
    { rewrite (condense_dotted_initialisms_fun _ _ _ (tiling_glue n _ _ _ TA5 TB5)).
      rewrite (di_go_app (map (shift_tk n) b5) (length a5) a5 None (le_n _) EB5).
      pose proof (di_go_shift n (length b5) b5 None (le_n _)) as Hsh. cbn [option_map] in Hsh. rewrite Hsh.
      rewrite <- Fa6, <- Fb6. reflexivity. }
    (* 7 condense_ellipsis *)
    assert (S7 : condense_ellipsis (P ++ D) (a6 ++ map (shift_tk n) b6) = Ok (a7 ++ map (shift_tk n) b7)).
    { destruct (ellipsis_ok P a6) as [okA monoA].
      exact (condense_pattern_split (ellipsis_matches (P ++ D)) (ellipsis_matches P) (ellipsis_matches D)
               (fun _ => KPunct PEllipsis) n a6 b6 (ellipsis_HL (P ++ D) P a6 _ EB6) (ellipsis_HR (P ++ D) D n)
               okA monoA a7 b7 Ea7 Eb7). }
    (* 8 condense_latin *)
    assert (S8 : condense_latin (P ++ D) (a7 ++ map (shift_tk n) b7) = Ok (a8 ++ map (shift_tk n) b8)).
    { destruct (latin_ok P a7 TA7) as [okA monoA].
      assert (HokB : Forall (tok_ok (P ++ D)) (map (shift_tk n) b7)).
      { apply (tiling_tok_ok_in (P ++ D) (0 + n) (length D + n)); [exact (tiling_shift n _ _ _ TB7)|rewrite EN; lia]. }
      exact (condense_pattern_split (latin_matches (P ++ D)) (latin_matches P) (latin_matches D)
               (fun k => k) n a7 b7 (latin_HL P D a7 _ EB7 TA7 HokB) (latin_HR P D)
               okA monoA a8 b8 Ea8 Eb8). }
    exists a8, b8. split; [|split; [|split; [|split]]].
    - unfold passes8. rewrite Ea1. cbn [bind]. rewrite Ea2. cbn [bind]. cbv zeta.
      rewrite Ea4. cbn [bind]. rewrite Ea5. cbn [bind]. rewrite Ea6. cbn [bind]. rewrite Ea7. cbn [bind]. exact Ea8.
    - unfold passes8. rewrite Eb1. cbn [bind]. rewrite Eb2. cbn [bind]. cbv zeta.
      rewrite Eb4. cbn [bind]. rewrite Eb5. cbn [bind]. rewrite Eb6. cbn [bind]. rewrite Eb7. cbn [bind]. exact Eb8.
    - unfold passes8. rewrite S1. cbn [bind]. rewrite S2. cbn [bind]. cbv zeta.
      rewrite S3, S4. cbn [bind]. rewrite S5. cbn [bind]. rewrite S6. cbn [bind]. rewrite S7. cbn [bind]. exact S8.
    - exact TA8.
    - exact TB8.
  Qed.

  (* ================= the prepend theorem for plain English ================= *)
  Variable pcode : punct -> N.
  Variable ncode : number -> N.
  Variable scode : num_suffix -> N.
  Notation doc_of := (doc_of pcode ncode scode).

  Lemma tiling_lies_in n ts : Tiling 0 n ts -> lies_in n ts.
  Proof.
    intros T. pose proof (tiling_in_range _ _ _ T) as R. pose proof (tiling_nonempty _ _ _ T) as Nn.
    unfold lies_in. rewrite Forall_forall in *. intros t Ht. specialize (R t Ht). specialize (Nn t Ht).
    cbn beta in *. lia.
  Qed.

  (* Document::new_plain_english(P ++ D) against Document::new_plain_english(D): every lint of D that starts at
     least two characters into D has the same context in both documents — under any two dictionaries, and
     although match_quotes pairs the quotation marks of D differently when P holds an odd number of them. *)
  Theorem plain_prepend P D :
    ends_para P -> no_leading_nl D ->
    exists B AB,
      document_plain u D = Ok B /\ document_plain u (P ++ D) = Ok AB /\
      forall wm wm' l, 2 <= sstart (Ignore.il_span l) ->
        Ignore.context (Ignore.shift_lint (length P) l) (doc_of wm' (P ++ D) AB) = Ignore.context l (doc_of wm D B).
  Proof.
    intros HP HD.
    destruct (plain_parse_split u nl_whitespace nl_not_numeric nl_not_alphabetic nl_not_lingual P D
                (ends_para_ends_nl P HP) HD) as (tp & td & Hp & Hd & Hpd).
    destruct (passes8_split P D tp td HP HD Hp Hd) as (a8 & b8 & Ea & Eb & Eab & TA & TB).
    destruct (match_quotes_any b8) as [B [EB [SBB _]]].
    destruct (match_quotes_any (a8 ++ map (shift_tk (length P)) b8)) as [AB [EAB [SBAB _]]].
    assert (TB9 : Tiling 0 (length D) B) by (destruct SBB as [S1 _]; eapply same_spans_tiling; [exact S1|exact TB]).
    assert (TG : Tiling 0 (length (P ++ D)) (a8 ++ map (shift_tk (length P)) b8)).
    { rewrite app_length. rewrite Nat.add_comm. apply tiling_glue; assumption. }
    assert (TAB9 : Tiling 0 (length (P ++ D)) AB)
      by (destruct SBAB as [S1 _]; eapply same_spans_tiling; [exact S1|exact TG]).
    exists B, AB. split; [|split].
    - unfold document_plain. rewrite Hd. cbn [bind]. rewrite document_passes_8, Eb. cbn [bind]. rewrite EB. cbn [bind].
      rewrite (word_lookup_ok D B TB9). reflexivity.
    - unfold document_plain. rewrite Hpd. cbn [bind].
      change (map (shift_token (length P)) td) with (map (shift_tk (length P)) td).
      rewrite document_passes_8, Eab. cbn [bind]. rewrite EAB. cbn [bind].
      rewrite (word_lookup_ok (P ++ D) AB TAB9). reflexivity.
    - intros wm wm' l H2.
      rewrite (context_requoted pcode ncode scode no_meta wm' _ _ AB _ EAB).
      rewrite (context_requoted pcode ncode scode no_meta wm _ _ B _ EB).
      rewrite (doc_of_glue pcode ncode scode P a8 (length P) b8 eq_refl D).
      apply C14EditProofs.context_prepend; [| |exact H2].
      + unfold IgnoreProofs.doc_wf. cbn [Ignore.dsrc Ignore.dtoks]. apply Forall_map.
        eapply Forall_impl; [|exact (tiling_lies_in _ _ TB)]. cbn beta. intros t Ht. exact Ht.
      + apply Forall_map. eapply Forall_impl; [|exact (tiling_lies_in _ _ TA)]. cbn beta. intros t [_ Ht]. exact Ht.
  Qed.
  (* hence: a lint of D that was ignored stays ignored after the paragraph P is put in front *)
  Theorem plain_prepend_stable P D :
    ends_para P -> no_leading_nl D ->
    exists B AB,
      document_plain u D = Ok B /\ document_plain u (P ++ D) = Ok AB /\
      forall (hash : Ignore.ctx -> N) wm wm' l s s1 hist s2, 2 <= sstart (Ignore.il_span l) ->
        Ignore.ignore_lint Ignore.context hash s l (doc_of wm D B) = Ok s1 ->
        Ignore.ignore_all Ignore.context hash s1 hist = Ok s2 ->
        Ignore.is_ignored Ignore.context hash s2 (Ignore.shift_lint (length P) l) (doc_of wm' (P ++ D) AB) = Ok true.
  Proof.
    intros HP HD. destruct (plain_prepend P D HP HD) as (B & AB & EB & EAB & H).
    exists B, AB. split; [exact EB|]. split; [exact EAB|].
    intros hash wm wm' l s s1 hist s2 H2 E1 E2.
    destruct (IgnoreProofs.ignore_lint_inv Ignore.context hash _ _ _ _ E1) as [c [Ec _]].
    apply (IgnoreProofs.same_context_stays_ignored Ignore.context hash s _ _ _ _ s1 hist s2 c Ec); [|exact E1|exact E2].
    rewrite (H wm wm' l H2). exact Ec.
  Qed.
End Split.

(* ================= non-vacuity ================= *)
(* M = QxQ an problem (Q = the double quotation mark), the lint on `an` (its windows: `Q ` before, ` p` after).  Before the edit nothing is in front;
   after it a vector with ONE quotation mark is: match_quotes pairs M's first quote with the new one and M's two
   quotes no longer with each other — the token vectors differ in twin_loc, the contexts are equal. *)
Definition ex_q (a : nat) : token := mktok (mkspan a (a + 1)) (KPunct (PQuote None)).
Definition ex_w (a b : nat) : token := mktok (mkspan a b) KWord.
Definition ex_s (a : nat) : token := mktok (mkspan a (a + 1)) (KSpace 1).
Definition ex_M : text := [34; 120; 34; 32; 97; 110; 32; 112; 114; 111; 98; 108; 101; 109]%N.
Definition ex_TM : list token := [ex_q 0; ex_w 1 2; ex_q 2; ex_s 3; ex_w 4 6; ex_s 6; ex_w 7 14].
Definition ex_X' : text := [34; 32]%N.
Definition ex_TX' : list token := [ex_q 0; ex_s 1].
Definition ex_l : Ignore.ilint := Ignore.mkilint (mkspan 4 6) 0%N [] [] 0%N.

Example context_edit_requoted_example :
  lies_in (length ex_M) ex_TM /\ ends_by 0 [] /\ ends_by (length ex_X') ex_TX' /\
  lies_behind (length ex_M) (length (ex_M ++ [])) [] /\
  2 <= sstart (Ignore.il_span ex_l) /\ sstart (Ignore.il_span ex_l) <= length ex_M /\
  send (Ignore.il_span ex_l) + 2 <= length ex_M /\
  (exists q q', match_quotes ([] ++ map (shift_tk 0) (ex_TM ++ [])) = Ok q /\
     match_quotes (ex_TX' ++ map (shift_tk (length ex_X')) (ex_TM ++ [])) = Ok q' /\
     nth_error q 2 = Some (mktok (mkspan 2 3) (KPunct (PQuote (Some 0)))) /\
     nth_error q' 4 = Some (mktok (mkspan 4 5) (KPunct (PQuote None)))).
Proof.
  unfold lies_in, ends_by, lies_behind.
  split; [repeat (first [apply Forall_nil | apply Forall_cons]); vm_compute; lia|].
  split; [apply Forall_nil|]. split; [repeat (first [apply Forall_nil | apply Forall_cons]); vm_compute; lia|].
  split; [apply Forall_nil|]. split; [vm_compute; lia|]. split; [vm_compute; lia|]. split; [vm_compute; lia|].
  eexists. eexists. split; [vm_compute; reflexivity|]. split; [vm_compute; reflexivity|].
  split; vm_compute; reflexivity.
Qed.

(* plain_prepend on a real text: P = QHm.\n\n (ONE quotation mark), D = QxQ an problem.  In the document of D the two
   marks of D are partners (token 0 <-> token 2); in the document of P ++ D the first mark of D (token 4) is the
   partner of P's mark (token 0) and D's second mark (token 6) has none.  The lint on `an` keeps its context. *)
Definition ex_P : text := [34; 72; 109; 46; 10; 10]%N.
Example plain_prepend_example :
  ends_para ex_P /\ no_leading_nl ex_M /\
  u_whitespace ascii_uni NL = true /\ u_numeric ascii_uni NL = false /\ u_alphabetic ascii_uni NL = false /\
  u_lingual ascii_uni NL = false /\
  exists B AB, document_plain ascii_uni ex_M = Ok B /\ document_plain ascii_uni (ex_P ++ ex_M) = Ok AB /\
    nth_error B 0 = Some (mktok (mkspan 0 1) (KPunct (PQuote (Some 2)))) /\
    nth_error B 2 = Some (mktok (mkspan 2 3) (KPunct (PQuote (Some 0)))) /\
    nth_error AB 4 = Some (mktok (mkspan 6 7) (KPunct (PQuote (Some 0)))) /\
    nth_error AB 6 = Some (mktok (mkspan 8 9) (KPunct (PQuote None))) /\
    2 <= sstart (Ignore.il_span ex_l).
Proof.
  split; [exists [34; 72; 109]%N, 46%N; split; [reflexivity|left; reflexivity]|].
  split; [unfold ex_M, no_leading_nl, NL; discriminate|].
  split; [vm_compute; reflexivity|]. split; [vm_compute; reflexivity|]. split; [vm_compute; reflexivity|].
  split; [vm_compute; reflexivity|].
  eexists. eexists. split; [vm_compute; reflexivity|]. split; [vm_compute; reflexivity|].
  split; [vm_compute; reflexivity|]. split; [vm_compute; reflexivity|]. split; [vm_compute; reflexivity|].
  split; [vm_compute; reflexivity|]. vm_compute. lia.
Qed.
