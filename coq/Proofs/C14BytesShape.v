(* C14BytesShape.v — C14, phase 5: the byte-level model (Model/C14Bytes.v) follows the declarations of the code.
   Over Tables_hashstream.v (regenerated from the Rust sources on every run by tools/tables/hashstream.py, which raises when
   a type no longer derives Hash, has a hand-written impl Hash, an explicit discriminant or a repr):
   the discriminants the model writes are the indices of the variants, the payloads and the struct fields (order and
   types) are the ones the model encodes.  Reordering an enum, adding a variant in the middle, adding / reordering /
   retyping a field breaks this theorem. *)
Require Import Base Suggestion Ignore C14Bytes Tables_hashstream.
From Coq Require Import String.
Local Open Scope string_scope.

Definition variant_at (tbl : list (string * string)) (d : N) : option (string * string) := nth_error tbl (N.to_nat d).
(* every variant but the listed ones carries no data *)
Definition fieldless_but (tbl : list (string * string)) (names : list string) : bool :=
  forallb (fun v => existsb (String.eqb (fst v)) names || String.eqb (snd v) "") tbl.

Theorem bytes_model_has_the_shape_of_the_code :
  hs_all_derive_hash = true /\ hs_default_hasher_over_derived_hash = true /\
  (* LintContext / FatToken / Number / Quote: enc_ctx, enc_ftok, enc_kind (KNumber, KQuote) *)
  hs_lint_context = [("lint_kind", "LintKind"); ("suggestions", "Vec<Suggestion>"); ("message", "String");
                     ("priority", "u8"); ("tokens", "Vec<FatToken>")] /\
  hs_fat_token = [("content", "Vec<char>"); ("kind", "TokenKind")] /\
  hs_number = [("value", "OrderedFloat<f64>"); ("suffix", "Option<NumberSuffix>"); ("radix", "u32"); ("precision", "usize")] /\
  hs_quote = [("twin_loc", "Option<usize>")] /\
  (* TokenKind *)
  variant_at hs_token_kind d_tk_word = Some ("Word", "Option<WordMetadata>") /\
  variant_at hs_token_kind d_tk_punct = Some ("Punctuation", "Punctuation") /\
  variant_at hs_token_kind d_tk_decade = Some ("Decade", "") /\
  variant_at hs_token_kind d_tk_number = Some ("Number", "Number") /\
  variant_at hs_token_kind d_tk_space = Some ("Space", "usize") /\
  variant_at hs_token_kind d_tk_newline = Some ("Newline", "usize") /\
  variant_at hs_token_kind d_tk_email = Some ("EmailAddress", "") /\
  variant_at hs_token_kind d_tk_url = Some ("Url", "") /\
  variant_at hs_token_kind d_tk_hostname = Some ("Hostname", "") /\
  variant_at hs_token_kind d_tk_unlintable = Some ("Unlintable", "") /\
  variant_at hs_token_kind d_tk_parbreak = Some ("ParagraphBreak", "") /\
  variant_at hs_token_kind d_tk_regexish = Some ("Regexish", "") /\
  List.length hs_token_kind = 12 /\
  (* Punctuation: Quote(Quote) and Currency(Currency) carry data, nothing else does; indices below 64 (enc_punct) *)
  variant_at hs_punctuation d_p_quote = Some ("Quote", "Quote") /\
  variant_at hs_punctuation d_p_currency = Some ("Currency", "Currency") /\
  fieldless_but hs_punctuation ["Quote"; "Currency"] = true /\
  List.length hs_punctuation < 64 /\
  fieldless_but hs_currency [] = true /\ fieldless_but hs_number_suffix [] = true /\ fieldless_but hs_lint_kind [] = true /\
  (* Suggestion *)
  variant_at hs_suggestion d_s_replace = Some ("ReplaceWith", "Vec<char>") /\
  variant_at hs_suggestion d_s_insert = Some ("InsertAfter", "Vec<char>") /\
  variant_at hs_suggestion d_s_remove = Some ("Remove", "") /\
  List.length hs_suggestion = 3.
Proof. repeat split; vm_compute; try reflexivity; lia. Qed.
