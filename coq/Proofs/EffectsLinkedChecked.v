(* EffectsLinkedChecked.v — the checkers of Model/EffectsLinked.v evaluated (vm_compute) on the GENERATED
   Tables_effects.linked_graph (what `cargo metadata --offline --locked --filter-platform …` resolves NOW), lifted to
   Prop by Proofs/EffectsLinkedProofs.v.  Re-checked on every ./check C10. *)
Require Import Base EffectsBase Effects Tables_effects EffectsProofs EffectsLinked EffectsLinkedProofs.
From Coq Require Import String.
Open Scope string_scope.
Open Scope list_scope.

(* diagnostics for the build log: what the checkers object to (empty when they pass) *)
Eval vm_compute in
  (filter (fun c => negb (class_ok_in net_capable_linked process_linked workspace_members crate_class c))
          (reach_set linked_graph ship_roots)).
Eval vm_compute in
  (filter (fun kd => negb (forallb (fun d => pmem d (deps lock_graph (fst kd))) (snd kd))) linked_graph).

Lemma linked_crates_checked :
  check_crates_in net_capable_linked process_linked linked_graph crate_class workspace_members ship_roots = true.
Proof. vm_compute. reflexivity. Qed.

Lemma linked_subgraph_checked : subgraph linked_graph lock_graph = true.
Proof. vm_compute. reflexivity. Qed.

Lemma no_client_crate_linked : forall c, Reach linked_graph ship_roots c ->
  CrateOkIn net_capable_linked process_linked workspace_members crate_class c.
Proof. exact (check_crates_in_sound _ _ _ _ _ _ linked_crates_checked). Qed.

Lemma linked_reachable_exact : forall c, Reach linked_graph ship_roots c <-> In c (reach_set linked_graph ship_roots).
Proof. exact (check_crates_in_reach_exact _ _ _ _ _ _ linked_crates_checked). Qed.

Lemma linked_within_lock : forall c, Reach linked_graph ship_roots c -> Reach lock_graph ship_roots c.
Proof. exact (subgraph_reach _ _ _ linked_subgraph_checked). Qed.

(* non-vacuity / what the smaller graph buys: the runtime IS linked, the foreign-platform bindings are NOT *)
Lemma linked_nontrivial :
  200 <= List.length (reach_set linked_graph ship_roots) /\
  List.length (reach_set linked_graph ship_roots) < List.length (reach_set lock_graph ship_roots) /\
  smem "tokio" (names_of (reach_set linked_graph ship_roots)) = true /\
  smem "open" (names_of (reach_set linked_graph ship_roots)) = true /\
  forallb (fun n => negb (smem n (names_of (reach_set linked_graph ship_roots))))
          ["winapi"; "windows-sys"; "wasi"; "hermit-abi"; "redox_users"; "redox_syscall"; "criterion"] = true /\
  existsb (fun n => smem n (names_of (reach_set lock_graph ship_roots))) ["winapi"; "windows-sys"; "wasi"] = true.
Proof. vm_compute. repeat split; try reflexivity; repeat constructor. Qed.
