(* PosConvProofs.v — proofs about Model/PosConv.v (C08).
   Plan: every text splits as  P ++ rest  where P is a sequence of complete lines (`complete`: empty
   or ending in '\n') — the code's newline-index vectors and the specification's skip_lines/walk_col
   are both characterised on that decomposition, then compared. *)
Require Import Base Suggestion PosConv ListLemmas SuggestionProofs.

(* ------------------------------------------------------------------------------------------ *)
(*  vocabulary                                                                                  *)
(* ------------------------------------------------------------------------------------------ *)
Definition nonl (s : text) : Prop := Forall (fun c => is_nl c = false) s.
Definition complete (P : text) : Prop := P = [] \/ exists P', P = P' ++ [NL].

Lemma is_nl_NL : is_nl NL = true.
Proof. reflexivity. Qed.

Lemma is_nl_true c : is_nl c = true -> c = NL.
Proof. unfold is_nl, NL. intros H. now apply N.eqb_eq in H. Qed.

Lemma len_utf16_pos c : 1 <= len_utf16 c.
Proof. unfold len_utf16. destruct (c <? 65536)%N; lia. Qed.

Lemma len_utf16_le2 c : len_utf16 c <= 2.
Proof. unfold len_utf16. destruct (c <? 65536)%N; lia. Qed.

Lemma nonl_nil : nonl [].
Proof. constructor. Qed.

Lemma nonl_cons c s : is_nl c = false -> nonl s -> nonl (c :: s).
Proof. intros; now constructor. Qed.

Lemma nonl_inv c s : nonl (c :: s) -> is_nl c = false /\ nonl s.
Proof. intros H; inversion H; subst; now split. Qed.

Lemma nonl_app a b : nonl a -> nonl b -> nonl (a ++ b).
Proof. intros; now apply Forall_app. Qed.

Lemma nonl_app_inv a b : nonl (a ++ b) -> nonl a /\ nonl b.
Proof. intros H; now apply Forall_app in H. Qed.

Lemma nonl_firstn k s : nonl s -> nonl (firstn k s).
Proof.
  intros H. rewrite <- (firstn_skipn k s) in H. now apply nonl_app_inv in H.
Qed.

Lemma nonl_skipn k s : nonl s -> nonl (skipn k s).
Proof.
  intros H. rewrite <- (firstn_skipn k s) in H. now apply nonl_app_inv in H.
Qed.

(* count_nl *)
Lemma count_nl_cons c s : count_nl (c :: s) = (if is_nl c then 1 else 0) + count_nl s.
Proof. unfold count_nl. cbn [filter]. destruct (is_nl c); reflexivity. Qed.

Lemma count_nl_app a b : count_nl (a ++ b) = count_nl a + count_nl b.
Proof. unfold count_nl. now rewrite filter_app, app_length. Qed.

Lemma count_nl_nonl s : nonl s -> count_nl s = 0.
Proof.
  induction s as [|c s IH]; intros H; [reflexivity|].
  apply nonl_inv in H as [Hc Hs]. rewrite count_nl_cons, Hc. now apply IH.
Qed.

Lemma count_nl_0_nonl s : count_nl s = 0 -> nonl s.
Proof.
  induction s as [|c s IH]; intros H; [constructor|].
  rewrite count_nl_cons in H. destruct (is_nl c) eqn:E; [discriminate|].
  apply nonl_cons; [exact E|apply IH; exact H].
Qed.

Lemma count_nl_snoc P : count_nl (P ++ [NL]) = S (count_nl P).
Proof. rewrite count_nl_app. cbn. lia. Qed.

Lemma complete_count_0 P : complete P -> count_nl P = 0 -> P = [].
Proof.
  intros [->|[P' ->]] H; [reflexivity|]. rewrite count_nl_snoc in H. discriminate.
Qed.

Lemma complete_nil : complete [].
Proof. now left. Qed.

Lemma complete_snoc P : complete (P ++ [NL]).
Proof. right. now exists P. Qed.

Lemma complete_cons c P : complete P -> P <> [] -> complete (c :: P).
Proof.
  intros [->|[P' ->]] Hne; [congruence|]. right. now exists (c :: P').
Qed.

Lemma complete_line_app P ln : complete (P ++ ln ++ [NL]).
Proof. rewrite app_assoc. apply complete_snoc. Qed.

(* sum_utf16 *)
Lemma sum_utf16_cons c s : sum_utf16 (c :: s) = len_utf16 c + sum_utf16 s.
Proof. reflexivity. Qed.

Lemma sum_utf16_app a b : sum_utf16 (a ++ b) = sum_utf16 a + sum_utf16 b.
Proof.
  induction a as [|c a IH]; [reflexivity|].
  cbn [app]. rewrite !sum_utf16_cons, IH. lia.
Qed.

Lemma sum_utf16_0 s : sum_utf16 s = 0 -> s = [].
Proof.
  destruct s as [|c s]; [reflexivity|]. rewrite sum_utf16_cons.
  pose proof (len_utf16_pos c). lia.
Qed.

Lemma sum_utf16_ge_length s : length s <= sum_utf16 s.
Proof.
  induction s as [|c s IH]; [cbn; lia|]. rewrite sum_utf16_cons. cbn [length].
  pose proof (len_utf16_pos c). lia.
Qed.

(* ------------------------------------------------------------------------------------------ *)
(*  decomposition of a text into complete lines and a rest                                      *)
(* ------------------------------------------------------------------------------------------ *)

(* the first line of r: either r has no newline, or r = ln ++ '\n' :: r' with ln newline-free *)
Lemma first_line (r : text) :
  nonl r \/ exists ln r', r = ln ++ NL :: r' /\ nonl ln.
Proof.
  induction r as [|c r IH]; [left; constructor|].
  destruct (is_nl c) eqn:E.
  - right. exists [], r. split; [|constructor]. apply is_nl_true in E. now subst.
  - destruct IH as [H|[ln [r' [-> Hln]]]].
    + left. now apply nonl_cons.
    + right. exists (c :: ln), r'. split; [reflexivity|now apply nonl_cons].
Qed.

(* the text before index-of-line l: P is l complete lines, or there are fewer than l newlines *)
Lemma split_at_line (t : text) (l : nat) :
  (exists P r, t = P ++ r /\ complete P /\ count_nl P = l) \/ count_nl t < l.
Proof.
  induction l as [|l IH].
  - left. exists [], t. repeat split. apply complete_nil.
  - destruct IH as [[P [r [-> [HP Hc]]]]|Hlt]; [|right; lia].
    destruct (first_line r) as [Hr|[ln [r' [-> Hln]]]].
    + right. rewrite count_nl_app, (count_nl_nonl r Hr). lia.
    + left. exists (P ++ ln ++ [NL]), r'. split; [|split].
      * now rewrite <- !app_assoc.
      * apply complete_line_app.
      * rewrite app_assoc, count_nl_snoc, count_nl_app, (count_nl_nonl ln Hln). lia.
Qed.

(* a prefix `before` = complete lines ++ an unfinished line *)
Lemma split_last_line (b : text) :
  exists P ln, b = P ++ ln /\ complete P /\ nonl ln.
Proof.
  induction b as [|c b IH] using rev_ind.
  - exists [], []. repeat split; [apply complete_nil|constructor].
  - destruct IH as [P [ln [-> [HP Hln]]]].
    destruct (is_nl c) eqn:E.
    + apply is_nl_true in E. subst c.
      exists ((P ++ ln) ++ [NL]), []. split; [now rewrite app_nil_r|]. split; [apply complete_snoc|constructor].
    + exists P, (ln ++ [c]). split; [now rewrite app_assoc|]. split; [exact HP|].
      apply nonl_app; [exact Hln|]. apply nonl_cons; [exact E|constructor].
Qed.

(* a non-empty sequence of complete lines ends in a complete line *)
Lemma complete_last_line (P : text) :
  complete P -> P <> [] -> exists Q ln0, P = Q ++ ln0 ++ [NL] /\ complete Q /\ nonl ln0.
Proof.
  intros [->|[P' ->]] Hne; [congruence|].
  destruct (split_last_line P') as [Q [ln0 [-> [HQ Hln0]]]].
  exists Q, ln0. split; [now rewrite app_assoc|]. now split.
Qed.

(* ------------------------------------------------------------------------------------------ *)
(*  the newline-index vector                                                                    *)
(* ------------------------------------------------------------------------------------------ *)
Lemma nli_app b x y :
  newline_indices_from b (x ++ y) = newline_indices_from b x ++ newline_indices_from (b + length x) y.
Proof.
  revert b. induction x as [|c x IH]; intros b.
  - cbn. now rewrite Nat.add_0_r.
  - cbn [app newline_indices_from length]. rewrite IH.
    replace (S b + length x) with (b + S (length x)) by lia.
    destruct (is_nl c); reflexivity.
Qed.

Lemma nli_nonl b s : nonl s -> newline_indices_from b s = [].
Proof.
  revert b. induction s as [|c s IH]; intros b H; [reflexivity|].
  apply nonl_inv in H as [Hc Hs]. cbn [newline_indices_from]. rewrite Hc. now apply IH.
Qed.

Lemma nli_length b s : length (newline_indices_from b s) = count_nl s.
Proof.
  revert b. induction s as [|c s IH]; intros b; [reflexivity|].
  cbn [newline_indices_from]. rewrite count_nl_cons.
  destruct (is_nl c); cbn [length]; rewrite IH; reflexivity.
Qed.

Lemma nli_line b ln r :
  nonl ln ->
  newline_indices_from b (ln ++ NL :: r) = S (b + length ln) :: newline_indices_from (S (b + length ln)) r.
Proof.
  intros H. rewrite nli_app, (nli_nonl b ln H). cbn [app newline_indices_from]. now rewrite is_nl_NL.
Qed.

Lemma last_snoc {A} (l : list A) x d : last (l ++ [x]) d = x.
Proof. apply last_last. Qed.

(* the vector of a sequence of complete lines ends with its length *)
Lemma nli_complete_last b P d :
  complete P -> last (newline_indices_from b P) d = match P with [] => d | _ => b + length P end.
Proof.
  intros [->|[P' ->]]; [reflexivity|].
  rewrite nli_app. cbn [newline_indices_from]. rewrite is_nl_NL.
  rewrite last_snoc. rewrite app_length. cbn [length].
  destruct (P' ++ [NL]) eqn:E; [now destruct P'|]. lia.
Qed.

Lemma nli_complete_last0 P : complete P -> last (newline_indices P) 0 = length P.
Proof.
  intros H. unfold newline_indices. rewrite (nli_complete_last 0 P 0 H). now destruct P.
Qed.

(* ------------------------------------------------------------------------------------------ *)
(*  slices                                                                                      *)
(* ------------------------------------------------------------------------------------------ *)
Lemma slice_chk_ok {A} (l : list A) a b : a <= b -> b <= length l -> slice_chk l a b = Ok (slice l a b).
Proof.
  intros H1 H2. unfold slice_chk, slice.
  destruct (b <? a) eqn:E1; [apply Nat.ltb_lt in E1; lia|].
  destruct (length l <? b) eqn:E2; [apply Nat.ltb_lt in E2; lia|]. reflexivity.
Qed.

Lemma slice_mid {A} (x y z : list A) : slice (x ++ y ++ z) (length x) (length x + length y) = y.
Proof.
  unfold slice. rewrite skipn_app_exact by reflexivity.
  replace (length x + length y - length x) with (length y) by lia.
  now apply firstn_app_exact.
Qed.

Lemma slice_chk_mid {A} (x y z : list A) a b :
  a = length x -> b = length x + length y -> slice_chk (x ++ y ++ z) a b = Ok y.
Proof.
  intros -> ->. rewrite slice_chk_ok; [now rewrite slice_mid|lia|rewrite !app_length; lia].
Qed.

(* ------------------------------------------------------------------------------------------ *)
(*  index_to_position: characterisation, soundness, totality                                    *)
(* ------------------------------------------------------------------------------------------ *)
Lemma index_to_position_parts (P ln after : text) :
  complete P -> nonl ln ->
  index_to_position (P ++ ln ++ after) (length P + length ln) = Ok (count_nl P, sum_utf16 ln).
Proof.
  intros HP Hln. unfold index_to_position.
  assert (slice_chk (P ++ ln ++ after) 0 (length P + length ln) = Ok (P ++ ln)) as ->.
  { rewrite app_assoc. change ((P ++ ln) ++ after) with ([] ++ (P ++ ln) ++ after).
    apply slice_chk_mid; [reflexivity|]. rewrite app_length. reflexivity. }
  cbn [bind]. unfold newline_indices. rewrite nli_app, (nli_nonl _ ln Hln), app_nil_r.
  rewrite nli_length. fold (newline_indices P). rewrite (nli_complete_last0 P HP).
  rewrite (slice_chk_mid P ln after) by reflexivity. reflexivity.
Qed.

(* the specification side on the same decomposition *)
Lemma skip_lines_line (P r : text) (l : nat) :
  skip_lines (P ++ NL :: r) (S (count_nl P + l)) = skip_lines r l.
Proof.
  induction P as [|c P IH].
  - cbn [app count_nl skip_lines]. now rewrite is_nl_NL.
  - cbn [app]. rewrite count_nl_cons. destruct (is_nl c) eqn:E.
    + cbn [skip_lines]. rewrite E. exact IH.
    + cbn [skip_lines]. rewrite E. exact IH.
Qed.

Lemma skip_lines_complete (P r : text) : complete P -> skip_lines (P ++ r) (count_nl P) = Some r.
Proof.
  intros [->|[P' ->]].
  - cbn. now destruct r.
  - rewrite count_nl_snoc, <- app_assoc. cbn [app].
    rewrite <- (Nat.add_0_r (count_nl P')). rewrite skip_lines_line. now destruct r.
Qed.

Lemma walk_col_prefix (ln after : text) :
  nonl ln -> walk_col (ln ++ after) (sum_utf16 ln) = Some (length ln).
Proof.
  induction ln as [|c ln IH]; intros H.
  - cbn. now destruct after.
  - apply nonl_inv in H as [Hc Hl]. rewrite sum_utf16_cons. cbn [app].
    pose proof (len_utf16_pos c) as Hp.
    destruct (len_utf16 c + sum_utf16 ln) as [|n] eqn:En; [lia|].
    cbn [walk_col]. rewrite Hc. rewrite <- En.
    destruct (len_utf16 c + sum_utf16 ln <? len_utf16 c) eqn:E; [apply Nat.ltb_lt in E; lia|].
    replace (len_utf16 c + sum_utf16 ln - len_utf16 c) with (sum_utf16 ln) by lia.
    rewrite (IH Hl). reflexivity.
Qed.

Lemma resolve_parts (P ln after : text) :
  complete P -> nonl ln ->
  resolve (P ++ ln ++ after) (count_nl P, sum_utf16 ln) = Some (length P + length ln).
Proof.
  intros HP Hln. unfold resolve. cbn [fst snd].
  rewrite (skip_lines_complete P (ln ++ after) HP). rewrite (walk_col_prefix ln after Hln).
  f_equal. rewrite !app_length. lia.
Qed.

(* every index inside the text (or at its end) decomposes *)
Lemma decompose_at (t : text) (i : nat) :
  i <= length t ->
  exists P ln after, t = P ++ ln ++ after /\ complete P /\ nonl ln /\ i = length P + length ln.
Proof.
  intros Hi. destruct (split_last_line (firstn i t)) as [P [ln [E [HP Hln]]]].
  exists P, ln, (skipn i t). split; [|split; [exact HP|split; [exact Hln|]]].
  - rewrite app_assoc, <- E. now rewrite firstn_skipn.
  - rewrite <- app_length, <- E. rewrite firstn_length. lia.
Qed.

Theorem index_to_position_sound (t : text) (i : nat) :
  i <= length t ->
  exists p, index_to_position t i = Ok p /\ resolve t p = Some i.
Proof.
  intros Hi. destruct (decompose_at t i Hi) as [P [ln [after [-> [HP [Hln ->]]]]]].
  exists (count_nl P, sum_utf16 ln). split.
  - now apply index_to_position_parts.
  - now apply resolve_parts.
Qed.

(* the position is the LSP one: line = number of newlines before i, character = UTF-16 length
   (astral characters count 2) of the text between the last newline before i and i *)
Theorem index_to_position_value (t : text) (i : nat) :
  i <= length t ->
  exists P ln, firstn i t = P ++ ln /\ complete P /\ nonl ln /\
    index_to_position t i = Ok (count_nl (firstn i t), sum_utf16 ln).
Proof.
  intros Hi. destruct (decompose_at t i Hi) as [P [ln [after [-> [HP [Hln ->]]]]]].
  exists P, ln.
  assert (firstn (length P + length ln) (P ++ ln ++ after) = P ++ ln) as E.
  { rewrite app_assoc. apply firstn_app_exact. now rewrite app_length. }
  rewrite E. split; [reflexivity|]. split; [exact HP|]. split; [exact Hln|].
  rewrite count_nl_app, (count_nl_nonl ln Hln), Nat.add_0_r.
  now apply index_to_position_parts.
Qed.

Theorem index_to_position_total (t : text) (i : nat) :
  i <= length t -> is_ok (index_to_position t i) = true.
Proof.
  intros Hi. destruct (index_to_position_sound t i Hi) as [p [E _]]. now rewrite E.
Qed.

(* and it panics exactly when the index lies beyond the text (the slice &source[0..index]) *)
Theorem index_to_position_rejects (t : text) (i : nat) :
  length t < i -> index_to_position t i = Panic PIndex.
Proof.
  intros Hi. unfold index_to_position, slice_chk.
  destruct (length t <? i) eqn:E; [|apply Nat.ltb_ge in E; lia].
  now rewrite orb_true_r.
Qed.

Theorem span_to_range_sound (t : text) (sp : span) :
  span_in (length t) sp ->
  exists pa pb, span_to_range t sp = Ok (pa, pb) /\
    resolve t pa = Some (sstart sp) /\ resolve t pb = Some (send sp).
Proof.
  intros [H1 H2]. unfold span_to_range.
  destruct (index_to_position_sound t (sstart sp)) as [pa [Ea Ra]]; [lia|].
  destruct (index_to_position_sound t (send sp)) as [pb [Eb Rb]]; [lia|].
  exists pa, pb. rewrite Ea, Eb. cbn [bind]. now repeat split.
Qed.

Theorem span_to_range_total (t : text) (sp : span) :
  span_in (length t) sp -> is_ok (span_to_range t sp) = true.
Proof.
  intros H. destruct (span_to_range_sound t sp H) as [pa [pb [E _]]]. now rewrite E.
Qed.

(* ------------------------------------------------------------------------------------------ *)
(*  position_to_index: the column loop (shared by the current code and the pre-229693d code)     *)
(* ------------------------------------------------------------------------------------------ *)
(* what position_to_index answers once line_start_idx and the line's characters are fixed *)
Definition col_result (start : nat) (seg : text) (col : nat) : nat :=
  match col_loop seg col 0 0 with
  | inl k => start + k
  | inr cols => if 0 <? cols then start + length seg else start
  end.

(* the target column is reached after exactly the characters of `pre`: the loop returns there *)
Lemma col_loop_hit (pre : text) c rest target cols k0 :
  cols + sum_utf16 pre = target ->
  col_loop (pre ++ c :: rest) target cols k0 = inl (k0 + length pre).
Proof.
  revert cols k0. induction pre as [|d pre IH]; intros cols k0 H.
  - cbn in H. cbn [app col_loop length]. rewrite Nat.add_0_r in H. subst.
    rewrite Nat.eqb_refl. now rewrite Nat.add_0_r.
  - rewrite sum_utf16_cons in H. pose proof (len_utf16_pos d) as Hp.
    cbn [app col_loop]. destruct (cols =? target) eqn:E; [apply Nat.eqb_eq in E; lia|].
    rewrite IH by lia. cbn [length]. f_equal. lia.
Qed.

(* the target column is not reached before the end of the segment: the loop falls through *)
Lemma col_loop_miss (seg : text) target cols k0 :
  cols + sum_utf16 seg <= target -> col_loop seg target cols k0 = inr (cols + sum_utf16 seg).
Proof.
  revert cols k0. induction seg as [|d seg IH]; intros cols k0 H.
  - cbn. now rewrite Nat.add_0_r.
  - rewrite sum_utf16_cons in *. pose proof (len_utf16_pos d) as Hp.
    cbn [col_loop]. destruct (cols =? target) eqn:E; [apply Nat.eqb_eq in E; lia|].
    rewrite IH by lia. f_equal. lia.
Qed.

Lemma col_loop_inl_bound (seg : text) target cols k0 k :
  col_loop seg target cols k0 = inl k -> k0 <= k < k0 + length seg.
Proof.
  revert cols k0. induction seg as [|d seg IH]; intros cols k0 H; [discriminate|].
  cbn [col_loop] in H. cbn [length]. destruct (cols =? target).
  - injection H as <-. lia.
  - apply IH in H. lia.
Qed.

Lemma col_result_bound start seg col : start <= col_result start seg col <= start + length seg.
Proof.
  unfold col_result. destruct (col_loop seg col 0 0) as [k|cols] eqn:E.
  - apply col_loop_inl_bound in E. lia.
  - destruct (0 <? cols); lia.
Qed.

Lemma col_result_0 start c seg : col_result start (c :: seg) 0 = start.
Proof. unfold col_result. cbn. lia. Qed.

(* a column that is the UTF-16 length of a prefix of the line, with something after the prefix *)
Lemma col_result_inside start (pre : text) c rest :
  col_result start (pre ++ c :: rest) (sum_utf16 pre) = start + length pre.
Proof.
  unfold col_result. rewrite (col_loop_hit pre c rest (sum_utf16 pre) 0 0) by reflexivity. reflexivity.
Qed.

(* the column at the very end of the segment *)
Lemma col_result_end start (seg : text) : col_result start seg (sum_utf16 seg) = start + length seg.
Proof.
  unfold col_result. rewrite (col_loop_miss seg (sum_utf16 seg) 0 0) by (cbn; lia). cbn [plus].
  destruct (0 <? sum_utf16 seg) eqn:E; [reflexivity|].
  apply Nat.ltb_ge in E. assert (sum_utf16 seg = 0) as Z by lia.
  apply sum_utf16_0 in Z. subst. cbn. lia.
Qed.

(* a column beyond the end of a non-empty segment: clamped to its end *)
Lemma col_result_past start (seg : text) col :
  seg <> [] -> sum_utf16 seg <= col -> col_result start seg col = start + length seg.
Proof.
  intros Hne H. unfold col_result. rewrite (col_loop_miss seg col 0 0) by (cbn; lia). cbn [plus].
  destruct (0 <? sum_utf16 seg) eqn:E; [reflexivity|].
  apply Nat.ltb_ge in E. assert (sum_utf16 seg = 0) as Z by lia.
  apply sum_utf16_0 in Z. congruence.
Qed.

(* ------------------------------------------------------------------------------------------ *)
(*  which line the two pops select — first for position_to_index_old (the code before 229693d, *)
(*  to which the current code is reduced outside the final line: fix_confined below)            *)
(* ------------------------------------------------------------------------------------------ *)
Lemma p2i_unfold (t : text) (nl : list nat) (col : nat) seg (s e : nat) :
  last nl (length t) = e -> last (removelast nl) 0 = s -> slice_chk t s e = Ok seg -> e = s + length seg ->
  (let '(line_end_idx, nl1) := pop_or nl (length t) in
   let '(line_start_idx, _) := pop_or nl1 0 in
   do seg <- slice_chk t line_start_idx line_end_idx;
   match col_loop seg col 0 0 with
   | inl k => Ok (line_start_idx + k)
   | inr cols => if 0 <? cols then Ok line_end_idx else Ok line_start_idx
   end) = Ok (col_result s seg col).
Proof.
  intros He Hs Hseg Hlen. unfold pop_or. rewrite He, Hs, Hseg. cbn [bind]. unfold col_result.
  destruct (col_loop seg col 0 0) as [k|cols]; [reflexivity|].
  destruct (0 <? cols); [now rewrite Hlen|reflexivity].
Qed.

(* (A) line `line` exists and is terminated by a newline *)
Lemma p2i_terminated (P ln r : text) (line col : nat) :
  complete P -> count_nl P = line -> nonl ln ->
  position_to_index_old (P ++ ln ++ NL :: r) line col = Ok (col_result (length P) (ln ++ [NL]) col).
Proof.
  intros HP Hc Hln. unfold position_to_index_old.
  set (t := P ++ ln ++ NL :: r).
  assert (firstn (line + 1) (newline_indices t) = newline_indices P ++ [S (length P + length ln)]) as Hnl.
  { unfold t, newline_indices. rewrite nli_app. cbn [plus]. rewrite (nli_line (length P) ln r Hln).
    rewrite firstn_app. rewrite nli_length, Hc.
    rewrite firstn_all2 by (rewrite nli_length; lia).
    replace (line + 1 - line) with 1 by lia. reflexivity. }
  rewrite Hnl. apply p2i_unfold with (e := S (length P + length ln)).
  - apply last_snoc.
  - rewrite removelast_last. apply (nli_complete_last0 P HP).
  - unfold t. change (NL :: r) with ([NL] ++ r). rewrite (app_assoc ln [NL] r).
    apply slice_chk_mid; [reflexivity|]. rewrite app_length. cbn [length]. lia.
  - rewrite app_length. cbn [length]. lia.
Qed.

(* (B) no newline in the text at all: the whole text, whatever the line number *)
Lemma p2i_single_line (t : text) (line col : nat) :
  nonl t -> position_to_index_old t line col = Ok (col_result 0 t col).
Proof.
  intros Ht. unfold position_to_index_old, newline_indices. rewrite (nli_nonl 0 t Ht).
  rewrite firstn_nil. apply p2i_unfold with (e := length t).
  - reflexivity.
  - reflexivity.
  - rewrite slice_chk_ok by lia. unfold slice. rewrite Nat.sub_0_r. cbn [skipn]. now rewrite firstn_all.
  - reflexivity.
Qed.

(* (C) at least one but at most `line` newlines: the LAST TERMINATED line is selected, whatever
   follows it — for line = count_nl t this is the line before the one asked for (F9, fixed since) *)
Lemma p2i_last_terminated (Q ln0 ln : text) (line col : nat) :
  complete Q -> nonl ln0 -> nonl ln -> count_nl Q + 1 <= line ->
  position_to_index_old (Q ++ ln0 ++ NL :: ln) line col = Ok (col_result (length Q) (ln0 ++ [NL]) col).
Proof.
  intros HQ Hln0 Hln Hc. unfold position_to_index_old.
  set (t := Q ++ ln0 ++ NL :: ln).
  assert (firstn (line + 1) (newline_indices t) = newline_indices Q ++ [S (length Q + length ln0)]) as Hnl.
  { unfold t, newline_indices. rewrite nli_app. cbn [plus]. rewrite (nli_line (length Q) ln0 ln Hln0).
    rewrite (nli_nonl _ ln Hln). apply firstn_all2.
    rewrite app_length, nli_length. cbn [length]. lia. }
  rewrite Hnl. apply p2i_unfold with (e := S (length Q + length ln0)).
  - apply last_snoc.
  - rewrite removelast_last. apply (nli_complete_last0 Q HQ).
  - unfold t. change (NL :: ln) with ([NL] ++ ln). rewrite (app_assoc ln0 [NL] ln).
    apply slice_chk_mid; [reflexivity|]. rewrite app_length. cbn [length]. lia.
  - rewrite app_length. cbn [length]. lia.
Qed.

(* every (text, line) is in one of the three cases *)
Lemma p2i_cases (t : text) (line : nat) :
  (exists P ln r, t = P ++ ln ++ NL :: r /\ complete P /\ count_nl P = line /\ nonl ln)
  \/ nonl t
  \/ (exists Q ln0 ln, t = Q ++ ln0 ++ NL :: ln /\ complete Q /\ nonl ln0 /\ nonl ln /\ count_nl Q + 1 <= line).
Proof.
  destruct (split_last_line t) as [P [ln [-> [HP Hln]]]].
  destruct P as [|c0 P0] eqn:EP.
  - right. left. exact Hln.
  - rewrite <- EP in *. assert (P <> []) as Hne by (subst; discriminate). clear EP.
    destruct (complete_last_line P HP Hne) as [Q [ln0 [-> [HQ Hln0]]]].
    (* count_nl t = count_nl Q + 1 *)
    destruct (Nat.le_gt_cases (count_nl Q + 1) line) as [Hle|Hgt].
    + right. right. exists Q, ln0, ln. split; [now rewrite <- !app_assoc|]. now repeat split.
    + left. destruct (split_at_line ((Q ++ ln0 ++ [NL]) ++ ln) line) as [[P1 [r1 [E [HP1 Hc1]]]]|Hlt].
      * destruct (first_line r1) as [Hr1|[l1 [r' [-> Hl1]]]].
        -- exfalso. assert (count_nl ((Q ++ ln0 ++ [NL]) ++ ln) = count_nl P1) as Ec
             by (rewrite E, count_nl_app, (count_nl_nonl r1 Hr1); lia).
           rewrite !count_nl_app, (count_nl_nonl ln Hln), (count_nl_nonl ln0 Hln0) in Ec. cbn in Ec. lia.
        -- exists P1, l1, r'. now repeat split.
      * exfalso. rewrite !count_nl_app, (count_nl_nonl ln Hln), (count_nl_nonl ln0 Hln0) in Hlt. cbn in Hlt. lia.
Qed.

(* totality: position_to_index_old never panics, on any text and any position, and answers an index
   inside the text (or its end) *)
Theorem position_to_index_old_total (t : text) (line col : nat) :
  exists i, position_to_index_old t line col = Ok i /\ i <= length t.
Proof.
  destruct (p2i_cases t line) as [[P [ln [r [-> [HP [Hc Hln]]]]]]|[Ht|[Q [ln0 [ln [-> [HQ [Hln0 [Hln Hc]]]]]]]]].
  - eexists. split; [now apply p2i_terminated|].
    pose proof (col_result_bound (length P) (ln ++ [NL]) col) as B.
    rewrite !app_length in *. cbn [length] in *. lia.
  - eexists. split; [now apply p2i_single_line|].
    pose proof (col_result_bound 0 t col) as B. lia.
  - eexists. split; [now apply p2i_last_terminated|].
    pose proof (col_result_bound (length Q) (ln0 ++ [NL]) col) as B.
    rewrite !app_length in *. cbn [length] in *. lia.
Qed.

(* ------------------------------------------------------------------------------------------ *)
(*  what a valid position is (inversion of the specification)                                   *)
(* ------------------------------------------------------------------------------------------ *)
Lemma skip_lines_inv (t : text) : forall l rest,
  skip_lines t l = Some rest -> exists P, t = P ++ rest /\ complete P /\ count_nl P = l.
Proof.
  induction t as [|c t IH]; intros l rest H.
  - destruct l; [|discriminate]. injection H as <-. exists []. repeat split. apply complete_nil.
  - destruct l as [|l].
    + injection H as <-. exists []. repeat split. apply complete_nil.
    + cbn [skip_lines] in H. destruct (is_nl c) eqn:E.
      * apply IH in H as [P [-> [HP Hc]]]. apply is_nl_true in E. subst c.
        exists (NL :: P). split; [reflexivity|]. split.
        -- destruct HP as [->|[P' ->]]; [right; now exists []|right; now exists (NL :: P')].
        -- rewrite count_nl_cons, is_nl_NL. lia.
      * apply IH in H as [P [-> [HP Hc]]].
        exists (c :: P). split; [reflexivity|]. split.
        -- apply complete_cons; [exact HP|]. intros ->. cbn in Hc. discriminate.
        -- rewrite count_nl_cons, E. exact Hc.
Qed.

(* a walk of `col` code units over a line (ln, followed by the end of the text or a newline) *)
Lemma walk_col_inv (ln r : text) : forall col k,
  nonl ln -> (r = [] \/ exists r', r = NL :: r') ->
  walk_col (ln ++ r) col = Some k -> k <= length ln /\ sum_utf16 (firstn k ln) = col.
Proof.
  induction ln as [|c ln IH]; intros col k Hln Hr H.
  - cbn [app] in H. destruct col as [|n].
    + assert (k = 0) by (destruct r; cbn in H; congruence). subst. cbn. lia.
    + exfalso. destruct Hr as [->|[r' ->]]; cbn [walk_col] in H; [discriminate|].
      rewrite is_nl_NL in H. discriminate.
  - apply nonl_inv in Hln as [Hc Hl]. cbn [app] in H. destruct col as [|n].
    + cbn in H. injection H as <-. cbn. lia.
    + cbn [walk_col] in H. rewrite Hc in H.
      destruct (S n <? len_utf16 c) eqn:E; [discriminate|]. apply Nat.ltb_ge in E.
      destruct (walk_col (ln ++ r) (S n - len_utf16 c)) as [k'|] eqn:W; [|discriminate].
      cbn in H. injection H as <-. destruct (IH _ _ Hl Hr W) as [B S'].
      cbn [length firstn]. rewrite sum_utf16_cons. lia.
Qed.

Lemma resolve_inv (t : text) (line col i : nat) :
  resolve t (line, col) = Some i ->
  exists P ln r k, t = P ++ ln ++ r /\ complete P /\ count_nl P = line /\ nonl ln /\
    (r = [] \/ exists r', r = NL :: r') /\
    k <= length ln /\ sum_utf16 (firstn k ln) = col /\ i = length P + k.
Proof.
  unfold resolve. cbn [fst snd]. intros H.
  destruct (skip_lines t line) as [rest|] eqn:S'; [|discriminate].
  destruct (walk_col rest col) as [k|] eqn:W; [|discriminate]. injection H as <-.
  apply skip_lines_inv in S' as [P [-> [HP Hc]]].
  destruct (first_line rest) as [Hr|[ln [r' [-> Hln]]]].
  - exists P, rest, [], k. rewrite app_nil_r.
    rewrite <- (app_nil_r rest) in W. destruct (walk_col_inv rest [] col k Hr (or_introl eq_refl) W) as [B S'].
    repeat split; try assumption; [now left|]. rewrite app_length. lia.
  - exists P, ln, (NL :: r'), k.
    destruct (walk_col_inv ln (NL :: r') col k Hln (or_intror (ex_intro _ r' eq_refl)) W) as [B S'].
    repeat split; try assumption; [right; now exists r'|]. rewrite !app_length. lia.
Qed.

(* the answer of the column loop for a column that the specification accepts *)
Lemma col_result_valid start (ln tail : text) k :
  k <= length ln ->
  col_result start (ln ++ tail) (sum_utf16 (firstn k ln)) =
    if (k =? length ln) && (match tail with [] => true | _ => false end) then start + length ln
    else start + k.
Proof.
  intros Hk.
  destruct (Nat.eq_dec k (length ln)) as [->|Hne].
  - rewrite Nat.eqb_refl, firstn_all. cbn [andb]. destruct tail as [|c tail].
    + rewrite app_nil_r. apply col_result_end.
    + apply col_result_inside.
  - apply Nat.eqb_neq in Hne as Hb. rewrite Hb. cbn [andb]. apply Nat.eqb_neq in Hb.
    rewrite <- (firstn_skipn k ln) at 1. rewrite <- app_assoc.
    destruct (skipn k ln) as [|c rest] eqn:E.
    + exfalso. assert (length (skipn k ln) = 0) as Z by now rewrite E. rewrite skipn_length in Z. lia.
    + cbn [app]. rewrite col_result_inside. rewrite firstn_length. f_equal. lia.
Qed.

(* ------------------------------------------------------------------------------------------ *)
(*  auxiliary: away from the final line (line >= 1) the pre-229693d code inverts `resolve`      *)
(* ------------------------------------------------------------------------------------------ *)
Theorem lookup_old_outside (t : text) (line col i : nat) :
  resolve t (line, col) = Some i -> ~ KnownClass t line -> position_to_index_old t line col = Ok i.
Proof.
  intros H HK.
  destruct (resolve_inv t line col i H) as [P [ln [r [k [-> [HP [Hc [Hln [Hr [Hk [Hs ->]]]]]]]]]]].
  destruct Hr as [->|[r' ->]].
  - (* the final line, not terminated *)
    destruct line as [|line].
    + apply (complete_count_0 P HP) in Hc. subst P. cbn [app length plus]. rewrite app_nil_r.
      rewrite (p2i_single_line ln 0 col Hln). f_equal. rewrite <- Hs.
      rewrite <- (app_nil_r ln) at 1. rewrite col_result_valid by lia.
      cbn [andb]. destruct (k =? length ln) eqn:E; [apply Nat.eqb_eq in E; now subst|reflexivity].
    + exfalso. apply HK. unfold KnownClass. split; [lia|].
      rewrite app_nil_r, count_nl_app, (count_nl_nonl ln Hln). lia.
  - rewrite (p2i_terminated P ln r' line col HP Hc Hln). f_equal. rewrite <- Hs.
    rewrite col_result_valid by lia. now rewrite andb_false_r.
Qed.

(* ------------------------------------------------------------------------------------------ *)
(*  the lint selection of generate_code_actions: what overlapping [i, i+1) means                *)
(* ------------------------------------------------------------------------------------------ *)
Definition covers (i : nat) (l : span) : bool := (sstart l <=? i) && (i <? send l).

Lemma overlaps_cursor (l : span) (i : nat) : overlaps l (with_len (mkspan i i) 1) = covers i l.
Proof.
  unfold overlaps, with_len, covers. cbn [sstart send].
  destruct (sstart l <=? i) eqn:A; destruct (sstart l <? i + 1) eqn:B; try reflexivity.
  - apply Nat.leb_le in A. apply Nat.ltb_ge in B. lia.
  - apply Nat.leb_gt in A. apply Nat.ltb_lt in B. lia.
Qed.

(* ------------------------------------------------------------------------------------------ *)
(*  C08_lookup: position_to_index (current code, 229693d) inverts `resolve` on EVERY position   *)
(* ------------------------------------------------------------------------------------------ *)
Lemma nl0_length (t : text) (line : nat) :
  length (firstn (line + 1) (newline_indices t)) = Nat.min (line + 1) (count_nl t).
Proof. unfold newline_indices. now rewrite firstn_length, nli_length. Qed.

(* outside the known class the patch changes nothing *)
Lemma fix_confined (t : text) (line col : nat) :
  ~ KnownClass t line -> position_to_index t line col = position_to_index_old t line col.
Proof.
  intros HK. unfold position_to_index, position_to_index_old. cbv zeta.
  destruct (1 <=? line) eqn:E1; [|reflexivity].
  destruct (length (firstn (line + 1) (newline_indices t)) =? line) eqn:E2; [|reflexivity].
  exfalso. apply HK. apply Nat.leb_le in E1. apply Nat.eqb_eq in E2. rewrite nl0_length in E2.
  unfold KnownClass. lia.
Qed.

(* on the final line the patched code walks the final line *)
Lemma p2i_final (P ln : text) (line col : nat) :
  complete P -> count_nl P = line -> 1 <= line -> nonl ln -> (ln <> [] \/ col = 0) ->
  position_to_index (P ++ ln) line col = Ok (col_result (length P) ln col).
Proof.
  intros HP Hc H1 Hln Hcond. unfold position_to_index. cbv zeta.
  assert (firstn (line + 1) (newline_indices (P ++ ln)) = newline_indices P) as Hnl.
  { unfold newline_indices. rewrite nli_app, (nli_nonl _ ln Hln), app_nil_r.
    apply firstn_all2. rewrite nli_length. lia. }
  rewrite Hnl. unfold newline_indices at 1. rewrite nli_length, Hc, Nat.eqb_refl.
  rewrite (nli_complete_last0 P HP).
  assert ((1 <=? line) = true) as -> by now apply Nat.leb_le.
  assert ((length P <? length (P ++ ln)) || (col =? 0) = true) as ->.
  { destruct Hcond as [Hne| ->]; [|now rewrite orb_true_r].
    apply orb_true_iff. left. apply Nat.ltb_lt. rewrite app_length.
    destruct ln; [congruence|cbn [length]; lia]. }
  cbn [andb]. apply p2i_unfold with (e := length (P ++ ln)).
  - apply last_snoc.
  - rewrite removelast_last. apply (nli_complete_last0 P HP).
  - rewrite <- (app_nil_r ln) at 1. apply slice_chk_mid; [reflexivity|]. now rewrite app_length.
  - now rewrite app_length.
Qed.

Theorem lookup_correct (t : text) (line col i : nat) :
  resolve t (line, col) = Some i -> position_to_index t line col = Ok i.
Proof.
  intros H.
  destruct (resolve_inv t line col i H) as [P [ln [r [k [E [HP [Hc [Hln [Hr [Hk [Hs Hi]]]]]]]]]]].
  destruct Hr as [->|[r' ->]].
  - destruct line as [|line].
    + rewrite fix_confined by (unfold KnownClass; lia). apply lookup_old_outside; [exact H|unfold KnownClass; lia].
    + subst t. rewrite app_nil_r.
      assert (ln <> [] \/ col = 0) as Hcond.
      { destruct ln; [right|left; discriminate]. rewrite firstn_nil in Hs. cbn in Hs. now symmetry. }
      assert (1 <= S line) as H1 by lia.
      rewrite (p2i_final P ln (S line) col HP Hc H1 Hln Hcond).
      f_equal. subst i. rewrite <- Hs. rewrite <- (app_nil_r ln) at 1. rewrite col_result_valid by lia.
      cbn [andb]. destruct (k =? length ln) eqn:Ek; [apply Nat.eqb_eq in Ek; now subst|reflexivity].
  - assert (~ KnownClass t line) as HK.
    { unfold KnownClass. subst t. rewrite !count_nl_app, count_nl_cons, is_nl_NL. lia. }
    rewrite (fix_confined t line col HK). now apply lookup_old_outside.
Qed.

(* the patched code is total as well *)
Theorem position_to_index_total (t : text) (line col : nat) :
  exists i, position_to_index t line col = Ok i /\ i <= length t.
Proof.
  destruct (Nat.le_gt_cases 1 line) as [H1|H0].
  2:{ rewrite fix_confined by (unfold KnownClass; lia). apply position_to_index_old_total. }
  destruct (Nat.eq_dec (count_nl t) line) as [Hc|Hc].
  2:{ rewrite fix_confined by (unfold KnownClass; lia). apply position_to_index_old_total. }
  destruct (split_last_line t) as [P [ln [-> [HP Hln]]]].
  assert (count_nl P = line) as HcP by (rewrite count_nl_app, (count_nl_nonl ln Hln) in Hc; lia).
  destruct ln as [|c ln].
  - destruct col as [|col].
    + rewrite (p2i_final P [] line 0 HP HcP H1 Hln) by now right.
      eexists. split; [reflexivity|]. unfold col_result. cbn. rewrite app_length. cbn. lia.
    + (* empty final line, column > 0: the patch does not apply (pinned tests), old behaviour *)
      assert (position_to_index (P ++ []) line (S col) = position_to_index_old (P ++ []) line (S col)) as ->.
      { unfold position_to_index, position_to_index_old. cbv zeta.
        assert (firstn (line + 1) (newline_indices (P ++ [])) = newline_indices P) as Hnl.
        { rewrite app_nil_r. apply firstn_all2. unfold newline_indices. rewrite nli_length. lia. }
        rewrite Hnl, (nli_complete_last0 P HP). rewrite app_nil_r, Nat.ltb_irrefl.
        cbn [Nat.eqb orb]. now rewrite andb_false_r. }
      apply position_to_index_old_total.
  - rewrite (p2i_final P (c :: ln) line col HP HcP H1 Hln) by (left; discriminate).
    eexists. split; [reflexivity|].
    pose proof (col_result_bound (length P) (c :: ln) col) as B. rewrite app_length. lia.
Qed.

Theorem range_to_span_correct (t : text) (p1 p2 : position) (i1 i2 : nat) :
  resolve t p1 = Some i1 -> resolve t p2 = Some i2 -> i1 <= i2 ->
  range_to_span t (p1, p2) = Ok (mkspan i1 i2).
Proof.
  destruct p1 as [l1 c1], p2 as [l2 c2]. intros R1 R2 Hle.
  unfold range_to_span. rewrite (lookup_correct t l1 c1 i1 R1), (lookup_correct t l2 c2 i2 R2).
  cbn [bind]. unfold span_new. destruct (i2 <? i1) eqn:E; [apply Nat.ltb_lt in E; lia|reflexivity].
Qed.

Theorem selected_correct (t : text) (p1 p2 : position) (i1 i2 : nat) (lints : list span) :
  resolve t p1 = Some i1 -> resolve t p2 = Some i2 -> i1 <= i2 ->
  selected t (p1, p2) lints = Ok (filter (covers i1) lints).
Proof.
  intros R1 R2 Hle. unfold selected, lookup_span.
  rewrite (range_to_span_correct t p1 p2 i1 i2 R1 R2 Hle). cbn [bind]. f_equal.
  apply filter_ext. intros l. unfold overlaps, with_len, covers. cbn [sstart send].
  destruct (sstart l <=? i1) eqn:A; destruct (sstart l <? i1 + 1) eqn:B; try reflexivity.
  - apply Nat.leb_le in A. apply Nat.ltb_ge in B. lia.
  - apply Nat.leb_gt in A. apply Nat.ltb_lt in B. lia.
Qed.

(* hence: a request whose start lies inside a lint's (non-empty) span gets that lint *)
Theorem code_action_selected (t : text) (p1 p2 : position) (i1 i2 : nat) (lints : list span) (sp : span) :
  resolve t p1 = Some i1 -> resolve t p2 = Some i2 -> i1 <= i2 ->
  In sp lints -> sstart sp <= i1 < send sp ->
  exists sel, selected t (p1, p2) lints = Ok sel /\ In sp sel.
Proof.
  intros R1 R2 Hle Hin [Ha Hb]. eexists. split; [now apply (selected_correct t p1 p2 i1 i2)|].
  apply filter_In. split; [exact Hin|]. unfold covers.
  apply andb_true_iff. split; [now apply Nat.leb_le|now apply Nat.ltb_lt].
Qed.

(* round trips through harper's own two conversions: the position published for an index leads back
   to that index, the range published for a span leads back to that span *)
Theorem roundtrip_index (t : text) (i : nat) :
  i <= length t ->
  exists l c, index_to_position t i = Ok (l, c) /\ position_to_index t l c = Ok i.
Proof.
  intros Hi. destruct (index_to_position_sound t i Hi) as [[l c] [E R]].
  exists l, c. split; [exact E|]. now apply lookup_correct.
Qed.

Theorem roundtrip_span (t : text) (sp : span) :
  span_in (length t) sp ->
  exists r, span_to_range t sp = Ok r /\ range_to_span t r = Ok (mkspan (sstart sp) (send sp)).
Proof.
  intros H. destruct (span_to_range_sound t sp H) as [pa [pb [E [Ra Rb]]]].
  exists (pa, pb). split; [exact E|]. destruct H as [H1 H2]. now apply range_to_span_correct.
Qed.

(* end to end inside the conversion layer: code actions requested (cursor or selection up to the
   end of the diagnostic) at ANY character of a lint, addressed by the position harper itself
   publishes for it, offer that lint — wherever in the text the lint lies, the last line included *)
Theorem code_action_at_published (t : text) (lints : list span) (sp : span) (i : nat) :
  span_in (length t) sp -> In sp lints -> sstart sp <= i < send sp ->
  exists p pe sel sel',
    index_to_position t i = Ok p /\ index_to_position t (send sp) = Ok pe /\
    selected t (p, p) lints = Ok sel /\ In sp sel /\
    selected t (p, pe) lints = Ok sel' /\ In sp sel'.
Proof.
  intros [H1 H2] Hin Hi.
  destruct (index_to_position_sound t i) as [p [E R]]; [lia|].
  destruct (index_to_position_sound t (send sp) H2) as [pe [Ee Re]].
  destruct (code_action_selected t p p i i lints sp R R (le_n _) Hin Hi) as [sel [S1 I1]].
  destruct (code_action_selected t p pe i (send sp) lints sp R Re) as [sel' [S2 I2]]; [lia|exact Hin|exact Hi|].
  exists p, pe, sel, sel'. now repeat split.
Qed.

(* ------------------------------------------------------------------------------------------ *)
(*  C08_edit_equiv: the TextEdit, applied by a client, is Suggestion::apply                     *)
(* ------------------------------------------------------------------------------------------ *)
Lemma get_content_in (t : text) (sp : span) :
  span_in (length t) sp -> get_content sp t = Ok (slice t (sstart sp) (send sp)).
Proof.
  intros [H1 H2]. unfold get_content, try_get_content.
  destruct (send sp <? sstart sp) eqn:E1; [apply Nat.ltb_lt in E1; lia|].
  destruct (length t <? send sp) eqn:E3; [apply Nat.ltb_lt in E3; lia|].
  destruct (length t <=? sstart sp) eqn:E2; cbn [orb bind].
  - apply Nat.leb_le in E2. unfold span_len, sub_chk. rewrite E1. cbn [bind].
    assert (send sp - sstart sp = 0) as -> by lia. cbn [Nat.eqb]. unfold slice.
    assert (send sp - sstart sp = 0) as -> by lia. reflexivity.
  - reflexivity.
Qed.

Lemma new_text_in (s : suggestion) (t : text) (sp : span) :
  span_in (length t) sp -> new_text s sp t = Ok (repl s (slice t (sstart sp) (send sp))).
Proof.
  intros H. destruct s as [cs|cs|]; cbn [new_text repl]; try reflexivity.
  rewrite (get_content_in t sp H). reflexivity.
Qed.

Theorem edit_equiv (s : suggestion) (sp : span) (t : text) :
  span_in (length t) sp ->
  exists r nt out,
    text_edit s sp t = Ok (r, nt) /\ client_apply t r nt = Some out /\ apply s sp t = Ok out.
Proof.
  intros H. destruct (span_to_range_sound t sp H) as [pa [pb [E [Ra Rb]]]].
  exists (pa, pb), (repl s (slice t (sstart sp) (send sp))), (splice s sp t).
  split; [|split].
  - unfold text_edit. rewrite E, (new_text_in s t sp H). reflexivity.
  - unfold client_apply. cbn [fst snd]. rewrite Ra, Rb. destruct H as [H1 H2].
    destruct (sstart sp <=? send sp) eqn:L; [reflexivity|apply Nat.leb_gt in L; lia].
  - now apply apply_spec.
Qed.

(* the three kinds spelt out: what the client's document becomes *)
Corollary edit_equiv_value (s : suggestion) (sp : span) (t : text) :
  span_in (length t) sp ->
  exists r nt,
    text_edit s sp t = Ok (r, nt) /\
    client_apply t r nt =
      Some (firstn (sstart sp) t ++
            match s with
            | ReplaceWith cs => cs
            | InsertAfter cs => slice t (sstart sp) (send sp) ++ cs
            | Remove => []
            end ++ skipn (send sp) t).
Proof.
  intros H. destruct (edit_equiv s sp t H) as [r [nt [out [E [C A]]]]].
  exists r, nt. split; [exact E|]. rewrite C. f_equal.
  rewrite (apply_spec s sp t H) in A. injection A as <-. unfold splice. now destruct s.
Qed.

(* ------------------------------------------------------------------------------------------ *)
(*  LSP line ends ("\n", "\r\n", "\r") versus harper's ("\n")                                   *)
(* ------------------------------------------------------------------------------------------ *)
Lemma is_cr_true c : is_cr c = true -> c = CR.
Proof. unfold is_cr, CR. intros H. now apply N.eqb_eq in H. Qed.

Lemma is_cr_not_nl c : is_cr c = true -> is_nl c = false.
Proof. intros H. apply is_cr_true in H. now subst. Qed.

Lemma no_lone_cr_app a b : no_lone_cr (a ++ b) -> no_lone_cr b.
Proof. induction a as [|c a IH]; [trivial|]. cbn [app no_lone_cr]. intros [_ H]. now apply IH. Qed.

(* without a lone "\r" the LSP lines are harper's lines *)
Lemma skip_lines_lsp_eq_n (n : nat) : forall t l,
  length t <= n -> no_lone_cr t -> skip_lines_lsp t l = skip_lines t l.
Proof.
  induction n as [|n IH]; intros t l Hn Ht.
  - destruct t; [|cbn in Hn; lia]. now destruct l.
  - destruct t as [|c t]; [now destruct l|]. destruct l as [|l]; [reflexivity|].
    cbn [length] in Hn. destruct Ht as [Hc Ht]. cbn [skip_lines_lsp skip_lines].
    destruct (is_nl c) eqn:E; [apply IH; [lia|exact Ht]|].
    destruct (is_cr c) eqn:Ec; [|apply IH; [lia|exact Ht]].
    destruct (Hc eq_refl) as [t'' ->]. rewrite is_nl_NL. cbn [skip_lines]. rewrite is_nl_NL.
    destruct Ht as [_ Ht'']. apply IH; [cbn [length] in Hn; lia|exact Ht''].
Qed.

Lemma skip_lines_lsp_eq t l : no_lone_cr t -> skip_lines_lsp t l = skip_lines t l.
Proof. apply (skip_lines_lsp_eq_n (length t)). lia. Qed.

(* the LSP walk is the stricter one *)
Lemma walk_col_lsp_sub (rest : text) : forall col k, walk_col_lsp rest col = Some k -> walk_col rest col = Some k.
Proof.
  induction rest as [|c rest IH]; intros col k H.
  - destruct col; [exact H|discriminate].
  - destruct col as [|n]; [exact H|]. cbn [walk_col_lsp] in H. cbn [walk_col].
    destruct (is_nl c) eqn:E; [discriminate|]. destruct (is_cr c); [discriminate|]. cbn [orb] in H.
    destruct (S n <? len_utf16 c); [discriminate|].
    destruct (walk_col_lsp rest (S n - len_utf16 c)) as [k'|] eqn:W; [|discriminate].
    rewrite (IH _ _ W). exact H.
Qed.

(* ... and where harper's walk succeeds, either LSP's does too or it stopped between "\r" and "\n" *)
Lemma walk_col_bridge (rest : text) : forall col k,
  no_lone_cr rest -> walk_col rest col = Some k ->
  walk_col_lsp rest col = Some k \/ exists a b, rest = a ++ CR :: NL :: b /\ k = length a + 1.
Proof.
  induction rest as [|c rest IH]; intros col k Hn H.
  - destruct col; [now left|discriminate].
  - destruct col as [|n]; [now left|]. cbn [walk_col] in H. cbn [walk_col_lsp].
    destruct (is_nl c) eqn:E; [discriminate|]. cbn [orb].
    destruct (S n <? len_utf16 c) eqn:L; [discriminate|].
    destruct (walk_col rest (S n - len_utf16 c)) as [k'|] eqn:W; [|discriminate].
    cbn in H. injection H as <-. destruct Hn as [Hc Hn].
    destruct (is_cr c) eqn:Ec.
    + right. destruct (Hc eq_refl) as [t'' ->]. apply is_cr_true in Ec. subst c.
      exists [], t''. split; [reflexivity|].
      destruct (S n - len_utf16 CR) as [|m]; cbn [walk_col] in W.
      * injection W as <-. reflexivity.
      * rewrite is_nl_NL in W. discriminate.
    + destruct (IH _ _ Hn W) as [W'|[a [b [-> ->]]]].
      * left. now rewrite W'.
      * right. exists (c :: a), b. split; [reflexivity|]. cbn [length]. lia.
Qed.

Theorem resolve_lsp_sub (t : text) (p : position) (i : nat) :
  no_lone_cr t -> resolve_lsp t p = Some i -> resolve t p = Some i.
Proof.
  intros Hn. unfold resolve_lsp, resolve. rewrite (skip_lines_lsp_eq t (fst p) Hn).
  destruct (skip_lines t (fst p)) as [rest|]; [|discriminate].
  destruct (walk_col_lsp rest (snd p)) as [k|] eqn:W; [|discriminate].
  now rewrite (walk_col_lsp_sub rest _ _ W).
Qed.

Theorem resolve_lsp_bridge (t : text) (p : position) (i : nat) :
  no_lone_cr t -> resolve t p = Some i -> ~ inside_crlf t i -> resolve_lsp t p = Some i.
Proof.
  intros Hn H Hi. unfold resolve_lsp. unfold resolve in H. rewrite (skip_lines_lsp_eq t (fst p) Hn).
  destruct (skip_lines t (fst p)) as [rest|] eqn:S'; [|discriminate].
  destruct (walk_col rest (snd p)) as [k|] eqn:W; [|discriminate]. injection H as <-.
  apply skip_lines_inv in S' as [P [-> [HP Hc]]].
  destruct (walk_col_bridge rest (snd p) k (no_lone_cr_app P rest Hn) W) as [W'|[a [b [-> ->]]]].
  - now rewrite W'.
  - exfalso. apply Hi. exists (P ++ a), b. split; [now rewrite <- app_assoc|].
    rewrite !app_length. cbn [length]. lia.
Qed.

(* the three headline statements, read with LSP line ends *)
Theorem index_to_position_sound_lsp (t : text) (i : nat) :
  i <= length t -> no_lone_cr t -> ~ inside_crlf t i ->
  exists p, index_to_position t i = Ok p /\ resolve_lsp t p = Some i.
Proof.
  intros Hi Hn Hc. destruct (index_to_position_sound t i Hi) as [p [E R]].
  exists p. split; [exact E|now apply resolve_lsp_bridge].
Qed.

Theorem lookup_correct_lsp (t : text) (line col i : nat) :
  no_lone_cr t -> resolve_lsp t (line, col) = Some i -> position_to_index t line col = Ok i.
Proof. intros Hn H. apply lookup_correct. now apply resolve_lsp_sub. Qed.

Theorem edit_equiv_lsp (s : suggestion) (sp : span) (t : text) :
  span_in (length t) sp -> no_lone_cr t ->
  ~ inside_crlf t (sstart sp) -> ~ inside_crlf t (send sp) ->
  exists r nt out,
    text_edit s sp t = Ok (r, nt) /\ client_apply_lsp t r nt = Some out /\ apply s sp t = Ok out.
Proof.
  intros H Hn Ha Hb. destruct (span_to_range_sound t sp H) as [pa [pb [E [Ra Rb]]]].
  exists (pa, pb), (repl s (slice t (sstart sp) (send sp))), (splice s sp t).
  split; [|split].
  - unfold text_edit. rewrite E, (new_text_in s t sp H). reflexivity.
  - unfold client_apply_lsp. cbn [fst snd].
    rewrite (resolve_lsp_bridge t pa _ Hn Ra Ha), (resolve_lsp_bridge t pb _ Hn Rb Hb).
    destruct H as [H1 H2].
    destruct (sstart sp <=? send sp) eqn:L; [reflexivity|apply Nat.leb_gt in L; lia].
  - now apply apply_spec.
Qed.

(* the CR-LF premise cannot be dropped: "a\r\nb", index 2 *)
Lemma crlf_premise_needed :
  exists t i p, i <= length t /\ no_lone_cr t /\ inside_crlf t i /\
    index_to_position t i = Ok p /\ resolve_lsp t p = None.
Proof.
  exists [97; 13; 10; 98]%N, 2, (0, 2). split; [cbn; lia|]. split.
  - cbn. repeat split; try discriminate. intros _. now exists [98%N].
  - split; [exists [97%N], [98%N]; now split|]. now vm_compute.
Qed.

