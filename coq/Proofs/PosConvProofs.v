(* PosConvProofs.v — proofs about Model/PosConv.v (C08). *)
Require Import Base Suggestion PosConv ListLemmas SuggestionProofs.

(* F9: "ab\ncd", position (1,0) denotes index 3 (the 'c'), position_to_index answers 0 *)
Lemma lookup_refuted :
  exists t line col i,
    KnownClass t line /\ resolve t (line, col) = Some i /\ i < length t /\
    position_to_index t line col <> Ok i /\
    (* ... hence a lint on "cd" is not selected for a cursor on its first character *)
    selected t ((line, col), (line, col)) [mkspan 3 5] = Ok [].
Proof.
  exists [97; 98; 10; 99; 100]%N, 1, 0, 3. unfold KnownClass.
  vm_compute. repeat split; try lia. discriminate.
Qed.
