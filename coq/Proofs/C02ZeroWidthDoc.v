(* C02ZeroWidthDoc.v — phase 6: Document::new over Markdown for the streams whose zero-width tokens are all
   ParagraphBreaks (every document without a list: Start(List) is the only arm that pushes a zero-width Newline).
   C02MarkdownProofs.markdown_glue (TokInv of Markdown::parse under md_contract) + C02ZeroWidth.pbgapped_iff_tokinv +
   C02ZeroWidthSuffix.document_passes_pb.  No new model code: document_markdown is Model/C02Markdown.v's (stream N). *)
Require Import Base Overlap Mask MaskProofs.
Require Import OverlapProofs Tables_lexer Lexer Condense ListLemmas TokenInv CondenseInv LexerProofs
  C02Gapped C02Quotes C02Markdown C02MarkdownProofs C02ZeroWidth C02ZeroWidthSuffix C02Inert C02ZeroWidthNl.
From Coq Require Import List Arith NArith Lia ZArith.
Import ListNotations.

Definition zw_only_breaks (ts : list token) : Prop :=
  Forall (fun t => tstart t = tend t -> tkind_of t = KParagraphBreak) ts.

Theorem document_markdown_breaks u ilt src evs :
  Forall valid_char src -> md_contract src evs ->
  exists ts, markdown_parse u ilt src evs = Ok ts /\ TokInv (length src) ts /\
    (zw_only_breaks ts ->
     exists t9, document_markdown u ilt src evs = Ok t9 /\
       TokInv (length src) t9 /\ zw_only_breaks t9 /\ QuotesOkBut (unpaired_quote t9) t9 /\
       (NoTwins ts -> QuotesOk t9)).
Proof.
  intros Hv Hc. destruct (markdown_glue u ilt src evs Hv Hc) as (raw & ts & _ & E & _ & _ & TI & _).
  exists ts. split; [exact E|]. split; [exact TI|]. intros HZ.
  assert (PbGapped 0 (length src) ts) as P0 by (apply pbgapped_iff_tokinv; split; assumption).
  destruct (document_passes_pb src ts P0) as [t9 [E9 [P9 [Q9 QN]]]].
  exists t9. split; [unfold document_markdown; rewrite E; cbn [bind]; exact E9|].
  apply pbgapped_iff_tokinv in P9. destruct P9 as [T9 Z9]. split; [exact T9|]. split; [exact Z9|]. split; [exact Q9|exact QN].
Qed.

(* non-vacuity: `ab\n\ncd` with the stream pulldown-cmark 0.13 delivers (corpus/C02/markdown.json, replayed by the
   correspondence every run): Markdown::parse keeps the zero-width ParagraphBreak 0..0 BEHIND the Word 0..2 *)
Definition md_pb_src : text := [97; 98; 10; 10; 99; 100]%N.
Definition md_pb_evs : list mevent :=
  [mev_ (MStart TParagraph) 0 3; mev_ (MText 2) 0 2; mev_ MEndBreaking 0 3;
   mev_ (MStart TParagraph) 4 6; mev_ (MText 2) 4 6; mev_ MEndBreaking 4 6].
Definition md_pb_out : list token :=
  [mktok (mkspan 0 2) KWord; mktok (mkspan 0 0) KParagraphBreak; mktok (mkspan 4 6) KWord].
Example document_markdown_breaks_example :
  md_contract md_pb_src md_pb_evs /\
  markdown_parse ascii_uni false md_pb_src md_pb_evs = Ok md_pb_out /\
  zw_only_breaks md_pb_out /\ (Forall covers_chars md_pb_out -> False) /\
  document_markdown ascii_uni false md_pb_src md_pb_evs = Ok md_pb_out.
Proof.
  split; [vm_compute; reflexivity|]. split; [vm_compute; reflexivity|]. split; [|split].
  - unfold zw_only_breaks, md_pb_out. repeat constructor; cbn; intros; try reflexivity; lia.
  - intros H. inversion H as [|x l _ H1]; subst. inversion H1 as [|x2 l2 H2 _]; subst.
    unfold covers_chars in H2. cbn in H2. lia.
  - vm_compute. reflexivity.
Qed.

Print Assumptions document_markdown_breaks.

(* ---------- phase 7: streams WITH a Start(List) Newline that condense_newlines leaves alone ---------- *)
(* nl_inertb (Model/C02Inert.v, decidable): every zero-width Newline counts >= 2 lines and, after condense_spaces, none
   of them is a vector-neighbour of another Newline.  TokInv needs no order clause for them: read as floating breaks
   (nl2pb) the vector is PbGapped (C02ZeroWidthNl.tokinv_nl2pb).  The class left over is `md_doc_class ts = 2`. *)
Theorem document_markdown_inert_newlines u ilt src evs :
  Forall valid_char src -> md_contract src evs ->
  exists ts, markdown_parse u ilt src evs = Ok ts /\ TokInv (length src) ts /\
    (nl_inertb ts = true ->
     exists t9, document_markdown u ilt src evs = Ok t9 /\
       TokInv (length src) t9 /\ zw_only_breaks t9 /\ QuotesOkBut (unpaired_quote t9) t9 /\
       (NoTwins ts -> QuotesOk t9)).
Proof.
  intros Hv Hc. destruct (markdown_glue u ilt src evs Hv Hc) as (raw & ts & _ & E & _ & _ & TI & _).
  exists ts. split; [exact E|]. split; [exact TI|]. intros HZ.
  destruct (document_passes_tokinv_nl src ts TI HZ) as [t9 [E9 [P9 [Q9 QN]]]].
  exists t9. split; [unfold document_markdown; rewrite E; cbn [bind]; exact E9|].
  apply pbgapped_iff_tokinv in P9. destruct P9 as [T9 Z9]. split; [exact T9|]. split; [exact Z9|]. split; [exact Q9|exact QN].
Qed.

(* non-vacuity: `a\n\n- b` with the stream pulldown-cmark 0.13 delivers (corpus/C02/markdown.json): Markdown::parse
   pushes the zero-width Newline(2) of Start(List) at 3; class 1 (not all zero-width tokens are breaks, inert);
   the document holds it as a zero-width ParagraphBreak *)
Definition md_nl_src : text := [97; 10; 10; 45; 32; 98]%N.
Definition md_nl_evs : list mevent :=
  [mev_ (MStart TParagraph) 0 2; mev_ (MText 1) 0 1; mev_ MEndBreaking 0 2;
   mev_ (MStart TList) 3 6; mev_ (MStart TItem) 3 6; mev_ (MText 1) 5 6; mev_ MEndBreaking 3 6; mev_ MEndOther 3 6].
Definition md_nl_out : list token :=
  [mktok (mkspan 0 1) KWord; mktok (mkspan 0 0) KParagraphBreak; mktok (mkspan 3 3) (KNewline 2); mktok (mkspan 5 6) KWord].
Definition md_nl_doc : list token :=
  [mktok (mkspan 0 1) KWord; mktok (mkspan 0 0) KParagraphBreak; mktok (mkspan 3 3) KParagraphBreak; mktok (mkspan 5 6) KWord].
Example document_markdown_inert_newlines_example :
  md_contract md_nl_src md_nl_evs /\
  markdown_parse ascii_uni false md_nl_src md_nl_evs = Ok md_nl_out /\
  md_doc_class md_nl_out = 1 /\ nl_inertb md_nl_out = true /\
  document_markdown ascii_uni false md_nl_src md_nl_evs = Ok md_nl_doc.
Proof. repeat split; vm_compute; reflexivity. Qed.

(* the remaining class is inhabited: the vector of the limit Example C02Findings.zero_width_newline_limit *)
Example md_doc_class_remaining_example :
  md_doc_class [mktok (mkspan 0 3) KWord; mktok (mkspan 1 1) (KNewline 2); mktok (mkspan 3 4) (KNewline 1)] = 2.
Proof. vm_compute. reflexivity. Qed.

Print Assumptions document_markdown_inert_newlines.
