(* C09RaceDictEq.v — C09, the dictionary flag of race_shape is EXACT for arbitrary histories and every schedule: when the last
   word of u is a diagnostics array, rf_dict = false IFF both dictionaries of its provenance are the current dictionary
   files.  The 'if' half is C09RaceDict.v (lengths); here the other half by EQUALITY: a handler past its dictionary read
   and before its critical section holds exactly the file as long as no changing save followed the read (invariant QInv). *)
Require Import Base Server ServerLemmas ServerProofs ServerSeq ServerConc C09DictLock C09Batch C09BatchProofs C09Seq C09Race C09RaceProofs C09RaceGen C09RaceDict.

(* a step without a changing save leaves the dictionary files as they are *)
Lemma exec_still : forall u id i p l w push l' w',
  exec i l w = Some (push, l', w') ->
  (holdsU (i :: p) = true -> l_ud l = w_udict w) ->
  (holdsF (i :: p) = true -> l_fd l = fdict_of w (l_url l) /\ is_file (l_url l) = true) ->
  (existsb chg_writeU (evs_of id i l w) = false -> w_udict w' = w_udict w) /\
  (existsb (chg_writeF u) (evs_of id i l w) = false -> fdict_of w' u = fdict_of w u).
Proof.
  intros u id i p l w push l' w' H HU HF. destruct (dict_instr i) eqn:Ed.
  - destruct i; try discriminate Ed; cbn [exec] in H.
    + destruct (s_dlock w); [discriminate|]. inversion H; subst. split; reflexivity.
    + inversion H; subst. split; reflexivity.
    + inversion H; subst; clear H. specialize (HU eq_refl). split; [|reflexivity].
      cbn [evs_of existsb chg_writeU w_udict set_dlock set_udict]. rewrite orb_false_r. intro X.
      apply negb_false_iff, list_eqb_eq in X. exact X.
    + destruct (s_dlock w); [discriminate|]. destruct (is_file (l_url l)); inversion H; subst; split; reflexivity.
    + inversion H; subst. split; reflexivity.
    + inversion H; subst; clear H. destruct (HF eq_refl) as [Efd Efile]. split; [reflexivity|].
      rewrite (fdict_of_upsert w (l_url l') u _ Efile). cbn [evs_of existsb chg_writeF]. rewrite orb_false_r.
      destruct (url_eqb u (l_url l')) eqn:E; [|reflexivity].
      apply url_eqb_eq in E. subst u. rewrite url_eqb_refl. cbn [andb]. intro X.
      apply negb_false_iff, list_eqb_eq in X. exact X.
  - destruct (exec_nondict _ _ _ _ _ _ Ed H) as (Eu & Efd & _). split; intros _; [exact Eu|exact (fdict_of_same _ _ u Efd)].
Qed.

Lemma iupdate_entry_ddict : forall l w push l' w' e',
  exec IUpdate l w = Some (push, l', w') -> updf l w = true -> notcode (l_lang l) = true -> nocode_docs (s_docs w) ->
  lookup (l_url l) (s_docs w') = Some e' -> e_ddict e' = e_dict e'.
Proof.
  intros l w push l' w' e' H F Nl Nd L'. cbn [exec] in H. unfold updf, upd_eff, upd_entry0 in F.
  destruct (s_lock w); [discriminate|].
  destruct (l_text l) as [t|]; [|discriminate F].
  set (d := mkdict (l_ud l) (l_fd l) 0) in *.
  set (e0 := match lookup (l_url l) (s_docs w) with Some e => e | None => new_entry (l_lang l) d (l_snap l) end) in *.
  assert (N0 : notcode (e_lang e0) = true).
  { unfold e0. destruct (lookup (l_url l) (s_docs w)) as [e|] eqn:L; [exact (nocode_lookup _ _ _ Nd L)|exact Nl]. }
  destruct (stale (l_ver l) (e_ver e0)); [discriminate F|]. cbn [negb andb] in F.
  set (e2 := rebase d (l_snap l) (bump (l_ver l) e0)) in *.
  assert (L2 : e_lang e2 = e_lang e0) by apply lang_rebase_bump.
  rewrite L2 in H. destruct (e_lang e0) as [lg|] eqn:El; [|discriminate F].
  unfold sq_has_parser in F. destruct (kind lg) eqn:K; try discriminate F.
  - inversion H; subst. cbn [s_docs set_docs] in L'. rewrite lookup_upsert, url_eqb_refl in L'. inversion L'; subst e'. reflexivity.
  - destruct lg; cbn in K; try discriminate K. discriminate N0.
Qed.

Definition dwf (e : entry) : Prop := e_base e = e_dict e /\ e_ddict e = e_dict e /\ dv_ident (e_dict e) = 0.

Lemma exec_ddoc2 : forall u i p l w push l' w',
  exec i l w = Some (push, l', w') -> shape (i :: p) = true -> notcode (l_lang l) = true -> nocode_docs (s_docs w) ->
  (forall e, lookup u (s_docs w) = Some e -> dwf e) ->
  forall e', lookup u (s_docs w') = Some e' -> dwf e'.
Proof.
  intros u i p l w push l' w' H S Nl Nd B e' L'.
  assert (B1 : forall e, lookup u (s_docs w) = Some e -> e_base e = e_dict e) by (intros e Le; exact (proj1 (B e Le))).
  destruct i; try discriminate S.
  all: try match type of H with exec IUpdate _ _ = _ =>
      destruct (iupdate_cases _ _ _ _ _ H Nl Nd) as (_ & _ & C);
      destruct C as [[-> F]|[[-> F]|(t & e & Et & F & Ew & _)]];
      [exact (B e' L')
      |cbn [s_docs set_docs] in L'; rewrite lookup_remove in L';
       destruct (url_eqb u (l_url l)); [discriminate L'|exact (B e' L')]
      |destruct (url_eqb (l_url l) u) eqn:E;
       [apply url_eqb_eq in E; subst u;
        destruct (iupdate_entry_dict _ _ _ _ _ e' H F Nl Nd B1 L') as [D1 D2];
        pose proof (iupdate_entry_ddict _ _ _ _ _ e' H F Nl Nd L') as D3;
        split; [exact D2|split; [exact D3|rewrite D1; reflexivity]]
       |rewrite Ew in L'; cbn [s_docs set_docs] in L'; rewrite lookup_upsert, url_eqb_sym, E in L'; exact (B e' L')]] end.
  all: exec_cases H.
  all: try exact (B e' L').
  - cbn [s_docs set_docs] in L'. rewrite lookup_upsert in L'. destruct (url_eqb u (l_url l')) eqn:E; [|exact (B e' L')].
    apply url_eqb_eq in E. subst u. inversion L'; subst. apply (B e). assumption.
  - cbn in L'. rewrite lookup_remove in L'. destruct (url_eqb u (l_url l')); [discriminate L'|exact (B e' L')].
  - cbn in L'. rewrite lookup_map_val in L'. destruct (lookup u (s_docs w)) as [e0|] eqn:Lu; [|discriminate L'].
    inversion L'; subst. apply (B e0). reflexivity.
Qed.

(* ---------- the invariant ---------- *)
Definition hqU (tr : list xevent) (w : world) (hs : hstate) : Prop :=
  safeU (h_prog hs) = false -> dirtyU (h_id hs) tr = false -> l_ud (h_loc hs) = w_udict w.
Definition hqF (u : url) (tr : list xevent) (w : world) (hs : hstate) : Prop :=
  safeF (h_prog hs) = false -> l_url (h_loc hs) = u -> dirtyF u (h_id hs) tr = false -> l_fd (h_loc hs) = fdict_of w u.
Definition dq (u : url) (tr : list xevent) (w : world) (e : entry) : Prop :=
  dwf e /\ (ddU u tr = false -> dv_user (e_dict e) = w_udict w) /\ (ddF u tr = false -> dv_file (e_dict e) = fdict_of w u).

Record QInv (u : url) (tr : list xevent) (y : sys) : Prop := mkQInv {
  qi_hU : forall hs, In hs (y_flight y) -> hqU tr (y_world y) hs;
  qi_hF : forall hs, In hs (y_flight y) -> hqF u tr (y_world y) hs;
  qi_doc : forall e, lookup u (s_docs (y_world y)) = Some e -> dq u tr (y_world y) e
}.

Lemma qinv_step : forall u w0 tr c y y', RInv u w0 tr y -> DInv u tr y -> QInv u tr y -> step c y = Some y' ->
  QInv u (tr ++ xevents c y) y'.
Proof.
  intros u w0 tr c y y' R D I H. pose proof (ri_l _ _ _ _ R) as L.
  destruct c as [|id].
  - cbn [xevents]. rewrite app_nil_r. cbn [step] in H. destruct (y_todo y) as [|o rest] eqn:T; [discriminate|].
    destruct (length (y_flight y) <? max_in_flight); [|discriminate]. inversion H; subst y'; clear H.
    destruct (client_effect_server o (y_world y)) as [Ed _].
    destruct (client_effect_dict o (y_world y)) as (Eu & Ef & _).
    destruct (prog_dshape o) as (P1 & P2 & P3).
    constructor; cbn [y_world y_flight].
    + intros hs Hin. unfold hqU. rewrite Eu. apply in_app_or in Hin as [Hin|[<-|[]]]; [exact (qi_hU _ _ _ I hs Hin)|].
      cbn [h_prog]. rewrite P2. discriminate.
    + intros hs Hin. unfold hqF. rewrite (fdict_of_same _ _ u Ef). apply in_app_or in Hin as [Hin|[<-|[]]]; [exact (qi_hF _ _ _ I hs Hin)|].
      cbn [h_prog]. rewrite P3. discriminate.
    + intros e Le. rewrite Ed in Le. unfold dq. rewrite Eu, (fdict_of_same _ _ u Ef). exact (qi_doc _ _ _ I e Le).
  - cbn [step] in H.
    destruct (find_h id (y_flight y)) as [hs|] eqn:Hf; [|discriminate].
    destruct (h_prog hs) as [|i p] eqn:Hp; [discriminate|].
    destruct (exec i (h_loc hs) (y_world y)) as [[[push l'] w']|] eqn:He; [|discriminate].
    inversion H; subst y'; clear H.
    rewrite (xevents_evs id y hs i p Hf Hp).
    destruct (find_h_In _ _ _ Hf) as [Hin Hi].
    destruct (ri_hs _ _ _ _ R hs Hin) as [Sh Nl]. rewrite Hp in Sh.
    pose proof (ri_docs _ _ _ _ R) as Nd.
    pose proof (li_wf y L hs Hin) as Wf. rewrite Hp in Wf.
    pose proof (li_ok y L hs Hin) as Ok. unfold held_ok in Ok. rewrite Hp in Ok. destruct Ok as [OkU OkF].
    pose proof (di_ds _ _ _ D hs Hin) as Ds. rewrite Hp in Ds.
    pose proof (li_ids y L) as ND.
    destruct (exec_still u id i p _ _ _ _ _ He OkU OkF) as (MU & MF).
    destruct (exec_snap i p _ _ _ _ _ He Sh Wf Ds) as (_ & SU & SF).
    pose proof (qi_hU _ _ _ I hs Hin) as HU. unfold hqU in HU. rewrite Hp, Hi in HU.
    pose proof (qi_hF _ _ _ I hs Hin) as HF. unfold hqF in HF. rewrite Hp, Hi in HF.
    constructor; cbn [y_world y_flight].
    + intros a Ha. unfold hqU. destruct (replace_h_In _ _ ND a Ha) as [(-> & _ & _)|(A & Ne)]; cbn [h_id h_prog h_loc] in *.
      * intro Sf. destruct (SU Sf) as [[-> E]|(Ne & Sold & E)]; [intros _; exact E|].
        rewrite E, (evs_dirtyU id id i _ _ tr (or_introl Ne)). intro X. apply orb_false_iff in X as [X1 X2].
        rewrite (MU X2). exact (HU Sold X1).
      * intro Sf. rewrite (evs_dirtyU id (h_id a) i _ _ tr (or_intror Ne)). intro X. apply orb_false_iff in X as [X1 X2].
        rewrite (MU X2). exact (qi_hU _ _ _ I a A Sf X1).
    + intros a Ha. unfold hqF. destruct (replace_h_In _ _ ND a Ha) as [(-> & _ & _)|(A & Ne)]; cbn [h_id h_prog h_loc] in *.
      * intros Sf Eu. destruct (SF Sf) as [[-> E]|(Ne & Sold & E & Eurl)]; [intros _; rewrite E, Eu; reflexivity|].
        rewrite E, (evs_dirtyF u id id i _ _ tr (or_introl Ne)). intro X. apply orb_false_iff in X as [X1 X2].
        rewrite (MF X2). rewrite Eurl in Eu. exact (HF Sold Eu X1).
      * intros Sf Eu. rewrite (evs_dirtyF u id (h_id a) i _ _ tr (or_intror Ne)). intro X. apply orb_false_iff in X as [X1 X2].
        rewrite (MF X2). exact (qi_hF _ _ _ I a A Sf Eu X1).
    + intros e' Le'.
      assert (B : forall e, lookup u (s_docs (y_world y)) = Some e -> dwf e)
        by (intros e Le; exact (proj1 (qi_doc _ _ _ I e Le))).
      assert (B1 : forall e, lookup u (s_docs (y_world y)) = Some e -> e_base e = e_dict e)
        by (intros e Le; exact (proj1 (B e Le))).
      pose proof (exec_ddoc2 u _ _ _ _ _ _ _ He Sh Nl Nd B e' Le') as W'.
      destruct (exec_ddoc u _ _ _ _ _ _ _ He Sh Nl Nd B1 e' Le') as [_ X].
      unfold dq. rewrite evs_ddU, evs_ddF. split; [exact W'|].
      destruct (upd_flag u i (h_loc hs) (y_world y)) eqn:Uf.
      * assert (Ei : i = IUpdate) by (destruct i; try discriminate Uf; reflexivity). subst i.
        cbn [upd_flag] in Uf. apply andb_true_iff in Uf as [Eu _]. apply url_eqb_eq in Eu.
        rewrite X. cbn [dv_user dv_file].
        assert (EU : w_udict w' = w_udict (y_world y)) by (apply MU; cbn [evs_of]; destruct (l_text (h_loc hs)); reflexivity).
        assert (EF : fdict_of w' u = fdict_of (y_world y) u) by (apply MF; cbn [evs_of]; destruct (l_text (h_loc hs)); reflexivity).
        rewrite EU, EF. split; [exact (HU eq_refl)|exact (HF eq_refl Eu)].
      * destruct X as (e & Le & ->). destruct (qi_doc _ _ _ I e Le) as (_ & QU & QF).
        split; intro Y; apply orb_false_iff in Y as [Y1 Y2]; [rewrite (MU Y2); exact (QU Y1)|rewrite (MF Y2); exact (QF Y1)].
Qed.

Lemma qinv_run : forall u w0 cs tr y y', RInv u w0 tr y -> DInv u tr y -> QInv u tr y -> run cs y = Some y' ->
  QInv u (tr ++ xtrace cs y) y'.
Proof.
  intros u w0. induction cs as [|c cs IH]; intros tr y y' R D I H; cbn [run xtrace] in *.
  - inversion H; subst. rewrite app_nil_r. exact I.
  - destruct (step c y) as [y1|] eqn:S; [|discriminate]. rewrite app_assoc. apply (IH _ y1 y'); [| | |exact H].
    + exact (rinv_step u w0 tr c y y1 R S).
    + exact (dinv_step u w0 tr c y y1 R D S).
    + exact (qinv_step u w0 tr c y y1 R D I S).
Qed.

(* the start: u's entry (if any) is up to date with the dictionary files: base_dict = dict = the dictionary the document was
   parsed with = (user dictionary file, file dictionary of u, no identifiers) *)
Definition race_dict_start_eq (w0 : world) (u : url) : Prop :=
  forall e, lookup u (s_docs w0) = Some e ->
    dwf e /\ dv_user (e_dict e) = w_udict w0 /\ dv_file (e_dict e) = fdict_of w0 u.

Lemma dict_start_eq_le : forall w0 u, race_dict_start_eq w0 u -> race_dict_start w0 u.
Proof. intros w0 u H e Le. destruct (H e Le) as ((B & _ & _) & E1 & E2). rewrite E1, E2. split; [exact B|split; lia]. Qed.

Definition dict_start_eqb (w0 : world) (u : url) : bool :=
  match lookup u (s_docs w0) with
  | Some e => dictv_eqb (e_base e) (e_dict e) && dictv_eqb (e_ddict e) (e_dict e) &&
              dictv_eqb (e_dict e) (mkdict (w_udict w0) (fdict_of w0 u) 0)
  | None => true
  end.
Lemma dict_start_eqb_ok : forall w0 u, dict_start_eqb w0 u = true -> race_dict_start_eq w0 u.
Proof.
  intros w0 u H e Le. unfold dict_start_eqb in H. rewrite Le in H.
  apply andb_true_iff in H as [H H3]. apply andb_true_iff in H as [H1 H2].
  apply dictv_eqb_eq in H1, H2, H3. unfold dwf. rewrite H1, H2, H3. repeat split.
Qed.

(* the dictionary flag is EXACT: it is set IFF a dictionary of the last word's provenance is not the current files *)
Theorem race_dict_exact : forall w0 h u cs y a,
  race_gen_start w0 u -> race_dict_start_eq w0 u -> forallb okop h = true ->
  run cs (init h w0) = Some y -> quiescent y ->
  lastword (y_world y) u = PDiag a ->
  let cur := mkdict (w_udict (y_world y)) (fdict_of (y_world y) u) 0 in
  rf_dict (race_shape w0 (y_world y) u (xtrace cs (init h w0))) = negb (dictv_eqb (a_dict a) cur && dictv_eqb (a_ddict a) cur).
Proof.
  intros w0 h u cs y a St Sq Hh R Q La cur.
  pose proof (race_last_is_doc_state w0 h u cs y St Hh R Q) as P.
  destruct St as (Hd & Nd & Hp).
  pose proof (rinv_init u w0 h Hd Nd Hh Hp) as R0.
  pose proof (dinv_init u w0 h (dict_start_eq_le w0 u Sq)) as D0.
  assert (Q0 : QInv u [] (init h w0)).
  { constructor; cbn [init y_world y_flight].
    - intros hs [].
    - intros hs [].
    - intros e Le. destruct (Sq e Le) as (W & E1 & E2). split; [exact W|split; intros _; assumption]. }
  pose proof (dinv_run u w0 cs [] _ _ R0 D0 R) as D. cbn [app] in D.
  pose proof (qinv_run u w0 cs [] _ _ R0 D0 Q0 R) as I. cbn [app] in I.
  rewrite La in P. cbn [pstrip] in P. unfold psv in P.
  destruct (lookup u (s_docs (y_world y))) as [e|] eqn:Le; [|discriminate P].
  destruct (e_text e); [|discriminate P]. destruct (e_lang e); [|discriminate P].
  inversion P as [[P1 P2 P3 P4 P5 P6 P7]].
  destruct (di_doc _ _ _ D e Le) as (_ & [_ LtU] & [_ LtF]).
  destruct (qi_doc _ _ _ I e Le) as ((_ & W2 & W3) & QU & QF).
  rewrite P3, P4, W2, rf_dict_dd.
  destruct (ddU u (xtrace cs (init h w0))) eqn:FU; [|destruct (ddF u (xtrace cs (init h w0))) eqn:FF]; cbn [orb].
  - specialize (LtU eq_refl). destruct (dictv_eqb (e_dict e) cur) eqn:E; [|reflexivity].
    apply dictv_eqb_eq in E. rewrite E in LtU. unfold cur, nU in LtU. cbn [dv_user] in LtU. lia.
  - specialize (LtF eq_refl). destruct (dictv_eqb (e_dict e) cur) eqn:E; [|reflexivity].
    apply dictv_eqb_eq in E. rewrite E in LtF. unfold cur, nF in LtF. cbn [dv_file] in LtF. lia.
  - assert (E : e_dict e = cur).
    { specialize (QU eq_refl). specialize (QF eq_refl). unfold cur. destruct (e_dict e) as [a1 a2 a3]. cbn in *. subst. reflexivity. }
    rewrite E, dictv_eqb_refl. reflexivity.
Qed.

(* all five flags are exact, so: for a plain-text / markdown document whose last word is a diagnostics array, the last word is
   right IFF the shape is absent and the language and the ignore list of its provenance are the client's *)
Theorem race_shape_exact_mod : forall w0 h u cs y a cd,
  race_gen_start w0 u -> race_dict_start_eq w0 u -> forallb okop h = true ->
  run cs (init h w0) = Some y -> quiescent y ->
  lastword (y_world y) u = PDiag a ->
  lookup u (w_open (y_world y)) = Some cd -> kind (cd_lang cd) = KPlain ->
  (lastword (y_world y) u = expected (y_world y) u <->
   race_overtaken w0 (y_world y) u (xtrace cs (init h w0)) = false /\ a_lang a = cd_lang cd /\ a_ign a = cd_ign cd).
Proof.
  intros w0 h u cs y a cd St Sq Hh R Q La Lc Hk.
  destruct (race_flags_exact w0 h u cs y a St Hh R Q La) as (F1 & F2 & F3 & F4). specialize (F4 cd Lc).
  pose proof (race_dict_exact w0 h u cs y a St Sq Hh R Q La) as F5. cbv zeta in F1, F2, F3, F4, F5.
  unfold race_overtaken. cbv zeta. rewrite F1, F2, F3, F4, F5.
  assert (Ex : expected (y_world y) u =
               PDiag (mkargs (cd_text cd) (cd_lang cd) (mkdict (w_udict (y_world y)) (fdict_of (y_world y) u) 0)
                             (mkdict (w_udict (y_world y)) (fdict_of (y_world y) u) 0)
                             (w_ccfg (y_world y)) (w_ccfg (y_world y)) (w_ccfg (y_world y)) (cd_ign cd)))
    by (unfold expected; rewrite Lc, Hk; reflexivity).
  rewrite La, Ex. split.
  - intro E. inversion E as [E']. cbn [a_text a_lang a_dict a_ddict a_lcfg a_pcfg a_scfg a_ign].
    rewrite text_eqb_refl, !Nat.eqb_refl, dictv_eqb_refl. repeat split.
  - intros (Fl & El & Ei).
    apply orb_false_iff in Fl as [Fl X5]. apply orb_false_iff in Fl as [Fl X4]. apply orb_false_iff in Fl as [Fl X3].
    apply orb_false_iff in Fl as [X1 X2].
    apply negb_false_iff in X1, X2, X3, X4, X5. apply andb_true_iff in X2 as [X2 X2'].
    apply text_eqb_eq in X1. apply dictv_eqb_eq in X2, X2'. apply Nat.eqb_eq in X3, X4, X5.
    destruct a; cbn in *; subst; reflexivity.
Qed.

(* the dictionary race of race_dict_example has the flag and a user dictionary that is not the file; the same two messages
   the other way round, one after the other: no flag at all, the last word is right *)
Definition dict_example_h2 : list op := [AddUser 5 uB; Change uA (tx 1) 2].
Definition dict_example_cs2 : list choice := [CAdmit] ++ repeat (CRun 0) 5 ++ [CAdmit] ++ repeat (CRun 1) 8.

Lemma race_dict_exact_example :
  race_gen_start race_wA uA /\ race_dict_start_eq race_wA uA /\
  forallb okop dict_example_h = true /\ forallb okop dict_example_h2 = true /\
  (exists y cd a, run dict_example_cs (init dict_example_h race_wA) = Some y /\ quiescent y /\
     lastword (y_world y) uA = PDiag a /\ lookup uA (w_open (y_world y)) = Some cd /\ kind (cd_lang cd) = KPlain /\
     race_shape race_wA (y_world y) uA (xtrace dict_example_cs (init dict_example_h race_wA)) = mkflags false true false false false /\
     (a_dict a, a_ddict a, w_udict (y_world y), fdict_of (y_world y) uA) = (mkdict [] [] 0, mkdict [] [] 0, [5], []) /\
     freshb (y_world y) uA = false) /\
  (exists y cd a, run dict_example_cs2 (init dict_example_h2 race_wA) = Some y /\ quiescent y /\
     lastword (y_world y) uA = PDiag a /\ lookup uA (w_open (y_world y)) = Some cd /\ kind (cd_lang cd) = KPlain /\
     race_overtaken race_wA (y_world y) uA (xtrace dict_example_cs2 (init dict_example_h2 race_wA)) = false /\
     (a_dict a, a_ddict a, w_udict (y_world y)) = (mkdict [5] [] 0, mkdict [5] [] 0, [5]) /\
     freshb (y_world y) uA = true).
Proof.
  split; [split; [reflexivity|split; [apply nocode_docsb_ok; vm_compute; reflexivity|vm_compute; reflexivity]]|].
  split; [apply dict_start_eqb_ok; vm_compute; reflexivity|].
  split; [reflexivity|]. split; [reflexivity|].
  split; eexists; eexists; eexists; (split; [vm_compute; reflexivity|]); (split; [split; reflexivity|]);
    (split; [vm_compute; reflexivity|]); (split; [vm_compute; reflexivity|]); (split; [reflexivity|]);
    (split; [vm_compute; reflexivity|]); split; vm_compute; reflexivity.
Qed.
