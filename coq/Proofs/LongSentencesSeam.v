(* LongSentencesSeam.v — linting/long_sentences.rs as repaired by 1bab09f (finding FC12a): the flagged span
   starts at the sentence's first visible token, so neither the lint of a sentence nor the lints of a whole
   token list depend on whitespace tokens in front (a leading Newline token is exactly what Document(D) has and
   Document(P++D) lacks when D starts with a newline).  The rule never panics. *)
Require Import Base Overlap ListLemmas ParaSplit ParaSplitProofs.
From Coq Require Import Lia.

Definition all_ws (ws : list tok) : Prop := Forall (fun t => is_ws_kind (tkind t) = true) ws.

Lemma ws_not_word k : is_ws_kind k = true -> is_word_kind k = false.
Proof. destruct k; try discriminate; reflexivity. Qed.

Lemma count_words_ws ws s : all_ws ws -> count_words (ws ++ s) = count_words s.
Proof.
  intros H. unfold count_words. rewrite filter_app, app_length.
  replace (filter (fun t => is_word_kind (tkind t)) ws) with (@nil tok); [reflexivity|].
  induction H as [|t ws Ht _ IH]; [reflexivity|]. cbn [filter]. rewrite (ws_not_word _ Ht). exact IH.
Qed.

Lemma first_visible_opt_ws ws s : all_ws ws ->
  first_visible_opt (ws ++ s) = option_map (fun i => length ws + i) (first_visible_opt s).
Proof.
  intros H. induction H as [|t ws Ht _ IH].
  - cbn. destruct (first_visible_opt s); reflexivity.
  - cbn [app first_visible_opt]. rewrite Ht. cbn [negb]. rewrite IH.
    destruct (first_visible_opt s); reflexivity.
Qed.

Lemma first_visible_opt_lt s i : first_visible_opt s = Some i -> i < length s.
Proof.
  revert i. induction s as [|t r IH]; intros i H; [discriminate|]. cbn [first_visible_opt] in H.
  destruct (negb (is_ws_kind (tkind t))); [injection H as <-; cbn; lia|].
  destruct (first_visible_opt r) as [j|]; [|discriminate]. injection H as <-.
  specialize (IH j eq_refl). cbn. lia.
Qed.

(* a sentence with a Word token has a visible token *)
Lemma words_visible s : 0 < count_words s -> exists i, first_visible_opt s = Some i.
Proof.
  induction s as [|t r IH]; intros H; [cbn in H; lia|]. cbn [first_visible_opt].
  destruct (is_ws_kind (tkind t)) eqn:W; cbn [negb]; [|eauto].
  unfold count_words in H. cbn [filter] in H. rewrite (ws_not_word _ W) in H.
  destruct (IH H) as [i ->]. eauto.
Qed.

Lemma hull_none c : hull c = None -> c = [].
Proof. unfold hull. destruct c as [|t r]; [reflexivity|]. cbn. discriminate. Qed.

(* the visible part of a long sentence, and what the rule computes on it *)
Lemma long_sentence_eval s : long_sentence_limit <? count_words s = true ->
  exists i sp, first_visible_opt s = Some i /\ hull (skipn i s) = Some sp /\ long_sentence s = Ok [sp].
Proof.
  intros L. assert (0 < count_words s) as P by (apply Nat.ltb_lt in L; unfold long_sentence_limit in L; lia).
  destruct (words_visible s P) as [i Hi]. pose proof (first_visible_opt_lt s i Hi) as Hlt.
  destruct (hull (skipn i s)) as [sp|] eqn:Hh.
  - exists i, sp. split; [exact Hi|]. split; [exact Hh|].
    unfold long_sentence. rewrite L. unfold first_visible. rewrite Hi.
    rewrite slice_chk_ok by lia. cbn [bind]. rewrite slice_to_end, hull_chk_ok. cbn [bind]. rewrite Hh. reflexivity.
  - apply hull_none in Hh. exfalso. assert (length (skipn i s) = 0) as Z by (rewrite Hh; reflexivity).
    rewrite skipn_length in Z. lia.
Qed.

(* the rule never panics on a sentence *)
Lemma long_sentence_total s : exists l, long_sentence s = Ok l.
Proof.
  destruct (long_sentence_limit <? count_words s) eqn:L.
  - destruct (long_sentence_eval s L) as [i [sp [_ [_ E]]]]. eauto.
  - unfold long_sentence. rewrite L. eauto.
Qed.

(* FC12a repaired: whitespace tokens in front of a sentence change nothing *)
Theorem long_sentence_leading_ws ws s : all_ws ws -> long_sentence (ws ++ s) = long_sentence s.
Proof.
  intros H. destruct (long_sentence_limit <? count_words s) eqn:L.
  - destruct (long_sentence_eval s L) as [i [sp [Hi [Hh E]]]]. rewrite E.
    assert (long_sentence_limit <? count_words (ws ++ s) = true) as L' by (rewrite count_words_ws by exact H; exact L).
    destruct (long_sentence_eval (ws ++ s) L') as [i' [sp' [Hi' [Hh' E']]]]. rewrite E'.
    rewrite (first_visible_opt_ws ws s H), Hi in Hi'. cbn [option_map] in Hi'. injection Hi' as <-.
    rewrite (Nat.add_comm (length ws) i), skipn_app_ge in Hh'. congruence.
  - unfold long_sentence. rewrite count_words_ws by exact H. rewrite L. reflexivity.
Qed.

Lemma iter_by_nonempty p ts : iter_by p ts <> [].
Proof.
  rewrite iter_by_spec. destruct ts as [|t r]; [discriminate|apply split_after_nonempty].
Qed.

Lemma map_res_total {A B} (f : A -> res B) (l : list A) :
  (forall x, exists y, f x = Ok y) -> exists ys, map_res f l = Ok ys.
Proof.
  intros H. induction l as [|x l [ys IH]]; [exists []; reflexivity|].
  destruct (H x) as [y Hy]. exists (y :: ys). cbn [map_res]. rewrite Hy, IH. reflexivity.
Qed.

(* LongSentences::lint never panics *)
Theorem long_sentences_total ts : exists l, long_sentences ts = Ok l.
Proof.
  unfold long_sentences. rewrite iter_by_chk_ok. cbn [bind].
  destruct (map_res_total long_sentence (iter_by is_sentence_terminator ts) long_sentence_total) as [ls E].
  rewrite E. cbn [bind]. eauto.
Qed.

(* and its lints on a token list do not depend on a whitespace token in front of the list:
   Document(D) = Newline :: B   vs   the tokens B that follow P's break in Document(P++D) *)
Theorem long_sentences_leading_ws w B :
  is_ws_kind (tkind w) = true -> long_sentences (w :: B) = long_sentences B.
Proof.
  intros W. unfold long_sentences. rewrite !iter_by_chk_ok. cbn [bind].
  assert (is_sentence_terminator (tkind w) = false) as NT by (destruct (tkind w); try discriminate; reflexivity).
  rewrite (iter_by_cons_nonterm _ _ _ NT).
  destruct (iter_by is_sentence_terminator B) as [|c cs] eqn:E; [exfalso; eapply iter_by_nonempty, E|].
  cbn [cons_first map_res].
  change (w :: c) with ([w] ++ c). rewrite (long_sentence_leading_ws [w] c); [reflexivity|].
  constructor; [exact W|constructor].
Qed.

(* history (FC12a): the old rule reported the hull of the WHOLE sentence, so a leading Newline token moved the
   start of the lint.  41 one-character words behind a newline token. *)
Definition words41 (from : nat) : list tok := map (fun i => mktok (mkspan (from + i) (from + i + 1)) KWord) (seq 0 41).
Definition nl_tok : tok := mktok (mkspan 0 1) KNewline.

Example long_sentence_old_depends_on_leading_ws :
  long_sentence_old (nl_tok :: words41 1) = Ok [mkspan 0 42] /\
  long_sentence_old (words41 1) = Ok [mkspan 1 42] /\
  long_sentence (nl_tok :: words41 1) = Ok [mkspan 1 42] /\
  long_sentence (words41 1) = Ok [mkspan 1 42].
Proof. vm_compute. repeat split; reflexivity. Qed.
