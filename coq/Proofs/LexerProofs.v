(* LexerProofs.v — progress of every sub-lexer and tiling of PlainEnglish::parse (C02_lex_progress,
   C02_plain_tiling).  These two need no Unicode law at all: they hold for ANY instantiation of `uni`. *)
Require Import Base Overlap Tables_lexer Lexer Condense ListLemmas TokenInv.
From Coq Require Import Lia.

(* `text` is `list char` and `char` is `N`: make lengths syntactically equal before lia *)
Ltac nlia := unfold text, char in *; lia.

(* ---------- iterator helpers ---------- *)
Lemma count_while_le {A} (p : A -> bool) l : count_while p l <= length l.
Proof. induction l as [|x l IH]; cbn; [lia|]. destruct (p x); cbn; lia. Qed.

Lemma position_lt {A} (p : A -> bool) l i : position p l = Some i -> i < length l.
Proof.
  revert i. induction l as [|x l IH]; cbn; intros i H; [discriminate|].
  destruct (p x); [injection H as <-; lia|].
  destruct (position p l) as [j|]; [|discriminate]. injection H as <-. specialize (IH j eq_refl). lia.
Qed.

Lemma rposition_lt {A} (p : A -> bool) l i : rposition p l = Some i -> i < length l.
Proof.
  revert i. induction l as [|x l IH]; cbn; intros i H; [discriminate|].
  destruct (rposition p l) as [j|].
  - injection H as <-. specialize (IH j eq_refl). lia.
  - destruct (p x); [injection H as <-; lia|discriminate].
Qed.

Lemma firstn_length_le {A} n (l : list A) : length (firstn n l) <= length l.
Proof. rewrite firstn_length. lia. Qed.

(* ---------- progress ---------- *)
Definition progress (src : text) (r : option (nat * tkind)) : Prop :=
  forall n k, r = Some (n, k) -> 1 <= n <= length src.

Lemma progress_none src : progress src None.
Proof. intros n k H. discriminate. Qed.

Ltac prog_none := try (apply progress_none).

Lemma regex_loop_bound u : forall m rest i n,
  length rest <= m -> regex_loop u rest i = Some n -> i < n <= i + length rest.
Proof.
  induction m as [|m IH]; intros rest i n Hm H.
  - destruct rest; cbn in Hm; [cbn in H; discriminate|lia].
  - destruct rest as [|c r1]; cbn in H; [discriminate|].
    destruct (u_alphanumeric u c); cbn in H; [|discriminate].
    destruct r1 as [|d r2]; [discriminate|].
    destruct (ceq d 45).
    + destruct r2 as [|e r3]; [discriminate|].
      destruct (u_alphanumeric u e); cbn in H; [|discriminate].
      destruct r3 as [|x r4]; [discriminate|].
      destruct (ceq x 93).
      * injection H as <-. cbn. nlia.
      * apply IH in H; [|cbn in *; nlia]. cbn in *. nlia.
    + destruct (ceq d 93).
      * injection H as <-. cbn. nlia.
      * apply IH in H; [|cbn in *; nlia]. cbn in *. nlia.
Qed.

Lemma progress_regexish u src : progress src (lex_regexish u src).
Proof.
  intros n k H. unfold lex_regexish in H. destruct src as [|c r]; [discriminate|].
  destruct (ceq c 91); [|discriminate].
  destruct (regex_loop u r 1) as [m|] eqn:E; [|discriminate]. injection H as <- _.
  apply (regex_loop_bound u (length r)) in E; [|lia]. cbn. nlia.
Qed.

Lemma progress_punctuation src : progress src (lex_punctuation src).
Proof.
  intros n k H. unfold lex_punctuation, lex_quote in H. destruct src as [|c r]; [discriminate|].
  destruct (mem_n c quote_chars).
  - injection H as <- _. cbn. nlia.
  - destruct (punct_from_char c); [|discriminate]. injection H as <- _. cbn. nlia.
Qed.

Lemma progress_count (p : N -> bool) (f : nat -> tkind) src :
  progress src (let n := count_while p src in if n =? 0 then None else Some (n, f n)).
Proof.
  intros n k H. cbv zeta in H. destruct (count_while p src =? 0) eqn:E; [discriminate|].
  injection H as <- _. apply Nat.eqb_neq in E. pose proof (count_while_le p src). nlia.
Qed.

Lemma progress_tabs src : progress src (lex_tabs src).
Proof. apply (progress_count (ceq 9) (fun n => KSpace (n * 2))). Qed.
Lemma progress_spaces src : progress src (lex_spaces src).
Proof. apply (progress_count (ceq 32) KSpace). Qed.
Lemma progress_newlines src : progress src (lex_newlines src).
Proof. apply (progress_count (ceq 10) KNewline). Qed.

Lemma progress_plural_digit u src : progress src (lex_plural_digit u src).
Proof.
  intros n k H. unfold lex_plural_digit in H. destruct src as [|c0 r1]; [discriminate|].
  destruct (is_ascii_alphanumeric c0); cbn [negb] in H; [|discriminate].
  destruct r1 as [|c t].
  - discriminate.
  - destruct (ceq c 39).
    + destruct t as [|c' t']; [discriminate|]. destruct (ceq c' 115); [|discriminate].
      destruct t' as [|d t'']; [injection H as <- _; cbn; nlia|].
      destruct (u_alphanumeric u d); cbn [negb] in H; [discriminate|]. injection H as <- _. cbn. nlia.
    + destruct (ceq c 115); [|discriminate].
      destruct t as [|d t']; [injection H as <- _; cbn; nlia|].
      destruct (u_alphanumeric u d); cbn [negb] in H; [discriminate|]. injection H as <- _. cbn. nlia.
Qed.

Lemma progress_hex u src : progress src (lex_hex_number u src).
Proof.
  intros n k H. unfold lex_hex_number in H.
  destruct src as [|c0 [|c1 [|c2 r]]]; try discriminate.
  destruct (negb (ceq c0 48) || negb (ceq c1 120) || negb (is_ascii_hexdigit c2)); [discriminate|].
  cbv zeta in H.
  pose proof (count_while_le is_ascii_hexdigit (skipn 2 (c0 :: c1 :: c2 :: r))) as L.
  rewrite skipn_length in L.
  set (kk := count_while is_ascii_hexdigit (skipn 2 (c0 :: c1 :: c2 :: r))) in *.
  match type of H with (if negb ?b then _ else _) = _ => destruct b; cbn [negb] in H; [|discriminate] end.
  match type of H with (if ?b then _ else _) = _ => destruct b; [|discriminate] end.
  injection H as <- _. cbn [length] in *. nlia.
Qed.

Lemma progress_long_decade u src : progress src (lex_long_decade u src).
Proof.
  intros n k H. unfold lex_long_decade in H.
  destruct src as [|c0 [|c1 [|c2 [|c3 [|c4 rest]]]]]; try discriminate.
  repeat match type of H with (if ?b then None else _) = _ => destruct b; [discriminate|] end.
  destruct rest as [|c5 r].
  - injection H as <- _. cbn. nlia.
  - destruct (u_alphanumeric u c5); [discriminate|]. injection H as <- _. cbn. nlia.
Qed.

(* a finite parse is a parse *)
Lemma parse_finite_some s neg mant ex :
  parse_finite s = Some (neg, mant, ex) -> parse_f64 s = Some (neg, mant, ex) /\ f64_finite mant ex = true.
Proof.
  unfold parse_finite. destruct (parse_f64 s) as [[[n m] e]|]; [|discriminate].
  destruct (f64_finite m e) eqn:F; [|discriminate]. intros H; injection H as -> -> ->. split; [reflexivity|exact F].
Qed.

Lemma longest_float_bound s : forall n m k, longest_float n s = Some (m, k) -> 1 <= m <= n.
Proof.
  induction n as [|n IH]; intros m k H; cbn [longest_float] in H; [discriminate|].
  cbv zeta in H. destruct (parse_finite (firstn (S n) s)) as [[[neg mant] ex]|].
  - injection H as <- _. nlia.
  - apply IH in H. nlia.
Qed.

Lemma progress_number u src : progress src (lex_number u src).
Proof.
  intros n k H. unfold lex_number in H. destruct src as [|c0 r]; [discriminate|].
  destruct (negb (u_numeric u c0)); [discriminate|]. cbv zeta in H.
  match type of H with match ?x with _ => _ end = _ => destruct x as [e|]; [|discriminate] end.
  apply longest_float_bound in H.
  pose proof (firstn_length_le (S e) (c0 :: r)). nlia.
Qed.

Lemma lex_hostname_le src n : lex_hostname src = Some n -> n <= length src.
Proof.
  unfold lex_hostname. destruct src as [|c r]; [discriminate|].
  destruct (is_ascii_alphanumeric c); [|discriminate]. intros H.
  assert (n = count_while host_char (c :: r)) as -> by congruence. apply count_while_le.
Qed.

Lemma lex_hostport_le src n : lex_hostport src = Some n -> n <= length src.
Proof.
  unfold lex_hostport. destruct (lex_hostname src) as [h|] eqn:E; [|discriminate].
  apply lex_hostname_le in E.
  destruct (nth_error src h) as [c|].
  - destruct (ceq c 58); intros H.
    + assert (n = count_while is_ascii_digit src) as -> by congruence. apply count_while_le.
    + assert (n = h) as -> by congruence. assumption.
  - intros H. assert (n = h) as -> by congruence. assumption.
Qed.

Lemma lex_login_le u src n : lex_login u src = Some n -> n <= length src.
Proof.
  unfold lex_login. cbv zeta.
  set (limit := count_while (fun c => negb (u_whitespace u c)) src).
  destruct (position (ceq 64) (firstn limit src)) as [cred_end|] eqn:P.
  - apply position_lt in P. pose proof (firstn_length_le limit src) as L.
    match goal with |- context [if negb ?b then None else _] => destruct b; cbn [negb] end; [|discriminate].
    match goal with |- context [if negb ?b then None else _] => destruct b; cbn [negb] end; [|discriminate].
    destruct (lex_hostport (skipn (cred_end + 1) src)) as [he|] eqn:E; [|discriminate].
    apply lex_hostport_le in E. rewrite skipn_length in E. intros H; injection H as <-. nlia.
  - destruct (lex_hostport (skipn 0 src)) as [he|] eqn:E; [|discriminate].
    apply lex_hostport_le in E. cbn [skipn] in E. intros H; injection H as <-. nlia.
Qed.

Lemma lex_xchar_string_le l : lex_xchar_string l <= length l.
Proof.
  assert (forall m l, length l <= m -> lex_xchar_string l <= length l) as G.
  { induction m as [|m IHm]; intros l0 Hl.
    - destruct l0; [cbn; lia|cbn in Hl; lia].
    - destruct l0 as [|c t]; [cbn; lia|]. cbn [lex_xchar_string length].
      destruct (is_reserved c); [specialize (IHm t); cbn in Hl; lia|].
      destruct (is_unreserved c); [specialize (IHm t); cbn in Hl; lia|].
      destruct t as [|a [|b t']]; try lia.
      destruct (ceq c 37 && is_ascii_hexdigit a && is_ascii_hexdigit b); [|lia].
      specialize (IHm t'). cbn in *. lia. }
  apply (G (length l)). lia.
Qed.

Lemma path_loop_le : forall fuel r cursor, path_loop fuel r cursor <= cursor + length r.
Proof.
  induction fuel as [|f IH]; intros r cursor; cbn [path_loop]; [lia|].
  destruct r as [|c t]; [lia|].
  destruct (negb (ceq c 47)); [lia|]. cbv zeta.
  destruct (lex_xchar_string t =? 0); [cbn; lia|].
  specialize (IH (skipn (lex_xchar_string t) t) (cursor + 1 + lex_xchar_string t)).
  rewrite skipn_length in IH. cbn [length].
  pose proof (lex_xchar_string_le t). lia.
Qed.

Lemma lex_ip_schemepart_le u src n : lex_ip_schemepart u src = Some n -> 2 <= n <= length src.
Proof.
  unfold lex_ip_schemepart. destruct src as [|a [|b rest]]; try discriminate.
  destruct (ceq a 47 && ceq b 47); [|discriminate]. cbv zeta.
  intros H; injection H as <-.
  set (le := match lex_login u rest with Some n => n | None => 0 end).
  assert (le <= length rest) as L.
  { unfold le. destruct (lex_login u rest) eqn:E; [apply lex_login_le in E; nlia|lia]. }
  pose proof (path_loop_le (length rest) (skipn le rest) le) as P. rewrite skipn_length in P.
  cbn [length]. nlia.
Qed.

Lemma progress_url u src : progress src (lex_url u src).
Proof.
  intros n k H. unfold lex_url in H.
  destruct (position (ceq 58) src) as [sep|] eqn:P; [|discriminate].
  apply position_lt in P.
  destruct (negb (forallb valid_scheme_char (firstn sep src))); [discriminate|].
  destruct (lex_ip_schemepart u (skipn (sep + 1) src)) as [ue|] eqn:E; [|discriminate].
  apply lex_ip_schemepart_le in E. rewrite skipn_length in E. injection H as <- _. nlia.
Qed.

Lemma progress_email u src : progress src (lex_email_address u src).
Proof.
  intros n k H. unfold lex_email_address in H. cbv zeta in H.
  match type of H with match rposition _ (firstn ?l _) with _ => _ end = _ => set (limit := l) in H end.
  destruct (rposition (ceq 64) (firstn limit src)) as [at_loc|] eqn:P; [|discriminate].
  apply rposition_lt in P. pose proof (firstn_length_le limit src) as L.
  destruct (negb (validate_local_part (firstn at_loc src))); [discriminate|].
  destruct (lex_hostname (skipn (at_loc + 1) src)) as [dl|] eqn:E; [|discriminate].
  apply lex_hostname_le in E. rewrite skipn_length in E.
  destruct (dl =? 0); [discriminate|]. injection H as <- _. nlia.
Qed.

Lemma progress_hostname_token src : progress src (lex_hostname_token src).
Proof.
  intros n k H. unfold lex_hostname_token in H.
  destruct (lex_hostname src) as [len|] eqn:E; [|discriminate]. apply lex_hostname_le in E.
  destruct (len <=? 1) eqn:L1; [discriminate|]. apply Nat.leb_gt in L1.
  destruct (negb (mem_n 46 (slice src 1 (len - 1)))); [discriminate|].
  destruct (nth_error src (len - 1)) as [c|].
  - destruct (ceq c 46); [discriminate|]. injection H as <- _. nlia.
  - injection H as <- _. nlia.
Qed.

Lemma progress_word u src : progress src (lex_word u src).
Proof.
  apply (progress_count (fun c => u_lingual u c || is_ascii_digit c) (fun _ => KWord)).
Qed.

Lemma progress_or_else src a b : progress src a -> progress src b -> progress src (or_else a b).
Proof. intros Ha Hb. destruct a; cbn; assumption. Qed.

(* every sub-lexer that succeeds on a non-empty remainder consumes 1 <= n <= remaining characters *)
Theorem lex_progress u src n k :
  src <> [] -> lex_token u src = Some (n, k) -> 1 <= n <= length src.
Proof.
  intros Hne H. revert n k H. change (progress src (lex_token u src)). unfold lex_token.
  repeat (apply progress_or_else;
          [first [apply progress_regexish | apply progress_punctuation | apply progress_tabs
                 | apply progress_spaces | apply progress_newlines | apply progress_plural_digit
                 | apply progress_hex | apply progress_long_decade | apply progress_number
                 | apply progress_url | apply progress_email | apply progress_hostname_token
                 | apply progress_word]|]).
  intros n k H. unfold lex_catch in H. injection H as <- _. destruct src; [contradiction|cbn; nlia].
Qed.

(* and some sub-lexer always succeeds (lex_catch) *)
Lemma lex_token_some u src : exists n k, lex_token u src = Some (n, k).
Proof.
  unfold lex_token.
  repeat match goal with |- exists n k, or_else ?a _ = _ => destruct a as [[? ?]|]; cbn [or_else]; [eauto|] end.
  unfold lex_catch. eauto.
Qed.

(* ---------- PlainEnglish::parse tiles the text ---------- *)
Lemma plain_loop_tiling u : forall fuel cursor rest,
  length rest <= fuel ->
  exists ts, plain_loop u fuel cursor rest = Ok ts /\ Tiling cursor (cursor + length rest) ts.
Proof.
  induction fuel as [|f IH]; intros cursor rest Hf.
  - destruct rest; [|cbn in Hf; nlia]. exists []. cbn. rewrite Nat.add_0_r. split; [reflexivity|constructor].
  - destruct rest as [|c r].
    + exists []. cbn. rewrite Nat.add_0_r. split; [reflexivity|constructor].
    + cbn [plain_loop].
      destruct (lex_token_some u (c :: r)) as [n [k E]]. rewrite E.
      pose proof (lex_progress u (c :: r) n k ltac:(discriminate) E) as [Hn1 Hn2].
      unfold span_new. replace (cursor + n <? cursor) with false by (symmetry; apply Nat.ltb_ge; lia).
      cbn [bind].
      destruct (IH (cursor + n) (skipn n (c :: r))) as [tl [Etl Ttl]].
      { rewrite skipn_length. cbn [length] in *. nlia. }
      rewrite Etl. cbn [bind]. eexists. split; [reflexivity|].
      constructor; cbn; [reflexivity|nlia|].
      rewrite skipn_length in Ttl.
      match goal with |- Tiling _ ?e _ => replace e with (cursor + n + (length (c :: r) - n)) by (cbn [length] in *; nlia) end.
      exact Ttl.
Qed.

(* fuel |s| suffices, never Panic, and the tokens tile [0,|s|) exactly *)
Theorem plain_tiling u s : exists ts, plain_parse u s = Ok ts /\ Tiling 0 (length s) ts.
Proof. unfold plain_parse. apply (plain_loop_tiling u (length s) 0 s). nlia. Qed.

Corollary plain_parse_total u s : is_ok (plain_parse u s) = true.
Proof. destruct (plain_tiling u s) as [ts [E _]]. rewrite E. reflexivity. Qed.

(* ---------- a concrete instantiation for the non-vacuity examples: the ASCII restriction of Unicode ---------- *)
Definition ascii_uni : uni :=
  mkuni (fun c => in_range 9 13 c || ceq c 32) is_ascii_digit is_ascii_alphabetic is_ascii_alphabetic.

Lemma tiling_invariants n ts : Tiling 0 n ts -> InBounds n ts /\ OrderedDisjoint ts /\ ZeroWidthOnlyBreaks ts.
Proof.
  intros H. split; [apply tiling_inbounds; assumption|].
  split; [eapply tiling_ordered; eassumption|eapply tiling_no_zero_width; eassumption].
Qed.
