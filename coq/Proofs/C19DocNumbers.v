(* C19DocNumbers.v — the passes of Document::parse between the lexer and the linters (C02's frozen Model/Condense.v:
   condense_spaces, condense_newlines, newlines_to_breaks, condense_number_suffixes, condense_contractions,
   condense_dotted_initialisms, condense_ellipsis, condense_latin, match_quotes) never BUILD a Number:
   every Number token of Document::new_plain_english(s) is a Number token PlainEnglish::parse(s) made, unchanged, or
   that Number with its `suffix` member set (condense_number_suffixes; nothing else touches a Number).
   This replaces the source-shape flag "no other site builds a Number { value: .. }" for the modelled passes, and
   carries finiteness (both radixes) from the lexer to the document the linters — hence the statistics records — see.
   Built on C02's grouping theorems (every pass = Grouped G_pass) exactly as `no pass invents a twin` is. *)
Require Import Base Overlap OverlapProofs Tables_lexer Lexer Condense ListLemmas TokenInv CondenseInv LexerProofs
  CondSuffixQuotes DocumentProofs C19LexerFinite.
From Coq Require Import List Lia ZArith.
Import ListNotations.

(* ---------- the invariant: every Number kind is one of a given set ---------- *)
Definition numbers_in (V : number -> Prop) (t : token) : Prop := forall nb, tkind_of t = KNumber nb -> V nb.
Definition kind_in (V : number -> Prop) (k : tkind) : Prop := forall nb, k = KNumber nb -> V nb.

(* V closed under "set the suffix" *)
Definition suffixed (V : number -> Prop) (nb : number) : Prop :=
  V nb \/ exists nb0 sfx, V nb0 /\ nb = with_suffix nb0 sfx.

Lemma numbers_in_weaken (V V' : number -> Prop) ts :
  (forall nb, V nb -> V' nb) -> Forall (numbers_in V) ts -> Forall (numbers_in V') ts.
Proof. intros H F. eapply Forall_impl; [|exact F]. intros t Ht nb E. apply H, Ht, E. Qed.

(* the kind of the merged token is the kind of a member of the group, or not a Number at all *)
Lemma numbers_in_group V g k :
  Forall (numbers_in V) g -> (exists t, In t g /\ k = tkind_of t) \/ (forall nb, k <> KNumber nb) ->
  numbers_in V (group_token g k).
Proof.
  intros F [[t [Hin ->]]|Hk]; intros nb E; cbn [group_token tkind_of] in E.
  - rewrite Forall_forall in F. exact (F t Hin nb E).
  - exfalso. exact (Hk nb E).
Qed.

Ltac ni_single := left; eexists; split; [left; reflexivity|reflexivity].
Ltac ni_other := right; intros nb0; discriminate.

Section PerPass.
  Variable V : number -> Prop.
  Notation Q := (numbers_in V).

  Lemma ni_spaces g k a b : g <> [] -> Tiling a b g -> Forall Q g -> G_spaces g k -> Q (group_token g k).
  Proof.
    intros _ _ F [[t [-> ->]]|[t1 [t2 [n1 [n2 [-> [_ [_ ->]]]]]]]]; apply numbers_in_group; auto; [ni_single|ni_other].
  Qed.
  Lemma ni_newlines g k a b : g <> [] -> Tiling a b g -> Forall Q g -> G_newlines g k -> Q (group_token g k).
  Proof.
    intros _ _ F [[t [-> ->]]|[ns [_ [_ ->]]]]; apply numbers_in_group; auto; [ni_single|ni_other].
  Qed.
  Lemma ni_breaks g k a b : g <> [] -> Tiling a b g -> Forall Q g -> G_breaks g k -> Q (group_token g k).
  Proof.
    intros _ _ F [t [-> ->]]. apply numbers_in_group; auto. unfold newline_to_break.
    destruct (tkind_of t) as [ |p| |nb|sn|n| | | | | | ] eqn:E; try (ni_single; fail).
    destruct (2 <=? n); [ni_other|ni_single].
  Qed.
  Lemma ni_pattern_id m g k a b : g <> [] -> Tiling a b g -> Forall Q g ->
    G_pattern m (fun k => k) g k -> Q (group_token g k).
  Proof.
    intros Hne _ F [[t [-> ->]]|[rest [_ ->]]]; apply numbers_in_group; auto; [ni_single|].
    left. exists (hd dummy_tok g). split; [apply hd_in; exact Hne|reflexivity].
  Qed.
  Lemma ni_pattern_in_id ts m g k a b : g <> [] -> Tiling a b g -> Forall Q g ->
    G_pattern_in ts m (fun k => k) g k -> Q (group_token g k).
  Proof.
    intros Hne _ F [[t [-> ->]]|[pre [rest [_ [_ ->]]]]]; apply numbers_in_group; auto; [ni_single|].
    left. exists (hd dummy_tok g). split; [apply hd_in; exact Hne|reflexivity].
  Qed.
  Lemma ni_ellipsis m g k a b : g <> [] -> Tiling a b g -> Forall Q g ->
    G_pattern m (fun _ => KPunct PEllipsis) g k -> Q (group_token g k).
  Proof.
    intros _ _ F [[t [-> ->]]|[rest [_ ->]]]; apply numbers_in_group; auto; [ni_single|ni_other].
  Qed.
  Lemma ni_initialism g k a b : g <> [] -> Tiling a b g -> Forall Q g -> G_initialism g k -> Q (group_token g k).
  Proof.
    intros _ _ F [[t [-> ->]]|[_ [_ ->]]]; apply numbers_in_group; auto; [ni_single|ni_other].
  Qed.
  (* the one pass that touches a Number: the result is the Number of the group's first token with the suffix set *)
  Lemma ni_suffix src g k a b : g <> [] -> Tiling a b g -> Forall Q g -> G_suffix src g k ->
    numbers_in (suffixed V) (group_token g k).
  Proof.
    intros _ _ F [[t [-> ->]]|[x [y [nb [cs [sfx [-> [Kx [_ [_ [_ [_ ->]]]]]]]]]]]]; intros nb' E;
      cbn [group_token tkind_of] in E.
    - left. inversion F as [|? ? Ft _]; subst. exact (Ft nb' E).
    - right. exists nb, sfx. inversion F as [|? ? Fx _]; subst. split; [exact (Fx nb Kx)|congruence].
  Qed.

  (* match_quotes: same kinds except the twin field of quote tokens *)
  Lemma strip_twin_number k nb : strip_twin k = KNumber nb -> k = KNumber nb.
  Proof. destruct k as [ |p| |n|sn|n| | | | | | ]; cbn; try congruence. destruct p; cbn; congruence. Qed.

  Lemma ni_same_but_twins ts ts' : SameButTwins ts ts' -> Forall Q ts -> Forall Q ts'.
  Proof.
    intros [_ EK] F.
    assert (forall l, Forall Q l <-> Forall (kind_in V) (map (fun t => strip_twin (tkind_of t)) l)) as R.
    { intros l. rewrite Forall_map. split; intros H; (eapply Forall_impl; [|exact H]); intros t Ht nb E.
      - apply strip_twin_number in E. exact (Ht nb E).
      - apply Ht. rewrite E. reflexivity. }
    apply R. rewrite EK. apply R. exact F.
  Qed.
End PerPass.

(* ---------- the whole pipeline ---------- *)
Definition lexed (t0 : list token) (nb : number) : Prop := In nb (flat_map token_numbers t0).

Lemma lexed_numbers_in t0 : Forall (numbers_in (lexed t0)) t0.
Proof.
  apply Forall_forall. intros t Hin nb E. unfold lexed. apply in_flat_map. exists t. split; [exact Hin|].
  unfold token_numbers. rewrite E. left. reflexivity.
Qed.

Theorem document_passes_numbers src t0 (V : number -> Prop) :
  Tiling 0 (length src) t0 -> NoTwins t0 -> Forall (numbers_in V) t0 ->
  exists ts, document_passes src t0 = Ok ts /\ Forall (numbers_in (suffixed V)) ts.
Proof.
  intros T0 N0 Q0.
  destruct (passes_exist src t0 T0) as [t8 R]. pose proof R as R'. destruct R'.
  change (NoTwins t0) with (Forall notwin t0) in N0.
  pose proof (grouped_inv _ _ _ nt_spaces _ _ pr_g1 _ _ T0 N0) as N1.
  pose proof (grouped_inv _ _ _ nt_newlines _ _ pr_g2 _ _ pr_T1 N1) as N2.
  pose proof (grouped_inv _ _ _ nt_breaks _ _ pr_g3 _ _ pr_T2 N2) as N3.
  pose proof (grouped_inv _ _ _ (nt_suffix src) _ _ pr_g4 _ _ pr_T3 N3) as N4.
  pose proof (grouped_inv _ _ _ (nt_pattern_id _) _ _ pr_g5 _ _ pr_T4 N4) as N5.
  pose proof (grouped_inv _ _ _ nt_initialism _ _ pr_g6 _ _ pr_T5 N5) as N6.
  pose proof (grouped_inv _ _ _ (nt_ellipsis _) _ _ pr_g7 _ _ pr_T6 N6) as N7.
  pose proof (grouped_inv _ _ _ (nt_pattern_in_id _ _) _ _ pr_g8 _ _ pr_T7 N7) as N8.
  pose proof (grouped_inv _ _ _ (ni_spaces V) _ _ pr_g1 _ _ T0 Q0) as Q1.
  pose proof (grouped_inv _ _ _ (ni_newlines V) _ _ pr_g2 _ _ pr_T1 Q1) as Q2.
  pose proof (grouped_inv _ _ _ (ni_breaks V) _ _ pr_g3 _ _ pr_T2 Q2) as Q3.
  pose proof (grouped_inv _ _ _ (ni_suffix V src) _ _ pr_g4 _ _ pr_T3 Q3) as Q4.
  pose proof (grouped_inv _ _ _ (ni_pattern_id (suffixed V) _) _ _ pr_g5 _ _ pr_T4 Q4) as Q5.
  pose proof (grouped_inv _ _ _ (ni_initialism (suffixed V)) _ _ pr_g6 _ _ pr_T5 Q5) as Q6.
  pose proof (grouped_inv _ _ _ (ni_ellipsis (suffixed V) _) _ _ pr_g7 _ _ pr_T6 Q6) as Q7.
  pose proof (grouped_inv _ _ _ (ni_pattern_in_id (suffixed V) _ _) _ _ pr_g8 _ _ pr_T7 Q7) as Q8.
  destruct (passes_run_document src t0 t8 R N8) as [t9 [E9 [_ [SB _]]]].
  exists t9. split; [exact E9|]. exact (ni_same_but_twins (suffixed V) t8 t9 SB Q8).
Qed.

(* Document::new_plain_english(s): defined for every text and every Unicode table; its Numbers are the lexer's *)
Theorem document_numbers_from_lexer u s :
  exists t0 ts, plain_parse u s = Ok t0 /\ document_plain u s = Ok ts /\
                Forall (numbers_in (suffixed (lexed t0))) ts.
Proof.
  destruct (plain_tiling u s) as [t0 [E0 T0]].
  pose proof (plain_loop_notwins u _ _ _ _ E0) as N0.
  destruct (document_passes_numbers s t0 (lexed t0) T0 N0 (lexed_numbers_in t0)) as [ts [E Q]].
  exists t0, ts. split; [exact E0|]. split; [|exact Q].
  unfold document_plain. rewrite E0. cbn [bind]. exact E.
Qed.

(* hence: every Number of the document is finite — decimal AND hexadecimal, no Unicode law needed *)
Lemma with_suffix_finite nb sfx : C19LexerFinite.number_finite nb -> C19LexerFinite.number_finite (with_suffix nb sfx).
Proof. unfold C19LexerFinite.number_finite, with_suffix. cbn [n_mant n_exp10]. exact (fun H => H). Qed.

Theorem document_plain_finite u s ts : document_plain u s = Ok ts -> Forall token_finite ts.
Proof.
  intros E. destruct (document_numbers_from_lexer u s) as [t0 [ts' [E0 [E' Q]]]].
  assert (ts' = ts) as -> by congruence.
  pose proof (token_numbers_finite t0 (plain_parse_finite u s t0 E0)) as Fin. rewrite Forall_forall in Fin.
  eapply Forall_impl; [|exact Q]. intros t Ht nb Ek. destruct (Ht nb Ek) as [Hv|[nb0 [sfx [Hv ->]]]].
  - exact (Fin nb Hv).
  - apply with_suffix_finite. exact (Fin nb0 Hv).
Qed.

(* the suffix really is the only thing that changes: value, radix and precision of every document Number are those
   of a lexer Number *)
Definition same_value (a b : number) : Prop :=
  n_neg a = n_neg b /\ n_mant a = n_mant b /\ n_exp10 a = n_exp10 b /\ n_radix a = n_radix b /\
  n_precision a = n_precision b.

Theorem document_number_values u s t0 ts : plain_parse u s = Ok t0 -> document_plain u s = Ok ts ->
  forall t nb, In t ts -> tkind_of t = KNumber nb ->
  exists t' nb0, In t' t0 /\ tkind_of t' = KNumber nb0 /\ same_value nb nb0.
Proof.
  intros E0 E t nb Hin Ek. destruct (document_numbers_from_lexer u s) as [t0' [ts' [E0' [E' Q]]]].
  assert (t0' = t0) as -> by congruence. assert (ts' = ts) as -> by congruence.
  rewrite Forall_forall in Q.
  assert (forall nb0, lexed t0 nb0 -> exists t', In t' t0 /\ tkind_of t' = KNumber nb0) as L.
  { intros nb0 H. unfold lexed in H. apply in_flat_map in H. destruct H as [t' [Hin' Hn]]. exists t'. split; [exact Hin'|].
    unfold token_numbers in Hn. destruct (tkind_of t'); try contradiction. destruct Hn as [->|[]]. reflexivity. }
  destruct (Q t Hin nb Ek) as [Hv|[nb0 [sfx [Hv ->]]]].
  - destruct (L nb Hv) as [t' [H1 H2]]. exists t', nb. repeat split; assumption.
  - destruct (L nb0 Hv) as [t' [H1 H2]]. exists t', nb0. repeat split; assumption.
Qed.

(* non-vacuity: `0x1F 2nd`: the hexadecimal Number is left alone (a hex literal directly followed by a letter is no
   Number at all, so it never gets a suffix), the decimal one gets the suffix Nd; nothing else changes *)
Example document_numbers_example :
  plain_parse ascii_uni [48; 120; 49; 70; 32; 50; 110; 100]%N
  = Ok [mktok (mkspan 0 4) (KNumber (mknumber false 31 0%Z None 16 0)); mktok (mkspan 4 5) (KSpace 1);
        mktok (mkspan 5 6) (KNumber (mknumber false 2 0%Z None 10 0)); mktok (mkspan 6 8) KWord] /\
  document_plain ascii_uni [48; 120; 49; 70; 32; 50; 110; 100]%N
  = Ok [mktok (mkspan 0 4) (KNumber (mknumber false 31 0%Z None 16 0)); mktok (mkspan 4 5) (KSpace 1);
        mktok (mkspan 5 8) (KNumber (mknumber false 2 0%Z (Some SufNd) 10 0))].
Proof. split; vm_compute; reflexivity. Qed.
