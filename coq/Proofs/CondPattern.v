(* CondPattern.v — the generic theorem about Document::condense_pattern (Model/Condense.v):
     on a tiling, with a matcher that never panics / never over-claims (matcher_ok) and whose matches have
     monotone ends (monotone_ends), condense_pattern answers Ok and the result is a Grouped (G_pattern m edit)
     image of the input.
   Steps: (1) fam_scan lists the matches in increasing start order (Found);
          (2) remove_indices (overlap_idx found) found = first :: keepno first rest;
          (3) with monotone_ends the kept matches are sorted and pairwise disjoint (DS);
          (4,5) cp_apply + remove_indices over a DS list of matches is a grouping (cp_apply_spec). *)
Require Import Base Overlap OverlapProofs Tables_lexer Lexer Condense ListLemmas TokenInv CondenseInv LexerProofs.
From Coq Require Import List Arith Lia.

(* ---------- list helpers ---------- *)
Lemma skipn_app_len {A} (l1 l2 : list A) n : n = length l1 -> skipn n (l1 ++ l2) = l2.
Proof. intros ->. induction l1 as [|x l1 IH]; cbn [length skipn app]; [reflexivity|exact IH]. Qed.

Lemma firstn_app_len {A} (l1 l2 : list A) n : n = length l1 -> firstn n (l1 ++ l2) = l1.
Proof.
  intros ->. induction l1 as [|x l1 IH]; cbn [length firstn app]; [reflexivity|]. f_equal. exact IH.
Qed.

Lemma nth_error_app_len {A} (l1 l2 : list A) x n : n = length l1 -> nth_error (l1 ++ x :: l2) n = Some x.
Proof. intros ->. induction l1 as [|h l1 IH]; cbn [length nth_error app]; [reflexivity|exact IH]. Qed.

Lemma set_nth_app_len {A} (l1 l2 : list A) y x n :
  n = length l1 -> set_nth (l1 ++ y :: l2) n x = Ok (l1 ++ x :: l2).
Proof.
  intros ->. induction l1 as [|h l1 IH]; cbn [length app set_nth]; [reflexivity|].
  rewrite IH. reflexivity.
Qed.

(* skipn lo ts = A0 ++ (t0 :: g') ++ skipn en ts  with the group [st,en) made explicit *)
Lemma skipn_cons_split {A} (ts : list A) lo st en :
  lo <= st -> st < en -> en <= length ts ->
  exists A0 t0 g', skipn lo ts = A0 ++ (t0 :: g') ++ skipn en ts /\ length A0 = st - lo /\
     length (t0 :: g') = en - st /\ skipn st ts = (t0 :: g') ++ skipn en ts.
Proof.
  intros H1 H2 H3.
  pose proof (firstn_skipn (en - st) (skipn st ts)) as E2. rewrite skipn_skipn in E2.
  replace (en - st + st) with en in E2 by lia.
  pose proof (firstn_skipn (st - lo) (skipn lo ts)) as E1. rewrite skipn_skipn in E1.
  replace (st - lo + lo) with st in E1 by lia.
  assert (length (firstn (en - st) (skipn st ts)) = en - st) as L2.
  { rewrite firstn_length, skipn_length. lia. }
  remember (firstn (en - st) (skipn st ts)) as g eqn:Eg. destruct g as [|t0 g'].
  - cbn [length] in L2. lia.
  - exists (firstn (st - lo) (skipn lo ts)), t0, g'. split; [|split; [|split]].
    + rewrite E2. symmetry. exact E1.
    + rewrite firstn_length, skipn_length. lia.
    + exact L2.
    + symmetry. exact E2.
Qed.

(* ---------- remove_indices helpers ---------- *)
Lemma remove_indices_head_keep {A} i q (x : A) l :
  (forall r, In r q -> i < r) -> remove_indices i q (x :: l) = x :: remove_indices (S i) q l.
Proof.
  intros Hq. destruct q as [|r q']; cbn [remove_indices]; [reflexivity|].
  assert (i < r) as Hr by (apply Hq; left; reflexivity).
  replace (i =? r) with false by (symmetry; apply Nat.eqb_neq; lia). reflexivity.
Qed.

Lemma remove_indices_seq_all {A} : forall (l : list A) i, remove_indices i (seq i (length l)) l = [].
Proof.
  induction l as [|x l IH]; intros i; cbn [length seq remove_indices]; [reflexivity|].
  rewrite Nat.eqb_refl. apply IH.
Qed.

Lemma remove_indices_group {A} (x : A) g' st k :
  k = length g' -> remove_indices st (seq (st + 1) k) (x :: g') = [x].
Proof.
  intros ->. rewrite remove_indices_head_keep.
  - f_equal. replace (st + 1) with (S st) by lia. apply remove_indices_seq_all.
  - intros r Hr. apply in_seq in Hr. lia.
Qed.

Lemma queue_in_seq : forall n a lo hi, lo <= a -> a + n <= hi -> QueueIn lo hi (seq a n).
Proof.
  induction n as [|n IH]; intros a lo hi H1 H2; cbn [seq]; constructor; try lia. apply IH; lia.
Qed.

(* ---------- step 2: the neighbour-only overlap removal of find_all_matches ---------- *)
Fixpoint keepno (prev : span) (l : list span) : list span :=
  match l with
  | [] => []
  | y :: l' => if overlaps prev y then keepno y l' else y :: keepno y l'
  end.

Lemma overlap_idx_cons2 x y t i :
  overlap_idx (x :: y :: t) i =
  if overlaps x y then S i :: overlap_idx (y :: t) (S i) else overlap_idx (y :: t) (S i).
Proof. reflexivity. Qed.

Lemma overlap_idx_gt : forall l i r, In r (overlap_idx l i) -> i < r.
Proof.
  induction l as [|x l IH]; intros i r; [intros []|].
  destruct l as [|y t]; [intros []|]. rewrite overlap_idx_cons2.
  destruct (overlaps x y).
  - intros [<-|H]; [lia|]. apply IH in H. lia.
  - intros H. apply IH in H. lia.
Qed.

Lemma ri_overlap_keepno : forall l x i,
  remove_indices (S i) (overlap_idx (x :: l) i) l = keepno x l.
Proof.
  induction l as [|y l IH]; intros x i; [reflexivity|].
  rewrite overlap_idx_cons2. cbn [keepno]. destruct (overlaps x y).
  - cbn [remove_indices]. rewrite Nat.eqb_refl. apply IH.
  - rewrite remove_indices_head_keep; [f_equal; apply IH|].
    intros r Hr. apply overlap_idx_gt in Hr. exact Hr.
Qed.

Lemma fam_kept found :
  remove_indices 0 (overlap_idx found 0) found =
  match found with [] => [] | x :: l => x :: keepno x l end.
Proof.
  destruct found as [|x l]; [reflexivity|].
  rewrite remove_indices_head_keep; [f_equal; apply ri_overlap_keepno|].
  intros r Hr. apply overlap_idx_gt in Hr. exact Hr.
Qed.

(* ---------- TokenStringExt::span of a non-empty tiling ---------- *)
Lemma hull_lo_fold : forall r c e v, Tiling c e r -> v <= c ->
  fold_left (fun m x => Nat.min m (Nat.min (tstart x) (tend x))) r v = v.
Proof.
  intros r c e v H. revert v.
  induction H as [c|c e t ts Hs Hlt Hts IH]; intros v Hv; cbn [fold_left]; [reflexivity|].
  replace (Nat.min v (Nat.min (tstart t) (tend t))) with v by lia. apply IH. lia.
Qed.

Lemma hull_hi_fold : forall r c e, Tiling c e r ->
  fold_left (fun m x => Nat.max m (Nat.max (tstart x) (tend x))) r c = e.
Proof.
  intros r c e H. induction H as [c|c e t ts Hs Hlt Hts IH]; cbn [fold_left]; [reflexivity|].
  replace (Nat.max c (Nat.max (tstart t) (tend t))) with (tend t) by lia. exact IH.
Qed.

Lemma hull_tiling c e g : g <> [] -> Tiling c e g -> hull g = Ok (mkspan c e).
Proof.
  intros Hne H. destruct H as [c|c e t ts Hs Hlt Hts]; [contradiction|]. unfold hull.
  replace (Nat.min (tstart t) (tend t)) with c by lia.
  replace (Nat.max (tstart t) (tend t)) with (tend t) by lia.
  rewrite (hull_lo_fold ts (tend t) e c Hts) by lia.
  rewrite (hull_hi_fold ts (tend t) e Hts).
  pose proof (tiling_le _ _ _ Hts) as Hle. unfold span_new.
  replace (e <? c) with false by (symmetry; apply Nat.ltb_ge; lia). reflexivity.
Qed.

(* one iteration of the `for m in matches` loop of condense_pattern: its three checked operations *)
Lemma cp_step_ops (P : list token) t0 g' R st en :
  length P = st -> length (t0 :: g') = en - st -> st < en ->
  slice_chk (P ++ (t0 :: g') ++ R) st en = Ok (t0 :: g') /\
  nth_chk (P ++ (t0 :: g') ++ R) st = Ok t0 /\
  forall x, set_nth (P ++ (t0 :: g') ++ R) st x = Ok (P ++ (x :: g') ++ R).
Proof.
  intros HP Hg Hlt. split; [|split].
  - unfold slice_chk. rewrite !app_length.
    replace ((en <? st) || (length P + (length (t0 :: g') + length R) <? en)) with false.
    + f_equal. rewrite skipn_app_len by (symmetry; exact HP).
      apply firstn_app_len. symmetry. exact Hg.
    + symmetry. apply orb_false_iff. split; apply Nat.ltb_ge; lia.
  - unfold nth_chk. cbn [app]. rewrite nth_error_app_len by (symmetry; exact HP). reflexivity.
  - intros x. cbn [app]. apply set_nth_app_len. symmetry. exact HP.
Qed.

Section Pattern.
  Variable m : list token -> res nat.
  Variable edit : tkind -> tkind.
  Variable ts : list token.

  (* s is a (non-empty, in range) match of m on ts *)
  Definition is_match (s : span) : Prop :=
    sstart s < send s /\ send s <= length ts /\ m (skipn (sstart s) ts) = Ok (send s - sstart s).

  (* matches with strictly increasing starts, all >= lo : what fam_scan finds *)
  Inductive Found : nat -> list span -> Prop :=
  | Found_nil : forall lo, Found lo []
  | Found_cons : forall lo s rest,
      lo <= sstart s -> is_match s -> Found (S (sstart s)) rest -> Found lo (s :: rest).

  (* matches that are sorted and pairwise disjoint, all >= lo : what find_all_matches keeps *)
  Inductive DS : nat -> list span -> Prop :=
  | DS_nil : forall lo, DS lo []
  | DS_cons : forall lo s rest,
      lo <= sstart s -> is_match s -> DS (send s) rest -> DS lo (s :: rest).

  Lemma Found_weaken lo lo' l : lo' <= lo -> Found lo l -> Found lo' l.
  Proof. intros Hl H. destruct H; constructor; auto; lia. Qed.

  (* ---------- step 1 ---------- *)
  Lemma fam_scan_found : matcher_ok m ts -> forall n i, i + n = length ts ->
    exists found, fam_scan m (skipn i ts) i = Ok found /\ Found i found.
  Proof.
    intros Hok. induction n as [|n IH]; intros i Hi.
    - rewrite skipn_all2 by lia. exists []. split; [reflexivity|constructor].
    - pose proof (skipn_length i ts) as HL.
      pose proof (skipn_skipn 1 i ts) as HS. cbn [Nat.add] in HS.
      destruct (Hok i ltac:(lia)) as [len [Hm Hlen]].
      destruct (IH (S i) ltac:(lia)) as [rest [Hr HF]].
      remember (skipn i ts) as l eqn:El. destruct l as [|x t]; [cbn [length] in HL; lia|].
      change (skipn 1 (x :: t)) with t in HS.
      cbn [fam_scan]. rewrite Hm. cbn [bind]. rewrite HS, Hr. cbn [bind].
      destruct (len =? 0) eqn:E0.
      + exists rest. split; [reflexivity|]. eapply Found_weaken; [|exact HF]. lia.
      + apply Nat.eqb_neq in E0. exists (mkspan i (i + len) :: rest). split; [reflexivity|].
        constructor; cbn [sstart send]; [lia| |exact HF].
        unfold is_match; cbn [sstart send]. rewrite <- El. split; [lia|split; [lia|]].
        rewrite Hm. f_equal. lia.
  Qed.

  (* ---------- step 3 ---------- *)
  Hypothesis Hmono : monotone_ends m ts.

  Lemma match_mono x y : is_match x -> is_match y -> sstart x < sstart y -> send x <= send y.
  Proof.
    intros [Hx1 [Hx2 Hx3]] [Hy1 [Hy2 Hy3]] Hlt.
    pose proof (Hmono (sstart x) (sstart y) Hlt ltac:(lia)) as H.
    unfold match_len in H. rewrite Hx3, Hy3 in H. lia.
  Qed.

  Lemma keepno_DS : forall l prev bound,
    is_match prev -> Found (S (sstart prev)) l -> bound <= send prev -> DS bound (keepno prev l).
  Proof.
    induction l as [|y l IH]; intros prev bound Hp HF Hb; cbn [keepno]; [constructor|].
    inversion HF as [|lo s rest Hlo Hy HF']; subst.
    pose proof (match_mono prev y Hp Hy ltac:(lia)) as Hend.
    destruct (overlaps prev y) eqn:Eo.
    - apply IH; [exact Hy|exact HF'|lia].
    - assert (send prev <= sstart y) as Hd.
      { unfold overlaps in Eo. apply andb_false_iff in Eo. destruct Hy as [Hy1 _].
        destruct Eo as [E|E]; apply Nat.ltb_ge in E; lia. }
      constructor; [lia|exact Hy|]. apply IH; [exact Hy|exact HF'|lia].
  Qed.

  Lemma find_all_matches_spec : matcher_ok m ts ->
    exists kept, find_all_matches m ts = Ok kept /\ DS 0 kept.
  Proof.
    intros Hok. destruct (fam_scan_found Hok (length ts) 0 eq_refl) as [found [Hf HF]].
    cbn [skipn] in Hf. unfold find_all_matches. rewrite Hf. cbn [bind].
    eexists. split; [reflexivity|]. rewrite fam_kept.
    destruct found as [|x l]; [constructor|].
    inversion HF as [|lo s rest Hlo Hx HF']; subst.
    constructor; [lia|exact Hx|]. apply keepno_DS; [exact Hx|exact HF'|lia].
  Qed.

  (* ---------- steps 4 and 5 ---------- *)
  Variables a b : nat.
  Hypothesis HT : Tiling a b ts.

  Lemma cp_apply_spec : forall kept lo pre, length pre = lo -> lo <= length ts -> DS lo kept ->
    exists suf' q, cp_apply edit kept (pre ++ skipn lo ts) = Ok (pre ++ suf', q) /\
      (forall r, In r q -> lo <= r) /\
      Grouped (G_pattern_in ts m edit) (skipn lo ts) (remove_indices lo q suf').
  Proof.
    induction kept as [|s kept IH]; intros lo pre Hpre Hlo HD.
    - exists (skipn lo ts), []. split; [reflexivity|]. split; [intros r []|].
      rewrite remove_indices_nil. apply grouped_refl. intros t. left. exists t. split; reflexivity.
    - inversion HD as [|lo' s' rest Hls [Hm1 [Hm2 Hm3]] HD']; subst lo' s' rest.
      destruct s as [st en]. cbn [sstart send] in *.
      destruct (skipn_cons_split ts lo st en Hls Hm1 Hm2) as [A0 [t0 [g' [E1 [LA [Lg E2]]]]]].
      pose proof (firstn_skipn st ts) as Ets. rewrite E2 in Ets.
      assert (exists c e, Tiling c e (t0 :: g')) as [c [e HTg]].
      { pose proof HT as HT'. rewrite <- Ets in HT'. apply tiling_app_inv in HT' as [c [_ HT2]].
        apply tiling_app_inv in HT2 as [e [HTg _]]. exists c, e. exact HTg. }
      destruct (tiling_group c e (t0 :: g') ltac:(discriminate) HTg) as [Hgs [Hge Hce]].
      pose proof (hull_tiling c e (t0 :: g') ltac:(discriminate) HTg) as Hh.
      remember (mktok (mkspan c e) (edit (tkind_of t0))) as x eqn:Ex.
      destruct (IH en (pre ++ A0 ++ x :: g')) as [suf' [q' [Hcp [Hq' HG]]]].
      { rewrite !app_length. cbn [length] in *. lia. }
      { lia. }
      { exact HD'. }
      destruct (cp_step_ops (pre ++ A0) t0 g' (skipn en ts) st en) as [Hsl [Hnth Hset]].
      { rewrite app_length. lia. }
      { exact Lg. }
      { exact Hm1. }
      exists (A0 ++ (x :: g') ++ suf'), (seq (st + 1) (en - (st + 1)) ++ q').
      split; [|split].
      + cbn [cp_apply sstart send]. rewrite E1.
        replace (pre ++ A0 ++ (t0 :: g') ++ skipn en ts) with ((pre ++ A0) ++ (t0 :: g') ++ skipn en ts)
          by (rewrite <- app_assoc; reflexivity).
        rewrite Hsl. cbn [bind]. rewrite Hh. cbn [bind]. rewrite Hnth. cbn [bind].
        rewrite Hset. cbn [bind]. rewrite <- Ex.
        replace ((pre ++ A0) ++ (x :: g') ++ skipn en ts) with ((pre ++ A0 ++ x :: g') ++ skipn en ts)
          by (rewrite <- !app_assoc; reflexivity).
        rewrite Hcp. cbn [bind]. f_equal. f_equal. rewrite <- !app_assoc. reflexivity.
      + intros r Hr. apply in_app_or in Hr. destruct Hr as [Hr|Hr].
        * apply in_seq in Hr. lia.
        * apply Hq' in Hr. lia.
      + rewrite E1.
        pose proof (remove_indices_app A0 ((x :: g') ++ suf') lo [] (seq (st + 1) (en - (st + 1)) ++ q')) as R1.
        change ([] ++ seq (st + 1) (en - (st + 1)) ++ q') with (seq (st + 1) (en - (st + 1)) ++ q') in R1.
        rewrite R1; clear R1.
        2:{ constructor. }
        2:{ intros r Hr. apply in_app_or in Hr. destruct Hr as [Hr|Hr].
            - apply in_seq in Hr. lia.
            - apply Hq' in Hr. lia. }
        rewrite remove_indices_nil. replace (lo + length A0) with st by lia.
        assert (length (x :: g') = en - st) as Lx by (cbn [length] in *; lia).
        rewrite remove_indices_app.
        2:{ apply queue_in_seq; [lia|]. rewrite Lx. lia. }
        2:{ intros r Hr. apply Hq' in Hr. rewrite Lx. lia. }
        rewrite Lx. replace (st + (en - st)) with en by lia.
        rewrite remove_indices_group by (cbn [length] in Lg; lia).
        apply grouped_app.
        * apply grouped_refl. intros t. left. exists t. split; reflexivity.
        * replace x with (group_token (t0 :: g') (edit (tkind_of t0))).
          -- cbn [app]. apply (Grouped_cons (G_pattern_in ts m edit) (t0 :: g') (edit (tkind_of t0)) (skipn en ts)).
             ++ discriminate.
             ++ right. exists (firstn st ts), (skipn en ts). split; [symmetry; exact Ets|].
                split; [|reflexivity]. rewrite <- E2, Hm3, Lg. reflexivity.
             ++ exact HG.
          -- unfold group_token. rewrite Hgs, Hge. symmetry. exact Ex.
  Qed.
End Pattern.

Theorem condense_pattern_grouped_in : forall m edit a b ts,
  Tiling a b ts -> matcher_ok m ts -> monotone_ends m ts ->
  exists ts', condense_pattern m edit ts = Ok ts' /\ Grouped (G_pattern_in ts m edit) ts ts'.
Proof.
  intros m edit a b ts HT Hok Hmono.
  destruct (find_all_matches_spec m ts Hmono Hok) as [kept [Hf HD]].
  destruct (cp_apply_spec m edit ts a b HT kept 0 [] eq_refl ltac:(lia) HD) as [suf' [q [Hcp [_ HG]]]].
  cbn [app skipn] in Hcp, HG.
  exists (remove_indices 0 q suf'). split; [|exact HG].
  unfold condense_pattern. rewrite Hf. cbn [bind]. rewrite Hcp. reflexivity.
Qed.

Lemma G_pattern_in_weaken ts m edit g k : G_pattern_in ts m edit g k -> G_pattern m edit g k.
Proof.
  intros [H|[pre [rest [_ [Hm Hk]]]]]; [left; exact H|]. right. exists rest. split; assumption.
Qed.

Theorem condense_pattern_grouped : forall m edit a b ts,
  Tiling a b ts -> matcher_ok m ts -> monotone_ends m ts ->
  exists ts', condense_pattern m edit ts = Ok ts' /\ Grouped (G_pattern m edit) ts ts'.
Proof.
  intros m edit a b ts HT Hok Hmono.
  destruct (condense_pattern_grouped_in m edit a b ts HT Hok Hmono) as [ts' [H1 H2]].
  exists ts'. split; [exact H1|]. eapply grouped_weaken; [|exact H2].
  intros g k. apply G_pattern_in_weaken.
Qed.

Print Assumptions condense_pattern_grouped.
Print Assumptions condense_pattern_grouped_in.
