(* SpanSites.v — every span-computing site in a rule body (table regenerated from the Rust sources on
   every run) uses one of the schemas proved in bounds in SpanSchemas.v. *)
From Coq Require Import List String.
Require Import Tables_spanexprs.

Definition schema_known (s : span_schema) : bool :=
  match s with Unknown => false | Between | SuffixSpan | WithLen1 => true end.

Lemma rule_span_sites_known :
  forallb (fun e => schema_known (snd e)) rule_span_sites = true /\ 40 <= rule_files_scanned.
Proof. split; [vm_compute; reflexivity|]. unfold rule_files_scanned. repeat constructor. Qed.
