(* SpanSites.v — the tie between the rule bodies and the proved span schemas (tables regenerated from the Rust
   sources on every run by tools/tables/spanexprs.py):
     rule_span_sites        every site where a span is COMPUTED uses one of the schemas of SpanSchemas.v;
     rule_lint_sites        the `span` field of every `Lint { .. }` constructed in ANY rule file is a token's span, the
                            hull of a token slice, or one of the computed schemas — and every rule file either
                            constructs such a Lint or only instantiates MapPhraseLinter (the two files named below);
     rule_suggestion_sites  `enum Suggestion` has exactly the three variants of Model/Suggestion.v and every
                            constructor / helper a rule file uses builds one of them. *)
From Coq Require Import List String Arith Lia.
Require Import Base SpanSchemas Tables_spanexprs.
Import ListNotations.

Definition schema_known (s : span_schema) : bool :=
  match s with Unknown => false | Between | SuffixSpan | WithLen1 => true end.

Lemma rule_span_sites_known :
  forallb (fun e => schema_known (snd e)) rule_span_sites = true /\ 40 <= rule_files_scanned.
Proof. split; [vm_compute; reflexivity|]. unfold rule_files_scanned. repeat constructor. Qed.

(* ---------- every Lint construction of every rule file ---------- *)
Definition lint_src_known (s : lint_span_src) : bool :=
  match s with LUnknown => false | _ => true end.

(* a rule file is covered when it constructs a Lint (then all its constructions are in rule_lint_sites), or
   constructs none and instantiates MapPhraseLinter (whose own construction is in rule_lint_sites) *)
Definition file_covered (f : string * nat * list string) : bool :=
  let '(name, n, dl) := f in
  if Nat.eqb n 0 then existsb (String.eqb "MapPhraseLinter") dl && existsb (fun e => String.eqb (fst (fst e)) "map_phrase_linter.rs") rule_lint_sites
  else existsb (fun e => String.eqb (fst (fst e)) name) rule_lint_sites.

Definition files_without_lint : list string :=
  map (fun f => fst (fst f)) (filter (fun f => Nat.eqb (snd (fst f)) 0) rule_files).

(* the rule files that construct no Lint themselves, by name: both only build MapPhraseLinter instances *)
Definition files_without_lint_expected : list string := ["closed_compounds.rs"; "phrase_corrections.rs"]%string.

Lemma rule_lint_sites_known :
  forallb (fun e => lint_src_known (snd e)) rule_lint_sites = true /\
  forallb file_covered rule_files = true /\
  length rule_files = rule_files_scanned /\
  files_without_lint = files_without_lint_expected.
Proof. repeat split; vm_compute; reflexivity. Qed.

(* what each classified source denotes over the spans `ts` of the tokens a rule is handed; the side conditions of
   the computed schemas (a precedes b; the number token carries a 2-letter suffix; the word is non-empty) are part
   of the denotation: they are the run-time premises monitored on the implementation *)
Inductive src_denotes (ts : list span) : lint_span_src -> span -> Prop :=
| D_tok t : In t ts -> src_denotes ts LTokSpan t
| D_hull sub h : incl sub ts -> hull sub = Some h -> src_denotes ts LHull h
| D_between a b s : In a ts -> In b ts -> send a <= sstart b -> span_new (sstart a) (send b) = Ok s -> src_denotes ts LBetween s
| D_suffix t s : In t ts -> 2 <= send t - sstart t -> pulled_by (span_new_with_len (send t) 2) 2 = Some s -> src_denotes ts LSuffixSpan s
| D_withlen1 t : In t ts -> sstart t < send t -> src_denotes ts LWithLen1 (with_len t 1).

Lemma lint_src_in_bounds n ts k s : Forall (span_in n) ts -> src_denotes ts k s -> span_in n s.
Proof.
  intros F D. rewrite Forall_forall in F. destruct D as [t Ht|sub h Hs Hh|a b s Ha Hb Hab Hs|t s Ht Hl Hs|t Ht Hl].
  - now apply F.
  - eapply hull_in_bounds; [|exact Hh]. apply Forall_forall. intros x Hx. apply F, Hs, Hx.
  - destruct (between_in_bounds n a b (F a Ha) (F b Hb) Hab) as (s' & E & Hin). rewrite E in Hs. now injection Hs as <-.
  - destruct (suffix_span_in_bounds n t (F t Ht) Hl) as (s' & E & Hin & _). rewrite E in Hs. now injection Hs as <-.
  - apply with_len_1_in_bounds; [now apply F|assumption].
Qed.

Example lint_src_denotes_example :
  src_denotes [mkspan 0 3; mkspan 4 6] LHull (mkspan 0 6) /\ src_denotes [mkspan 0 3; mkspan 4 6] LBetween (mkspan 0 6) /\
  src_denotes [mkspan 0 3; mkspan 4 6] LWithLen1 (mkspan 4 5) /\ src_denotes [mkspan 0 3; mkspan 4 6] LSuffixSpan (mkspan 1 3).
Proof.
  repeat split.
  - apply D_hull with (sub := [mkspan 0 3; mkspan 4 6]); [apply incl_refl|reflexivity].
  - apply D_between with (a := mkspan 0 3) (b := mkspan 4 6); cbn; auto; lia.
  - apply (D_withlen1 _ (mkspan 4 6)); cbn; auto.
  - apply (D_suffix _ (mkspan 0 3)); cbn; auto.
Qed.

(* ---------- Suggestion constructors ---------- *)
Definition sugg_known (s : sugg_ctor) : bool := match s with SUnknown => false | _ => true end.

(* the three constructors of Model/Suggestion.v with their payloads *)
Definition suggestion_variants_expected : list (string * string) :=
  [("ReplaceWith", "(Vec<char>)"); ("InsertAfter", "(Vec<char>)"); ("Remove", "")]%string.

Lemma rule_suggestion_sites_known :
  suggestion_variants = suggestion_variants_expected /\
  forallb (fun e => sugg_known (snd e)) rule_suggestion_sites = true /\
  60 <= length rule_suggestion_sites.
Proof. repeat split; vm_compute; try reflexivity. repeat constructor. Qed.
