(* C12CommaProofs.v — CommaFixes (Model/C12Comma.v) is paragraph-local.
   What the proof rests on, all of it read off the arm TABLE by computation (the table is regenerated from
   comma_fixes.rs on every run, so these lemmas are re-checked against the arms the code has now):
     arms_v4_irrel   no arm looks at toks.4 unless toks.3 is a Space;      arms_v0_irrel   same for toks.0 / toks.1;
     arms_span_comma an arm whose result mentions toks.1 requires toks.1 to be a Space.
   and on the views: an absent neighbour, a ParagraphBreak neighbour and whatever lies behind it look alike. *)
From Coq Require Import List Arith NArith Lia Bool.
Require Import Base Overlap ParaSplit ParaSplitProofs Tables_c12rules C12Comma.
Import ListNotations.

Definition all_views : list nview := [VWord; VSpace; VUnl; VNo].
Definition all_cc : list cclass := [CAscii; CAsian; CNone].
Definition nview_eqb (a b : nview) : bool :=
  match a, b with VWord, VWord | VSpace, VSpace | VUnl, VUnl | VNo, VNo => true | _, _ => false end.
Definition out_eqb (a b : option (cfspan * nat)) : bool :=
  match a, b with
  | None, None => true
  | Some (w1, i1), Some (w2, i2) =>
      Nat.eqb i1 i2 && match w1, w2 with SComma, SComma | SPrev, SPrev | SPrevComma, SPrevComma => true | _, _ => false end
  | _, _ => false
  end.
Lemma out_eqb_eq a b : out_eqb a b = true -> a = b.
Proof.
  destruct a as [[w1 i1]|], b as [[w2 i2]|]; cbn [out_eqb]; try discriminate; [|reflexivity].
  intros H. apply andb_true_iff in H. destruct H as [H1 H2]. apply Nat.eqb_eq in H1. subst i2.
  destruct w1, w2; try discriminate; reflexivity.
Qed.

(* the three facts about the arm table, as boolean sweeps over all views *)
Definition chk_v4 : bool :=
  forallb (fun v0 => forallb (fun v1 => forallb (fun c => forallb (fun v3 => forallb (fun v4 => forallb (fun v4' =>
    nview_eqb v3 VSpace || out_eqb (run_arms cf_arms v0 v1 c v3 v4) (run_arms cf_arms v0 v1 c v3 v4'))
    all_views) all_views) all_views) all_cc) all_views) all_views.
Definition chk_v0 : bool :=
  forallb (fun v0 => forallb (fun v0' => forallb (fun v1 => forallb (fun c => forallb (fun v3 => forallb (fun v4 =>
    nview_eqb v1 VSpace || out_eqb (run_arms cf_arms v0 v1 c v3 v4) (run_arms cf_arms v0' v1 c v3 v4))
    all_views) all_views) all_cc) all_views) all_views) all_views.
Definition chk_span : bool :=
  forallb (fun v0 => forallb (fun v1 => forallb (fun c => forallb (fun v3 => forallb (fun v4 =>
    nview_eqb v1 VSpace || match run_arms cf_arms v0 v1 c v3 v4 with Some (SComma, _) | None => true | _ => false end)
    all_views) all_views) all_cc) all_views) all_views.

Lemma in_views v : In v all_views. Proof. destruct v; cbn; tauto. Qed.
Lemma in_cc c : In c all_cc. Proof. destruct c; cbn; tauto. Qed.

Lemma arms_v4_irrel v0 v1 c v3 v4 v4' :
  v3 <> VSpace -> run_arms cf_arms v0 v1 c v3 v4 = run_arms cf_arms v0 v1 c v3 v4'.
Proof.
  intros H3. assert (E : chk_v4 = true) by (vm_compute; reflexivity). unfold chk_v4 in E.
  rewrite forallb_forall in E. specialize (E v0 (in_views _)).
  rewrite forallb_forall in E. specialize (E v1 (in_views _)).
  rewrite forallb_forall in E. specialize (E c (in_cc _)).
  rewrite forallb_forall in E. specialize (E v3 (in_views _)).
  rewrite forallb_forall in E. specialize (E v4 (in_views _)).
  rewrite forallb_forall in E. specialize (E v4' (in_views _)).
  apply orb_true_iff in E. destruct E as [E|E]; [destruct v3; try discriminate; contradiction|now apply out_eqb_eq].
Qed.

Lemma arms_v0_irrel v0 v0' v1 c v3 v4 :
  v1 <> VSpace -> run_arms cf_arms v0 v1 c v3 v4 = run_arms cf_arms v0' v1 c v3 v4.
Proof.
  intros H1. assert (E : chk_v0 = true) by (vm_compute; reflexivity). unfold chk_v0 in E.
  rewrite forallb_forall in E. specialize (E v0 (in_views _)).
  rewrite forallb_forall in E. specialize (E v0' (in_views _)).
  rewrite forallb_forall in E. specialize (E v1 (in_views _)).
  rewrite forallb_forall in E. specialize (E c (in_cc _)).
  rewrite forallb_forall in E. specialize (E v3 (in_views _)).
  rewrite forallb_forall in E. specialize (E v4 (in_views _)).
  apply orb_true_iff in E. destruct E as [E|E]; [destruct v1; try discriminate; contradiction|now apply out_eqb_eq].
Qed.

Lemma arms_span_comma v0 v1 c v3 v4 w id :
  v1 <> VSpace -> run_arms cf_arms v0 v1 c v3 v4 = Some (w, id) -> w = SComma.
Proof.
  intros H1 Hr. assert (E : chk_span = true) by (vm_compute; reflexivity). unfold chk_span in E.
  rewrite forallb_forall in E. specialize (E v0 (in_views _)).
  rewrite forallb_forall in E. specialize (E v1 (in_views _)).
  rewrite forallb_forall in E. specialize (E c (in_cc _)).
  rewrite forallb_forall in E. specialize (E v3 (in_views _)).
  rewrite forallb_forall in E. specialize (E v4 (in_views _)).
  apply orb_true_iff in E. destruct E as [E|E]; [destruct v1; try discriminate; contradiction|].
  rewrite Hr in E. destruct w; try discriminate; reflexivity.
Qed.

Section CommaLocal.
  Variable unl : tok -> bool.
  (* the Unlintable test looks at the kind; moving a token changes of a kind only a quote's twin index *)
  Hypothesis unl_shift : forall n k t, unl (shift_tok n k t) = unl t.

  Lemma view_break b : is_paragraph_break (tkind b) = true -> view unl (Some b) = VNo.
  Proof. unfold view. destruct (tkind b); try discriminate. reflexivity. Qed.

  Lemma view_shift n k o : view unl (option_map (shift_tok n k) o) = view unl o.
  Proof.
    destruct o as [t|]; [|reflexivity]. cbn [option_map view]. rewrite unl_shift.
    destruct t as [sp kd]. unfold shift_tok. cbn [tkind].
    destruct kd as [| | | | | | | | | |[j|]| |]; reflexivity.
  Qed.

  (* a neighbour enters cf_at through its view, toks.1 also through its span *)
  Lemma cf_at_views src o0 o0' o1 t o3 o3' o4 o4' :
    view unl o0 = view unl o0' -> view unl o3 = view unl o3' -> view unl o4 = view unl o4' ->
    cf_at unl src o0 o1 t o3 o4 = cf_at unl src o0' o1 t o3' o4'.
  Proof. intros E0 E3 E4. unfold cf_at. now rewrite E0, E3, E4. Qed.

  Lemma cf_at_o4 src o0 o1 t o3 o4 o4' :
    view unl o3 <> VSpace -> cf_at unl src o0 o1 t o3 o4 = cf_at unl src o0 o1 t o3 o4'.
  Proof.
    intros H. unfold cf_at. destruct (tkind t); try reflexivity.
    now rewrite (arms_v4_irrel _ _ _ _ (view unl o4) (view unl o4') H).
  Qed.

  (* toks.1 absent or of no interest (a ParagraphBreak): the comma is treated as the first token of a document *)
  Lemma cf_at_head src o0 o1 t o3 o4 :
    view unl o1 = VNo -> cf_at unl src o0 o1 t o3 o4 = cf_at unl src None None t o3 o4.
  Proof.
    intros H. unfold cf_at. destruct (tkind t); try reflexivity.
    change (view unl None) with VNo. rewrite H.
    rewrite (arms_v0_irrel (view unl o0) VNo VNo) by discriminate.
    destruct (run_arms cf_arms VNo VNo _ _ _) as [[w id]|] eqn:E; [|reflexivity].
    apply arms_span_comma in E; [|discriminate]. subst w. reflexivity.
  Qed.

  (* behind a ParagraphBreak the loop runs as from the start of a document *)
  Lemma cf_go_after_break src p b B :
    is_paragraph_break (tkind b) = true -> cf_go unl src p (Some b) B = cf_go unl src None None B.
  Proof.
    intros Hb. pose proof (view_break b Hb) as Hv.
    destruct B as [|t B]; [reflexivity|]. cbn [cf_go]. f_equal.
    - now apply cf_at_head.
    - destruct B as [|t2 B]; [reflexivity|]. cbn [cf_go]. f_equal.
      apply cf_at_views; [rewrite Hv|..]; reflexivity.
  Qed.

  (* the cut: tokens in front of the break do not see past it, tokens behind it do not see it *)
  Lemma cf_go_split src b B : is_paragraph_break (tkind b) = true ->
    forall A0 p2 p1, cf_go unl src p2 p1 (A0 ++ b :: B) = cf_go unl src p2 p1 (A0 ++ [b]) ++ cf_go unl src None None B.
  Proof.
    intros Hb. pose proof (view_break b Hb) as Hv.
    assert (Hnc : forall o0 o1 o3 o4, cf_at unl src o0 o1 b o3 o4 = []).
    { intros. unfold cf_at. destruct (tkind b); try discriminate. reflexivity. }
    induction A0 as [|a A0 IH]; intros p2 p1.
    - cbn [app cf_go]. rewrite !Hnc. cbn [app]. now apply cf_go_after_break.
    - cbn [app cf_go]. rewrite IH, <- app_assoc. f_equal.
      destruct A0 as [|x [|y A3]]; cbn [app hd_error tl]; [|reflexivity|reflexivity].
      apply cf_at_o4. rewrite Hv. discriminate.
  Qed.

  (* tokens inside P read their comma character from P *)
  Lemma cf_at_prefix P D o0 o1 t o3 o4 :
    tok_in (length P) t -> cf_at unl (P ++ D) o0 o1 t o3 o4 = cf_at unl P o0 o1 t o3 o4.
  Proof. intros [_ He]. unfold cf_at. now rewrite slice_app_prefix. Qed.

  Lemma cf_go_prefix P D A : in_bounds (length P) A ->
    forall p2 p1, cf_go unl (P ++ D) p2 p1 A = cf_go unl P p2 p1 A.
  Proof.
    induction 1 as [|t A Ht _ IH]; intros p2 p1; [reflexivity|].
    cbn [cf_go]. now rewrite IH, cf_at_prefix.
  Qed.

  (* the moved second part *)
  Lemma cf_at_shift P D k o0 o1 t o3 o4 :
    let sh := shift_tok (length P) k in
    cf_at unl (P ++ D) (option_map sh o0) (option_map sh o1) (sh t) (option_map sh o3) (option_map sh o4)
    = map (shift_lint (length P)) (cf_at unl D o0 o1 t o3 o4).
  Proof.
    intros sh. unfold cf_at. subst sh. rewrite !view_shift.
    destruct t as [sp kd]. unfold shift_tok at 1 2 3. cbn [tkind tspan push_by sstart send].
    destruct kd as [| | | | | | | | | |[j|]| |]; try reflexivity. cbn [shift_kind].
    rewrite slice_app_shift.
    destruct (run_arms cf_arms _ _ _ _ _) as [[w id]|]; [|reflexivity].
    cbn [map]. f_equal. unfold shift_lint. cbn [lspan lid]. f_equal.
    destruct w, o1 as [t1|]; cbn [option_map cf_span_of tspan shift_tok push_by sstart send]; reflexivity.
  Qed.

  Lemma hd_error_map {X Y} (f : X -> Y) l : hd_error (map f l) = option_map f (hd_error l).
  Proof. destruct l; reflexivity. Qed.
  Lemma tl_map {X Y} (f : X -> Y) l : tl (map f l) = map f (tl l).
  Proof. destruct l; reflexivity. Qed.

  Lemma cf_go_shift P D k B : forall p2 p1,
    cf_go unl (P ++ D) (option_map (shift_tok (length P) k) p2) (option_map (shift_tok (length P) k) p1)
          (map (shift_tok (length P) k) B)
    = map (shift_lint (length P)) (cf_go unl D p2 p1 B).
  Proof.
    induction B as [|t B IH]; intros p2 p1; [reflexivity|].
    cbn [map cf_go]. rewrite map_app, <- IH. f_equal.
    rewrite hd_error_map, tl_map, hd_error_map. apply cf_at_shift.
  Qed.

  Theorem comma_fixes_local : para_local (comma_fixes unl).
  Proof.
    intros A B P D (A0 & b & -> & Hb) Hin. unfold comma_fixes.
    rewrite <- app_assoc. cbn [app]. rewrite (cf_go_split _ _ _ Hb).
    rewrite (cf_go_prefix _ _ _ Hin). f_equal.
    apply (cf_go_shift P D (length (A0 ++ [b])) B None None).
  Qed.

End CommaLocal.

(* the loop written with indices, as in the source, is the zipper loop *)
Lemma cf_go_idx unl src : forall ts pre,
  cf_go unl src (match rev pre with _ :: x :: _ => Some x | _ => None end) (hd_error (rev pre)) ts
  = flat_map (fun ci => match get_token (pre ++ ts) ci with
                        | Some t => cf_at unl src (if 2 <=? ci then get_token (pre ++ ts) (ci - 2) else None)
                                          (if 1 <=? ci then get_token (pre ++ ts) (ci - 1) else None)
                                          t (get_token (pre ++ ts) (ci + 1)) (get_token (pre ++ ts) (ci + 2))
                        | None => []
                        end) (seq (length pre) (length ts)).
Proof.
  induction ts as [|t r IH]; intros pre; [reflexivity|].
  cbn [cf_go length seq flat_map].
  specialize (IH (pre ++ [t])). rewrite rev_app_distr in IH. cbn [rev app hd_error] in IH.
  rewrite <- app_assoc in IH. cbn [app] in IH. rewrite app_length in IH. cbn [length] in IH.
  rewrite Nat.add_1_r in IH. rewrite <- IH. clear IH. f_equal.
  - unfold get_token. rewrite nth_error_app2 by lia. rewrite Nat.sub_diag. cbn [nth_error].
    assert (H3 : nth_error (pre ++ t :: r) (length pre + 1) = hd_error r).
    { rewrite nth_error_app2 by lia. replace (length pre + 1 - length pre) with 1 by lia. destruct r; reflexivity. }
    assert (H4 : nth_error (pre ++ t :: r) (length pre + 2) = hd_error (tl r)).
    { rewrite nth_error_app2 by lia. replace (length pre + 2 - length pre) with 2 by lia. destruct r as [|? [|? ?]]; reflexivity. }
    rewrite H3, H4. f_equal.
    + destruct (rev pre) as [|y [|x q]] eqn:E.
      * apply (f_equal (@length tok)) in E. rewrite rev_length in E. cbn [length] in E. rewrite E. reflexivity.
      * apply (f_equal (@length tok)) in E. rewrite rev_length in E. cbn [length] in E. rewrite E. reflexivity.
      * apply (f_equal (@rev tok)) in E. rewrite rev_involutive in E. cbn [rev] in E. subst pre.
        rewrite !app_length. cbn [length].
        replace (2 <=? length (rev q) + 1 + 1) with true by (symmetry; apply Nat.leb_le; lia).
        replace (length (rev q) + 1 + 1 - 2) with (length (rev q)) by lia.
        rewrite <- !app_assoc. rewrite nth_error_app2 by lia. rewrite Nat.sub_diag. reflexivity.
    + destruct (rev pre) as [|y q] eqn:E.
      * apply (f_equal (@length tok)) in E. rewrite rev_length in E. cbn [length] in E. rewrite E. reflexivity.
      * apply (f_equal (@rev tok)) in E. rewrite rev_involutive in E. cbn [rev] in E. subst pre.
        rewrite !app_length. cbn [length hd_error].
        replace (1 <=? length (rev q) + 1) with true by (symmetry; apply Nat.leb_le; lia).
        replace (length (rev q) + 1 - 1) with (length (rev q)) by lia.
        rewrite <- !app_assoc. rewrite nth_error_app2 by lia. rewrite Nat.sub_diag. reflexivity.
Qed.

Theorem comma_fixes_idx_eq unl ts src : comma_fixes_idx unl ts src = comma_fixes unl ts src.
Proof. unfold comma_fixes_idx, comma_fixes. symmetry. exact (cf_go_idx unl src ts []). Qed.
