(* C10CliProofs.v — C10: the file dictionary harper-cli's `lint` reads is the file-dictionary directory's direct child
   named by the document path (or, for a path without component, the directory itself): the name is one component. *)
Require Import Base EffectsBase Effects EffectsProofs EffectsSave EffectsSaveProofs EffectsConfig EffectsConfigProofs C10Cli Tables_c10paths.
From Coq Require Import String Lia.
Open Scope list_scope.

Lemma cli_comps_ns : forall p c, In c (cli_comps p) -> ns c.
Proof.
  intros p c H. unfold cli_comps in H. destruct p as [| x r]; [destruct H |].
  destruct (x =? slash)%N; [exact (comps_ns _ c H) |].
  destruct (split_aux (x :: r) []) as [| s t]; [exact (comps_ns _ c H) |].
  destruct (beqb s onedot); [| exact (comps_ns _ c H)].
  destruct H as [E | H]; [| exact (comps_ns _ c H)].
  subst c. intros y [Ey | []]. subst y. discriminate.
Qed.

Theorem cli_file_dict_name_flat : forall file, ns (cli_file_dict_name file).
Proof.
  intros file x Hx. unfold cli_file_dict_name in Hx. apply in_flat_map in Hx. destruct Hx as [c [Hc Hx]].
  apply in_app_or in Hx. destruct Hx as [Hx | [E | []]].
  - exact (cli_comps_ns file c Hc x Hx).
  - subst x. discriminate.
Qed.

Lemma cli_file_dict_name_percent : forall file, cli_file_dict_name file <> [] -> In percent (cli_file_dict_name file).
Proof.
  intros file H. unfold cli_file_dict_name in *. destruct (cli_comps file) as [| c rest]; [exfalso; apply H; reflexivity |].
  cbn [flat_map]. apply in_or_app. left. apply in_or_app. right. left. reflexivity.
Qed.

Theorem cli_lint_reads_inside : forall user filedir file u d, cli_lint_reads user filedir file = (u, d) ->
  let dirp := render' (resolve (comps filedir)) in
  u = render (resolve (comps user)) /\
  ((cli_file_dict_name file = [] /\ d = render (resolve (comps filedir))) \/
   (cli_file_dict_name file <> [] /\ d = dirp ++ slash :: cli_file_dict_name file /\ dir_of d = dirp)).
Proof.
  intros user filedir file u d H. cbv zeta. unfold cli_lint_reads in H. inversion H; subst u d; clear H.
  split; [reflexivity |].
  set (name := cli_file_dict_name file).
  assert (Hns : ns name) by apply cli_file_dict_name_flat.
  destruct name as [| c0 rest] eqn:En.
  - left. split; [reflexivity |]. reflexivity.
  - right. assert (Hne : name <> []) by (rewrite En; discriminate).
    assert (Hpc : In percent name) by (apply cli_file_dict_name_percent; exact Hne).
    rewrite <- En. split; [exact Hne |].
    assert (Hnd : name <> dotdot) by (intros E'; rewrite E' in Hpc; destruct Hpc as [X | [X | []]]; discriminate X).
    assert (Hn1 : name <> onedot) by (intros E'; rewrite E' in Hpc; destruct Hpc as [X | []]; discriminate X).
    assert (Hj : join_comps filedir name = comps filedir ++ [name]).
    { unfold join_comps. rewrite En. rewrite (proj2 (N.eqb_neq c0 slash)) by (apply Hns; left; reflexivity).
      rewrite <- En. rewrite (comps_single name) by (rewrite ?En; assumption || (rewrite <- En; assumption)). reflexivity. }
    rewrite Hj. rewrite (resolve_snoc _ _ Hnd).
    rewrite (render_nonempty _ (snoc_nonempty _ _ _)), render'_snoc.
    split; [reflexivity |]. apply dir_of_child. rewrite En in *. exact Hns.
Qed.

(* non-vacuity, and the shapes that differ from harper-ls's file_dict_name: relative paths, a leading "." *)
Lemma cli_examples :
  let b := fun s : string => bytes_of_string s in
  cli_lint_reads (b "/h/.config/harper-ls/dictionary.txt") (b "/h/fd/") (b "/w/docs/a.md") =
    (b "/h/.config/harper-ls/dictionary.txt", b "/h/fd/w%docs%a.md%") /\
  cli_lint_reads (b "/h/u.txt") (b "/h/fd") (b "docs/../a.md") = (b "/h/u.txt", b "/h/fd/docs%..%a.md%") /\
  cli_lint_reads (b "/h/x/../u.txt") (b "/h/fd") (b "./a.md") = (b "/h/u.txt", b "/h/fd/.%a.md%") /\
  cli_lint_reads (b "/h/u.txt") (b "/h/fd") (b "././b/./a.md") = (b "/h/u.txt", b "/h/fd/.%b%a.md%") /\
  cli_lint_reads (b "/h/u.txt") (b "/h/fd") (b "/") = (b "/h/u.txt", b "/h/fd") /\
  cli_lint_reads (b "/h/u.txt") (b "/") (b "a.md") = (b "/h/u.txt", b "/a.md%") /\
  cli_file_dict_name (b ".") = b ".%" /\ cli_file_dict_name [] = [] /\ cli_file_dict_name (b "..") = b "..%".
Proof. cbv zeta. repeat split; vm_compute; reflexivity. Qed.

(* ---- the shapes of the code the hand-written models follow, as tools/tables/c10paths.py reads them NOW (regenerated on
   every run; the translator raises on a shape it does not know).  Each conjunct is the source-level fact behind one
   modelling decision:
     1. EffectsConfig.parse_paths: userDictPath / fileDictPath go through dict_setting ("" -> default: the
        `!path.is_empty()` guard), statsPath through stats_setting (no guard), all three through try_resolve, each into
        its own field;
     2. EffectsSave.save_dict_plan has the file-name check, placed before create_dir_all (a91f3ee, the fix of FC10b;
        `false` here would be the old code = the *_old definitions);
     3. EffectsSave.file_dict_name / file_dict_plan: '%' after every component, RootDir skipped, empty name refused;
     4. C10Cli.cli_file_dict_name: the same but the empty name is NOT refused (join "" = the directory itself);
     5. C10Cli.cli_lint_reads: the two load_dict calls of `lint`, in this order. *)
Definition path_code_as_modelled : Prop :=
  config_path_blocks = [("userDictPath", "user_dict_path", true, "try_resolve"); ("fileDictPath", "file_dict_path", true, "try_resolve");
                        ("statsPath", "stats_path", false, "try_resolve")]%string /\
  save_dict_refuses_no_file_name = true /\
  ls_file_dict_name_shape = ("%"%string, true, true) /\ cli_file_dict_name_shape = ("%"%string, true, false) /\
  cli_lint_loads = ["&user_dict_path"; "file_dict_path.join(file_dict_name(&file))"]%string /\
  bytes_of_string "%" = [percent].

Theorem path_code_shapes : path_code_as_modelled.
Proof. unfold path_code_as_modelled. repeat split; reflexivity. Qed.
