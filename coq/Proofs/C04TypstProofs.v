(* C04TypstProofs.v — the Typst translator's cursor arithmetic (Model/C04Typst.v) places every token at the char range
   of the byte range typst-syntax reports for the node it came from. *)
Require Import Base Mask ListLemmas MaskProofs MaskFrontends C04Typst.
From Coq Require Import Lia.

(* ---- induction over the nested tree ---- *)
Section TnodeInd.
  Variable P : tnode -> Prop.
  Hypothesis Hleaf : forall r k, P (TLeaf r k).
  Hypothesis Htext : forall r t, P (TText r t).
  Hypothesis Hstr : forall r t, P (TStr r t).
  Hypothesis Htok : forall r k, P (TTok r k).
  Hypothesis Hnode : forall r cs, Forall P cs -> P (TNode r cs).
  Hypothesis Hgroup : forall cs, Forall P cs -> P (TGroup cs).
  Fixpoint tnode_ind' (n : tnode) : P n :=
    match n with
    | TLeaf r k => Hleaf r k
    | TText r t => Htext r t
    | TStr r t => Hstr r t
    | TTok r k => Htok r k
    | TNode r cs => Hnode r cs ((fix go (l : list tnode) : Forall P l :=
                                   match l with [] => Forall_nil P | x :: t => Forall_cons x (tnode_ind' x) (go t) end) cs)
    | TGroup cs => Hgroup cs ((fix go (l : list tnode) : Forall P l :=
                                 match l with [] => Forall_nil P | x :: t => Forall_cons x (tnode_ind' x) (go t) end) cs)
    end.
End TnodeInd.

Section TypstProofs.
  Variable lex : text -> list tok.
  Variable bs : list N.

  (* the contract of typst-syntax (monitored by the harness on every tree it dumps): a reported range is ordered, on
     char boundaries, and does not start before the expression it is visited from; a sub-node the translator unwraps
     has a range; the raw text of a Str node has its two quote bytes *)
  Definition rng_ok (lo a b : nat) : Prop := lo <= a /\ a <= b /\ is_boundary bs a = true /\ is_boundary bs b = true.

  Fixpoint tn_ok (lo : nat) (n : tnode) : Prop :=
    match n with
    | TLeaf None _ | TText None _ | TStr None _ | TNode None _ => True
    | TLeaf (Some (a, b)) _ => rng_ok lo a b
    | TText (Some (a, b)) _ => rng_ok lo a b
    | TStr (Some (a, b)) raw =>
        rng_ok lo a b /\ 2 <= length raw /\ is_boundary raw 1 = true /\ is_boundary raw (length raw - 1) = true
    | TTok None _ => False
    | TTok (Some (a, b)) _ => rng_ok lo a b
    | TNode (Some (a, b)) cs =>
        rng_ok lo a b /\ (fix all (l : list tnode) : Prop := match l with [] => True | c :: r => tn_ok a c /\ all r end) cs
    | TGroup cs => (fix all (l : list tnode) : Prop := match l with [] => True | c :: r => tn_ok lo c /\ all r end) cs
    end.

  (* the translation without any cursor: char offsets read off the byte ranges directly *)
  Fixpoint tr_spec (n : tnode) : list tok :=
    match n with
    | TLeaf (Some (a, b)) k => [mktok (mkspan (char_index bs a) (char_index bs b)) k]
    | TTok (Some (a, b)) k => [mktok (mkspan (char_index bs a) (char_index bs b)) k]
    | TText (Some (a, _)) txt => map (tpush (char_index bs a)) (lex txt)
    | TStr (Some (a, _)) raw => map (tpush (char_index bs a + 1)) (lex (decode (slice raw 1 (length raw - 1))))
    | TNode (Some _) cs => flat_map tr_spec cs
    | TGroup cs => flat_map tr_spec cs
    | _ => []
    end.

  Lemma push_to_exact c nb : cur_ok bs c -> cbyte c <= nb -> is_boundary bs nb = true ->
    push_to bs c nb = Ok (mkcur (char_index bs nb) nb) /\ cur_ok bs (mkcur (char_index bs nb) nb).
  Proof.
    intros Hc Hle Hb. destruct (proj2 (push_to_ok bs c nb Hc) (conj Hle Hb)) as [c' Hc'].
    destruct (push_to_spec _ _ _ _ Hc Hc') as (H1 & _ & [H2 H3]). destruct c' as [cc cb]. cbn [cbyte cchar] in *. subst.
    split; [assumption|]. split; [reflexivity|assumption].
  Qed.

  Lemma def_token_exact c a b k : cur_ok bs c -> rng_ok (cbyte c) a b ->
    def_token bs c a b k = Ok (mktok (mkspan (char_index bs a) (char_index bs b)) k).
  Proof.
    intros Hc (H1 & H2 & H3 & H4). unfold def_token.
    destruct (push_to_exact c a Hc H1 H3) as [-> Hc1]. cbn [bind].
    destruct (push_to_exact _ b Hc1 H2 H4) as [-> _]. reflexivity.
  Qed.

  Theorem tr_exact : forall n off, cur_ok bs off -> tn_ok (cbyte off) n -> tr lex bs n off = Ok (tr_spec n).
  Proof.
    induction n as [r k|r txt|r raw|r k|r cs IH|cs IH] using tnode_ind'; intros off Hc Hok.
    - destruct r as [[a b]|]; [|reflexivity]. cbn [tr tr_spec tn_ok] in *.
      pose proof Hok as (H1 & H2 & H3 & H4).
      destruct (push_to_exact off a Hc H1 H3) as [-> Hc1]. cbn [bind].
      rewrite def_token_exact; [reflexivity|assumption|]. cbn [cbyte]. repeat split; auto.
    - destruct r as [[a b]|]; [|reflexivity]. cbn [tr tr_spec tn_ok] in *. destruct Hok as (H1 & H2 & H3 & H4).
      destruct (push_to_exact off a Hc H1 H3) as [-> Hc1]. cbn [bind].
      destruct (push_to_exact _ a Hc1 (Nat.le_refl _) H3) as [-> _]. reflexivity.
    - destruct r as [[a b]|]; [|reflexivity]. cbn [tr tr_spec tn_ok] in *. destruct Hok as ((H1 & H2 & H3 & H4) & Hl & Hb1 & Hb2).
      destruct (push_to_exact off a Hc H1 H3) as [-> Hc1]. cbn [bind].
      destruct (push_to_exact _ a Hc1 (Nat.le_refl _) H3) as [-> _]. cbn [bind cchar].
      unfold sub_chk. destruct (Nat.ltb_spec (length raw) 1); [lia|]. cbn [bind].
      unfold str_slice. destruct (Nat.ltb_spec (length raw - 1) 1); [lia|]. rewrite Hb1, Hb2. reflexivity.
    - destruct r as [[a b]|]; [|destruct Hok]. cbn [tr tr_spec tn_ok] in *. now rewrite def_token_exact.
    - destruct r as [[a b]|]; [|reflexivity]. cbn [tr tr_spec tn_ok] in *. destruct Hok as ((H1 & H2 & H3 & H4) & Hcs).
      destruct (push_to_exact off a Hc H1 H3) as [-> Hc1]. cbn [bind].
      induction cs as [|c rest IHl]; [reflexivity|]. inversion IH as [|? ? Hc0 Hrest]; subst. destruct Hcs as [Hk Hks].
      rewrite (Hc0 _ Hc1 Hk). cbn [bind]. rewrite (IHl Hrest Hks). reflexivity.
    - cbn [tr tr_spec tn_ok] in *.
      induction cs as [|c rest IHl]; [reflexivity|]. inversion IH as [|? ? Hc0 Hrest]; subst. destruct Hok as [Hk Hks].
      rewrite (Hc0 _ Hc Hk). cbn [bind]. rewrite (IHl Hrest Hks). reflexivity.
  Qed.

  Definition top_ok (top : list tnode) : Prop := tn_ok 0 (TGroup top).

  (* Typst::parse = the cursor-free translation, then the retain filter of b629a93 *)
  Theorem typst_parse_exact top : top_ok top -> typst_parse lex bs top = Ok (typst_retain 0 (flat_map tr_spec top)).
  Proof.
    intros H. unfold typst_parse, typst_translate.
    rewrite (tr_exact (TGroup top) (mkcur 0 0) (cur_ok_start bs) H). reflexivity.
  Qed.
End TypstProofs.

(* ---- the retain filter (b629a93): source order of the emitted tokens is enforced by the code ---- *)

(* every token starts at or after `covered`, which then grows to the max of the ends seen *)
Fixpoint toks_after (c : nat) (l : list tok) : Prop :=
  match l with
  | [] => True
  | t :: r => c <= sstart (tspan t) /\ toks_after (Nat.max c (send (tspan t))) r
  end.

Lemma typst_retain_chain : forall l c, toks_after c (typst_retain c l).
Proof.
  induction l as [|t r IH]; intros c; cbn [typst_retain]; [exact I|].
  destruct (Nat.ltb_spec (sstart (tspan t)) c); [apply IH|]. cbn [toks_after]. split; [assumption|apply IH].
Qed.

Lemma toks_after_all : forall l c, toks_after c l -> Forall (fun t => c <= sstart (tspan t)) l.
Proof.
  induction l as [|t r IH]; intros c H; [constructor|]. cbn [toks_after] in H. destruct H as [H1 H2]. constructor; [assumption|].
  eapply Forall_impl; [|exact (IH _ H2)]. cbn beta. intros u Hu. lia.
Qed.

(* for ANY token list (any tree, any lexer, contract or not) and any starting value: in what the filter keeps every
   token starts at or after `covered` and at or after the END of every token kept before it — the kept tokens are in
   source order and pairwise disjoint; with well-formed spans the starts are non-decreasing *)
Theorem typst_retain_ordered : forall l c,
  Forall (fun t => c <= sstart (tspan t)) (typst_retain c l) /\
  ForallOrdPairs (fun a b => send (tspan a) <= sstart (tspan b)) (typst_retain c l).
Proof.
  intros l c. pose proof (typst_retain_chain l c) as H. split; [now apply toks_after_all|].
  remember (typst_retain c l) as k eqn:E. clear E l. revert c H.
  induction k as [|t r IH]; intros c H; [constructor|]. cbn [toks_after] in H. destruct H as [H1 H2].
  constructor; [|exact (IH _ H2)].
  eapply Forall_impl; [|exact (toks_after_all _ _ H2)]. cbn beta. intros u Hu. lia.
Qed.

(* the filter only drops: what is kept is a sub-sequence, and a list that is already in source order is kept whole *)
Lemma typst_retain_sub : forall l c t, In t (typst_retain c l) -> In t l.
Proof.
  induction l as [|x r IH]; intros c t H; cbn [typst_retain] in H; [contradiction|].
  destruct (sstart (tspan x) <? c); [right; eapply IH; exact H|]. destruct H as [<-|H]; [now left|right; eapply IH; exact H].
Qed.

Lemma typst_retain_id : forall l c, toks_after c l -> typst_retain c l = l.
Proof.
  induction l as [|t r IH]; intros c H; [reflexivity|]. cbn [toks_after] in H. destruct H as [H1 H2]. cbn [typst_retain].
  destruct (Nat.ltb_spec (sstart (tspan t)) c); [lia|]. now rewrite (IH _ H2).
Qed.

(* C04_typst_source_order: whatever tree typst-syntax hands over — in or out of the range contract —, when Typst::parse
   returns, its tokens are in source order and pairwise disjoint *)
Theorem typst_parse_source_order lex bs top toks : typst_parse lex bs top = Ok toks ->
  ForallOrdPairs (fun a b => send (tspan a) <= sstart (tspan b)) toks.
Proof.
  unfold typst_parse. destruct (typst_translate lex bs top) as [l|]; cbn [bind]; [|discriminate].
  intros H. inversion H. apply typst_retain_ordered.
Qed.

(* a node's char span denotes the text of its byte range (with C04_byte_to_char_spans' cidx lemma): the span of a
   TLeaf / TTok token, and the start of a TText / TStr token list *)
Theorem typst_leaf_denotes (t : text) a b : Forall valid_char t -> a <= b ->
  is_boundary (encode t) a = true -> is_boundary (encode t) b = true ->
  char_index (encode t) a <= char_index (encode t) b <= length t /\
  encode (slice t (char_index (encode t) a) (char_index (encode t) b)) = slice (encode t) a b /\
  encode (firstn (char_index (encode t) a) t) = firstn a (encode t).
Proof.
  intros Hv Hab Ha Hb.
  assert (Hwf : span_wf (mkspan a b)) by (unfold span_wf; cbn; lia).
  assert (Hob : on_boundaries (encode t) (mkspan a b)) by (split; cbn; assumption).
  destruct (cidx_denotes t _ Hv Hwf Hob) as (H1 & H2 & _). cbn [cidx sstart send] in H1, H2.
  split; [assumption|]. split; [assumption|].
  destruct (utf8_index t a Hv Ha) as (k & Hk & Hf & Hi & _). rewrite Hi. now rewrite Hf.
Qed.

(* e-acute, blank, #text(..) with a string argument containing an escaped quote (6 raw bytes at [9,15)), blank, equation:
   Text at bytes [0,3), a function call whose callee `text` is a TTok and whose argument is a Str, an equation as
   default-arm leaf *)
Example typst_translate_example :
  let lex := fun c : text => [mktok (mkspan 0 (length c)) 5%N] in
  let src := [233; 32; 35; 116; 101; 120; 116; 40; 34; 97; 92; 34; 98; 34; 41; 32; 36; 120; 36]%N in
  let top := [TText (Some (0, 3)) [233; 32]%N;
              TNode (Some (4, 16)) [TTok (Some (4, 8)) 2%N; TStr (Some (9, 15)) [34; 97; 92; 34; 98; 34]%N];
              TLeaf (Some (16, 17)) 2001%N; TLeaf (Some (17, 20)) 2%N; TLeaf None 2%N] in
  top_ok (encode src) top /\
  typst_parse lex (encode src) top
  = Ok [mktok (mkspan 0 2) 5%N; mktok (mkspan 3 7) 2%N; mktok (mkspan 9 13) 5%N; mktok (mkspan 15 16) 2001%N; mktok (mkspan 16 19) 2%N] /\
  (* b629a93: a sub-node handed out twice (the callee token again behind the argument) is dropped the second time *)
  typst_parse lex (encode src) [TNode (Some (4, 16)) [TTok (Some (4, 8)) 2%N; TStr (Some (9, 15)) [34; 97; 92; 34; 98; 34]%N; TTok (Some (4, 8)) 2%N]]
  = Ok [mktok (mkspan 3 7) 2%N; mktok (mkspan 9 13) 5%N].
Proof. cbv zeta. split; [vm_compute; repeat split; try lia; reflexivity|split; vm_compute; reflexivity]. Qed.

(* ---- which arms lex prose: read off the GENERATED table of typst_translator.rs's match arms ---- *)
Require Import Tables_typst.
From Coq Require String.
Import String.StringSyntax.
Delimit Scope string_scope with string.
Definition is_prose_arm (c : arm_class) : bool := match c with ArmText | ArmStr => true | _ => false end.
Lemma typst_prose_arms :
  map fst (filter (fun p => is_prose_arm (snd p)) typst_arms) = ["Text"%string; "Str"%string] /\
  List.length typst_arms = 29.
Proof. split; reflexivity. Qed.

(* ---- 3103238 (F34): the emission order of the Set / Show arms and of parse_args_ignored, read off the GENERATED table ---- *)
Lemma typst_arm_order_table :
  typst_arm_order = [("Set"%string, ["target"%string; "args"%string; "condition"%string]);
                     ("Show"%string, ["selector"%string; "transform"%string])] /\
  typst_ignored_args_in_text_order = true /\ typst_parse_has_retain_filter = true.
Proof. repeat split; reflexivity. Qed.
