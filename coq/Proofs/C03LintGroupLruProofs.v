(* C03LintGroupLruProofs.v — REFINEMENT: LintGroup::lint over the real LRU (Model/C03LintGroupLru.v: promotion on get,
   the least recently used entry popped on a put at capacity) is, call by call and history by history, a run of
   the adversarial model (Model/C03LintGroup.v) for a suitable choice of the adversary's evictions — same lints,
   same hit/miss flags, same panics — for EVERY capacity.  Hence everything proved about the adversarial model
   (C03LintGroupProofs.lg_history_in_bounds) holds for the cache the code has. *)
Require Import Base Cache CacheProofs C05Lru C05LruProofs C03LintGroup C03LintGroupProofs C03LintGroupLru.
From Coq Require Import List Arith NArith Bool Lia.
Import ListNotations.

(* ---------- association lists as maps ---------- *)
Section MapFacts.
  Context {K V : Type}.
  Variable eqb : K -> K -> bool.
  Hypothesis eqb_spec : forall a b, eqb a b = true <-> a = b.

  Definition meq (m1 m2 : list (K * V)) : Prop := forall k, lookup eqb k m1 = lookup eqb k m2.
  Definition nd (m : list (K * V)) : Prop := NoDup (map fst m).

  Lemma eqb_refl k : eqb k k = true.
  Proof. now apply eqb_spec. Qed.
  Lemma eqb_sym a b : eqb a b = eqb b a.
  Proof.
    destruct (eqb a b) eqn:E1, (eqb b a) eqn:E2; try reflexivity.
    - apply eqb_spec in E1. subst. rewrite eqb_refl in E2. discriminate.
    - apply eqb_spec in E2. subst. rewrite eqb_refl in E1. discriminate.
  Qed.

  Lemma lookup_filter (f : K -> bool) k (m : list (K * V)) :
    lookup eqb k (filter (fun kv => f (fst kv)) m) = if f k then lookup eqb k m else None.
  Proof.
    induction m as [|[k0 v0] m IH]; cbn [filter lookup fst]; [now destruct (f k)|].
    destruct (f k0) eqn:F0; cbn [lookup]; destruct (eqb k k0) eqn:E.
    - apply eqb_spec in E. subst. now rewrite F0.
    - exact IH.
    - apply eqb_spec in E. subst. rewrite IH, F0. reflexivity.
    - exact IH.
  Qed.
  Lemma lookup_evict keep k (m : list (K * V)) : lookup eqb k (evict keep m) = if keep k then lookup eqb k m else None.
  Proof. unfold evict. apply lookup_filter. Qed.
  Lemma lookup_remove_key k0 k (m : list (K * V)) :
    lookup eqb k (remove_key eqb k0 m) = if eqb k0 k then None else lookup eqb k m.
  Proof.
    unfold remove_key. rewrite (lookup_filter (fun x => negb (eqb k0 x))). now destruct (eqb k0 k).
  Qed.

  Lemma lookup_None_notin k (m : list (K * V)) : lookup eqb k m = None -> ~ In k (map fst m).
  Proof.
    induction m as [|[k0 v0] m IH]; cbn [lookup map fst In]; [tauto|].
    destruct (eqb k k0) eqn:E; [discriminate|]. intros L [H|H]; [|now apply IH].
    subst. rewrite eqb_refl in E. discriminate.
  Qed.
  Lemma notin_lookup_None k (m : list (K * V)) : ~ In k (map fst m) -> lookup eqb k m = None.
  Proof.
    induction m as [|[k0 v0] m IH]; cbn [lookup map fst In]; [reflexivity|]. intros H.
    destruct (eqb k k0) eqn:E; [apply eqb_spec in E; subst; tauto|]. apply IH. tauto.
  Qed.

  Lemma nd_filter (f : K * V -> bool) (m : list (K * V)) : nd m -> nd (filter f m).
  Proof.
    unfold nd. induction m as [|x m IH]; cbn [filter map]; [auto|]. intros H. inversion H as [|? ? Hn Hd]. subst.
    destruct (f x); [|now apply IH]. cbn [map]. constructor; [|now apply IH].
    intros Hin. apply Hn. apply in_map_iff in Hin. destruct Hin as (y & E & Hy). apply filter_In in Hy.
    apply in_map_iff. exists y. tauto.
  Qed.
  Lemma nd_removelast (m : list (K * V)) : nd m -> nd (removelast m).
  Proof.
    unfold nd. induction m as [|x m IH]; [auto|]. intros H. inversion H as [|? ? Hn Hd]. subst.
    cbn [removelast]. destruct m as [|y m']; [constructor|]. cbn [map]. constructor; [|now apply IH].
    intros Hin. apply Hn. apply in_map_iff in Hin. destruct Hin as (z & E & Hz). apply In_removelast in Hz.
    apply in_map_iff. exists z. tauto.
  Qed.


  Lemma last_In {A} (l : list A) d : l <> [] -> In (last l d) l.
  Proof.
    induction l as [|a l IH]; [congruence|]. intros _. destruct l as [|b l']; [now left|].
    right. change (last (a :: b :: l') d) with (last (b :: l') d). apply IH. congruence.
  Qed.

  (* popping the least recently used entry = the adversary evicting exactly that key *)
  Lemma lookup_removelast d k (m : list (K * V)) :
    nd m -> m <> [] ->
    lookup eqb k (removelast m) = if eqb (last (map fst m) d) k then None else lookup eqb k m.
  Proof.
    induction m as [|[k0 v0] m IH]; [congruence|]. intros Hnd _.
    unfold nd in Hnd. cbn [map fst] in Hnd. inversion Hnd as [|? ? Hn Hd]. subst.
    destruct m as [|y m'].
    - cbn [removelast lookup map fst last]. rewrite (eqb_sym k0 k). now destruct (eqb k k0).
    - change (removelast ((k0, v0) :: y :: m')) with ((k0, v0) :: removelast (y :: m')).
      change (last (map fst ((k0, v0) :: y :: m')) d) with (last (map fst (y :: m')) d).
      cbn [lookup]. rewrite IH by (assumption || congruence).
      destruct (eqb k k0) eqn:E; [|reflexivity].
      apply eqb_spec in E. subst k0.
      destruct (eqb (last (map fst (y :: m')) d) k) eqn:E2; [|reflexivity].
      apply eqb_spec in E2. exfalso. apply Hn. rewrite <- E2. apply last_In. cbn [map]. congruence.
  Qed.
End MapFacts.

Section LruRefines.
  Variables cfg kind : Type.
  Notation toks := (list (tok kind)).
  Variable enabled : cfg -> N -> bool.
  Variable cfg_hash : cfg -> N.
  Variable tok_hash : toks -> N.
  Variable linters : list (N * wrule kind).
  Variable plinters : list (N * prule kind).
  Variable cap : nat.

  Notation lg_chunks := (lg_chunks cfg kind enabled cfg_hash tok_hash plinters).
  Notation lg_lint := (lg_lint cfg kind enabled cfg_hash tok_hash linters plinters).
  Notation lg_run := (lg_run cfg kind enabled cfg_hash tok_hash linters plinters).
  Notation lgl_chunks := (lgl_chunks cfg kind enabled cfg_hash tok_hash plinters cap).
  Notation lgl_lint := (lgl_lint cfg kind enabled cfg_hash tok_hash linters plinters cap).
  Notation lgl_run := (lgl_run cfg kind enabled cfg_hash tok_hash linters plinters cap).
  Notation keq := code_key_eqb.
  Notation kspec := code_key_eqb_spec.
  Notation cmeq := (@meq lkey (list clint) code_key_eqb).
  Notation cnd := (@nd lkey (list clint)).

  (* results agree: same lints, same hit/miss flags, caches equal as maps (and the LRU list has no duplicate keys);
     or the same panic *)
  Definition chunks_sim (r1 r2 : res (lcache * list clint * list bool)) : Prop :=
    match r1 with
    | Ok (m1, out, hits) => exists m2, r2 = Ok (m2, out, hits) /\ cmeq m1 m2 /\ cnd m1
    | Panic p => r2 = Panic p
    end.

  Lemma chunks_sim_bind r1 r2 (pre : list clint) (h : bool) :
    chunks_sim r1 r2 ->
    chunks_sim (do '(m, out, hits) <- r1; Ok (m, pre ++ out, h :: hits)) (do '(m, out, hits) <- r2; Ok (m, pre ++ out, h :: hits)).
  Proof.
    destruct r1 as [[[m o] hs]|p]; cbn [chunks_sim bind].
    - intros (m2 & -> & H1 & H2). cbn [bind]. exists m2. auto.
    - intros ->. reflexivity.
  Qed.

  (* the model's put after a missed get IS LruCache::put *)
  Lemma lru_put_absent_eq k v (m : lcache) :
    lookup keq k m = None -> lru_put_absent cap k v m = lru_put keq cap k v m.
  Proof. intros L. unfold lru_put_absent, lru_put. unfold lkey, lcache in *. rewrite L. reflexivity. Qed.

  Lemma meq_evict_all (m1 m2 : lcache) : cmeq m1 m2 -> cmeq m1 (evict keep_all m2).
  Proof. intros H k. rewrite (lookup_evict keq kspec). unfold keep_all. apply H. Qed.

  Lemma lgl_chunks_refines t c src : forall chs m1 m2, cmeq m1 m2 -> cnd m1 ->
    exists evs, chunks_sim (lgl_chunks t c src chs m1) (lg_chunks t c src chs evs m2).
  Proof.
    induction chs as [|ts rest IH]; intros m1 m2 Hm Hnd.
    - exists []. cbn. exists m2. auto.
    - cbn [C03LintGroupLru.lgl_chunks C03LintGroup.lg_chunks].
      destruct (hull_of ts) as [[sp|]|p] eqn:Ho; cbn [bind].
      2:{ destruct (IH m1 (evict keep_all m2) (meq_evict_all _ _ Hm) Hnd) as (evs & S).
          exists (keep_all :: evs). cbn [hd tl]. exact S. }
      2:{ exists []. reflexivity. }
      destruct (get_content sp src) as [chars|p] eqn:Hg; cbn [bind]; [|exists []; reflexivity].
      destruct (rel_toks (sstart sp) ts) as [rt|p] eqn:Hr; cbn [bind]; [|exists []; reflexivity].
      set (key := (chars, cfg_hash c, tok_hash rt)).
      unfold lru_get. destruct (lookup keq key m1) as [v|] eqn:L.
      + (* hit: promotion *)
        cbn [bind].
        assert (Hm' : cmeq ((key, v) :: remove_key keq key m1) (evict keep_all m2)).
        { intros k. cbn [lookup]. rewrite (lookup_remove_key keq kspec), (lookup_evict keq kspec). unfold keep_all.
          rewrite (eqb_sym keq kspec key k). destruct (keq k key) eqn:E; [|apply Hm].
          apply kspec in E. subst k. rewrite <- Hm. now symmetry. }
        assert (Hnd' : cnd ((key, v) :: remove_key keq key m1)).
        { unfold nd. cbn [map fst]. constructor; [|apply nd_filter; exact Hnd].
          apply (lookup_None_notin keq kspec). rewrite (lookup_remove_key keq kspec), (eqb_refl keq kspec). reflexivity. }
        destruct (IH _ _ Hm' Hnd') as (evs & S). exists (keep_all :: evs). cbn [hd tl].
        assert (L2 : lookup keq key (evict keep_all m2) = Some v) by (rewrite <- Hm'; cbn [lookup]; now rewrite (eqb_refl keq kspec)).
        unfold lkey, lcache in *. rewrite L2. cbn [bind].
        apply chunks_sim_bind. exact S.
      + (* miss *)
        destruct (mapM (lpull (sstart sp)) (run_plinters cfg kind enabled plinters t c src ts)) as [rel|p] eqn:Hp; cbn [bind].
        2:{ exists []. cbn [hd tl]. rewrite (lookup_evict keq kspec). unfold keep_all. rewrite <- Hm.
            unfold lkey, lcache in *. rewrite L. reflexivity. }
        unfold lru_put_absent. unfold lkey, lcache in *.
        (* the adversary's move: nothing, or exactly the least recently used key *)
        set (full := (cap <=? length m1) && negb (match m1 with [] => true | _ => false end)).
        set (klast := last (map fst m1) key).
        set (ev := fun k : text * N * N => if full then negb (keq klast k) else true).
        set (m1b := if cap <=? length m1 then removelast m1 else m1).
        assert (Hlk : forall k, lookup keq k m1b = if ev k then lookup keq k m1 else None).
        { intros k. unfold m1b, ev, full. destruct (cap <=? length m1); cbn [andb]; [|reflexivity].
          destruct m1 as [|x m1']; [reflexivity|]. cbn [negb].
          rewrite (lookup_removelast keq kspec key) by (assumption || congruence). fold klast.
          now destruct (keq klast k). }
        assert (Hm' : cmeq ((key, rel) :: m1b) (put keq key rel (evict ev m2))).
        { intros k. unfold put. cbn [lookup]. destruct (keq k key) eqn:E; [reflexivity|].
          rewrite (lookup_remove_key keq kspec), (eqb_sym keq kspec key k), E, (lookup_evict keq kspec), Hlk, Hm. reflexivity. }
        assert (Hnd' : cnd ((key, rel) :: m1b)).
        { unfold nd. cbn [map fst]. constructor.
          - apply (lookup_None_notin keq kspec). rewrite Hlk, L. now destruct (ev key).
          - unfold m1b. destruct (cap <=? length m1); [apply nd_removelast|]; exact Hnd. }
        destruct (IH _ _ Hm' Hnd') as (evs & S). exists (ev :: evs). cbn [hd tl].
        assert (L2 : lookup keq key (evict ev m2) = None).
        { rewrite (lookup_evict keq kspec), <- Hm, L. now destruct (ev key). }
        rewrite L2. cbn [bind]. fold m1b.
        apply chunks_sim_bind. exact S.
  Qed.

  (* ---------- one call ---------- *)
  Definition st_sim (s1 s2 : lstate cfg) : Prop :=
    lg_cfg s1 = lg_cfg s2 /\ lg_time s1 = lg_time s2 /\ cmeq (lg_cache s1) (lg_cache s2) /\ cnd (lg_cache s1).
  Definition lint_sim (r1 r2 : res (lstate cfg * list clint * list bool)) : Prop :=
    match r1 with
    | Ok (s1, out, hits) => exists s2, r2 = Ok (s2, out, hits) /\ st_sim s1 s2
    | Panic p => r2 = Panic p
    end.
  Lemma st_sim_refl st : cnd (lg_cache st) -> st_sim st st.
  Proof. intros H. repeat split; try assumption. Qed.

  Lemma lgl_lint_refines st1 st2 d : st_sim st1 st2 -> exists evs, lint_sim (lgl_lint st1 d) (lg_lint st2 d evs).
  Proof.
    destruct st1 as [c1 m1 t1], st2 as [c2 m2 t2]. intros (Ec & Et & Hm & Hnd). cbn [lg_cfg lg_time lg_cache] in *. subst c2 t2.
    destruct (lgl_chunks_refines t1 c1 (l_src d) (l_chunks d) m1 m2 Hm Hnd) as (evs & S). exists evs.
    unfold C03LintGroupLru.lgl_lint, C03LintGroup.lg_lint. cbn [lg_cfg lg_time lg_cache].
    destruct (lgl_chunks t1 c1 (l_src d) (l_chunks d) m1) as [[[m3 out] hits]|p]; cbn [chunks_sim] in S.
    - destruct S as (m2' & -> & Hm3 & Hnd3). cbn [bind lint_sim]. eexists. split; [reflexivity|].
      repeat split; assumption.
    - rewrite S. reflexivity.
  Qed.

  (* ---------- histories ---------- *)
  Definition run_sim (r1 r2 : res (lstate cfg * list (ldoc kind * list clint))) : Prop :=
    match r1 with
    | Ok (s1, outs) => exists s2, r2 = Ok (s2, outs) /\ st_sim s1 s2
    | Panic p => r2 = Panic p
    end.
  (* h2 is h1 with a choice of the adversary's evictions for each lint call *)
  Inductive shadows : list (lrop cfg kind) -> list (lop cfg kind) -> Prop :=
  | sh_nil : shadows [] []
  | sh_cfg c h1 h2 : shadows h1 h2 -> shadows (RSetCfg c :: h1) (LSetCfg c :: h2)
  | sh_lint d evs h1 h2 : shadows h1 h2 -> shadows (RLint d :: h1) (LLint d evs :: h2).
  Fixpoint plain (h : list (lrop cfg kind)) : list (lop cfg kind) :=
    match h with
    | [] => []
    | RSetCfg c :: r => LSetCfg c :: plain r
    | RLint d :: r => LLint d [] :: plain r
    end.
  Lemma shadows_plain h : shadows h (plain h).
  Proof. induction h as [|[c|d] r IH]; cbn [plain]; constructor; assumption. Qed.

  Theorem lgl_run_refines : forall h st1 st2, st_sim st1 st2 ->
    exists h2, shadows h h2 /\ run_sim (lgl_run h st1) (lg_run h2 st2).
  Proof.
    induction h as [|o r IH]; intros st1 st2 Hs.
    - exists []. split; [constructor|]. cbn. exists st2. auto.
    - destruct o as [c|d].
      + destruct (IH (mklstate c (lg_cache st1) (lg_time st1)) (mklstate c (lg_cache st2) (lg_time st2))) as (h2 & Hsh & S).
        { destruct Hs as (_ & Et & Hm & Hnd). repeat split; assumption. }
        exists (LSetCfg c :: h2). split; [now constructor|]. exact S.
      + destruct (lgl_lint_refines st1 st2 d Hs) as (evs & S1).
        cbn [C03LintGroupLru.lgl_run].
        destruct (lgl_lint st1 d) as [[[s1 out] hits]|p]; cbn [lint_sim] in S1.
        * destruct S1 as (s2 & E2 & Hs1). destruct (IH s1 s2 Hs1) as (h2 & Hsh & S).
          exists (LLint d evs :: h2). split; [now constructor|]. cbn [C03LintGroup.lg_run]. rewrite E2. cbn [bind].
          destruct (lgl_run r s1) as [[s1' outs]|p]; cbn [run_sim] in S |- *.
          -- destruct S as (s2' & -> & Hs'). cbn [bind]. exists s2'. auto.
          -- rewrite S. reflexivity.
        * exists (LLint d evs :: plain r). split; [constructor; apply shadows_plain|].
          cbn [C03LintGroup.lg_run bind run_sim]. rewrite S1. reflexivity.
  Qed.

  (* ---------- consequence: the in-bounds theorem for the cache the code has, every capacity ---------- *)
  Fixpoint rhist_ok (h : list (lrop cfg kind)) : Prop :=
    match h with
    | [] => True
    | RLint d :: r => doc_ok kind d /\ rhist_ok r
    | _ :: r => rhist_ok r
    end.
  Fixpoint rhist_docs (h : list (lrop cfg kind)) : list (ldoc kind) :=
    match h with
    | [] => []
    | RLint d :: r => d :: rhist_docs r
    | _ :: r => rhist_docs r
    end.
  Lemma shadows_ok h h2 : shadows h h2 -> rhist_ok h -> hist_ok cfg kind h2.
  Proof. induction 1; cbn [rhist_ok hist_ok]; tauto. Qed.
  Lemma shadows_docs h h2 : shadows h h2 -> hist_docs cfg kind h2 = rhist_docs h.
  Proof. induction 1; cbn [rhist_docs hist_docs]; congruence. Qed.

  Theorem lgl_history_in_bounds : wrules_ok kind linters -> prules_ok kind plinters -> forall h st,
    rhist_ok h -> cache_ok (lg_cache st) -> cnd (lg_cache st) ->
    exists st' outs, lgl_run h st = Ok (st', outs) /\ map fst outs = rhist_docs h /\ outs_in kind outs.
  Proof.
    intros HW HP h st Hh Hm Hnd.
    destruct (lgl_run_refines h st st (st_sim_refl st Hnd)) as (h2 & Hsh & S).
    destruct (lg_history_in_bounds cfg kind enabled cfg_hash tok_hash linters plinters HW HP h2 st
                (shadows_ok h h2 Hsh Hh) Hm) as (st2 & outs & E & _ & Hd & Ho).
    destruct (lgl_run h st) as [[s1 outs1]|p]; cbn [run_sim] in S.
    - destruct S as (s2 & E2 & _). rewrite E in E2. injection E2 as <- <-.
      exists s1, outs. split; [reflexivity|]. split; [|assumption]. rewrite Hd. now apply shadows_docs.
    - rewrite E in S. discriminate.
  Qed.
End LruRefines.

(* ---------- non-vacuity: a real eviction ---------- *)
(* "xy.ab." : two clauses with different characters; every token hash collides *)
Definition exl_doc : ldoc N :=
  mkldoc [120; 121; 46; 97; 98; 46]%N [[(1%N, mkspan 0 2); (0%N, mkspan 2 3)]; [(1%N, mkspan 3 5); (0%N, mkspan 5 6)]] 0%N.
Definition exl_hits (cap : nat) (st : lstate N) :=
  lgl_lint N N drv_enabled (fun c => c) (fun _ => 0%N) [(7%N, ex_wrule)] [(0%N, ex_prule)] cap st exl_doc.
(* capacity 1: the second clause pops the first, the second call finds neither (miss, miss); capacity 2: hit, hit *)
Example exl_capacity_matters :
  (exists s1 o1 s2 o2, exl_hits 1 (lg_fresh 129%N) = Ok (s1, o1, [false; false]) /\ exl_hits 1 s1 = Ok (s2, o2, [false; false]) /\
                       length (lg_cache s2) = 1) /\
  (exists s1 o1 s2 o2, exl_hits 2 (lg_fresh 129%N) = Ok (s1, o1, [false; false]) /\ exl_hits 2 s1 = Ok (s2, o2, [true; true]) /\
                       o1 = o2 /\ Forall (lint_in 6) o2).
Proof.
  split; do 4 eexists; (split; [vm_compute; reflexivity|]); (split; [vm_compute; reflexivity|]).
  - reflexivity.
  - split; [reflexivity|]. repeat constructor.
Qed.
(* the premises of lgl_history_in_bounds are satisfiable on a history with an eviction (capacity 1) *)
Definition exl_hist : list (lrop N N) := [RLint exl_doc; RSetCfg 129%N; RLint ex_doc2; RLint exl_doc].
Lemma exl_hist_ok : rhist_ok N N exl_hist.
Proof.
  cbn [rhist_ok exl_hist]. split; [|split; [|split; [|exact I]]]; intros ts Hin; cbn in Hin;
  repeat (destruct Hin as [<-|Hin]; [split; [repeat constructor; cbn; lia|intros sp Ho; vm_compute in Ho; injection Ho as <-; cbn; lia]|]); destruct Hin.
Qed.
Example exl_history_nonvacuous :
  wrules_ok N [(7%N, ex_wrule)] /\ prules_ok N [(0%N, ex_prule)] /\ rhist_ok N N exl_hist /\
  exists st outs, lgl_run N N drv_enabled (fun c => c) (fun _ => 0%N) [(7%N, ex_wrule)] [(0%N, ex_prule)] 1 exl_hist (lg_fresh 129%N) = Ok (st, outs) /\
                  length outs = 3.
Proof.
  split; [exact ex_wrules_ok|]. split; [exact ex_prules_ok|]. split; [exact exl_hist_ok|].
  do 2 eexists. split; [vm_compute; reflexivity|reflexivity].
Qed.
