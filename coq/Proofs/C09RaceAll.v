(* C09RaceAll.v — C09: the family of races (command / configuration change in flight with a didChange) put together *)
Require Import Base Server ServerProofs C09Batch C09Seq C09Race C09RaceProofs C09RaceFamA C09RaceFamB.

Definition race_family : list race_member := race_fam_small ++ race_fam_addword ++ race_fam_config.

Lemma race_family_ok : forallb race_checks race_family = true.
Proof.
  unfold race_family. rewrite !forallb_app, race_fam_small_ok, race_fam_addword_ok, race_fam_config_ok. reflexivity.
Qed.

(* for every member, for ALL schedules: the last word is right IFF the shape is absent *)
Lemma race_family_all_exact :
  forall w0 h u, In (w0, h, u) race_family ->
  forall cs y, run cs (init h w0) = Some y -> quiescent y ->
  (lastword (y_world y) u = expected (y_world y) u <->
   race_overtaken w0 (y_world y) u (xtrace cs (init h w0)) = false).
Proof. intros w0 h u Hm. exact (race_family_exact race_family race_family_ok (w0, h, u) Hm). Qed.

(* non-vacuity: 14 members, every one in the class race_okb, every one a race of two messages from a world in which the
   document is open with a right last word; the members cover AddUser / AddFile / CfgChange x sent before / after the
   didChange x saved file / untitled document / command naming another document *)
Lemma race_family_nonvacuous :
  length race_family = 14 /\
  forallb (fun m => match m with (w0, h, u) => race_okb w0 h u && freshb w0 u && (length h =? 2) end) race_family = true /\
  In (race_wA, [AddUser 5 uA; Change uA (tx 1) 2], uA) race_family /\
  In (race_wS, [Change uA (tx 1) 2; CfgChange 1 []], uA) race_family.
Proof.
  split; [reflexivity|]. split; [vm_compute; reflexivity|].
  split; unfold race_family; rewrite !in_app_iff; [right; left; left; reflexivity|right; right; right; left; reflexivity].
Qed.
