(* LintGroupCfgJson.v — C11: the JSON round trip, the Hash byte stream, and the facts about the
   generated rule table. *)
From Coq Require Import List NArith Bool Lia.
Require Import Base Tables_rules.
Require Import LintGroupCfg LintGroupCfgProofs.
Import ListNotations.

(* ------------------------------------------------------------------------------------------- *)
(* E. parse_cfg (print_cfg c) = Some c                                                          *)
(* ------------------------------------------------------------------------------------------- *)
Definition tl_str (x : N) (p : option (key * list N)) : option (key * list N) :=
  match p with Some (k, r) => Some (x :: k, r) | None => None end.

Lemma ps_quote r : parse_str (34%N :: r) = Some ([], r).
Proof. reflexivity. Qed.
Lemma ps_esc_quote r : parse_str (92 :: 34 :: r)%N = tl_str 34%N (parse_str r).
Proof. reflexivity. Qed.
Lemma ps_esc_bslash r : parse_str (92 :: 92 :: r)%N = tl_str 92%N (parse_str r).
Proof. reflexivity. Qed.
Lemma ps_esc_b r : parse_str (92 :: 98 :: r)%N = tl_str 8%N (parse_str r).
Proof. reflexivity. Qed.
Lemma ps_esc_f r : parse_str (92 :: 102 :: r)%N = tl_str 12%N (parse_str r).
Proof. reflexivity. Qed.
Lemma ps_esc_n r : parse_str (92 :: 110 :: r)%N = tl_str 10%N (parse_str r).
Proof. reflexivity. Qed.
Lemma ps_esc_r r : parse_str (92 :: 114 :: r)%N = tl_str 13%N (parse_str r).
Proof. reflexivity. Qed.
Lemma ps_esc_t r : parse_str (92 :: 116 :: r)%N = tl_str 9%N (parse_str r).
Proof. reflexivity. Qed.
Lemma ps_raw b r : (b =? 34)%N = false -> (b =? 92)%N = false -> (b <? 32)%N = false ->
  parse_str (b :: r) = tl_str b (parse_str r).
Proof. intros H1 H2 H3. cbn [parse_str]. rewrite H1, H2, H3. reflexivity. Qed.

(* \u00XY for a control character *)
Definition ctl_ok (b : N) : bool :=
  match hex4 48 48 (hexd (b / 16)) (hexd (b mod 16)) with
  | Some n => (n =? b)%N && (n <? 128)%N && (n <? 55296)%N
  | None => false
  end.
Lemma ctl_ok_all : forallb ctl_ok (map N.of_nat (seq 0 32)) = true.
Proof. vm_compute. reflexivity. Qed.
Lemma ctl_ok_lt b : (b < 32)%N -> ctl_ok b = true.
Proof.
  intros H. pose proof ctl_ok_all as A. rewrite forallb_forall in A. apply A.
  apply in_map_iff. exists (N.to_nat b). split; [apply N2Nat.id|]. apply in_seq. lia.
Qed.

Lemma ps_esc_u b r : (b < 32)%N ->
  parse_str (92 :: 117 :: 48 :: 48 :: hexd (b / 16) :: hexd (b mod 16) :: r)%N = tl_str b (parse_str r).
Proof.
  intros H. pose proof (ctl_ok_lt b H) as C. unfold ctl_ok in C.
  destruct (hex4 48 48 (hexd (b / 16)) (hexd (b mod 16))) as [n|] eqn:E; [|discriminate].
  apply andb_true_iff in C as [C C3]. apply andb_true_iff in C as [C1 C2].
  apply N.eqb_eq in C1. subst n.
  assert (S1 : ((56320 <=? b) && (b <=? 57343))%N = false).
  { apply andb_false_iff. left. apply N.leb_gt. lia. }
  assert (S2 : ((b <? 55296) || (56319 <? b))%N = true) by (rewrite C3; reflexivity).
  cbn [parse_str N.eqb Pos.eqb]. rewrite E, S1, S2. unfold utf8_encode. rewrite C2. reflexivity.
Qed.

Lemma parse_str_esc k rest : parse_str (flat_map esc_byte k ++ 34%N :: rest) = Some (k, rest).
Proof.
  induction k as [|b k IH]; [apply ps_quote|].
  cbn [flat_map]. rewrite <- app_assoc. set (X := flat_map esc_byte k ++ 34%N :: rest) in *. unfold esc_byte.
  destruct (b =? 34)%N eqn:E1; [apply N.eqb_eq in E1; subst b; cbn [app]; now rewrite ps_esc_quote, IH|].
  destruct (b =? 92)%N eqn:E2; [apply N.eqb_eq in E2; subst b; cbn [app]; now rewrite ps_esc_bslash, IH|].
  destruct (b =? 8)%N eqn:E3; [apply N.eqb_eq in E3; subst b; cbn [app]; now rewrite ps_esc_b, IH|].
  destruct (b =? 12)%N eqn:E4; [apply N.eqb_eq in E4; subst b; cbn [app]; now rewrite ps_esc_f, IH|].
  destruct (b =? 10)%N eqn:E5; [apply N.eqb_eq in E5; subst b; cbn [app]; now rewrite ps_esc_n, IH|].
  destruct (b =? 13)%N eqn:E6; [apply N.eqb_eq in E6; subst b; cbn [app]; now rewrite ps_esc_r, IH|].
  destruct (b =? 9)%N eqn:E7; [apply N.eqb_eq in E7; subst b; cbn [app]; now rewrite ps_esc_t, IH|].
  destruct (b <? 32)%N eqn:E8.
  - apply N.ltb_lt in E8. cbn [app]. now rewrite (ps_esc_u b _ E8), IH.
  - cbn [app]. now rewrite (ps_raw b _ E1 E2 E8), IH.
Qed.

Lemma parse_value_print v r : parse_value (print_value v ++ r) = Some (v, r).
Proof. destruct v as [[|]|]; reflexivity. Qed.

Lemma parse_entry_print k v tail : parse_entry (print_entry (k, v) ++ tail) = Some (k, v, tail).
Proof.
  unfold print_entry, print_string. cbn [fst snd]. rewrite <- !app_assoc. cbn [app].
  unfold parse_entry. change (34 =? 34)%N with true. cbn iota.
  rewrite parse_str_esc.
  cbn [skip_ws]. change (is_ws 58) with false. cbn iota. change (58 =? 58)%N with true. cbn iota.
  now rewrite parse_value_print.
Qed.

(* what follows an entry: either the closing brace or a comma and the remaining entries *)
Definition rest_str (c : config) : list N :=
  match c with [] => [125%N] | _ :: _ => 44%N :: print_entries c ++ [125%N] end.

Lemma print_entries_cons e t : print_entries (e :: t) ++ [125%N] = print_entry e ++ rest_str t.
Proof. cbn [print_entries]. rewrite <- app_assoc. destruct t; reflexivity. Qed.

Lemma print_entry_head e tail : exists r, print_entry e ++ tail = 34%N :: r.
Proof. destruct e as [k v]. unfold print_entry, print_string. cbn [fst app]. eauto. Qed.

Lemma parse_entries_rest c : forall fuel acc, length c < fuel ->
  parse_entries fuel false (rest_str c) acc = Some (extend acc c).
Proof.
  induction c as [|[k v] t IH]; intros fuel acc Hf.
  - destruct fuel as [|f]; [cbn in Hf; lia|]. reflexivity.
  - destruct fuel as [|f]; [cbn in Hf; lia|].
    unfold rest_str. rewrite print_entries_cons.
    cbn [parse_entries skip_ws]. change (is_ws 44) with false. cbn iota.
    change (44 =? 125)%N with false. cbn iota. change (44 =? 44)%N with true. cbn iota.
    destruct (print_entry_head (k, v) (rest_str t)) as [r Er].
    assert (Ews : skip_ws (print_entry (k, v) ++ rest_str t) = print_entry (k, v) ++ rest_str t).
    { rewrite Er. cbn [skip_ws]. change (is_ws 34) with false. reflexivity. }
    rewrite Ews, parse_entry_print. unfold extend. cbn [fold_left fst snd].
    apply IH. cbn [length] in Hf. lia.
Qed.

Lemma parse_entries_first c : forall fuel, length c < fuel ->
  parse_entries fuel true (print_entries c ++ [125%N]) [] = Some (extend [] c).
Proof.
  destruct c as [|[k v] t]; intros fuel Hf.
  - destruct fuel as [|f]; [cbn in Hf; lia|]. reflexivity.
  - destruct fuel as [|f]; [cbn in Hf; lia|].
    rewrite print_entries_cons.
    destruct (print_entry_head (k, v) (rest_str t)) as [r Er].
    cbn [parse_entries]. rewrite Er. cbn [skip_ws]. change (is_ws 34) with false. cbn iota.
    change (34 =? 125)%N with false. cbn iota. rewrite <- Er, parse_entry_print.
    unfold extend. cbn [fold_left fst snd].
    apply parse_entries_rest. cbn [length] in Hf. lia.
Qed.

Lemma print_entries_len c : length c <= length (print_entries c).
Proof.
  induction c as [|e t IH]; [cbn; lia|].
  cbn [print_entries length]. rewrite app_length.
  destruct (print_entry_head e []) as [r Er]. rewrite app_nil_r in Er. rewrite Er. cbn [length].
  destruct t as [|e' t']; [cbn; lia|]. cbn [length] in *. lia.
Qed.

(* BTreeMap built by inserting ascending keys is the list itself *)
Lemma wf_app_inv {V} (a : bmap V) k v t : wf (a ++ (k, v) :: t) -> wf a /\ forall e, In e a -> kcmp (fst e) k = Lt.
Proof.
  induction a as [|[k0 v0] a' IH]; intros Hw; [split; [exact I|intros e []]|].
  change (((k0, v0) :: a') ++ (k, v) :: t) with ((k0, v0) :: (a' ++ (k, v) :: t)) in Hw.
  apply wf_cons in Hw as [Hl Hw]. destruct (IH Hw) as [Hwa Hall]. split.
  - apply wf_cons. split; [|exact Hwa]. destruct a' as [|[k1 v1] a'']; cbn [lb app] in *; auto.
  - intros e [<-|He]; [|now apply Hall]. cbn [fst].
    apply (lb_all _ _ Hl Hw (k, v)). apply in_or_app. right. now left.
Qed.

Lemma extend_sorted {V} (c : bmap V) : forall acc, wf (acc ++ c) -> extend acc c = acc ++ c.
Proof.
  unfold extend. induction c as [|[k v] t IH]; intros acc Hw; cbn [fold_left fst snd]; [now rewrite app_nil_r|].
  destruct (wf_app_inv acc k v t Hw) as [Hwa Hall].
  rewrite (insert_snoc k v acc Hwa Hall).
  rewrite IH; rewrite <- app_assoc; [reflexivity|exact Hw].
Qed.

Theorem json_roundtrip (c : config) : wf c -> parse_cfg (print_cfg c) = Some c.
Proof.
  intros Hw. unfold parse_cfg, print_cfg. cbn [app skip_ws]. change (is_ws 123) with false. cbn iota.
  change (123 =? 123)%N with true. cbn iota.
  rewrite parse_entries_first.
  - f_equal. apply (extend_sorted c []). exact Hw.
  - rewrite app_length. pose proof (print_entries_len c). cbn [length]. lia.
Qed.

(* ------------------------------------------------------------------------------------------- *)
(* F. impl Hash for LintGroupConfig                                                             *)
(* ------------------------------------------------------------------------------------------- *)
(* as a sequence of write calls the stream determines the configuration *)
Theorem hash_calls_inj (c1 c2 : config) : hash_calls c1 = hash_calls c2 -> c1 = c2.
Proof.
  revert c2. induction c1 as [|[k1 v1] t1 IH]; intros [|[k2 v2] t2] H.
  - reflexivity.
  - destruct v2 as [[|]|]; discriminate.
  - destruct v1 as [[|]|]; discriminate.
  - unfold hash_calls in H. cbn [flat_map] in H. fold (hash_calls t1) in H. fold (hash_calls t2) in H.
    destruct v1 as [[|]|], v2 as [[|]|]; cbn [hash_entry_calls fst snd app] in H;
      try discriminate; injection H as -> H; now rewrite (IH _ H).
Qed.

(* as a flat byte stream it does so only when keys hold no byte 0x00/0x01 *)
Lemma key_tag_split (k1 k2 : key) (t1 t2 : N) r1 r2 :
  key_clean k1 = true -> key_clean k2 = true -> (t1 < 2)%N -> (t2 < 2)%N ->
  k1 ++ t1 :: r1 = k2 ++ t2 :: r2 -> k1 = k2 /\ t1 = t2 /\ r1 = r2.
Proof.
  revert k2. induction k1 as [|b1 k1 IH]; intros [|b2 k2] C1 C2 H1 H2 E; cbn [app] in E.
  - injection E as -> ->. auto.
  - injection E as -> _. cbn [key_clean forallb] in C2. apply andb_true_iff in C2 as [C2 _]. apply N.leb_le in C2. lia.
  - injection E as -> _. cbn [key_clean forallb] in C1. apply andb_true_iff in C1 as [C1 _]. apply N.leb_le in C1. lia.
  - injection E as -> E. cbn [key_clean forallb] in C1, C2.
    apply andb_true_iff in C1 as [_ C1]. apply andb_true_iff in C2 as [_ C2].
    destruct (IH k2 C1 C2 H1 H2 E) as [-> [-> ->]]. auto.
Qed.

Lemma hash_bytes_cons k v t :
  hash_bytes ((k, v) :: t)
  = k ++ (match v with Some _ => 1%N | None => 0%N end)
      :: (match v with Some true => 1%N | _ => 0%N end) :: hash_bytes t.
Proof.
  unfold hash_bytes, hash_calls. cbn [flat_map]. rewrite concat_app.
  destruct v as [[|]|]; cbn [hash_entry_calls fst snd concat app]; rewrite <- ?app_assoc; reflexivity.
Qed.

Theorem hash_bytes_inj_clean (c1 c2 : config) :
  cfg_clean c1 = true -> cfg_clean c2 = true -> hash_bytes c1 = hash_bytes c2 -> c1 = c2.
Proof.
  revert c2. induction c1 as [|[k1 v1] t1 IH]; intros [|[k2 v2] t2] C1 C2 H.
  - reflexivity.
  - rewrite hash_bytes_cons in H. change (hash_bytes []) with (@nil N) in H.
    exfalso. exact (app_cons_not_nil _ _ _ H).
  - rewrite hash_bytes_cons in H. change (hash_bytes []) with (@nil N) in H.
    exfalso. exact (app_cons_not_nil _ _ _ (eq_sym H)).
  - rewrite !hash_bytes_cons in H. cbn [cfg_clean forallb fst] in C1, C2.
    apply andb_true_iff in C1 as [K1 C1]. apply andb_true_iff in C2 as [K2 C2].
    apply key_tag_split in H as [-> [Ht Hr]]; try assumption;
      try (destruct v1 as [[|]|]; lia); try (destruct v2 as [[|]|]; lia).
    injection Hr as Hv Hr. rewrite (IH t2 C1 C2 Hr).
    destruct v1 as [[|]|], v2 as [[|]|]; try discriminate; reflexivity.
Qed.

(* ... and not in general: keys are written without a length or terminator *)
Definition hash_witness_1 : config := [([97%N], None); ([98%N], Some true)].             (* {"a": null, "b": true} *)
Definition hash_witness_2 : config := [([97; 0; 0; 98]%N, Some true)].                   (* {"a\0\0b": true} *)
Theorem hash_bytes_ambiguous :
  wf hash_witness_1 /\ wf hash_witness_2 /\ hash_witness_1 <> hash_witness_2 /\
  hash_bytes hash_witness_1 = hash_bytes hash_witness_2 /\
  is_rule_enabled hash_witness_1 [98%N] = true /\ is_rule_enabled hash_witness_2 [98%N] = false.
Proof. repeat split; try (vm_compute; reflexivity); try exact I. discriminate. Qed.

(* ------------------------------------------------------------------------------------------- *)
(* G. the generated table                                                                       *)
(* ------------------------------------------------------------------------------------------- *)
Definition all_explicit (c : config) : bool := forallb (fun e => match snd e with Some _ => true | None => false end) c.
Definition table_defaults_ok : bool :=
  forallb (fun e => match get (fst e) curated_cfg with Some (Some b) => Bool.eqb b (snd e) | _ => false end)
          (curated_struct_rules ++ curated_pattern_rules).
Definition names_registered : bool := forallb (fun e => existsb (keqb (fst e)) curated_names) curated_cfg.

Lemma t_struct_wfb : wfb curated_struct_rules = true.   Proof. vm_compute. reflexivity. Qed.
Lemma t_pattern_wfb : wfb curated_pattern_rules = true. Proof. vm_compute. reflexivity. Qed.
Lemma t_cfg_wfb : wfb curated_cfg = true.               Proof. vm_compute. reflexivity. Qed.
Lemma t_explicit : all_explicit curated_cfg = true.     Proof. vm_compute. reflexivity. Qed.
Lemma t_defaults : table_defaults_ok = true.            Proof. vm_compute. reflexivity. Qed.
Lemma t_clean : cfg_clean curated_cfg = true.           Proof. vm_compute. reflexivity. Qed.
Lemma t_registered : names_registered = true.           Proof. vm_compute. reflexivity. Qed.

Definition table_ok : bool :=
  wfb curated_struct_rules && wfb curated_pattern_rules && wfb curated_cfg && all_explicit curated_cfg
  && table_defaults_ok && cfg_clean curated_cfg && names_registered.
Lemma table_ok_true : table_ok = true.
Proof.
  unfold table_ok. rewrite t_struct_wfb, t_pattern_wfb, t_cfg_wfb, t_explicit, t_defaults, t_clean, t_registered.
  reflexivity.
Qed.

Lemma curated_wf : wf curated_cfg.
Proof. exact (proj1 (wfb_wf curated_cfg) t_cfg_wfb). Qed.
Lemma curated_struct_wf : wf curated_struct_rules.
Proof. exact (proj1 (wfb_wf curated_struct_rules) t_struct_wfb). Qed.
Lemma curated_pattern_wf : wf curated_pattern_rules.
Proof. exact (proj1 (wfb_wf curated_pattern_rules) t_pattern_wfb). Qed.
Lemma curated_default k dflt : In (k, dflt) (curated_struct_rules ++ curated_pattern_rules) ->
  get k curated_cfg = Some (Some dflt).
Proof.
  intros Hin. pose proof t_defaults as T. unfold table_defaults_ok in T.
  rewrite forallb_forall in T. specialize (T _ Hin). cbn [fst snd] in T.
  destruct (get k curated_cfg) as [[b|]|]; try discriminate T.
  apply Bool.eqb_prop in T. now subst.
Qed.
Lemma curated_clean : cfg_clean curated_cfg = true.
Proof. exact t_clean. Qed.
Lemma curated_all_explicit k v : get k curated_cfg = Some v -> exists b, v = Some b.
Proof.
  intros Hg. pose proof t_explicit as T. unfold all_explicit in T. rewrite forallb_forall in T.
  specialize (T _ (get_in _ _ _ Hg)). cbn [snd] in T. destruct v; [eauto|discriminate T].
Qed.

(* the overlay over the real defaults *)
Theorem overlay_curated (u : config) k dflt : wf u ->
  In (k, dflt) (curated_struct_rules ++ curated_pattern_rules) ->
  is_rule_enabled (fill_with_curated curated_cfg u) k = match get k u with Some (Some b) => b | _ => dflt end.
Proof.
  intros Hw Hin. unfold is_rule_enabled. rewrite (get_fill _ _ _ Hw), (curated_default _ _ Hin).
  destruct (get k u) as [[b|]|]; reflexivity.
Qed.

(* harper-wasm over the real defaults (since b67a243): after ANY history of settings objects the switch of a
   real rule is what the LAST object says explicitly, else the rule's real default — "rules the user has not
   mentioned take their curated defaults when a user configuration is overlaid" (was finding FC11a; the
   behaviour before the fix is kept in History/C11History.v). *)
Definition k_SpellCheck : key := [83; 112; 101; 108; 108; 67; 104; 101; 99; 107]%N.
Theorem wasm_history_curated (us : list config) (u : config) k dflt : wf u ->
  In (k, dflt) (curated_struct_rules ++ curated_pattern_rules) ->
  is_rule_enabled (fill_with_curated curated_cfg (wasm_seq (clear curated_cfg) (us ++ [u]))) k
  = match get k u with Some (Some b) => b | _ => dflt end.
Proof.
  intros Hu Hin. rewrite (wasm_history _ us _ curated_wf Hu). now apply overlay_curated.
Qed.
