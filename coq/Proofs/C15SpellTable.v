(* C15SpellTable.v — the score of Model/C15Suggest.v is the score built from the constants the translator
   (tools/tables/c15spell.py) reads from harper-core/src/spell/mod.rs on every run; the translator also pins the
   statement shapes (stable `sort_by_key`, one fuzzy_match call, `sug.metadata.common`, plain Levenshtein automata). *)
Require Import Base EditDistance DictModel Fuzzy C15Suggest Tables_c15spell C15SuggestProofs.
From Coq Require Import ZArith.

Section Tab.
  Variable is_common : meta -> bool.
  Definition score_suggestion_tab (mw : text) (sug : fres) : Z :=
    match mw, r_word sug with
    | [], _ => i32_max
    | _ :: _, [] => i32_max
    | m0 :: _, s0 :: _ =>
        let score := (Z.of_nat (r_dist sug) * spell_w_distance)%Z in
        let score := if N.eqb m0 s0 then (score - spell_w_first_letter)%Z else score in
        let score := if N.eqb (last mw 0%N) spell_plural_char && N.eqb (last (r_word sug) 0%N) spell_plural_char
                     then (score - spell_w_plural)%Z else score in
        let score := if is_common (r_meta sug) then (score - spell_w_common)%Z else score in
        let score := if length (filter (N.eqb spell_apostrophe_char) (r_word sug)) =? spell_apostrophe_count
                     then (score - spell_w_apostrophe)%Z else score in
        score
    end.
End Tab.

Theorem score_suggestion_is_table : forall is_common mw sug,
  score_suggestion is_common mw sug = score_suggestion_tab is_common mw sug /\
  spell_sort_stable = true /\ fst_transposition_cost_one = false.
Proof. intros is_common mw sug. split; [reflexivity|split; reflexivity]. Qed.

Example score_table_example :
  score_suggestion_tab odd_common w_ths (mkfres w_th's 1 2) = (-10)%Z /\
  score_suggestion_tab odd_common w_ths (mkfres w_the 1 1) = (-5)%Z /\
  score_suggestion_tab odd_common w_ths (mkfres [] 3 1) = i32_max.
Proof. vm_compute. repeat split; reflexivity. Qed.
