(* C09RaceFamB.v — C09: ALL schedules (every interleaving at await granularity, the explorer of Model/C09Race.v) of a
   didChangeConfiguration (which rebuilds every linter and re-reads every document from its file) in flight with a
   didChange of a saved file - both orders of sending. *)
Require Import Base Server ServerProofs C09Batch C09Seq C09Race C09RaceProofs.

Definition race_fam_config : list race_member :=
  [ (race_wS, [CfgChange 1 []; Change uA (tx 1) 2], uA);
    (race_wS, [Change uA (tx 1) 2; CfgChange 1 []], uA) ].

Lemma race_fam_config_ok : forallb race_checks race_fam_config = true.
Proof. vm_compute. reflexivity. Qed.

(* in every member of the three families the document is in the class race_okb *)
Lemma race_config_in_class : forallb (fun m => match m with (w0, h, u) => race_okb w0 h u end) race_fam_config = true.
Proof. vm_compute. reflexivity. Qed.
