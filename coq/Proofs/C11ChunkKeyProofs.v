(* C11ChunkKeyProofs.v — with the chunk component of the cache key CONCRETE (Model/C11ChunkKey.v over C05's
   Model/Cache.v), the two dispatch hypotheses of C11_toggle_warm_cache are theorems:
     rel_fun_on  follows from C05's token-hash hypothesis (CacheProofs.tok_hash_inj_on, the premise of C05's key
                 theorem code_key_det) — the characters are in the key verbatim;
     rel_ok      holds by construction (a pattern lint is a chunk-relative lint pushed by the chunk start);
   and the key the code computes with checked subtractions is the total key of the model on every chunk that
   LintGroup::lint builds (C05's chunk_of_wf / rel_toks_spec). *)
From Coq Require Import List NArith Bool Arith Lia.
Require Import Base LintGroupCfg LintGroupCfgProofs LintGroupCfgJson C11Cache C11CacheProofs C11ChunkKey.
Require Cache CacheProofs.
Import ListNotations.

Lemma pull_push_lint {body} st (l : glint body) : pull_lint st (push_lint st l) = Ok l.
Proof.
  destruct l as [[a b] x]. unfold pull_lint, push_lint, pull_by, push_by, sub_chk. cbn [gl_span gl_body sstart send].
  destruct (Nat.ltb_spec (a + st) st) as [H|_]; [lia|]. cbn [bind].
  destruct (Nat.ltb_spec (b + st) st) as [H|_]; [lia|]. cbn [bind].
  now rewrite !Nat.add_sub.
Qed.

Lemma mapM_pull_push_lint {body} st (ls : list (glint body)) :
  LintGroupCfg.mapM (pull_lint st) (map (push_lint st) ls) = Ok ls.
Proof.
  induction ls as [|l t IH]; [reflexivity|]. cbn [map LintGroupCfg.mapM]. rewrite pull_push_lint. cbn [bind].
  rewrite IH. reflexivity.
Qed.

Lemma kk_eqb_sound a b : kk_eqb a b = true -> a = b.
Proof.
  destruct a as [a1 a2], b as [b1 b2]. unfold kk_eqb. cbn [fst snd]. intros E. apply andb_true_iff in E.
  destruct E as [E1 E2]. apply CacheProofs.text_eqb_spec in E1. apply N.eqb_eq in E2. now subst.
Qed.

Section KeyFacts.
  Variables body kind srule : Type.
  Notation toks := (list (Cache.tok kind)).
  Variable tok_hash : toks -> N.
  Variable g : group srule (kprule body kind).

  (* C05's hypothesis on the token hash, over the chunks of a list of documents (configurations play no role: unit) *)
  Definition docs_universe (docs : list (kdoc kind)) : list (text * toks * unit) :=
    flat_map (Cache.doc_triples unit kind tt) docs.
  Definition tok_hash_ok (docs : list (kdoc kind)) : Prop :=
    CacheProofs.tok_hash_inj_on unit kind tok_hash (docs_universe docs).

  Lemma in_universe docs d ch : In d docs -> In (Some ch) (Cache.d_chunks d) ->
    In (Cache.c_chars ch, Cache.spec_rel ch, tt) (docs_universe docs).
  Proof.
    intros Hd Hc. unfold docs_universe. apply in_flat_map. exists d. split; [assumption|].
    now apply CacheProofs.doc_triples_In.
  Qed.

  (* the key determines what every pattern rule reports relative to the chunk start *)
  Lemma k_rel_fun docs : tok_hash_ok docs ->
    rel_fun_on body (kdoc kind) (kchunk kind) srule (kprule body kind) k_chunks k_start k_run_pat (text * N)
               (k_key tok_hash) g (fun d => In d docs).
  Proof.
    intros Hinj d d' ch ch' st st' e Dd Dd' Hc Hc' Hk Hs Hs' _.
    destruct ch as [c|]; [|discriminate]. destruct ch' as [c'|]; [|discriminate].
    cbn [k_start] in Hs, Hs'. injection Hs as <-. injection Hs' as <-.
    cbn [k_key] in Hk. injection Hk as Hchars Hh.
    pose proof (Hinj _ _ (in_universe docs d c Dd Hc) (in_universe docs d' c' Dd' Hc') Hh) as Hrel.
    cbn [fst snd] in Hrel. cbn [k_run_pat]. rewrite !mapM_pull_push_lint. now rewrite Hchars, Hrel.
  Qed.

  (* no pattern lint before its chunk start: the premise of C11_decompose holds by construction *)
  Lemma k_rel_ok d : rel_ok k_chunks k_start k_run_pat g d.
  Proof.
    intros e ch st l _ _ Hs Hl. destruct ch as [c|]; [|discriminate]. cbn [k_start] in Hs. injection Hs as <-.
    cbn [k_run_pat] in Hl. apply in_map_iff in Hl. destruct Hl as (l0 & <- & _).
    unfold push_lint, push_by. cbn [gl_span sstart send]. lia.
  Qed.

  (* the key as the code computes it (checked subtractions) *)
  Lemma k_key_checked_wf d ch : Cache.chunk_wf ch -> k_key_checked tok_hash (Some ch) = Ok (k_key tok_hash d (Some ch)).
  Proof. intros Hwf. cbn [k_key_checked k_key]. now rewrite (CacheProofs.rel_toks_spec kind ch Hwf). Qed.

  Lemma k_key_checked_doc_of src chunks miss rest d oc :
    Cache.doc_of src chunks miss rest = Ok d -> In oc (k_chunks d) ->
    k_key_checked tok_hash oc = Ok (k_key tok_hash d oc).
  Proof.
    intros Hd Hin. destruct oc as [ch|]; [|reflexivity]. apply k_key_checked_wf.
    exact (CacheProofs.doc_of_wf kind src chunks miss rest d Hd ch Hin).
  Qed.
End KeyFacts.

Lemma hist_docs_in {doc CK HK} (h : list (hop doc CK HK)) d evs : In (HLint d evs) h -> In d (hist_docs h).
Proof.
  induction h as [|[c|d' evs'] t IH]; cbn [hist_docs]; [intros []| |].
  - intros [H|H]; [discriminate|now apply IH].
  - intros [H|H]; [injection H as -> _; now left|right; now apply IH].
Qed.

(* C11_toggle_warm_cache with the chunk key concrete: rel_fun_on and rel_ok are gone; what is left is C05's pair of
   hash hypotheses (configuration hash injective on the configurations used, token hash injective on the relative token
   sequences of the chunks the history lints) *)
Theorem toggle_warm_tokens (body kind srule HK : Type) (tok_hash : list (Cache.tok kind) -> N)
    (run_struct : srule -> kdoc kind -> list (glint body)) (hk_eqb : HK -> HK -> bool) (cfg_hash : config -> HK)
    (g : group srule (kprule body kind)) (P : config -> Prop)
    (h : list (hop (kdoc kind) (text * N) HK)) (cfg0 : config) (i j : nat) (ci cj : config) (d : kdoc kind) (r : key) :
  (forall a b : HK, hk_eqb a b = true -> a = b) ->
  hash_inj_on HK cfg_hash P ->
  tok_hash_ok kind tok_hash (hist_docs h) ->
  (forall c', In (HSetCfg c') h -> P c') -> P cfg0 ->
  nth_error (trace (kdoc kind) (text * N) HK h cfg0) i = Some (ci, d) ->
  nth_error (trace (kdoc kind) (text * N) HK h cfg0) j = Some (cj, d) ->
  (forall k : key, k <> r -> is_rule_enabled ci k = is_rule_enabled cj k) ->
  let out := run_hist body (kdoc kind) (kchunk kind) srule (kprule body kind) k_chunks k_start run_struct k_run_pat
               (text * N) HK kk_eqb hk_eqb (k_key tok_hash) cfg_hash g h cfg0 [] in
  nth_error out i = Some (Ok (map snd (lint_tagged k_chunks k_start run_struct k_run_pat (g_with_cfg g ci) d))) /\
  nth_error out j = Some (Ok (map snd (lint_tagged k_chunks k_start run_struct k_run_pat (g_with_cfg g cj) d))) /\
  filter (not_tag body r) (lint_tagged k_chunks k_start run_struct k_run_pat (g_with_cfg g ci) d) =
  filter (not_tag body r) (lint_tagged k_chunks k_start run_struct k_run_pat (g_with_cfg g cj) d).
Proof.
  intros Hhk Hhash Htok HP P0 Ni Nj Hag.
  exact (toggle_warm body (kdoc kind) (kchunk kind) srule (kprule body kind) k_chunks k_start run_struct k_run_pat
           (text * N) HK kk_eqb hk_eqb (k_key tok_hash) cfg_hash kk_eqb_sound Hhk g P (fun d0 => In d0 (hist_docs h))
           Hhash (k_rel_fun body kind srule tok_hash g (hist_docs h) Htok) h cfg0 i j ci cj d r HP P0
           (fun d0 evs H => hist_docs_in h d0 evs H) Ni Nj Hag (k_rel_ok body kind srule g d)).
Qed.

(* ... and with the write-call hasher the token hash is the only hypothesis left *)
Theorem toggle_warm_tokens_calls (body kind srule : Type) (tok_hash : list (Cache.tok kind) -> N)
    (run_struct : srule -> kdoc kind -> list (glint body))
    (g : group srule (kprule body kind))
    (h : list (hop (kdoc kind) (text * N) (list (list N)))) (cfg0 : config) (i j : nat) (ci cj : config)
    (d : kdoc kind) (r : key) :
  tok_hash_ok kind tok_hash (hist_docs h) ->
  nth_error (trace (kdoc kind) (text * N) (list (list N)) h cfg0) i = Some (ci, d) ->
  nth_error (trace (kdoc kind) (text * N) (list (list N)) h cfg0) j = Some (cj, d) ->
  (forall k : key, k <> r -> is_rule_enabled ci k = is_rule_enabled cj k) ->
  let out := run_hist body (kdoc kind) (kchunk kind) srule (kprule body kind) k_chunks k_start run_struct k_run_pat
               (text * N) (list (list N)) kk_eqb hk_eqb_calls (k_key tok_hash) hash_calls g h cfg0 [] in
  nth_error out i = Some (Ok (map snd (lint_tagged k_chunks k_start run_struct k_run_pat (g_with_cfg g ci) d))) /\
  nth_error out j = Some (Ok (map snd (lint_tagged k_chunks k_start run_struct k_run_pat (g_with_cfg g cj) d))) /\
  filter (not_tag body r) (lint_tagged k_chunks k_start run_struct k_run_pat (g_with_cfg g ci) d) =
  filter (not_tag body r) (lint_tagged k_chunks k_start run_struct k_run_pat (g_with_cfg g cj) d).
Proof.
  intros Htok Ni Nj Hag.
  exact (toggle_warm_tokens body kind srule (list (list N)) tok_hash run_struct hk_eqb_calls hash_calls g (fun _ => True)
           h cfg0 i j ci cj d r hk_eqb_calls_sound (hash_calls_inj_on _) Htok (fun _ _ => I) I Ni Nj Hag).
Qed.

(* ---- sharpness of the remaining hypothesis ---- *)
Lemma spec_rel_at_0 {kind} chars (t : list (Cache.tok kind)) : Cache.spec_rel (Cache.mkchunk 0 chars t) = t.
Proof.
  unfold Cache.spec_rel. cbn [Cache.c_toks Cache.c_start].
  induction t as [|[k [a b]] r IH]; [reflexivity|]. cbn [map fst snd sstart send]. rewrite !Nat.sub_0_r, IH. reflexivity.
Qed.

Lemma push_lint_0 {body} (l : glint body) : push_lint 0 l = l.
Proof. destruct l as [[a b] x]. unfold push_lint, push_by. cbn [gl_span gl_body sstart send]. now rewrite !Nat.add_0_r. Qed.
Lemma map_push_lint_0 {body} (ls : list (glint body)) : map (push_lint 0) ls = ls.
Proof. induction ls as [|l t IH]; [reflexivity|]. cbn [map]. now rewrite push_lint_0, IH. Qed.

Lemma kk_eqb_refl k : kk_eqb k k = true.
Proof.
  destruct k as [a b]. unfold kk_eqb. cbn [fst snd]. apply andb_true_iff. split; [now apply CacheProofs.text_eqb_spec|apply N.eqb_refl].
Qed.

(* the token-hash hypothesis is sharp inside C11's dispatch: a collision of the token hash on two token sequences over the
   same characters on which the enabled pattern rules differ makes the warm group answer the second document with the
   first document's pattern lints — not what lint_group (the cache-free path) answers *)
Theorem tokens_need_tok_hash (body kind srule HK : Type) (tok_hash : list (Cache.tok kind) -> N)
    (run_struct : srule -> kdoc kind -> list (glint body)) (hk_eqb : HK -> HK -> bool) (cfg_hash : config -> HK)
    (g : group srule (kprule body kind)) (cfg : config) (chars : text) (t1 t2 : list (Cache.tok kind)) :
  (forall a, hk_eqb a a = true) ->
  tok_hash t1 = tok_hash t2 ->
  let F := fun t => flat_map (fun e => if is_rule_enabled cfg (fst e) then snd e chars t else []) (g_patterns g) in
  F t1 <> F t2 ->
  let d1 := Cache.mkdoc [Some (Cache.mkchunk 0 chars t1)] [] 0%N in
  let d2 := Cache.mkdoc [Some (Cache.mkchunk 0 chars t2)] [] 0%N in
  let gc := g_with_cfg g cfg in
  run_hist body (kdoc kind) (kchunk kind) srule (kprule body kind) k_chunks k_start run_struct k_run_pat
    (text * N) HK kk_eqb hk_eqb (k_key tok_hash) cfg_hash g [HLint d1 []; HLint d2 []] cfg []
  = [Ok (struct_part run_struct gc d1 ++ F t1); Ok (struct_part run_struct gc d2 ++ F t1)] /\
  lint_group k_chunks k_start run_struct k_run_pat gc d2 = Ok (struct_part run_struct gc d2 ++ F t2) /\
  struct_part run_struct gc d2 ++ F t1 <> struct_part run_struct gc d2 ++ F t2.
Proof.
  intros Hrefl Hh F Hne d1 d2 gc. subst d1 d2.
  assert (P1 : forall t, chunk_pattern_lints k_run_pat gc (Cache.mkdoc [Some (Cache.mkchunk 0 chars t)] [] 0%N) (Some (Cache.mkchunk 0 chars t))
               = F t).
  { intros t. unfold chunk_pattern_lints, gc, F. cbn [g_with_cfg g_cfg g_patterns k_run_pat Cache.c_start Cache.c_chars].
    rewrite spec_rel_at_0. apply flat_map_ext. intros [k r]. cbn [fst snd]. destruct (is_rule_enabled cfg k); [|reflexivity].
    apply map_push_lint_0. }
  assert (P2 : forall t, LintGroupCfg.mapM (pull_lint 0) (F t) = Ok (F t)).
  { intros t. rewrite <- (map_push_lint_0 (F t)) at 1. apply mapM_pull_push_lint. }
  assert (Emiss : forall t keep,
    lint_chunk_c body (kdoc kind) (kchunk kind) srule (kprule body kind) k_start k_run_pat (text * N) HK kk_eqb hk_eqb
      (k_key tok_hash) cfg_hash gc (Cache.mkdoc [Some (Cache.mkchunk 0 chars t)] [] 0%N) [] keep (Some (Cache.mkchunk 0 chars t))
    = ([((chars, tok_hash t, cfg_hash cfg), F t)], Ok (F t))).
  { intros t keep. unfold lint_chunk_c. cbn [k_start Cache.c_start c_evict filter c_get]. rewrite (P1 t), P2.
    unfold c_put. cbn [k_key Cache.c_chars]. rewrite spec_rel_at_0, map_push_lint_0. reflexivity. }
  assert (Ehit :
    lint_chunk_c body (kdoc kind) (kchunk kind) srule (kprule body kind) k_start k_run_pat (text * N) HK kk_eqb hk_eqb
      (k_key tok_hash) cfg_hash gc (Cache.mkdoc [Some (Cache.mkchunk 0 chars t2)] [] 0%N)
      [((chars, tok_hash t1, cfg_hash cfg), F t1)] (fun _ => true) (Some (Cache.mkchunk 0 chars t2))
    = ([((chars, tok_hash t1, cfg_hash cfg), F t1)], Ok (F t1))).
  { unfold lint_chunk_c. cbn [k_start Cache.c_start c_evict filter fst k_key Cache.c_chars].
    rewrite spec_rel_at_0, <- Hh. cbn [c_get]. unfold key_eqb. cbn [fst snd gc g_with_cfg g_cfg].
    rewrite kk_eqb_refl, Hrefl. cbn [andb]. now rewrite map_push_lint_0. }
  split; [|split].
  - cbn [run_hist]. unfold lint_group_c. cbn [k_chunks Cache.d_chunks lint_chunks_c hd tl].
    fold gc. rewrite Emiss. cbn [fst snd]. rewrite Ehit. cbn [fst snd]. now rewrite !app_nil_r.
  - unfold lint_group. cbn [k_chunks Cache.d_chunks lint_chunks]. unfold lint_chunk. cbn [k_start Cache.c_start].
    rewrite (P1 t2), P2. cbn [bind]. now rewrite map_push_lint_0, app_nil_r.
  - intros E. apply app_inv_head in E. contradiction.
Qed.
