(* C14JsonExact.v — C14, phase 3: the serde_json text of IgnoredLints, exactly.
   The real format (derive(Serialize, Deserialize) on `struct IgnoredLints { context_hashes: HashSet<u64> }`) is the
   JSON object  {"context_hashes":[h1,h2,...]}  — compact, the hashes as decimal u64 numbers in the set's iteration
   order (render_set; the harness compares it BYTE FOR BYTE with serde_json::to_string, stream E).
     import_export_exact   : parse (print p) = the first occurrences of p, reversed — for ANY p: duplicates in the text
                             are dropped (HashSet), the order of the text decides the order of the list;
     export_import_export  : for a duplicate-free p (every real export is one) printing the imported list gives back
                             the very same bytes (text -> list -> text is the identity);
     export_injective      : two duplicate-free lists with the same text are the same list;
     import_rejects_overflow : a number above u64::MAX anywhere in the array makes the whole import fail (Err, the
                             list is left alone) — u64::MAX itself is accepted (num_value_render). *)
Require Import Base Suggestion Ignore ListLemmas IgnoreProofs IgnoreJson.

(* the first occurrence of every value, in order; `seen` = the values already in the set *)
Fixpoint first_occ (seen : ignored) (p : list N) : list N :=
  match p with
  | [] => []
  | h :: r => if ig_mem h seen then first_occ seen r else h :: first_occ (h :: seen) r
  end.

Lemma ig_append_first_occ p : forall acc, ig_append acc p = rev (first_occ acc p) ++ acc.
Proof.
  unfold ig_append. induction p as [|h r IH]; intros acc; cbn [fold_left first_occ]; [reflexivity|].
  unfold ig_insert. destruct (ig_mem h acc).
  - apply IH.
  - rewrite IH. cbn [rev]. rewrite <- app_assoc. reflexivity.
Qed.

Lemma first_occ_spec p : forall seen,
  NoDup (first_occ seen p) /\ forall h, In h (first_occ seen p) <-> In h p /\ ~ In h seen.
Proof.
  induction p as [|x r IH]; intros seen; cbn [first_occ].
  - split; [constructor|]. intros h. cbn [In]. tauto.
  - destruct (ig_mem x seen) eqn:E.
    + destruct (IH seen) as [ND Hin]. split; [exact ND|]. intros h. rewrite Hin. cbn [In].
      apply ig_mem_In in E. split; [tauto|]. intros [[<-|H] Hn]; [contradiction|tauto].
    + destruct (IH (x :: seen)) as [ND Hin].
      assert (~ In x seen) as Hx by (intros H; apply ig_mem_In in H; congruence).
      split.
      * constructor; [|exact ND]. rewrite Hin. cbn [In]. tauto.
      * intros h. cbn [In]. rewrite Hin. cbn [In]. split.
        -- intros [<-|[H1 H2]]; [tauto|]. split; [tauto|]. intros H3. apply H2. right. exact H3.
        -- intros [[<-|H1] H2]; [left; reflexivity|].
           destruct (N.eq_dec x h) as [->|Ne]; [left; reflexivity|]. right. split; [exact H1|].
           intros [E'|H3]; [congruence|contradiction].
Qed.

Lemma first_occ_nodup p : forall seen, NoDup p -> (forall h, In h p -> ~ In h seen) -> first_occ seen p = p.
Proof.
  induction p as [|x r IH]; intros seen ND H; cbn [first_occ]; [reflexivity|].
  inversion ND as [|a b Hx Hr]. subst.
  destruct (ig_mem x seen) eqn:E.
  - apply ig_mem_In in E. exfalso. apply (H x); [left; reflexivity|exact E].
  - f_equal. apply IH; [exact Hr|]. intros h Hh [<-|Hs]; [contradiction|]. apply (H h); [right; exact Hh|exact Hs].
Qed.

(* the parser on the printer's output, exactly: duplicates dropped, order reversed *)
Theorem import_export_exact p :
  Forall (fun h => (h <= u64_max)%N) p -> run_import (run_export p) = Some (rev (first_occ [] p)).
Proof.
  intros H. rewrite (import_export p H). f_equal.
  rewrite <- (app_nil_r (rev (first_occ [] p))), <- ig_append_first_occ.
  destruct p as [|x r]; reflexivity.
Qed.

(* text -> list -> text is the identity on the texts the implementation writes (a set has no duplicates) *)
Theorem export_import_export p :
  NoDup p -> Forall (fun h => (h <= u64_max)%N) p ->
  exists s, run_import (run_export p) = Some s /\ s = rev p /\ run_export (rev s) = run_export p.
Proof.
  intros ND H. exists (rev p). split; [|split; [reflexivity|rewrite rev_involutive; reflexivity]].
  rewrite (import_export_exact p H), (first_occ_nodup p [] ND); [reflexivity|]. intros h _ [].
Qed.

Theorem export_injective p q :
  NoDup p -> NoDup q -> Forall (fun h => (h <= u64_max)%N) p -> Forall (fun h => (h <= u64_max)%N) q ->
  run_export p = run_export q -> p = q.
Proof.
  intros NDp NDq Hp Hq E.
  pose proof (import_export_exact p Hp) as Ip. pose proof (import_export_exact q Hq) as Iq.
  rewrite E, Iq in Ip. injection Ip as Ip.
  rewrite (first_occ_nodup p [] NDp), (first_occ_nodup q [] NDq) in Ip by (intros h _ []).
  rewrite <- (rev_involutive p), <- (rev_involutive q), Ip. reflexivity.
Qed.

(* ---------- above u64::MAX ---------- *)
Local Open Scope N_scope.
Lemma num_value_overflow n : u64_max < n -> n < 10 ^ N.of_nat 20 -> num_value (render_num n) = None.
Proof.
  intros Hb Hp. unfold u64_max in Hb. rewrite render_num_unfold.
  destruct (N.ltb_spec n 10) as [L|L]; [lia|].
  assert (n / 10 < 10 ^ N.of_nat 19) as Hq.
  { change (N.of_nat 20) with (N.succ (N.of_nat 19)) in Hp. rewrite N.pow_succ_r' in Hp.
    apply N.div_lt_upper_bound; lia. }
  assert (1 <= n / 10) as H1 by (apply N.div_le_lower_bound; lia).
  destruct (digits_fuel_head 19 (n / 10) [48 + n mod 10] H1 Hq) as [d [r [E Hd]]].
  pose proof (digits_fuel_value 19 (n / 10) [48 + n mod 10] Hq) as V.
  rewrite E in *. unfold num_value.
  destruct (r ++ [48 + n mod 10]) as [|x y] eqn:Er; [destruct r; discriminate|].
  destruct (N.eqb_spec d 48) as [->|_]; [congruence|].
  assert (digits_value (d :: x :: y) = n) as ->.
  { unfold digits_value. change (fun a c : N => a * 10 + (c - 48)) with step. rewrite V.
    cbn [fold_left]. unfold step. pose proof (N.div_mod n 10 ltac:(lia)) as DM.
    set (m := n mod 10) in *. set (q := n / 10) in *. lia. }
  destruct (N.leb_spec n u64_max) as [K|K]; [unfold u64_max in K; lia|reflexivity].
Qed.

Lemma toks_tail_app a b : toks_tail (a ++ b) = toks_tail a ++ toks_tail b.
Proof. induction a as [|x a IH]; cbn [app toks_tail]; [reflexivity|]. rewrite IH. reflexivity. Qed.

Lemma parse_items_overflow a : forall acc n b rest,
  Forall (fun h => h <= u64_max) a -> u64_max < n -> n < 10 ^ N.of_nat 20 ->
  parse_items (toks_tail (a ++ n :: b) ++ rest) acc = None.
Proof.
  induction a as [|x a IH]; intros acc n b rest Ha Hn Hp; cbn [app toks_tail parse_items].
  - rewrite (num_value_overflow n Hn Hp). reflexivity.
  - inversion Ha as [|u v Hx Hr]. subst. rewrite (num_value_render x Hx). apply IH; assumption.
Qed.

Theorem import_rejects_overflow a n b :
  Forall (fun h => h <= u64_max) a -> u64_max < n -> n < 10 ^ N.of_nat 20 ->
  run_import (run_export (a ++ n :: b)) = None /\ forall s, import_into s (run_export (a ++ n :: b)) = None.
Proof.
  intros Ha Hn Hp.
  assert (run_import (run_export (a ++ n :: b)) = None) as K.
  { unfold run_import, run_export. rewrite lex_render_set. unfold parse_set.
    assert (text_eqb key_text key_text = true) as -> by (apply text_eqb_spec; reflexivity).
    destruct a as [|x a]; cbn [app].
    - rewrite (num_value_overflow n Hn Hp). reflexivity.
    - inversion Ha as [|u v Hx Hr]. subst. rewrite (num_value_render x Hx).
      rewrite (parse_items_overflow a [x] n b [JRBrack; JRBrace] Hr Hn Hp). reflexivity. }
  split; [exact K|]. intros s. unfold import_into. rewrite K. reflexivity.
Qed.
Local Close Scope N_scope.

(* non-vacuity: a text with duplicates and both extremes; the identity on a duplicate-free text; 2^64 rejected *)
Example json_exact_example :
  run_import (run_export [7; 0; 7; 18446744073709551615; 0; 3]%N) = Some [3; 18446744073709551615; 0; 7]%N /\
  first_occ [] [7; 0; 7; 18446744073709551615; 0; 3]%N = [7; 0; 18446744073709551615; 3]%N /\
  run_export [18446744073709551615; 0]%N
  = [123; 34; 99; 111; 110; 116; 101; 120; 116; 95; 104; 97; 115; 104; 101; 115; 34; 58; 91;
     49; 56; 52; 52; 54; 55; 52; 52; 48; 55; 51; 55; 48; 57; 53; 53; 49; 54; 49; 53; 44; 48; 93; 125]%N /\
  run_import (run_export [5; 18446744073709551616; 9]%N) = None.
Proof. repeat split; vm_compute; reflexivity. Qed.
