(* EditDistanceProofs.v — facts about the Levenshtein distance `lev` and the correctness of
   `wf_min_alloc` (edit_distance_min_alloc after fix 7a7de79) for ALL strings: two-row u8 Wagner–Fischer
   up to length 254 (any content of the reused buffers, both build modes), usize rows beyond, result
   saturated at 255.  History: the witnesses of the pre-fix function at 255 / 256 characters. *)
Require Import Base EditDistance ListLemmas.
From Coq Require Import Lia.

(* ------------------------------------------------------------------------------------------ *)
(** * unfolding equations of the textbook recursion *)
Lemma lev_nil_l t : lev [] t = length t.
Proof. reflexivity. Qed.

Lemma lev_nil_r s : lev s [] = length s.
Proof. destruct s; reflexivity. Qed.

Lemma lev_cons a s b t :
  lev (a :: s) (b :: t) = Nat.min (Nat.min (lev s (b :: t) + 1) (lev (a :: s) t + 1)) (lev s t + cost a b).
Proof. reflexivity. Qed.

Lemma cost_le1 a b : cost a b <= 1.
Proof. unfold cost. destruct (N.eqb a b); lia. Qed.

Lemma cost_sym a b : cost a b = cost b a.
Proof. unfold cost. rewrite N.eqb_sym. reflexivity. Qed.

Lemma cost_refl a : cost a a = 0.
Proof. unfold cost. now rewrite N.eqb_refl. Qed.

Lemma cost_0 a b : cost a b = 0 -> a = b.
Proof. unfold cost. destruct (N.eqb a b) eqn:E; [intros _; now apply N.eqb_eq|discriminate]. Qed.

(* ------------------------------------------------------------------------------------------ *)
(** * lev is the cost of a cheapest alignment (= edit script of deletions, insertions, substitutions) *)
Inductive align : nat -> text -> text -> Prop :=
| al_nil : align 0 [] []
| al_del a s t n : align n s t -> align (S n) (a :: s) t            (* delete a from the source *)
| al_ins b s t n : align n s t -> align (S n) s (b :: t)            (* insert b *)
| al_sub a b s t n : align n s t -> align (n + cost a b) (a :: s) (b :: t).   (* keep / substitute *)

Lemma align_eq n m s t : align n s t -> n = m -> align m s t.
Proof. now intros H <-. Qed.

Lemma align_nil_l t : align (length t) [] t.
Proof. induction t as [|b t IH]; [constructor|cbn [length]; now constructor]. Qed.

Lemma align_nil_r s : align (length s) s [].
Proof. induction s as [|a s IH]; [constructor|cbn [length]; now constructor]. Qed.

Lemma lev_align s t : align (lev s t) s t.
Proof.
  revert t. induction s as [|a s IHs]; intros t.
  - rewrite lev_nil_l. apply align_nil_l.
  - induction t as [|b t IHt].
    + rewrite lev_nil_r. apply align_nil_r.
    + rewrite lev_cons.
      destruct (Nat.min_spec (lev s (b :: t) + 1) (lev (a :: s) t + 1)) as [[_ E1]|[_ E1]];
      destruct (Nat.min_spec (Nat.min (lev s (b :: t) + 1) (lev (a :: s) t + 1)) (lev s t + cost a b)) as [[_ E2]|[_ E2]];
      rewrite E2; try rewrite E1.
      * eapply align_eq; [apply al_del, IHs|lia].
      * apply al_sub, IHs.
      * eapply align_eq; [apply al_ins, IHt|lia].
      * apply al_sub, IHs.
Qed.

Lemma lev_del_le a s t : lev (a :: s) t <= S (lev s t).
Proof.
  destruct t as [|b t].
  - rewrite !lev_nil_r. cbn [length]. lia.
  - rewrite lev_cons. lia.
Qed.

Lemma lev_ins_le b s t : lev s (b :: t) <= S (lev s t).
Proof.
  destruct s as [|a s].
  - rewrite !lev_nil_l. cbn [length]. lia.
  - rewrite lev_cons. lia.
Qed.

Lemma align_lev n s t : align n s t -> lev s t <= n.
Proof.
  induction 1 as [|a s t n _ IH|b s t n _ IH|a b s t n _ IH].
  - cbn. lia.
  - pose proof (lev_del_le a s t). lia.
  - pose proof (lev_ins_le b s t). lia.
  - rewrite lev_cons. lia.
Qed.

(* the characterisation: lev s t is the minimum cost over all alignments *)
Theorem lev_min_alignment s t :
  align (lev s t) s t /\ forall n, align n s t -> lev s t <= n.
Proof. split; [apply lev_align|intros n; apply align_lev]. Qed.

(* ------------------------------------------------------------------------------------------ *)
(** * metric-style facts *)
Lemma align_sym n s t : align n s t -> align n t s.
Proof.
  induction 1 as [|a s t n _ IH|b s t n _ IH|a b s t n _ IH].
  - constructor.
  - now apply al_ins.
  - now apply al_del.
  - rewrite cost_sym. now apply al_sub.
Qed.

Lemma lev_sym s t : lev s t = lev t s.
Proof.
  apply Nat.le_antisymm; apply align_lev, align_sym, lev_align.
Qed.

Lemma align_refl s : align 0 s s.
Proof.
  induction s as [|a s IH]; [constructor|].
  eapply align_eq; [apply (al_sub a a), IH|rewrite cost_refl; lia].
Qed.

Lemma lev_refl s : lev s s = 0.
Proof. pose proof (align_lev _ _ _ (align_refl s)). lia. Qed.

Lemma align_0_eq n s t : align n s t -> n = 0 -> s = t.
Proof.
  induction 1 as [|a s t n _ IH|b s t n _ IH|a b s t n _ IH]; intros E; try discriminate; [reflexivity|].
  assert (n = 0) by lia. assert (cost a b = 0) by lia.
  f_equal; [now apply cost_0|now apply IH].
Qed.

Lemma lev_0_iff s t : lev s t = 0 <-> s = t.
Proof.
  split; [intros E; eapply align_0_eq; [apply lev_align|exact E]|intros ->; apply lev_refl].
Qed.

(* every alignment costs at least the difference of the lengths, and the cheapest at most the longer length *)
Lemma align_len n s t : align n s t -> length s <= length t + n /\ length t <= length s + n.
Proof.
  induction 1 as [|a s t n _ IH|b s t n _ IH|a b s t n _ IH]; cbn [length]; lia.
Qed.

Lemma lev_len s t : length s <= length t + lev s t /\ length t <= length s + lev s t.
Proof. apply align_len, lev_align. Qed.

Lemma lev_le_max s t : lev s t <= Nat.max (length s) (length t).
Proof.
  revert t. induction s as [|a s IH]; intros t.
  - rewrite lev_nil_l. lia.
  - destruct t as [|b t].
    + rewrite lev_nil_r. lia.
    + rewrite lev_cons. pose proof (IH t). pose proof (cost_le1 a b). cbn [length]. lia.
Qed.

(* ------------------------------------------------------------------------------------------ *)
(** * reversal: the recursion may equally compare the last characters (what Wagner–Fischer does) *)
Lemma align_snoc_del a n s t : align n s t -> align (S n) (s ++ [a]) t.
Proof.
  induction 1 as [|a' s t n _ IH|b s t n _ IH|a' b s t n _ IH]; cbn [app].
  - apply al_del. constructor.
  - now apply al_del.
  - now apply al_ins.
  - eapply align_eq; [apply (al_sub a' b), IH|lia].
Qed.

Lemma align_snoc_ins b n s t : align n s t -> align (S n) s (t ++ [b]).
Proof. intros H. apply align_sym. apply align_snoc_del. now apply align_sym. Qed.

Lemma align_snoc_sub a b n s t : align n s t -> align (n + cost a b) (s ++ [a]) (t ++ [b]).
Proof.
  induction 1 as [|a' s t n _ IH|b' s t n _ IH|a' b' s t n _ IH]; cbn [app].
  - apply (al_sub a b). constructor.
  - eapply align_eq; [apply al_del, IH|lia].
  - eapply align_eq; [apply al_ins, IH|lia].
  - eapply align_eq; [apply (al_sub a' b'), IH|lia].
Qed.

Lemma align_rev n s t : align n s t -> align n (rev s) (rev t).
Proof.
  induction 1 as [|a s t n _ IH|b s t n _ IH|a b s t n _ IH]; cbn [rev].
  - constructor.
  - now apply align_snoc_del.
  - now apply align_snoc_ins.
  - now apply align_snoc_sub.
Qed.

Lemma lev_rev s t : lev (rev s) (rev t) = lev s t.
Proof.
  apply Nat.le_antisymm.
  - apply align_lev, align_rev, lev_align.
  - rewrite <- (rev_involutive s), <- (rev_involutive t) at 1.
    apply align_lev, align_rev, lev_align.
Qed.

(* the cell recurrence of Wagner–Fischer, in the order the Rust expression has it:
   (previous_row[i] + 1).min(current_row[i-1] + 1).min(previous_row[i-1] + cost) *)
Lemma lev_snoc sp a tp b :
  lev (sp ++ [a]) (tp ++ [b])
  = Nat.min (Nat.min (lev (sp ++ [a]) tp + 1) (lev sp (tp ++ [b]) + 1)) (lev sp tp + cost a b).
Proof.
  rewrite <- (lev_rev (sp ++ [a]) (tp ++ [b])), !rev_app_distr. cbn [rev app].
  rewrite lev_cons.
  replace (lev (rev sp) (b :: rev tp)) with (lev sp (tp ++ [b]))
    by (rewrite <- (lev_rev sp (tp ++ [b])), rev_app_distr; reflexivity).
  replace (lev (a :: rev sp) (rev tp)) with (lev (sp ++ [a]) tp)
    by (rewrite <- (lev_rev (sp ++ [a]) tp), rev_app_distr; reflexivity).
  rewrite lev_rev. lia.
Qed.

(* ------------------------------------------------------------------------------------------ *)
(** * triangle inequality (alignments compose) *)
Lemma cost_triangle a b c : cost a c <= cost a b + cost b c.
Proof.
  unfold cost. destruct (N.eqb a b) eqn:E1; destruct (N.eqb b c) eqn:E2; destruct (N.eqb a c) eqn:E3; try lia.
  apply N.eqb_eq in E1, E2. subst. rewrite N.eqb_refl in E3. discriminate.
Qed.

Lemma align_compose n s t : align n s t -> forall m u, align m t u -> lev s u <= n + m.
Proof.
  induction 1 as [|a s t n _ IH|b s t n _ IH|a b s t n _ IH]; intros m u Hm.
  - apply align_len in Hm. rewrite lev_nil_l. cbn [length] in Hm. lia.
  - pose proof (lev_del_le a s u). pose proof (IH m u Hm). lia.
  - remember (b :: t) as bt eqn:Ebt. revert Ebt.
    induction Hm as [|b' t' u m' Hm' IHm|c t' u m' Hm' IHm|b' c t' u m' Hm' IHm]; intros Ebt; try discriminate.
    + injection Ebt as -> ->. pose proof (IH m' u Hm'). lia.
    + pose proof (IHm Ebt). pose proof (lev_ins_le c s u). lia.
    + injection Ebt as -> ->. pose proof (IH m' u Hm'). pose proof (lev_ins_le c s u). lia.
  - remember (b :: t) as bt eqn:Ebt. revert Ebt.
    induction Hm as [|b' t' u m' Hm' IHm|c t' u m' Hm' IHm|b' c t' u m' Hm' IHm]; intros Ebt; try discriminate.
    + injection Ebt as -> ->. pose proof (IH m' u Hm'). pose proof (lev_del_le a s u). lia.
    + pose proof (IHm Ebt). pose proof (lev_ins_le c (a :: s) u). lia.
    + injection Ebt as -> ->. pose proof (IH m' u Hm'). rewrite lev_cons.
      pose proof (cost_triangle a b c). lia.
Qed.

Lemma lev_triangle s t u : lev s u <= lev s t + lev t u.
Proof. apply (align_compose _ _ _ (lev_align s t) _ _ (lev_align t u)). Qed.

(* ------------------------------------------------------------------------------------------ *)
(** * checked list operations *)
Lemma nth_chk_ok {A} (l : list A) i x : nth_error l i = Some x -> nth_chk l i = Ok x.
Proof. unfold nth_chk. now intros ->. Qed.

Lemma set_nth_ok {A} (l : list A) i x : i < length l ->
  exists l', set_nth l i x = Ok l' /\ length l' = length l /\ nth_error l' i = Some x /\
             forall k, k <> i -> nth_error l' k = nth_error l k.
Proof.
  revert i. induction l as [|h t IH]; intros i Hi; cbn [length] in Hi; [lia|].
  destruct i as [|i].
  - exists (x :: t). cbn [set_nth]. repeat split. intros [|k] Hk; [lia|reflexivity].
  - destruct (IH i ltac:(lia)) as (t' & E & L & N & O).
    exists (h :: t'). cbn [set_nth]. rewrite E. cbn [bind]. repeat split.
    + cbn [length]. now rewrite L.
    + exact N.
    + intros [|k] Hk; [reflexivity|]. cbn [nth_error]. apply O. lia.
Qed.

Lemma nth_error_seq a n i : i < n -> nth_error (seq a n) i = Some (a + i).
Proof.
  revert a i. induction n as [|n IH]; intros a i Hi; [lia|].
  destruct i as [|i]; cbn [seq nth_error]; [f_equal; lia|].
  rewrite IH by lia. f_equal. lia.
Qed.

Lemma nth_error_ext {A} (l1 l2 : list A) :
  length l1 = length l2 -> (forall i, i < length l1 -> nth_error l1 i = nth_error l2 i) -> l1 = l2.
Proof.
  revert l2. induction l1 as [|h t IH]; intros [|h2 t2] L H; cbn [length] in *; try lia; [reflexivity|].
  pose proof (H 0 ltac:(lia)) as H0. cbn in H0. injection H0 as ->. f_equal.
  apply IH; [lia|]. intros i Hi. apply (H (S i)). lia.
Qed.

Lemma firstn_snoc_nth {A} (l : list A) k x : nth_error l k = Some x -> firstn (S k) l = firstn k l ++ [x].
Proof.
  revert k. induction l as [|h t IH]; intros [|k] H; cbn in H; try discriminate.
  - now injection H as ->.
  - cbn [firstn app]. f_equal. now apply IH.
Qed.

Lemma add_u8_ok dbg a b : a + b < 256 -> add_u8 dbg a b = Ok (a + b).
Proof. intros H. unfold add_u8. destruct (Nat.ltb_spec (a + b) 256); [reflexivity|lia]. Qed.

(* ------------------------------------------------------------------------------------------ *)
(** * the rows of the Wagner–Fischer table *)
Definition rowD (s tp : text) : list nat := map (fun i => lev (firstn i s) tp) (seq 0 (S (length s))).

Lemma rowD_length s tp : length (rowD s tp) = S (length s).
Proof. unfold rowD. now rewrite map_length, seq_length. Qed.

Lemma rowD_nth s tp i : i <= length s -> nth_error (rowD s tp) i = Some (lev (firstn i s) tp).
Proof.
  intros Hi. unfold rowD. erewrite map_nth_error; [reflexivity|].
  rewrite nth_error_seq by lia. reflexivity.
Qed.

Lemma rowD_nil s : rowD s [] = seq 0 (S (length s)).
Proof.
  unfold rowD. rewrite <- (map_id (seq 0 (S (length s)))) at 2.
  apply map_ext_in. intros i Hi. apply in_seq in Hi.
  rewrite lev_nil_r, firstn_length. lia.
Qed.

Lemma lev_prefix_bound s tp i : lev (firstn i s) tp <= Nat.max i (length tp).
Proof. pose proof (lev_le_max (firstn i s) tp). pose proof (firstn_le_length i s). rewrite firstn_length in *. lia. Qed.

(* ------------------------------------------------------------------------------------------ *)
(** * the inner loop fills current_row with the next row, without overflow, for lengths <= 254 *)
Lemma wf_inner_ok dbg s t j tp b :
  length s <= 254 -> j <= 254 -> 1 <= j -> length tp = j - 1 ->
  nth_error t (j - 1) = Some b ->
  forall cnt k cur, k + cnt = S (length s) -> 1 <= k -> length cur = S (length s) ->
    (forall i, i < k -> nth_error cur i = Some (lev (firstn i s) (tp ++ [b]))) ->
    exists cur', wf_inner dbg s t j (rowD s tp) cur (seq k cnt) = Ok cur' /\ length cur' = S (length s) /\
      forall i, i <= length s -> nth_error cur' i = Some (lev (firstn i s) (tp ++ [b])).
Proof.
  intros Hs Hj Hj1 Htp Hb. induction cnt as [|cnt IH]; intros k cur Hk Hk1 Hlen Hinv.
  - exists cur. cbn [seq wf_inner]. repeat split; [exact Hlen|]. intros i Hi. apply Hinv. lia.
  - cbn [seq wf_inner].
    assert (Hkn : k <= length s) by lia.
    destruct (nth_error s (k - 1)) as [a|] eqn:Ea; [|apply nth_error_None in Ea; lia].
    rewrite (nth_chk_ok _ _ _ Ea), (nth_chk_ok _ _ _ Hb). cbn [bind].
    rewrite (nth_chk_ok _ _ _ (rowD_nth s tp k Hkn)). cbn [bind].
    pose proof (lev_prefix_bound s tp k) as B1.
    rewrite add_u8_ok by lia. cbn [bind].
    rewrite (nth_chk_ok _ _ _ (Hinv (k - 1) ltac:(lia))). cbn [bind].
    pose proof (lev_prefix_bound s (tp ++ [b]) (k - 1)) as B2. rewrite app_length in B2. cbn [length] in B2.
    rewrite add_u8_ok by lia. cbn [bind].
    rewrite (nth_chk_ok _ _ _ (rowD_nth s tp (k - 1) ltac:(lia))). cbn [bind].
    pose proof (lev_prefix_bound s tp (k - 1)) as B3. pose proof (cost_le1 a b) as Bc.
    rewrite add_u8_ok by lia. cbn [bind].
    destruct (set_nth_ok cur k
                (Nat.min (Nat.min (lev (firstn k s) tp + 1) (lev (firstn (k - 1) s) (tp ++ [b]) + 1))
                         (lev (firstn (k - 1) s) tp + cost a b)) ltac:(lia)) as (cur1 & E & L1 & N1 & O1).
    rewrite E. cbn [bind].
    assert (Hcell : lev (firstn k s) (tp ++ [b])
                    = Nat.min (Nat.min (lev (firstn k s) tp + 1) (lev (firstn (k - 1) s) (tp ++ [b]) + 1))
                              (lev (firstn (k - 1) s) tp + cost a b)).
    { replace k with (S (k - 1)) at 1 2 by lia.
      rewrite (firstn_snoc_nth _ _ _ Ea). apply lev_snoc. }
    apply (IH (S k) cur1); [lia|lia|lia|].
    intros i Hi. destruct (Nat.eq_dec i k) as [->|Hne].
    + rewrite N1. f_equal. symmetry. exact Hcell.
    + rewrite O1 by exact Hne. apply Hinv. lia.
Qed.

(* ---------- the outer loop ---------- *)
Lemma as_u8_small n : n < 256 -> as_u8 n = n.
Proof. intros H. unfold as_u8. now apply Nat.mod_small. Qed.

Lemma firstn_firstn_snoc {A} (l : list A) j b : nth_error l j = Some b -> firstn (S j) l = firstn j l ++ [b].
Proof. apply firstn_snoc_nth. Qed.

Lemma wf_outer_ok dbg s t :
  length s <= 254 -> length t <= 254 ->
  forall cnt j0 cur, j0 + cnt = length t -> length cur = S (length s) ->
    exists cur', wf_outer dbg s t (rowD s (firstn j0 t)) cur (seq (S j0) cnt) = Ok (rowD s t, cur')
                 /\ length cur' = S (length s).
Proof.
  intros Hs Ht. induction cnt as [|cnt IH]; intros j0 cur Hj Hlen.
  - exists cur. cbn [seq wf_outer]. rewrite firstn_all2 by lia. split; [reflexivity|exact Hlen].
  - cbn [seq wf_outer].
    destruct (nth_error t j0) as [b|] eqn:Eb; [|apply nth_error_None in Eb; lia].
    rewrite as_u8_small by lia.
    destruct (set_nth_ok cur 0 (S j0) ltac:(lia)) as (cur0 & E & L0 & N0 & O0).
    rewrite E. cbn [bind].
    assert (Hfl : length (firstn j0 t) = S j0 - 1) by (rewrite firstn_length; lia).
    destruct (wf_inner_ok dbg s t (S j0) (firstn j0 t) b Hs ltac:(lia) ltac:(lia) Hfl
                ltac:(replace (S j0 - 1) with j0 by lia; exact Eb)
                (length s) 1 cur0 ltac:(lia) ltac:(lia) ltac:(lia)) as (cur1 & E1 & L1 & N1).
    { intros i Hi. assert (i = 0) as -> by lia. rewrite N0. f_equal.
      cbn [firstn]. rewrite lev_nil_l, app_length, firstn_length. cbn [length]. lia. }
    rewrite E1. cbn [bind].
    assert (Hrow : cur1 = rowD s (firstn (S j0) t)).
    { apply nth_error_ext; [now rewrite L1, rowD_length|].
      intros i Hi. rewrite N1 by lia. rewrite rowD_nth by lia.
      now rewrite (firstn_snoc_nth _ _ _ Eb). }
    rewrite Hrow.
    apply (IH (S j0) (rowD s (firstn j0 t))); [lia|apply rowD_length].
Qed.

(* ------------------------------------------------------------------------------------------ *)
(** * the u8 path: for lengths <= 254 the u8 two-row algorithm returns the Levenshtein distance —
      in the debug and in the release build, whatever the reused buffers contain *)
Lemma resize_length {A} (l : list A) n v : length (resize l n v) = n.
Proof.
  unfold resize. rewrite app_length, firstn_length, repeat_length. lia.
Qed.

(* the u8 path (both strings of at most 254 characters) *)
Lemma wf_min_alloc_short dbg s t buf_a buf_b :
  length s <= 254 -> length t <= 254 ->
  exists buf_a' buf_b', wf_min_alloc dbg s t buf_a buf_b = Ok (lev s t, buf_a', buf_b').
Proof.
  intros Hs Ht. unfold wf_min_alloc.
  replace ((254 <? length s) || (254 <? length t)) with false
    by (symmetry; apply orb_false_iff; split; apply Nat.ltb_ge; lia).
  rewrite as_u8_small by lia.
  rewrite <- (rowD_nil s).
  destruct (wf_outer_ok dbg s t Hs Ht (length t) 0 (resize buf_b (length s + 1) 0) ltac:(lia)
              ltac:(rewrite resize_length; lia)) as (cur' & E & L).
  cbn [firstn] in E. rewrite E. cbn [bind].
  rewrite (nth_chk_ok _ _ _ (rowD_nth s t (length s) ltac:(lia))). cbn [bind].
  rewrite firstn_all. eauto.
Qed.

(* ------------------------------------------------------------------------------------------ *)
(** * edit_distance_long: the usize rows compute lev for every pair of strings *)
Lemma firstn_app_len {A} (l1 l2 : list A) : firstn (length l1) (l1 ++ l2) = l1.
Proof. induction l1 as [|x l1 IH]; cbn [length firstn app]; [now destruct l2|now rewrite IH]. Qed.

Lemma nth_error_app_len {A} (l1 l2 : list A) a : nth_error (l1 ++ a :: l2) (length l1) = Some a.
Proof. induction l1 as [|x l1 IH]; cbn [length app nth_error]; [reflexivity|exact IH]. Qed.

Lemma wfl_inner_ok s tp b : forall rest sp cur,
  s = sp ++ rest -> length cur = S (length s) ->
  (forall i, i <= length sp -> nth_error cur i = Some (lev (firstn i s) (tp ++ [b]))) ->
  exists cur', wfl_inner b (rowD s tp) cur (length sp) rest = Ok cur' /\ length cur' = S (length s) /\
    forall i, i <= length s -> nth_error cur' i = Some (lev (firstn i s) (tp ++ [b])).
Proof.
  induction rest as [|a rest IH]; intros sp cur Es Hlen Hinv.
  - exists cur. cbn [wfl_inner]. repeat split; [exact Hlen|]. intros i Hi. apply Hinv.
    rewrite Es, app_nil_r in Hi. exact Hi.
  - cbn [wfl_inner]. set (k := length sp).
    assert (Hk : k < length s) by (rewrite Es, app_length; cbn [length]; unfold k; lia).
    assert (Ea : nth_error s k = Some a) by (rewrite Es; apply nth_error_app_len).
    rewrite Nat.add_1_r.
    rewrite (nth_chk_ok _ _ _ (rowD_nth s tp (S k) ltac:(lia))). cbn [bind].
    rewrite (nth_chk_ok _ _ _ (Hinv k ltac:(unfold k; lia))). cbn [bind].
    rewrite (nth_chk_ok _ _ _ (rowD_nth s tp k ltac:(lia))). cbn [bind].
    destruct (set_nth_ok cur (S k)
                (Nat.min (Nat.min (lev (firstn (S k) s) tp + 1) (lev (firstn k s) (tp ++ [b]) + 1))
                         (lev (firstn k s) tp + cost a b)) ltac:(lia)) as (cur1 & E & L1 & N1 & O1).
    rewrite E. cbn [bind].
    assert (Hcell : lev (firstn (S k) s) (tp ++ [b])
                    = Nat.min (Nat.min (lev (firstn (S k) s) tp + 1) (lev (firstn k s) (tp ++ [b]) + 1))
                              (lev (firstn k s) tp + cost a b)).
    { rewrite (firstn_snoc_nth _ _ _ Ea). apply lev_snoc. }
    specialize (IH (sp ++ [a]) cur1).
    rewrite app_length in IH. cbn [length] in IH. rewrite Nat.add_1_r in IH. fold k in IH.
    apply IH; [rewrite <- app_assoc; exact Es|lia|].
    intros i Hi. destruct (Nat.eq_dec i (S k)) as [->|Hne].
    + rewrite N1. f_equal. symmetry. exact Hcell.
    + rewrite O1 by exact Hne. apply Hinv. unfold k in *. lia.
Qed.

Lemma wfl_outer_ok s t : forall rest tp cur,
  t = tp ++ rest -> length cur = S (length s) ->
  exists cur', wfl_outer s (rowD s tp) cur (length tp) rest = Ok (rowD s t, cur') /\ length cur' = S (length s).
Proof.
  induction rest as [|b rest IH]; intros tp cur Et Hlen.
  - exists cur. cbn [wfl_outer]. rewrite Et, app_nil_r. split; [reflexivity|exact Hlen].
  - cbn [wfl_outer].
    destruct (set_nth_ok cur 0 (length tp + 1) ltac:(lia)) as (cur0 & E & L0 & N0 & O0).
    rewrite E. cbn [bind].
    destruct (wfl_inner_ok s tp b s [] cur0 eq_refl ltac:(lia)) as (cur1 & E1 & L1 & N1).
    { intros i Hi. cbn [length] in Hi. assert (i = 0) as -> by lia. rewrite N0. f_equal.
      cbn [firstn]. rewrite lev_nil_l, app_length. reflexivity. }
    cbn [length] in E1. rewrite E1. cbn [bind].
    assert (Hrow : cur1 = rowD s (tp ++ [b])).
    { apply nth_error_ext; [now rewrite L1, rowD_length|].
      intros i Hi. rewrite N1 by lia. rewrite rowD_nth by lia. reflexivity. }
    rewrite Hrow.
    specialize (IH (tp ++ [b]) (rowD s tp)).
    rewrite app_length in IH. cbn [length] in IH. rewrite Nat.add_1_r in IH.
    apply IH; [rewrite <- app_assoc; exact Et|apply rowD_length].
Qed.

Theorem wf_long_correct s t : wf_long s t = Ok (lev s t).
Proof.
  unfold wf_long. rewrite <- (rowD_nil s).
  destruct (wfl_outer_ok s t t [] (repeat 0 (length s + 1)) eq_refl
              ltac:(rewrite repeat_length; lia)) as (cur' & E & _).
  cbn [length] in E. rewrite E. cbn [bind].
  rewrite (nth_chk_ok _ _ _ (rowD_nth s t (length s) ltac:(lia))).
  now rewrite firstn_all.
Qed.

(* ------------------------------------------------------------------------------------------ *)
(** * the theorem (after fix 7a7de79): for ALL strings, any content of the reused buffers, debug and
      release arithmetic, edit_distance_min_alloc returns the Levenshtein distance saturated at
      u8::MAX = 255 — in particular the exact distance whenever that is at most 255 *)
Theorem wf_min_alloc_correct dbg s t buf_a buf_b :
  exists buf_a' buf_b', wf_min_alloc dbg s t buf_a buf_b = Ok (Nat.min (lev s t) 255, buf_a', buf_b').
Proof.
  destruct (Nat.le_gt_cases (length s) 254) as [Hs|Hs]; [destruct (Nat.le_gt_cases (length t) 254) as [Ht|Ht]|].
  - destruct (wf_min_alloc_short dbg s t buf_a buf_b Hs Ht) as (a & b & E).
    exists a, b. rewrite E. pose proof (lev_le_max s t). repeat f_equal. lia.
  - unfold wf_min_alloc.
    replace ((254 <? length s) || (254 <? length t)) with true
      by (symmetry; apply orb_true_iff; right; apply Nat.ltb_lt; lia).
    rewrite wf_long_correct. cbn [bind]. eauto.
  - unfold wf_min_alloc.
    replace ((254 <? length s) || (254 <? length t)) with true
      by (symmetry; apply orb_true_iff; left; apply Nat.ltb_lt; lia).
    rewrite wf_long_correct. cbn [bind]. eauto.
Qed.

Theorem wf_u8_correct dbg s t : wf_u8 dbg s t = Ok (Nat.min (lev s t) 255).
Proof.
  unfold wf_u8. destruct (wf_min_alloc_correct dbg s t [] []) as (a & b & E). rewrite E. reflexivity.
Qed.

Corollary wf_min_alloc_exact dbg s t buf_a buf_b : lev s t <= 255 ->
  exists buf_a' buf_b', wf_min_alloc dbg s t buf_a buf_b = Ok (lev s t, buf_a', buf_b').
Proof.
  intros H. destruct (wf_min_alloc_correct dbg s t buf_a buf_b) as (a & b & E).
  exists a, b. rewrite E. repeat f_equal. lia.
Qed.

(* the statement pinned in Properties/C15.v *)
Theorem wf_min_alloc_total_correct dbg s t buf_a buf_b :
  (exists buf_a' buf_b', wf_min_alloc dbg s t buf_a buf_b = Ok (Nat.min (lev s t) 255, buf_a', buf_b')) /\
  (lev s t <= 255 -> exists buf_a' buf_b', wf_min_alloc dbg s t buf_a buf_b = Ok (lev s t, buf_a', buf_b')).
Proof. split; [apply wf_min_alloc_correct|apply wf_min_alloc_exact]. Qed.

(* ------------------------------------------------------------------------------------------ *)
(** * the saturation is visible: 256 characters against "b" are at distance 256, reported as 255 *)
Definition a_n (n : nat) : text := repeat 97%N n.      (* "aaa…a" *)
Definition b_1 : text := [98%N].                       (* "b" *)

Lemma lev_256_1 : lev (a_n 256) b_1 = 256.
Proof.
  vm_compute. reflexivity.
Qed.

Lemma lev_255_1 : 254 <= lev (a_n 255) b_1.
Proof. pose proof (lev_len (a_n 255) b_1) as [H _]. unfold a_n in *. rewrite repeat_length in H. cbn [b_1 length] in H. lia. Qed.

Lemma wf_saturates : wf_u8 true (a_n 256) b_1 = Ok 255 /\ wf_u8 false (a_n 256) b_1 = Ok 255 /\ lev (a_n 256) b_1 = 256.
Proof.
  rewrite !wf_u8_correct, lev_256_1. repeat split.
Qed.

(* ------------------------------------------------------------------------------------------ *)
(** * HISTORY (before fix 7a7de79, F19): the u8 rows were used for every length; witnesses at 255 / 256 *)
(* debug build, source of 255 characters: previous_row[255] + 1 overflows *)
Lemma wf_255_debug_overflow : wf_u8_old true (a_n 255) b_1 = Panic POverflow.
Proof. vm_compute. reflexivity. Qed.

(* debug build, target of 255 characters: current_row[0] = 255, then current_row[0] + 1 overflows *)
Lemma wf_255_target_debug_overflow : wf_u8_old true b_1 (a_n 255) = Panic POverflow.
Proof. vm_compute. reflexivity. Qed.

(* release build, source of 255 characters: the sum wraps to 0 and the distance is under-reported *)
Lemma wf_255_release_wraps : wf_u8_old false (a_n 255) b_1 = Ok 0.
Proof. vm_compute. reflexivity. Qed.

(* 256 characters: the debug build stops at the assertion, the release build truncates the row
   (`row_width as u8` = 0) and indexes past its end *)
Lemma wf_256_debug_assert : wf_u8_old true (a_n 256) b_1 = Panic PUnwrap.
Proof. vm_compute. reflexivity. Qed.

Lemma wf_256_release_index : wf_u8_old false (a_n 256) b_1 = Panic PIndex.
Proof. vm_compute. reflexivity. Qed.

Lemma wf_u8_old_refuted :
  (exists s t, length s = 255 /\ length t = 1 /\ wf_u8_old true s t = Panic POverflow) /\
  (exists s t, length s = 1 /\ length t = 255 /\ wf_u8_old true s t = Panic POverflow) /\
  (exists s t, length s = 255 /\ length t = 1 /\ wf_u8_old false s t = Ok 0 /\ 254 <= lev s t) /\
  (exists s t, length s = 256 /\ wf_u8_old true s t = Panic PUnwrap) /\
  (exists s t, length s = 256 /\ wf_u8_old false s t = Panic PIndex).
Proof.
  repeat split.
  - exists (a_n 255), b_1. repeat split; first [apply repeat_length|apply wf_255_debug_overflow|reflexivity].
  - exists b_1, (a_n 255). repeat split; first [apply repeat_length|apply wf_255_target_debug_overflow|reflexivity].
  - exists (a_n 255), b_1. repeat split; first [apply repeat_length|apply wf_255_release_wraps|apply lev_255_1|reflexivity].
  - exists (a_n 256), b_1. split; [apply repeat_length|apply wf_256_debug_assert].
  - exists (a_n 256), b_1. split; [apply repeat_length|apply wf_256_release_index].
Qed.

(* ------------------------------------------------------------------------------------------ *)
(** * the clean functional two-row formulation computes lev (no bound: nat rows) *)
Lemma skipn_nth_cons {A} (l : list A) k a : nth_error l k = Some a -> skipn k l = a :: skipn (S k) l.
Proof.
  revert k. induction l as [|h t IH]; intros [|k] H; cbn in H; try discriminate.
  - now injection H as ->.
  - cbn [skipn]. now apply IH.
Qed.

Lemma lev_row_ok s tp b : forall c k, k + c = length s ->
  lev_row (lev (firstn k s) tp) (lev (firstn k s) (tp ++ [b])) (skipn k s)
          (map (fun i => lev (firstn i s) tp) (seq (S k) c)) b
  = map (fun i => lev (firstn i s) (tp ++ [b])) (seq (S k) c).
Proof.
  induction c as [|c IH]; intros k Hk.
  - rewrite skipn_all2 by lia. reflexivity.
  - destruct (nth_error s k) as [a|] eqn:Ea; [|apply nth_error_None in Ea; lia].
    rewrite (skipn_nth_cons _ _ _ Ea). cbn [seq map lev_row].
    assert (Hcell : Nat.min (Nat.min (lev (firstn (S k) s) tp + 1) (lev (firstn k s) (tp ++ [b]) + 1))
                            (lev (firstn k s) tp + cost a b) = lev (firstn (S k) s) (tp ++ [b])).
    { rewrite (firstn_snoc_nth _ _ _ Ea). symmetry. apply lev_snoc. }
    rewrite Hcell. f_equal. apply IH. lia.
Qed.

Lemma next_row_ok s tp b : next_row s (rowD s tp) (S (length tp)) b = rowD s (tp ++ [b]).
Proof.
  unfold rowD, next_row. cbn [seq map firstn].
  rewrite !lev_nil_l, app_length. cbn [length].
  replace (length tp + 1) with (S (length tp)) by lia. f_equal.
  pose proof (lev_row_ok s tp b (length s) 0 ltac:(lia)) as H.
  cbn [firstn skipn] in H. rewrite !lev_nil_l, app_length in H. cbn [length] in H.
  replace (length tp + 1) with (S (length tp)) in H by lia. exact H.
Qed.

Lemma lev_rows_ok s : forall rest tp, lev_rows s (rowD s tp) (length tp) rest = rowD s (tp ++ rest).
Proof.
  induction rest as [|b rest IH]; intros tp; cbn [lev_rows].
  - now rewrite app_nil_r.
  - rewrite next_row_ok.
    replace (S (length tp)) with (length (tp ++ [b])) by (rewrite app_length; cbn [length]; lia).
    rewrite IH, <- app_assoc. reflexivity.
Qed.

Theorem lev_fast_correct s t : lev_fast s t = lev s t.
Proof.
  unfold lev_fast. rewrite <- (rowD_nil s).
  pose proof (lev_rows_ok s t []) as H. cbn [length app] in H. rewrite H.
  unfold rowD. rewrite seq_S, map_app. cbn [map plus]. rewrite last_last, firstn_all. reflexivity.
Qed.

Lemma lev_metric s t u :
  (lev s t = 0 <-> s = t) /\ lev s t = lev t s /\ lev s u <= lev s t + lev t u /\
  lev s t <= Nat.max (length s) (length t).
Proof. repeat split; [apply lev_0_iff|apply lev_0_iff|apply lev_sym|apply lev_triangle|apply lev_le_max]. Qed.
