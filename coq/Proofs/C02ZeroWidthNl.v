(* C02ZeroWidthNl.v — phase 7: Document::parse on vectors WITH zero-width NEWLINES (Markdown's Start(List) arm pushes a
   zero-width Newline(2) at the cursor) that condense_newlines leaves alone ("inert").
     nl2pb t          : a zero-width Newline read as the zero-width ParagraphBreak of the same span (identity otherwise)
     condense_spaces  is PARAMETRIC in every token that is no Space: it commutes with any span-preserving map that
                      fixes Spaces and makes no new ones (cs_inner_map / cs_outer_map / condense_spaces_map) — so on a
                      vector whose nl2pb image is PbGapped it never panics and the image of its result is PbGapped
     iso t1           : no two vector-neighbours of t1 are both Newlines with one of them zero-width (decidable)
     condense_newlines on such a t1: a group of >= 2 Newlines holds covering tokens only, a zero-width Newline is a
                      group of its own and is kept (grouped_newlines_nl)
     newlines_to_breaks turns every zero-width Newline(n >= 2) into a zero-width ParagraphBreak: the vector is PbGapped
                      from there on and C02ZeroWidthSuffix.document_tail_pb finishes (document_passes_nl).
   NOT covered (the remaining class, `nl_inertb = false`): a zero-width Newline next to another Newline in the vector
   after condense_spaces — condense_newlines merges them and the hull needs the weak ORDER of the zero-width token
   (Example C02Findings.zero_width_newline_limit).
   No new model code for the passes; the decidable class (Model/C02Inert.v: nl2pb, iso, nl_inertb, md_doc_class) is
   extracted and tied by stream M. *)
Require Import Base Overlap OverlapProofs Tables_lexer Lexer Condense ListLemmas TokenInv CondenseInv
  CondSpaces CondPattern CondPatterns3 CondInitialisms C02Gapped C02Quotes C02GapPasses C02MarkdownProofs
  C02ZeroWidth C02ZeroWidthSuffix C02Inert.
From Coq Require Import List Arith Lia Bool.
Import ListNotations.

(* ================= condense_spaces is parametric in the tokens that are no Space ================= *)
Section SpacesParametric.
  Variable f : token -> token.
  Hypothesis f_span : forall t, tspan (f t) = tspan t.
  Hypothesis f_space : forall t n, tkind_of t = KSpace n -> f t = t.
  Hypothesis f_nospace : forall t, (forall n, tkind_of t <> KSpace n) -> forall n, tkind_of (f t) <> KSpace n.

  Lemma space_or_not (t : token) : (exists n, tkind_of t = KSpace n) \/ (forall n, tkind_of t <> KSpace n).
  Proof. destruct (tkind_of t); try (right; intros; discriminate). left. eauto. Qed.

  Lemma cs_inner_map : forall fuel copy cursor cnt e,
    cs_inner fuel (map f copy) cursor cnt e = cs_inner fuel copy cursor cnt e.
  Proof.
    induction fuel as [|fu IH]; intros copy cursor cnt e; [reflexivity|].
    cbn [cs_inner]. rewrite nth_error_map. destruct (nth_error copy (cursor + 1)) as [child|]; cbn [option_map]; [|reflexivity].
    replace (tstart (f child)) with (tstart child) by (unfold tstart; rewrite f_span; reflexivity).
    destruct (negb (e =? tstart child)); [reflexivity|].
    destruct (space_or_not child) as [[n Hn]|Hn].
    - rewrite (f_space child n Hn), Hn, IH. reflexivity.
    - pose proof (f_nospace child Hn) as Hn'.
      destruct (tkind_of (f child)) eqn:K1; destruct (tkind_of child) eqn:K2; try reflexivity; exfalso;
        first [exact (Hn' _ eq_refl)|exact (Hn _ eq_refl)].
  Qed.

  Lemma slice_map (l : list token) a b : slice (map f l) a b = map f (slice l a b).
  Proof. unfold slice. rewrite skipn_map', firstn_map'. reflexivity. Qed.

  Lemma cs_outer_map : forall fuel copy cursor,
    cs_outer fuel (map f copy) cursor =
    match cs_outer fuel copy cursor with Ok (upd, q) => Ok (map f upd, q) | Panic p => Panic p end.
  Proof.
    induction fuel as [|fu IH]; intros copy cursor; [reflexivity|].
    cbn [cs_outer]. rewrite nth_error_map. destruct (nth_error copy cursor) as [start|]; cbn [option_map]; [|reflexivity].
    destruct (space_or_not start) as [[n Hn]|Hn].
    - rewrite (f_space start n Hn), Hn, cs_inner_map, map_length.
      destruct (cs_inner (length copy) copy cursor n (tend start)) as [[[[cur' cnt] e] rm]|p]; cbn [bind]; [|reflexivity].
      rewrite IH. destruct (cs_outer fu copy (cur' + 1)) as [[rest q]|pk2]; cbn [bind]; [|reflexivity].
      cbn [map]. rewrite map_app, slice_map.
      rewrite (f_space (mktok (mkspan (tstart start) e) (KSpace cnt)) cnt eq_refl). reflexivity.
    - pose proof (f_nospace start Hn) as Hn'.
      destruct (tkind_of (f start)) eqn:K1; try (exfalso; exact (Hn' _ eq_refl));
        destruct (tkind_of start) eqn:K2; try (exfalso; exact (Hn _ eq_refl));
        rewrite IH; destruct (cs_outer fu copy (cursor + 1)) as [[rest q]|pk1]; cbn [bind]; reflexivity.
  Qed.

  Lemma remove_indices_map : forall (xs : list token) i q,
    remove_indices i q (map f xs) = map f (remove_indices i q xs).
  Proof.
    induction xs as [|x xs IH]; intros i q; [reflexivity|].
    cbn [map remove_indices]. destruct q as [|r q']; [rewrite IH; reflexivity|].
    destruct (i =? r); [apply IH|]. cbn [map]. rewrite IH. reflexivity.
  Qed.

  Theorem condense_spaces_map ts :
    condense_spaces (map f ts) = match condense_spaces ts with Ok t1 => Ok (map f t1) | Panic p => Panic p end.
  Proof.
    unfold condense_spaces. rewrite map_length, cs_outer_map.
    destruct (cs_outer (S (length ts)) ts 0) as [[upd q]|p]; cbn [bind]; [|reflexivity].
    rewrite remove_indices_map. reflexivity.
  Qed.
End SpacesParametric.

(* ================= zero-width Newlines read as floating breaks ================= *)
Lemma nl2pb_span t : tspan (nl2pb t) = tspan t.
Proof. unfold nl2pb. destruct (zwb t && is_nl t); reflexivity. Qed.
Lemma nl2pb_space t n : tkind_of t = KSpace n -> nl2pb t = t.
Proof. intros H. unfold nl2pb, is_nl. rewrite H, andb_false_r. reflexivity. Qed.
Lemma nl2pb_nospace t : (forall n, tkind_of t <> KSpace n) -> forall n, tkind_of (nl2pb t) <> KSpace n.
Proof. intros H n. unfold nl2pb. destruct (zwb t && is_nl t); [discriminate|apply H]. Qed.
Lemma nl2pb_cover t : zwb t = false -> nl2pb t = t.
Proof. intros H. unfold nl2pb. rewrite H. reflexivity. Qed.
Lemma map_nl2pb_cover g : Forall (fun t => zwb t = false) g -> map nl2pb g = g.
Proof. induction 1 as [|t g H _ IH]; [reflexivity|]. cbn [map]. rewrite nl2pb_cover, IH; auto. Qed.

(* a zero-width Newline counts at least two lines (Start(List) pushes Newline(2)): newlines_to_breaks makes it a break *)
Definition nl2 (t : token) : Prop := forall n, tstart t = tend t -> tkind_of t = KNewline n -> 2 <= n.
Lemma nl2b_spec t : nl2b t = true -> nl2 t.
Proof.
  unfold nl2b, nl2, zwb. intros H n Hz Hk. rewrite Hk in H. apply Nat.eqb_eq in Hz. rewrite Hz in H.
  cbn [negb orb] in H. apply Nat.leb_le. exact H.
Qed.

Lemma iso_app_r g rest : iso (g ++ rest) = true -> iso rest = true.
Proof.
  induction g as [|x g IH]; intros H; [exact H|].
  cbn [app] in H. destruct g as [|y g'].
  - cbn [app] in *. destruct rest as [|z r]; [reflexivity|]. cbn [iso] in H.
    apply andb_prop in H. destruct H as [_ H]. exact H.
  - apply IH. cbn [app] in *. cbn [iso] in H. apply andb_prop in H. destruct H as [_ H]. exact H.
Qed.

Lemma newline_run_nl g : forall ns, map tkind_of g = map KNewline ns -> Forall (fun t => is_nl t = true) g.
Proof.
  induction g as [|t g IH]; intros ns H; [constructor|].
  destruct ns as [|n ns]; [discriminate|]. cbn [map] in H. injection H as Hk Hm.
  constructor; [unfold is_nl; rewrite Hk; reflexivity|eapply IH; exact Hm].
Qed.

Lemma iso_run_cover rest : forall g, Forall (fun t => is_nl t = true) g -> iso (g ++ rest) = true ->
  match g with [] => True | [_] => True | _ => Forall (fun t => zwb t = false) g end.
Proof.
  induction g as [|x g IH]; intros HN HI; [exact I|].
  destruct g as [|y g']; [exact I|].
  inversion HN as [|x0 l0 Nx HN']; subst. inversion HN' as [|y0 l1 Ny _]; subst.
  cbn [app] in HI. cbn [iso] in HI. apply andb_prop in HI. destruct HI as [H1 H2].
  rewrite Nx, Ny in H1. cbn [andb] in H1. apply negb_true_iff in H1. apply orb_false_iff in H1. destruct H1 as [Zx Zy].
  specialize (IH HN' H2). destruct g' as [|z g''].
  - constructor; [exact Zx|constructor; [exact Zy|constructor]].
  - constructor; [exact Zx|exact IH].
Qed.

Lemma zwb_false_cover t : pb_tok t -> zwb t = false -> covers_chars t.
Proof.
  unfold zwb, covers_chars. intros [H|[H _]] Hz; [exact H|]. apply Nat.eqb_neq in Hz. contradiction.
Qed.

(* condense_newlines (a grouping on ANY vector) on a vector whose zero-width Newlines are isolated *)
Lemma grouped_newlines_nl : forall t1 t2, Grouped G_newlines t1 t2 ->
  forall a b, iso t1 = true -> Forall nl2 t1 -> PbGapped a b (map nl2pb t1) ->
  PbGapped a b (map nl2pb t2) /\ Forall nl2 t2.
Proof.
  induction 1 as [|g k rest rest' Hne HG Hrest IH]; intros a b HI HN HP; [split; [exact HP|constructor]|].
  rewrite map_app in HP. apply pbgapped_app_inv in HP. destruct HP as [m [Hg Hr]].
  apply Forall_app in HN. destruct HN as [HNg HNr].
  destruct (IH m b (iso_app_r _ _ HI) HNr Hr) as [IH1 IH2].
  cbn [map]. destruct HG as [[t [-> ->]]|[ns [Hl [Hm ->]]]].
  - rewrite group_token_single. split.
    + change (nl2pb t :: map nl2pb rest') with ([nl2pb t] ++ map nl2pb rest').
      eapply pbgapped_app; [exact Hg|exact IH1].
    + constructor; [inversion HNg; assumption|exact IH2].
  - pose proof (iso_run_cover rest g (newline_run_nl g ns Hm) HI) as Hc.
    assert (Forall (fun t => zwb t = false) g) as Hz.
    { destruct g as [|x [|y g']]; cbn [length] in Hl; try lia. exact Hc. }
    rewrite (map_nl2pb_cover g Hz) in Hg.
    assert (Forall covers_chars g) as Hcov.
    { pose proof (pbgapped_toks _ _ _ Hg) as HT. clear -HT Hz.
      induction HT as [|t g Ht HT IH]; [constructor|]. inversion Hz; subst.
      constructor; [apply zwb_false_cover; assumption|apply IH; assumption]. }
    pose proof (pbgapped_covering_gapped _ _ _ Hg Hcov) as Gg.
    destruct (gapped_group a m g Hne Gg) as [Hs [Hlt He]].
    assert (zwb (group_token g (KNewline (list_sum ns))) = false) as Zg.
    { unfold zwb, group_token, tstart, tend. cbn [tspan sstart send]. apply Nat.eqb_neq. lia. }
    rewrite (nl2pb_cover _ Zg). split.
    + apply PG_tok; unfold group_token, tstart, tend; cbn [tspan sstart send]; [exact Hs|exact Hlt|].
      eapply pbgapped_weaken; [exact He|apply le_n|exact IH1].
    + constructor; [|exact IH2]. intros n Hzw _. unfold zwb in Zg. apply Nat.eqb_neq in Zg. contradiction.
Qed.

Lemma ntb_span t : tspan (newline_to_break t) = tspan t.
Proof. unfold newline_to_break. destruct (tkind_of t); try reflexivity. destruct (2 <=? n); reflexivity. Qed.

(* newlines_to_breaks: every zero-width Newline (n >= 2) becomes a floating break — PbGapped from here on *)
Lemma breaks_nl : forall t2 a b, Forall nl2 t2 -> PbGapped a b (map nl2pb t2) -> PbGapped a b (newlines_to_breaks t2).
Proof.
  induction t2 as [|x t2 IH]; intros a b HF HP; [exact HP|].
  cbn [map] in HP. unfold newlines_to_breaks. cbn [map]. fold (newlines_to_breaks t2).
  inversion HF as [|x0 l0 Hx HF']; subst.
  assert (tstart (newline_to_break x) = tstart x /\ tend (newline_to_break x) = tend x) as [S1 S2]
    by (unfold tstart, tend; rewrite ntb_span; split; reflexivity).
  assert (tstart (nl2pb x) = tstart x /\ tend (nl2pb x) = tend x) as [S3 S4]
    by (unfold tstart, tend; rewrite nl2pb_span; split; reflexivity).
  inversion HP as [|a0 b0 t0 ts0 Z1 Z2 Z3|a0 b0 t0 ts0 C1 C2 C3]; subst.
  - apply PG_float; [lia| |apply IH; assumption].
    rewrite S3, S4 in Z1. unfold nl2pb, zwb, is_nl in Z2. rewrite Z1, Nat.eqb_refl in Z2. cbn [andb] in Z2.
    unfold newline_to_break. destruct (tkind_of x) eqn:K; try (cbn [tkind_of] in Z2; congruence).
    specialize (Hx n Z1 K). apply Nat.leb_le in Hx. rewrite Hx. reflexivity.
  - apply PG_tok; [lia|lia|]. rewrite S2, <- S4. apply IH; assumption.
Qed.

(* condense_spaces keeps nl2: every output token is an input token or a Space *)
Lemma condense_spaces_nl2 ts t1 : condense_spaces ts = Ok t1 -> Forall nl2 ts -> Forall nl2 t1.
Proof.
  unfold condense_spaces. intros H N.
  destruct (cs_outer (S (length ts)) ts 0) as [[upd q]|pk] eqn:E; cbn [bind] in H; [|discriminate].
  injection H as <-. eapply sub_forall; [apply C02MarkdownProofs.remove_indices_sub|].
  eapply Forall_impl; [|exact (cs_outer_tokens _ _ _ _ _ E)].
  intros t [Hin|[n Hk]].
  - rewrite Forall_forall in N. apply N. exact Hin.
  - intros n0 _ Hq. rewrite Hk in Hq. discriminate.
Qed.

(* ================= the decidable class and Document::parse on it ================= *)
(* zero-width Newlines count >= 2 lines, and after condense_spaces none of them is a vector-neighbour of a Newline *)
Theorem document_passes_nl src t0 :
  PbGapped 0 (length src) (map nl2pb t0) -> nl_inertb t0 = true ->
  exists t9, document_passes src t0 = Ok t9 /\ PbGapped 0 (length src) t9 /\
    QuotesOkBut (unpaired_quote t9) t9 /\ (NoTwins t0 -> QuotesOk t9).
Proof.
  intros P0 HI. unfold nl_inertb in HI. apply andb_prop in HI. destruct HI as [HN HI].
  assert (Forall nl2 t0) as N0.
  { rewrite forallb_forall in HN. apply Forall_forall. intros t Ht. apply nl2b_spec. apply HN. exact Ht. }
  destruct (condense_spaces_pb _ _ _ P0) as [t1' [E1' T1']].
  rewrite (condense_spaces_map nl2pb nl2pb_span nl2pb_space nl2pb_nospace) in E1'.
  destruct (condense_spaces t0) as [t1|pk] eqn:E1; [|discriminate]. injection E1' as <-.
  pose proof (condense_spaces_nl2 _ _ E1 N0) as N1.
  destruct (condense_newlines_any t1) as [t2 [E2 G2]].
  destruct (grouped_newlines_nl _ _ G2 _ _ HI N1 T1') as [T2 N2].
  pose proof (breaks_nl _ _ _ N2 T2) as T3.
  destruct (document_tail_pb src _ T3) as [t9 [E9 [T9 [QB QO]]]].
  exists t9. split; [|split; [exact T9|split; [exact QB|]]].
  - rewrite document_passes_tail, E1. cbn [bind]. rewrite E2. cbn [bind]. exact E9.
  - intros NT. apply QO. apply breaks_notwins. eapply newlines_notwins; [exact G2|].
    eapply condense_spaces_notwins; [exact E1|exact NT].
Qed.

(* the premise IS the property's invariant: every TokInv vector is PbGapped once its zero-width Newlines are read as breaks *)
Lemma ordered_nl2pb n ts : forall lo,
  OrderedFrom lo ts -> lo <= n ->
  Forall (fun t => tstart t <= tend t) ts -> InBounds n ts -> ZeroWidthOnlyBreaks ts ->
  PbGapped lo n (map nl2pb ts).
Proof.
  intros lo H. induction H as [lo|lo t ts Hz Hr IH|lo t ts Hc Hlo Hr IH]; intros Hn H1 H2 H3.
  - apply PG_nil. exact Hn.
  - inversion H1 as [|x1 l1 A1 A2]; subst. inversion H2 as [|x2 l2 B1 B2]; subst. inversion H3 as [|x3 l3 C1 C2]; subst.
    unfold covers_chars in Hz. assert (tstart t = tend t) as Z by lia.
    cbn [map]. apply PG_float; [| |apply IH; auto].
    + unfold tstart, tend. rewrite nl2pb_span. exact Z.
    + specialize (C1 Z). unfold nl2pb, zwb, is_nl. rewrite Z, Nat.eqb_refl. cbn [andb].
      destruct (tkind_of t) eqn:K; try contradiction; try reflexivity. exact K.
  - inversion H1 as [|x1 l1 A1 A2]; subst. inversion H2 as [|x2 l2 B1 B2]; subst. inversion H3 as [|x3 l3 C1 C2]; subst.
    unfold covers_chars in Hc. cbn [map].
    assert (zwb t = false) as Z by (unfold zwb; apply Nat.eqb_neq; lia).
    rewrite (nl2pb_cover t Z). apply PG_tok; [exact Hlo|exact Hc|apply IH; auto].
Qed.

Theorem tokinv_nl2pb n ts : TokInv n ts -> PbGapped 0 n (map nl2pb ts).
Proof. intros [H1 [H2 [H3 H4]]]. apply ordered_nl2pb; auto. lia. Qed.

(* Document::parse on EVERY vector with the property's invariant whose zero-width Newlines are inert *)
Theorem document_passes_tokinv_nl src t0 :
  TokInv (length src) t0 -> nl_inertb t0 = true ->
  exists t9, document_passes src t0 = Ok t9 /\ PbGapped 0 (length src) t9 /\
    QuotesOkBut (unpaired_quote t9) t9 /\ (NoTwins t0 -> QuotesOk t9).
Proof. intros TI HI. apply document_passes_nl; [apply tokinv_nl2pb; exact TI|exact HI]. Qed.

Print Assumptions document_passes_tokinv_nl.
