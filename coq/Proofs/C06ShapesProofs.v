(* C06ShapesProofs.v — the dictionary entries that are one Word token WITHOUT being alnum words (13 on the pinned tree):
   which shapes are they?  Four decidable classes
     digit_plural        an ASCII digit + `s`                         0s 1s            (lex_plural_digit on a digit)
     double_apostrophe   word ' c 's  with c one ASCII letter          Baha'i's Shari'a's   (lex_plural_digit glues `i's`, then the
                                                                                           contraction pass merges Word ' Word)
     dotted_initialism   (letter .) twice or more                      N.S.A. a.m. e.g. i.e. p.m. s.t.  (condense_dotted_initialisms)
     latin_abbrev        etc.  vs.  et al.                             (condense_latin's three fixed shapes)
   shapes_classified: every entry of the DERIVED table dict_nonsimple_entries that the model lexer makes one Word token is
   an alnum word or lies in exactly one of the four classes (vm_compute over the table; re-checked whenever the dictionary
   changes).  digit_plural_document: the first class is one Word token for EVERY instantiation of the Unicode predicates
   (general theorem).  For the other three classes only the table-level fact is proved (one_word f24_uni e = true,
   C06_dict_nonsimple_multi_iff); a general theorem would need the contraction / initialism / latin passes on their
   matching inputs. *)
Require Import Base Overlap Tables_lexer Lexer Condense ListLemmas Tables_f24 C06Words C06WordsProofs C06AlnumProofs C06DictProofs.
From Coq Require Import Lia.

Definition digit_plural (w : text) : bool :=
  match w with [d; s] => is_ascii_digit d && ceq s 115 | _ => false end.

Definition double_apostrophe (u : uni) (w : text) : bool :=
  match split_apos w with
  | Some (a, [c; q; s]) => word_body u a && u_lingual u c && is_ascii_alphanumeric c && ceq q 39 && ceq s 115
  | _ => false
  end.

Fixpoint dotted (u : uni) (w : text) : bool :=
  match w with
  | [] => true
  | c :: r => match r with
              | d :: r' => u_lingual u c && ceq d 46 && dotted u r'
              | [] => false
              end
  end.
Definition dotted_initialism (u : uni) (w : text) : bool := dotted u w && (4 <=? length w).

Definition latin_abbrev (w : text) : bool :=
  mem_text w [[101; 116; 99; 46]; [118; 115; 46]; [101; 116; 32; 97; 108; 46]]%N.

Definition shape_count (u : uni) (w : text) : nat :=
  (if digit_plural w then 1 else 0) + (if double_apostrophe u w then 1 else 0) +
  (if dotted_initialism u w then 1 else 0) + (if latin_abbrev w then 1 else 0).

(* the entries the characterisation C06_alnum_word_one_word does not reach although they are one Word token *)
Definition table_only_entries : list text :=
  filter (fun e => one_word f24_uni e && negb (alnum_wordb f24_uni e)) dict_nonsimple_entries.

Lemma shapes_check :
  forallb (fun e => shape_count f24_uni e =? 1) table_only_entries = true /\
  map (fun p => length (filter p table_only_entries))
      [digit_plural; double_apostrophe f24_uni; dotted_initialism f24_uni; latin_abbrev] = [2; 2; 6; 3] /\
  length table_only_entries = 13.
Proof. vm_compute. repeat split; reflexivity. Qed.

Theorem shapes_classified e : In e dict_nonsimple_entries -> one_word f24_uni e = true ->
  alnum_word f24_uni e \/ shape_count f24_uni e = 1.
Proof.
  intros Hin Ho. destruct (alnum_wordb f24_uni e) eqn:A; [left; apply alnum_wordb_sound; exact A|right].
  destruct shapes_check as (F & _). rewrite forallb_forall in F. apply Nat.eqb_eq. apply F.
  unfold table_only_entries. apply filter_In. split; [exact Hin|]. rewrite Ho, A. reflexivity.
Qed.

(* ---------- class 1, for every instantiation of the Unicode predicates ---------- *)
Lemma one_word_of_document (u : uni) (w : text) :
  document_plain u w = Ok [mktok (mkspan 0 (length w)) KWord] -> one_word u w = true.
Proof.
  intros E. unfold one_word. rewrite E. cbn [tkind_of is_word tstart tend tspan sstart send andb].
  rewrite !Nat.eqb_refl. reflexivity.
Qed.

Theorem digit_plural_document (u : uni) (w : text) : digit_plural w = true ->
  document_plain u w = Ok [mktok (mkspan 0 (length w)) KWord] /\ one_word u w = true.
Proof.
  intros H. destruct w as [|d [|s [|x r]]]; try discriminate. cbn [digit_plural] in H.
  apply andb_true_iff in H as [Hd Hs]. unfold ceq in Hs. apply N.eqb_eq in Hs. subst s.
  apply digit_range in Hd.
  assert (E : (d = 48 \/ d = 49 \/ d = 50 \/ d = 51 \/ d = 52 \/ d = 53 \/ d = 54 \/ d = 55 \/ d = 56 \/ d = 57)%N) by lia.
  assert (D : document_plain u [d; 115%N] = Ok [mktok (mkspan 0 2) KWord]).
  { unfold document_plain.
    assert (P : plain_parse u [d; 115%N] = Ok [mktok (mkspan 0 2) KWord])
      by (repeat (destruct E as [->|E]; [reflexivity|]); subst d; reflexivity).
    rewrite P. cbn [bind]. apply (passes_single_word [d; 115%N]). discriminate. }
  split; [exact D|]. apply one_word_of_document. exact D.
Qed.

(* the two dictionary entries of the class *)
Lemma digit_plural_entries : filter digit_plural dict_nonsimple_entries = [[48; 115]; [49; 115]]%N.
Proof. vm_compute. reflexivity. Qed.
