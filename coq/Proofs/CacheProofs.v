(* CacheProofs.v — the chunk cache and the spelling cache of a long-lived linter are unobservable
   exactly when the cache key determines the cached value (C05). *)
Require Import Base Cache.
From Coq Require Import List Arith NArith Bool Lia.
Import ListNotations.

(* ---------- re-basing ---------- *)
Lemma lpull_lpush s l : lpull s (lpush s l) = Ok l.
Proof.
  destruct l as [[a b] body]. unfold lpull, lpush, pull_by, push_by, sub_chk. cbn [cl_span cl_body sstart send].
  replace (a + s <? s) with false by (symmetry; apply Nat.ltb_ge; lia).
  replace (b + s <? s) with false by (symmetry; apply Nat.ltb_ge; lia).
  cbn [bind]. now rewrite !Nat.add_sub.
Qed.

Lemma mapM_pull_push s ls : mapM (lpull s) (map (lpush s) ls) = Ok ls.
Proof.
  induction ls as [|l ls IH]; [reflexivity|].
  cbn [map mapM]. rewrite lpull_lpush. cbn [bind]. rewrite IH. reflexivity.
Qed.

Lemma lpush_inj s a b : lpush s a = lpush s b -> a = b.
Proof.
  destruct a as [[a1 a2] ab], b as [[b1 b2] bb]. unfold lpush, push_by. cbn [cl_span cl_body sstart send].
  intros H. injection H as H1 H2 H3. f_equal; [f_equal; lia|assumption].
Qed.

Lemma map_lpush_inj s a b : map (lpush s) a = map (lpush s) b -> a = b.
Proof.
  revert b. induction a as [|x a IH]; intros [|y b] H; try discriminate; [reflexivity|].
  cbn [map] in H. assert (Hx : lpush s x = lpush s y) by congruence. assert (Ht : map (lpush s) a = map (lpush s) b) by congruence.
  apply lpush_inj in Hx. apply IH in Ht. now subst.
Qed.

Lemma text_eqb_spec a b : text_eqb a b = true <-> a = b.
Proof.
  revert b. induction a as [|x a IH]; intros [|y b]; cbn [text_eqb]; try (split; [discriminate|discriminate]); [tauto|].
  rewrite Bool.andb_true_iff, N.eqb_eq, IH. split; [intros [-> ->]; reflexivity|intros H; injection H; auto].
Qed.

Lemma code_key_eqb_spec a b : code_key_eqb a b = true <-> a = b.
Proof.
  destruct a as [a1 a2], b as [b1 b2]. unfold code_key_eqb. cbn [fst snd].
  rewrite Bool.andb_true_iff, text_eqb_spec, N.eqb_eq. split; [intros [-> ->]; reflexivity|intros H; injection H; auto].
Qed.

Lemma fixed_key_eqb_spec a b : fixed_key_eqb a b = true <-> a = b.
Proof.
  destruct a as [[a1 a2] a3], b as [[b1 b2] b3]. unfold fixed_key_eqb. cbn [fst snd].
  rewrite !Bool.andb_true_iff, text_eqb_spec, !N.eqb_eq.
  split; [intros [[-> ->] ->]; reflexivity|intros H; injection H; auto].
Qed.

(* ---------- association lists ---------- *)
Section AssocFacts.
  Context {K V : Type}.
  Variable eqb : K -> K -> bool.
  Hypothesis eqb_spec : forall a b, eqb a b = true <-> a = b.

  Lemma lookup_In k (m : list (K * V)) v : lookup eqb k m = Some v -> In (k, v) m.
  Proof.
    induction m as [|[k' v'] m IH]; cbn [lookup]; [discriminate|].
    destruct (eqb k k') eqn:E.
    - intros H. injection H as ->. apply eqb_spec in E. subst. now left.
    - intros H. right. now apply IH.
  Qed.

  Lemma In_evict keep (m : list (K * V)) kv : In kv (evict keep m) -> In kv m.
  Proof. unfold evict. rewrite filter_In. tauto. Qed.

  Lemma In_put k v (m : list (K * V)) kv : In kv (put eqb k v m) -> kv = (k, v) \/ In kv m.
  Proof.
    unfold put, remove_key. cbn [In]. rewrite filter_In. intros [H|[H _]]; [left; now symmetry|now right].
  Qed.

  Lemma lookup_put_same k v (m : list (K * V)) : lookup eqb k (put eqb k v m) = Some v.
  Proof.
    unfold put. cbn [lookup]. replace (eqb k k) with true; [reflexivity|]. symmetry. now apply eqb_spec.
  Qed.
End AssocFacts.

Section CacheFacts.
  Variables cfg toks K : Type.
  Variable k_eqb : K -> K -> bool.
  Hypothesis k_eqb_spec : forall a b, k_eqb a b = true <-> a = b.
  Variable mkkey : text -> toks -> cfg -> K.
  Variable pattern_rel : text -> toks -> cfg -> list clint.
  Variables struct_pre struct_post : cfg -> doc toks -> list clint.
  Variable spell_on : cfg -> bool.
  Variable suggest : text -> list text.
  Variable spell_mk : text -> span -> list text -> clint.

  Notation lint_chunks := (lint_chunks cfg toks K k_eqb mkkey pattern_rel).
  Notation lint_words := (lint_words suggest spell_mk).
  Notation lint_doc := (lint_doc cfg toks K k_eqb mkkey pattern_rel struct_pre struct_post spell_on suggest spell_mk).
  Notation step := (step cfg toks K k_eqb mkkey pattern_rel struct_pre struct_post spell_on suggest spell_mk).
  Notation run_hist := (run_hist cfg toks K k_eqb mkkey pattern_rel struct_pre struct_post spell_on suggest spell_mk).
  Notation fresh_hist := (fresh_hist cfg toks K k_eqb mkkey pattern_rel struct_pre struct_post spell_on suggest spell_mk).
  Notation spec_chunk := (spec_chunk cfg toks pattern_rel).
  Notation spec_words := (spec_words suggest spell_mk).
  Notation spec_lint := (spec_lint cfg toks pattern_rel struct_pre struct_post spell_on suggest spell_mk).
  Notation spec_hist := (spec_hist cfg toks K pattern_rel struct_pre struct_post spell_on suggest spell_mk).
  Notation hist_triples := (hist_triples cfg toks K).
  Notation doc_triples := (doc_triples cfg toks).
  Notation triple := (text * toks * cfg)%type.

  (* every entry of the chunk cache was computed by the pattern rules for SOME chunk of the universe U
     that has this key — the tokens are not part of the code's key, hence the existential *)
  Definition entries_ok (U : list triple) (m : list (K * list clint)) : Prop :=
    forall k v, In (k, v) m ->
      exists ch t c, In (ch, t, c) U /\ k = mkkey ch t c /\ v = pattern_rel ch t c.
  Definition spell_ok (sm : list (text * list text)) : Prop :=
    forall w v, In (w, v) sm -> v = suggest w.
  (* the key determines the value, on the universe *)
  Definition key_det (U : list triple) : Prop :=
    forall ch1 t1 c1 ch2 t2 c2, In (ch1, t1, c1) U -> In (ch2, t2, c2) U ->
      mkkey ch1 t1 c1 = mkkey ch2 t2 c2 -> pattern_rel ch1 t1 c1 = pattern_rel ch2 t2 c2.

  Lemma entries_ok_evict U keep m : entries_ok U m -> entries_ok U (evict keep m).
  Proof. intros H k v Hin. apply H. now apply In_evict in Hin. Qed.

  Lemma entries_ok_put U ch t c m :
    entries_ok U m -> In (ch, t, c) U -> entries_ok U (put k_eqb (mkkey ch t c) (pattern_rel ch t c) m).
  Proof.
    intros H HU k v Hin. apply In_put in Hin. destruct Hin as [E|Hin]; [|now apply H].
    injection E as -> ->. now exists ch, t, c.
  Qed.

  Lemma spell_ok_evict keep sm : spell_ok sm -> spell_ok (evict keep sm).
  Proof. intros H w v Hin. apply (H w v). now apply In_evict in Hin. Qed.

  (* the chunk loop: total; keeps the invariant; and, when the key determines the value, emits exactly
     what the rules compute without any cache *)
  Lemma lint_chunks_ok U c : forall chs evs m,
    entries_ok U m ->
    (forall ch, In (Some ch) chs -> In (c_chars ch, c_toks ch, c) U) ->
    exists m' out hits,
      lint_chunks c chs evs m = Ok (m', out, hits) /\ entries_ok U m' /\
      (key_det U -> out = flat_map (spec_chunk c) chs).
  Proof.
    induction chs as [|oc chs IH]; intros evs m Hm HU.
    - exists m, [], []. cbn. auto.
    - cbn [Cache.lint_chunks].
      set (m1 := evict (hd keep_all evs) m).
      assert (Hm1 : entries_ok U m1) by now apply entries_ok_evict.
      destruct oc as [ch|].
      + assert (Hch : In (c_chars ch, c_toks ch, c) U) by (apply HU; now left).
        assert (HU' : forall ch', In (Some ch') chs -> In (c_chars ch', c_toks ch', c) U) by (intros ch' H'; apply HU; now right).
        destruct (lookup k_eqb (mkkey (c_chars ch) (c_toks ch) c) m1) as [v|] eqn:L.
        * cbn [bind].
          destruct (IH (tl evs) m1 Hm1 HU') as (m' & out & hits & E & Hm' & Hs).
          rewrite E. cbn [bind]. eexists _, _, _. split; [reflexivity|]. split; [assumption|].
          intros Hdet. cbn [flat_map]. rewrite (Hs Hdet). f_equal.
          apply (lookup_In k_eqb k_eqb_spec) in L. apply Hm1 in L. destruct L as (ch0 & t0 & c0 & HU0 & Hk & ->).
          cbn [Cache.spec_chunk]. f_equal. symmetry. now apply Hdet.
        * rewrite mapM_pull_push. cbn [bind].
          set (m2 := put k_eqb _ _ m1).
          assert (Hm2 : entries_ok U m2) by (now apply entries_ok_put).
          destruct (IH (tl evs) m2 Hm2 HU') as (m' & out & hits & E & Hm' & Hs).
          rewrite E. cbn [bind]. eexists _, _, _. split; [reflexivity|]. split; [assumption|].
          intros Hdet. cbn [flat_map]. rewrite (Hs Hdet). reflexivity.
      + assert (HU' : forall ch', In (Some ch') chs -> In (c_chars ch', c_toks ch', c) U) by (intros ch' H'; apply HU; now right).
        destruct (IH (tl evs) m1 Hm1 HU') as (m' & out & hits & E & Hm' & Hs).
        exists m', out, hits. split; [assumption|]. split; [assumption|].
        intros Hdet. cbn [flat_map Cache.spec_chunk app]. now apply Hs.
  Qed.

  (* the spelling cache: its key is the whole argument of `suggest`, so no hypothesis is needed *)
  Lemma lint_words_ok : forall ws sevs sm,
    spell_ok sm -> exists sm' hits, lint_words ws sevs sm = (sm', spec_words ws, hits) /\ spell_ok sm'.
  Proof.
    induction ws as [|[sp w] ws IH]; intros sevs sm Hsm.
    - exists sm, []. cbn. auto.
    - cbn [Cache.lint_words].
      set (sm1 := evict (hd keep_all sevs) sm).
      assert (H1 : spell_ok sm1) by now apply spell_ok_evict.
      destruct (lookup text_eqb w sm1) as [v|] eqn:L.
      + destruct (IH (tl sevs) sm1 H1) as (sm' & hits & E & H').
        rewrite E. exists sm', (true :: hits). split; [|assumption].
        apply (lookup_In text_eqb text_eqb_spec) in L. apply H1 in L. subst v. reflexivity.
      + assert (H2 : spell_ok (put text_eqb w (suggest w) sm1)).
        { intros w' v' Hin. apply In_put in Hin. destruct Hin as [E|Hin]; [injection E as -> ->; reflexivity|now apply (H1 w' v')]. }
        destruct (IH (tl sevs) _ H2) as (sm' & hits & E & H').
        rewrite E. exists sm', (false :: hits). split; [reflexivity|assumption].
  Qed.

  Lemma doc_triples_In c d ch : In (Some ch) (d_chunks d) -> In (c_chars ch, c_toks ch, c) (doc_triples c d).
  Proof.
    unfold Cache.doc_triples. intros H. apply in_flat_map. exists (Some ch). split; [assumption|now left].
  Qed.

  Definition state_ok (U : list triple) (st : state cfg K) : Prop :=
    entries_ok U (st_cache st) /\ spell_ok (st_spell st).

  Lemma lint_doc_ok U st d evs sevs :
    state_ok U st -> incl (doc_triples (st_cfg st) d) U ->
    exists st' out hits,
      lint_doc st d evs sevs = Ok (st', out, hits) /\ state_ok U st' /\ st_cfg st' = st_cfg st /\
      (key_det U -> out = spec_lint (st_cfg st) d).
  Proof.
    intros [Hc Hs] HU. unfold Cache.lint_doc, Cache.spec_lint.
    destruct (lint_chunks_ok U (st_cfg st) (d_chunks d) evs (st_cache st) Hc) as (m' & out & hits & E & Hm' & Hspec).
    { intros ch Hin. apply HU. now apply doc_triples_In. }
    destruct (spell_on (st_cfg st)).
    - destruct (lint_words_ok (d_miss d) sevs (st_spell st) Hs) as (sm' & whits & Ew & Hsm').
      rewrite Ew. rewrite E. cbn [bind]. eexists _, _, _. split; [reflexivity|]. split; [split; assumption|]. split; [reflexivity|].
      intros Hdet. now rewrite (Hspec Hdet).
    - rewrite E. cbn [bind]. eexists _, _, _. split; [reflexivity|]. split; [split; assumption|]. split; [reflexivity|].
      intros Hdet. now rewrite (Hspec Hdet).
  Qed.

  (* every history, every eviction: total, the invariant holds afterwards, and under key_det the outputs
     are those of the cache-free specification *)
  Lemma run_hist_ok U : forall h st,
    state_ok U st -> incl (hist_triples h (st_cfg st)) U ->
    exists st' outs,
      run_hist h st = Ok (st', outs) /\ state_ok U st' /\
      (key_det U -> outs = spec_hist h (st_cfg st)).
  Proof.
    induction h as [|o h IH]; intros st Hst HU.
    - exists st, []. cbn. auto.
    - cbn [Cache.run_hist]. destruct o as [c|d evs sevs|keep skeep].
      + cbn [Cache.step bind].
        destruct (IH (mkstate c (st_cache st) (st_spell st))) as (st' & outs & E & Hst' & Hs).
        { exact Hst. } { exact HU. }
        rewrite E. cbn [bind]. exists st', outs. split; [reflexivity|]. split; [assumption|]. exact Hs.
      + cbn [Cache.hist_triples] in HU.
        destruct (lint_doc_ok U st d evs sevs Hst) as (st1 & out & hits & E1 & Hst1 & Hc & Hs1).
        { intros x Hx. apply HU. apply in_or_app. now left. }
        cbn [Cache.step]. rewrite E1. cbn [bind].
        destruct (IH st1 Hst1) as (st' & outs & E & Hst' & Hs).
        { rewrite Hc. intros x Hx. apply HU. apply in_or_app. now right. }
        rewrite E. cbn [bind]. exists st', (out :: outs). split; [reflexivity|]. split; [assumption|].
        intros Hdet. cbn [Cache.spec_hist]. rewrite (Hs1 Hdet), (Hs Hdet), Hc. reflexivity.
      + cbn [Cache.step bind].
        destruct (IH (mkstate (st_cfg st) (evict keep (st_cache st)) (evict skeep (st_spell st)))) as (st' & outs & E & Hst' & Hs).
        { destruct Hst as [H1 H2]. split; [now apply entries_ok_evict|now apply spell_ok_evict]. } { exact HU. }
        rewrite E. cbn [bind]. exists st', outs. split; [reflexivity|]. split; [assumption|]. exact Hs.
  Qed.

  Lemma fresh_ok U c : state_ok U (fresh c).
  Proof. split; intros ? ? []. Qed.

  (* what a fresh linter answers at each step is the specification, whenever the key determines the value
     on the chunks of that one document *)
  Lemma fresh_hist_spec : forall h c,
    key_det (hist_triples h c) -> fresh_hist h c = map Ok (spec_hist h c).
  Proof.
    induction h as [|o h IH]; intros c Hdet; [reflexivity|].
    destruct o as [c'|d evs sevs|keep skeep]; cbn [Cache.fresh_hist Cache.spec_hist Cache.hist_triples] in *.
    - now apply IH.
    - cbn [map]. f_equal.
      + destruct (lint_doc_ok (doc_triples c d) (fresh c) d [] [] (fresh_ok _ c)) as (st1 & out & hits & E1 & _ & _ & Hs1).
        { apply incl_refl. }
        rewrite E1. cbn [bind]. f_equal. apply Hs1.
        intros ch1 t1 c1 ch2 t2 c2 H1 H2. apply Hdet; apply in_or_app; now left.
      + apply IH. intros ch1 t1 c1 ch2 t2 c2 H1 H2. apply Hdet; apply in_or_app; now right.
    - now apply IH.
  Qed.

  (* ---------- the theorems ---------- *)

  (* C05_cache_inv: after any history, with any evictions, every entry of the chunk cache is the uncached
     result of the pattern rules on a chunk (of that history) with this key, and every entry of the
     spelling cache is the uncached suggestion list of its word; and no step panics. *)
  Theorem cache_inv h c0 :
    exists st outs,
      run_hist h (fresh c0) = Ok (st, outs) /\
      (forall k v, lookup k_eqb k (st_cache st) = Some v ->
         exists ch t c, In (ch, t, c) (hist_triples h c0) /\ k = mkkey ch t c /\ v = pattern_rel ch t c) /\
      (forall w v, lookup text_eqb w (st_spell st) = Some v -> v = suggest w).
  Proof.
    destruct (run_hist_ok (hist_triples h c0) h (fresh c0) (fresh_ok _ c0)) as (st & outs & E & [Hc Hs] & _).
    { apply incl_refl. }
    exists st, outs. split; [assumption|]. split.
    - intros k v L. apply Hc. now apply (lookup_In k_eqb k_eqb_spec).
    - intros w v L. apply (Hs w v). now apply (lookup_In text_eqb text_eqb_spec).
  Qed.

  (* C05_refinement: if the cache key determines the pattern lints on the chunks the history touches, then
     for every history and every eviction schedule the linter never panics and every Lint step answers what
     the cache-free specification answers, which is also what a freshly built linter answers at that step. *)
  Theorem refinement h c0 :
    key_det (hist_triples h c0) ->
    exists st,
      run_hist h (fresh c0) = Ok (st, spec_hist h c0) /\
      fresh_hist h c0 = map Ok (spec_hist h c0).
  Proof.
    intros Hdet.
    destruct (run_hist_ok (hist_triples h c0) h (fresh c0) (fresh_ok _ c0)) as (st & outs & E & _ & Hs).
    { apply incl_refl. }
    exists st. rewrite (Hs Hdet) in E. split; [assumption|]. now apply fresh_hist_spec.
  Qed.

  (* the converse: two (chunk, configuration) pairs with the same key and different pattern lints make the
     cache observable — lint the first, then the second: the reused linter serves the first one's lints,
     a fresh linter does not. *)
  Definition one_chunk (ch : text) (t : toks) : doc toks := mkdoc [Some (mkchunk 0 ch t)] [] 0%N.

  Lemma lint_one_miss st ch t :
    lookup k_eqb (mkkey ch t (st_cfg st)) (evict keep_all (st_cache st)) = None ->
    lint_doc st (one_chunk ch t) [] [] =
      Ok (mkstate (st_cfg st)
                  (put k_eqb (mkkey ch t (st_cfg st)) (pattern_rel ch t (st_cfg st)) (evict keep_all (st_cache st)))
                  (st_spell st),
          struct_pre (st_cfg st) (one_chunk ch t) ++ [] ++ struct_post (st_cfg st) (one_chunk ch t)
            ++ map (lpush 0) (pattern_rel ch t (st_cfg st)) ++ [],
          ([false], [])).
  Proof.
    intros L. unfold Cache.lint_doc, one_chunk. cbn [d_chunks d_miss Cache.lint_words].
    replace (if spell_on (st_cfg st) then (st_spell st, @nil clint, @nil bool) else (st_spell st, [], [])) with (st_spell st, @nil clint, @nil bool)
      by (destruct (spell_on (st_cfg st)); reflexivity).
    cbn [Cache.lint_chunks hd tl c_start c_chars c_toks]. rewrite L. rewrite mapM_pull_push. reflexivity.
  Qed.

  Lemma lint_one_hit st ch t v :
    lookup k_eqb (mkkey ch t (st_cfg st)) (evict keep_all (st_cache st)) = Some v ->
    lint_doc st (one_chunk ch t) [] [] =
      Ok (mkstate (st_cfg st) (evict keep_all (st_cache st)) (st_spell st),
          struct_pre (st_cfg st) (one_chunk ch t) ++ [] ++ struct_post (st_cfg st) (one_chunk ch t)
            ++ map (lpush 0) v ++ [],
          ([true], [])).
  Proof.
    intros L. unfold Cache.lint_doc, one_chunk. cbn [d_chunks d_miss Cache.lint_words].
    replace (if spell_on (st_cfg st) then (st_spell st, @nil clint, @nil bool) else (st_spell st, [], [])) with (st_spell st, @nil clint, @nil bool)
      by (destruct (spell_on (st_cfg st)); reflexivity).
    cbn [Cache.lint_chunks hd tl c_start c_chars c_toks]. rewrite L. reflexivity.
  Qed.

  Theorem cache_observable ch1 t1 c1 ch2 t2 c2 c0 :
    mkkey ch1 t1 c1 = mkkey ch2 t2 c2 ->
    pattern_rel ch1 t1 c1 <> pattern_rel ch2 t2 c2 ->
    let h := [SetCfg c1; Lint (one_chunk ch1 t1) [] []; SetCfg c2; Lint (one_chunk ch2 t2) [] []] in
    exists st o1 reused fresh_out,
      run_hist h (fresh c0) = Ok (st, [o1; reused]) /\
      fresh_hist h c0 = [Ok o1; Ok fresh_out] /\
      reused <> fresh_out.
  Proof.
    intros Hk Hne h. subst h.
    cbn [Cache.run_hist Cache.step bind Cache.fresh_hist fresh st_cache st_spell]. unfold fresh.
    rewrite !(lint_one_miss (mkstate c1 [] []) ch1 t1) by reflexivity.
    cbn [bind st_cfg st_cache st_spell evict filter].
    rewrite (lint_one_hit (mkstate c2 _ []) ch2 t2 (pattern_rel ch1 t1 c1)).
    2:{ cbn [st_cfg st_cache put remove_key evict filter keep_all fst lookup]. rewrite Hk.
        replace (k_eqb (mkkey ch2 t2 c2) (mkkey ch2 t2 c2)) with true by (symmetry; now apply k_eqb_spec). reflexivity. }
    rewrite (lint_one_miss (mkstate c2 [] []) ch2 t2) by reflexivity.
    cbn [bind st_cfg st_cache st_spell].
    eexists _, _, _, _. split; [reflexivity|]. split; [reflexivity|].
    intros H. repeat (apply app_inv_head in H). rewrite !app_nil_r in H. apply map_lpush_inj in H. congruence.
  Qed.
End CacheFacts.

(* ---------- the code's key: (chunk characters, hash of the configuration) ---------- *)
Section CodeKey.
  Variables cfg toks : Type.
  Variable cfg_hash : cfg -> N.
  Variable pattern_rel : text -> toks -> cfg -> list clint.
  Notation triple := (text * toks * cfg)%type.

  (* C05_cfg_hash's hypothesis: the configuration hash is injective on the configurations in use *)
  Definition hash_inj_on (U : list triple) : Prop :=
    forall x y, In x U -> In y U -> cfg_hash (snd x) = cfg_hash (snd y) -> snd x = snd y.
  (* H_chunk_fun: the relative pattern lints of a chunk are a function of (chunk characters, configuration) —
     they do not depend on how the characters were tokenised *)
  Definition chunk_fun_on (U : list triple) : Prop :=
    forall ch t1 t2 c, In (ch, t1, c) U -> In (ch, t2, c) U -> pattern_rel ch t1 c = pattern_rel ch t2 c.

  Lemma code_key_det U :
    hash_inj_on U -> chunk_fun_on U -> key_det cfg toks (text * N) (code_key cfg_hash) pattern_rel U.
  Proof.
    intros Hh Hf ch1 t1 c1 ch2 t2 c2 H1 H2 Hk. unfold code_key in Hk. injection Hk as -> Hc.
    assert (c1 = c2) by (apply (Hh _ _ H1 H2); exact Hc). subst c2. now apply Hf.
  Qed.

  (* the key of fixes/F11.diff: the tokens are part of the key, H_chunk_fun is not needed any more *)
  Variable tok_hash : toks -> N.
  Definition tok_hash_inj_on (U : list triple) : Prop :=
    forall x y, In x U -> In y U -> tok_hash (snd (fst x)) = tok_hash (snd (fst y)) -> snd (fst x) = snd (fst y).

  Lemma fixed_key_det U :
    hash_inj_on U -> tok_hash_inj_on U ->
    key_det cfg toks (text * N * N) (fixed_key cfg_hash tok_hash) pattern_rel U.
  Proof.
    intros Hh Ht ch1 t1 c1 ch2 t2 c2 H1 H2 Hk. unfold fixed_key in Hk. injection Hk as -> Hc Htk.
    assert (c1 = c2) by (apply (Hh _ _ H1 H2); exact Hc).
    assert (t1 = t2) by (apply (Ht _ _ H1 H2); exact Htk).
    now subst.
  Qed.
End CodeKey.

(* ---------- the statements pinned in Properties/C05.v, for the key the code builds ---------- *)
Section Pinned.
  Variables cfg toks : Type.
  Variable cfg_hash : cfg -> N.
  Variable pattern_rel : text -> toks -> cfg -> list clint.
  Variables struct_pre struct_post : cfg -> doc toks -> list clint.
  Variable spell_on : cfg -> bool.
  Variable suggest : text -> list text.
  Variable spell_mk : text -> span -> list text -> clint.

  Notation run_code := (run_hist cfg toks (text * N) code_key_eqb (code_key cfg_hash) pattern_rel struct_pre struct_post spell_on suggest spell_mk).
  Notation fresh_code := (fresh_hist cfg toks (text * N) code_key_eqb (code_key cfg_hash) pattern_rel struct_pre struct_post spell_on suggest spell_mk).
  Notation spec := (spec_hist cfg toks (text * N) pattern_rel struct_pre struct_post spell_on suggest spell_mk).
  Notation U := (hist_triples cfg toks (text * N)).

  Lemma code_cache_inv (h : list (op cfg toks (text * N))) c0 :
    exists st outs,
      run_code h (fresh c0) = Ok (st, outs) /\
      (forall chars hsh v, lookup code_key_eqb (chars, hsh) (st_cache st) = Some v ->
         exists t c, In (chars, t, c) (U h c0) /\ cfg_hash c = hsh /\ v = pattern_rel chars t c) /\
      (forall w v, lookup text_eqb w (st_spell st) = Some v -> v = suggest w).
  Proof.
    destruct (cache_inv cfg toks (text * N) code_key_eqb code_key_eqb_spec (code_key cfg_hash) pattern_rel
                struct_pre struct_post spell_on suggest spell_mk h c0) as (st & outs & E & Hc & Hs).
    exists st, outs. split; [assumption|]. split; [|assumption].
    intros chars hsh v L. destruct (Hc _ _ L) as (ch & t & c & HU & Hk & Hv).
    unfold code_key in Hk. injection Hk as -> ->. now exists t, c.
  Qed.

  Lemma code_refinement (h : list (op cfg toks (text * N))) c0 :
    hash_inj_on cfg toks cfg_hash (U h c0) -> chunk_fun_on cfg toks pattern_rel (U h c0) ->
    exists st, run_code h (fresh c0) = Ok (st, spec h c0) /\ fresh_code h c0 = map Ok (spec h c0).
  Proof.
    intros Hh Hf. apply refinement; [exact code_key_eqb_spec|]. now apply code_key_det.
  Qed.

  Lemma code_needs_chunk_fun ch t1 t2 c c0 :
    pattern_rel ch t1 c <> pattern_rel ch t2 c ->
    let h := [SetCfg c; Lint (one_chunk toks ch t1) [] []; SetCfg c; Lint (one_chunk toks ch t2) [] []] in
    exists st o1 reused fresh_out,
      run_code h (fresh c0) = Ok (st, [o1; reused]) /\ fresh_code h c0 = [Ok o1; Ok fresh_out] /\ reused <> fresh_out.
  Proof.
    intros Hne. apply cache_observable; [exact code_key_eqb_spec|reflexivity|assumption].
  Qed.

  Lemma code_needs_cfg_hash ch t c1 c2 c0 :
    cfg_hash c1 = cfg_hash c2 -> pattern_rel ch t c1 <> pattern_rel ch t c2 ->
    let h := [SetCfg c1; Lint (one_chunk toks ch t) [] []; SetCfg c2; Lint (one_chunk toks ch t) [] []] in
    exists st o1 reused fresh_out,
      run_code h (fresh c0) = Ok (st, [o1; reused]) /\ fresh_code h c0 = [Ok o1; Ok fresh_out] /\ reused <> fresh_out.
  Proof.
    intros Hh Hne. apply cache_observable; [exact code_key_eqb_spec| |assumption].
    unfold code_key. now rewrite Hh.
  Qed.

  (* the key of fixes/F11.diff *)
  Variable tok_hash : toks -> N.
  Notation run_fixed := (run_hist cfg toks (text * N * N) fixed_key_eqb (fixed_key cfg_hash tok_hash) pattern_rel struct_pre struct_post spell_on suggest spell_mk).
  Notation fresh_fixed := (fresh_hist cfg toks (text * N * N) fixed_key_eqb (fixed_key cfg_hash tok_hash) pattern_rel struct_pre struct_post spell_on suggest spell_mk).
  Notation spec3 := (spec_hist cfg toks (text * N * N) pattern_rel struct_pre struct_post spell_on suggest spell_mk).
  Notation U3 := (hist_triples cfg toks (text * N * N)).

  Lemma fixed_refinement (h : list (op cfg toks (text * N * N))) c0 :
    hash_inj_on cfg toks cfg_hash (U3 h c0) -> tok_hash_inj_on cfg toks tok_hash (U3 h c0) ->
    exists st, run_fixed h (fresh c0) = Ok (st, spec3 h c0) /\ fresh_fixed h c0 = map Ok (spec3 h c0).
  Proof.
    intros Hh Ht. apply refinement; [exact fixed_key_eqb_spec|]. now apply fixed_key_det.
  Qed.
End Pinned.

(* ---------- a concrete instance for the non-vacuity examples ----------
   configurations 0 (rule off) / 1 (rule on), hashed by the identity; tokenisations 0 ("plain": words) and
   1 ("Markdown": the back-quoted part is one unlintable token); the one pattern rule flags characters 1..3
   of the chunk [96;98;96] ("`b`") when it sees words. *)
Definition ex_rel (ch : text) (t c : N) : list clint :=
  if (text_eqb ch [96; 98; 96]%N && N.eqb t 0 && N.eqb c 1)%bool then [mkclint (mkspan 1 2) 7] else [].
Definition ex_pre (c : N) (d : doc N) : list clint := [mkclint (mkspan 0 0) (d_rest d)].
Definition ex_post (c : N) (d : doc N) : list clint := [].
Definition ex_suggest (w : text) : list text := [w ++ [33]%N].
Definition ex_mk (w : text) (sp : span) (sug : list text) : clint := mkclint sp (N.of_nat (length (hd [] sug))).
Definition ex_run := run_hist N N (text * N) code_key_eqb (code_key (fun c => c)) ex_rel ex_pre ex_post (fun _ => true) ex_suggest ex_mk.
Definition ex_fresh := fresh_hist N N (text * N) code_key_eqb (code_key (fun c => c)) ex_rel ex_pre ex_post (fun _ => true) ex_suggest ex_mk.
Definition ex_spec := spec_hist N N (text * N) ex_rel ex_pre ex_post (fun _ => true) ex_suggest ex_mk.
Definition ex_run_fixed := run_hist N N (text * N * N) fixed_key_eqb (fixed_key (fun c => c) (fun t => t)) ex_rel ex_pre ex_post (fun _ => true) ex_suggest ex_mk.
Definition ex_chunk (start : nat) (t : N) : option (chunk N) := Some (mkchunk start [96; 98; 96]%N t).
(* the same clause twice in one document at two offsets, a misspelt word twice *)
Definition ex_doc (t : N) : doc N :=
  mkdoc [ex_chunk 0 t; None; ex_chunk 10 t] [(mkspan 4 6, [120; 120]%N); (mkspan 14 16, [120; 120]%N)] 5.
Definition ex_outs {K} (r : res (state N K * list (list clint))) : list (list (nat * nat * N)) :=
  match r with
  | Ok (_, outs) => map (map (fun l => (sstart (cl_span l), send (cl_span l), cl_body l))) outs
  | Panic _ => []
  end.
