(* CacheProofs.v — the chunk cache and the spelling cache of a long-lived linter are unobservable
   exactly when the cache key determines the cached value (C05). *)
Require Import Base Cache.
From Coq Require Import List Arith NArith Bool Lia.
Import ListNotations.

(* ---------- re-basing ---------- *)
Lemma lpull_lpush s l : lpull s (lpush s l) = Ok l.
Proof.
  destruct l as [[a b] body]. unfold lpull, lpush, pull_by, push_by, sub_chk. cbn [cl_span cl_body sstart send].
  replace (a + s <? s) with false by (symmetry; apply Nat.ltb_ge; lia).
  replace (b + s <? s) with false by (symmetry; apply Nat.ltb_ge; lia).
  cbn [bind]. now rewrite !Nat.add_sub.
Qed.

Lemma mapM_pull_push s ls : mapM (lpull s) (map (lpush s) ls) = Ok ls.
Proof.
  induction ls as [|l ls IH]; [reflexivity|].
  cbn [map mapM]. rewrite lpull_lpush. cbn [bind]. rewrite IH. reflexivity.
Qed.

Lemma lpush_inj s a b : lpush s a = lpush s b -> a = b.
Proof.
  destruct a as [[a1 a2] ab], b as [[b1 b2] bb]. unfold lpush, push_by. cbn [cl_span cl_body sstart send].
  intros H. injection H as H1 H2 H3. f_equal; [f_equal; lia|assumption].
Qed.

Lemma map_lpush_inj s a b : map (lpush s) a = map (lpush s) b -> a = b.
Proof.
  revert b. induction a as [|x a IH]; intros [|y b] H; try discriminate; [reflexivity|].
  cbn [map] in H. assert (Hx : lpush s x = lpush s y) by congruence. assert (Ht : map (lpush s) a = map (lpush s) b) by congruence.
  apply lpush_inj in Hx. apply IH in Ht. now subst.
Qed.

Lemma text_eqb_spec a b : text_eqb a b = true <-> a = b.
Proof.
  revert b. induction a as [|x a IH]; intros [|y b]; cbn [text_eqb]; try (split; [discriminate|discriminate]); [tauto|].
  rewrite Bool.andb_true_iff, N.eqb_eq, IH. split; [intros [-> ->]; reflexivity|intros H; injection H; auto].
Qed.

Lemma code_key_old_eqb_spec a b : code_key_old_eqb a b = true <-> a = b.
Proof.
  destruct a as [a1 a2], b as [b1 b2]. unfold code_key_old_eqb. cbn [fst snd].
  rewrite Bool.andb_true_iff, text_eqb_spec, N.eqb_eq. split; [intros [-> ->]; reflexivity|intros H; injection H; auto].
Qed.

Lemma code_key_eqb_spec a b : code_key_eqb a b = true <-> a = b.
Proof.
  destruct a as [[a1 a2] a3], b as [[b1 b2] b3]. unfold code_key_eqb. cbn [fst snd].
  rewrite !Bool.andb_true_iff, text_eqb_spec, !N.eqb_eq.
  split; [intros [[-> ->] ->]; reflexivity|intros H; injection H; auto].
Qed.

(* ---------- the hull of a chunk and the token hash's subtractions ---------- *)
Lemma pts_min_le x l : pts_min x l <= x /\ (forall y, In y l -> pts_min x l <= y).
Proof.
  revert x. induction l as [|z l IH]; intros x; cbn [pts_min].
  - split; [lia|intros y []].
  - destruct (IH (Nat.min x z)) as [H1 H2]. split; [lia|].
    intros y [<-|Hy]; [lia|now apply H2].
Qed.

Lemma pts_max_ge x l : x <= pts_max x l /\ (forall y, In y l -> y <= pts_max x l).
Proof.
  revert x. induction l as [|z l IH]; intros x; cbn [pts_max].
  - split; [lia|intros y []].
  - destruct (IH (Nat.max x z)) as [H1 H2]. split; [lia|].
    intros y [<-|Hy]; [lia|now apply H2].
Qed.

Lemma mapM_In {A B} (f : A -> res B) : forall l l' y,
  mapM f l = Ok l' -> In y l' -> exists x, In x l /\ f x = Ok y.
Proof.
  induction l as [|x l IH]; intros l' y H Hy; cbn [mapM] in H.
  - injection H as <-. destruct Hy.
  - destruct (f x) as [b|] eqn:E; cbn [bind] in H; [|discriminate].
    destruct (mapM f l) as [t'|] eqn:E'; cbn [bind] in H; [|discriminate].
    injection H as <-. destruct Hy as [<-|Hy].
    + exists x. split; [now left|assumption].
    + destruct (IH t' y eq_refl Hy) as (x0 & Hx0 & Hf). exists x0. split; [now right|assumption].
Qed.

Section TokenFacts.
  Variable kind : Type.
  Notation toks := (list (tok kind)).

  (* chunk.span() never panics (Span::new(min, max)), and its start is below every start and end *)
  Lemma hull_of_total (ts : toks) : exists o, hull_of ts = Ok o.
  Proof.
    unfold hull_of. destruct (flat_map tok_points ts) as [|x [|y r]]; [now eexists| |].
    - unfold span_new. rewrite Nat.ltb_irrefl. cbn [bind]. now eexists.
    - unfold span_new.
      destruct (pts_min_le x (y :: r)) as [H1 _]. destruct (pts_max_ge x (y :: r)) as [H2 _].
      replace (pts_max x (y :: r) <? pts_min x (y :: r)) with false by (symmetry; apply Nat.ltb_ge; lia).
      cbn [bind]. now eexists.
  Qed.

  Lemma hull_of_below (ts : toks) sp :
    hull_of ts = Ok (Some sp) ->
    Forall (fun t => sstart sp <= sstart (snd t) /\ sstart sp <= send (snd t)) ts.
  Proof.
    unfold hull_of. intros H.
    assert (Hp : forall p, In p (flat_map tok_points ts) -> sstart sp <= p).
    { destruct (flat_map tok_points ts) as [|x [|y r]]; [discriminate| |].
      - unfold span_new in H. rewrite Nat.ltb_irrefl in H. cbn [bind] in H. injection H as <-.
        intros p [<-|[]]. cbn [sstart]. lia.
      - unfold span_new in H. destruct (pts_max x (y :: r) <? pts_min x (y :: r)); cbn [bind] in H; [discriminate|].
        injection H as <-. cbn [sstart]. destruct (pts_min_le x (y :: r)) as [H1 H2].
        intros p [<-|Hp]; [assumption|now apply H2]. }
    apply Forall_forall. intros t Ht. split; apply Hp; apply in_flat_map; exists t; (split; [assumption|]); cbn [tok_points In]; auto.
  Qed.

  (* the subtractions of the token hash cannot underflow when no token starts or ends before the base *)
  Lemma rel_toks_ok base (ts : toks) :
    Forall (fun t => base <= sstart (snd t) /\ base <= send (snd t)) ts ->
    rel_toks base ts = Ok (map (fun t => (fst t, mkspan (sstart (snd t) - base) (send (snd t) - base))) ts).
  Proof.
    unfold rel_toks. induction 1 as [|t ts [Ha Hb] _ IH]; [reflexivity|].
    cbn [mapM map]. unfold rel_tok at 1, sub_chk.
    replace (sstart (snd t) <? base) with false by (symmetry; apply Nat.ltb_ge; lia).
    replace (send (snd t) <? base) with false by (symmetry; apply Nat.ltb_ge; lia).
    cbn [bind]. rewrite IH. reflexivity.
  Qed.

  Lemma rel_toks_0 (ts : toks) : rel_toks 0 ts = Ok ts.
  Proof.
    rewrite rel_toks_ok by (apply Forall_forall; intros; lia). f_equal.
    induction ts as [|[k [a b]] ts IH]; [reflexivity|]. cbn [map fst snd sstart send]. rewrite !Nat.sub_0_r, IH. reflexivity.
  Qed.

  (* every chunk LintGroup::lint builds is well-formed: its start is the minimum over its tokens *)
  Lemma chunk_of_wf src (ts : toks) ch : chunk_of src ts = Ok (Some ch) -> chunk_wf ch.
  Proof.
    unfold chunk_of. destruct (hull_of ts) as [[sp|]|] eqn:H; cbn [bind]; try discriminate.
    destruct (get_content sp src) as [chars|]; cbn [bind]; [|discriminate].
    intros E. injection E as <-. unfold chunk_wf. cbn [c_start c_toks]. now apply hull_of_below.
  Qed.

  Lemma doc_of_wf src (chunks : list toks) miss rest d : doc_of src chunks miss rest = Ok d -> doc_wf d.
  Proof.
    unfold doc_of. destruct (mapM (chunk_of src) chunks) as [chs|] eqn:E; cbn [bind]; [|discriminate].
    intros H. injection H as <-. intros ch Hin. cbn [d_chunks] in Hin.
    destruct (mapM_In _ _ _ _ E Hin) as (ts & _ & Hts). now apply chunk_of_wf in Hts.
  Qed.

  Lemma rel_toks_spec (ch : chunk kind) : chunk_wf ch -> rel_toks (c_start ch) (c_toks ch) = Ok (spec_rel ch).
  Proof. intros H. now apply rel_toks_ok. Qed.
End TokenFacts.

(* ---------- association lists ---------- *)
Section AssocFacts.
  Context {K V : Type}.
  Variable eqb : K -> K -> bool.
  Hypothesis eqb_spec : forall a b, eqb a b = true <-> a = b.

  Lemma lookup_In k (m : list (K * V)) v : lookup eqb k m = Some v -> In (k, v) m.
  Proof.
    induction m as [|[k' v'] m IH]; cbn [lookup]; [discriminate|].
    destruct (eqb k k') eqn:E.
    - intros H. injection H as ->. apply eqb_spec in E. subst. now left.
    - intros H. right. now apply IH.
  Qed.

  Lemma In_evict keep (m : list (K * V)) kv : In kv (evict keep m) -> In kv m.
  Proof. unfold evict. rewrite filter_In. tauto. Qed.

  Lemma In_put k v (m : list (K * V)) kv : In kv (put eqb k v m) -> kv = (k, v) \/ In kv m.
  Proof.
    unfold put, remove_key. cbn [In]. rewrite filter_In. intros [H|[H _]]; [left; now symmetry|now right].
  Qed.

  Lemma lookup_put_same k v (m : list (K * V)) : lookup eqb k (put eqb k v m) = Some v.
  Proof.
    unfold put. cbn [lookup]. replace (eqb k k) with true; [reflexivity|]. symmetry. now apply eqb_spec.
  Qed.
End AssocFacts.

Section CacheFacts.
  Variables cfg kind K : Type.
  Variable k_eqb : K -> K -> bool.
  Hypothesis k_eqb_spec : forall a b, k_eqb a b = true <-> a = b.
  Notation toks := (list (tok kind)).
  Variable mkkey : text -> toks -> cfg -> K.
  Variable pattern_rel : text -> toks -> cfg -> list clint.
  Variables struct_pre struct_post : cfg -> doc kind -> list clint.
  Variable spell_on : cfg -> bool.
  Variable suggest : text -> list text.
  Variable spell_mk : text -> span -> list text -> clint.

  Notation lint_chunks := (lint_chunks cfg kind K k_eqb mkkey pattern_rel).
  Notation lint_words := (lint_words suggest spell_mk).
  Notation lint_doc := (lint_doc cfg kind K k_eqb mkkey pattern_rel struct_pre struct_post spell_on suggest spell_mk).
  Notation step := (step cfg kind K k_eqb mkkey pattern_rel struct_pre struct_post spell_on suggest spell_mk).
  Notation run_hist := (run_hist cfg kind K k_eqb mkkey pattern_rel struct_pre struct_post spell_on suggest spell_mk).
  Notation fresh_hist := (fresh_hist cfg kind K k_eqb mkkey pattern_rel struct_pre struct_post spell_on suggest spell_mk).
  Notation spec_chunk := (spec_chunk cfg kind pattern_rel).
  Notation spec_words := (spec_words suggest spell_mk).
  Notation spec_lint := (spec_lint cfg kind pattern_rel struct_pre struct_post spell_on suggest spell_mk).
  Notation spec_hist := (spec_hist cfg kind K pattern_rel struct_pre struct_post spell_on suggest spell_mk).
  Notation hist_triples := (hist_triples cfg kind K).
  Notation hist_wf := (hist_wf cfg kind K).
  Notation doc_triples := (doc_triples cfg kind).
  Notation triple := (text * toks * cfg)%type.

  (* every entry of the chunk cache was computed by the pattern rules for a chunk of the universe U
     that has this key *)
  Definition entries_ok (U : list triple) (m : list (K * list clint)) : Prop :=
    forall k v, In (k, v) m ->
      exists ch t c, In (ch, t, c) U /\ k = mkkey ch t c /\ v = pattern_rel ch t c.
  Definition spell_ok (sm : list (text * list text)) : Prop :=
    forall w v, In (w, v) sm -> v = suggest w.
  (* the key determines the value, on the universe *)
  Definition key_det (U : list triple) : Prop :=
    forall ch1 t1 c1 ch2 t2 c2, In (ch1, t1, c1) U -> In (ch2, t2, c2) U ->
      mkkey ch1 t1 c1 = mkkey ch2 t2 c2 -> pattern_rel ch1 t1 c1 = pattern_rel ch2 t2 c2.

  Lemma entries_ok_evict U keep m : entries_ok U m -> entries_ok U (evict keep m).
  Proof. intros H k v Hin. apply H. now apply In_evict in Hin. Qed.

  Lemma entries_ok_put U ch t c m :
    entries_ok U m -> In (ch, t, c) U -> entries_ok U (put k_eqb (mkkey ch t c) (pattern_rel ch t c) m).
  Proof.
    intros H HU k v Hin. apply In_put in Hin. destruct Hin as [E|Hin]; [|now apply H].
    injection E as -> ->. now exists ch, t, c.
  Qed.

  Lemma spell_ok_evict keep sm : spell_ok sm -> spell_ok (evict keep sm).
  Proof. intros H w v Hin. apply (H w v). now apply In_evict in Hin. Qed.

  (* the chunk loop: total on well-formed chunks (the subtractions of the token hash and the pull_by of a
     miss cannot underflow); keeps the invariant; and, when the key determines the value, emits exactly
     what the rules compute without any cache *)
  Lemma lint_chunks_ok U c : forall chs evs m,
    entries_ok U m ->
    (forall ch, In (Some ch) chs -> chunk_wf ch) ->
    (forall ch, In (Some ch) chs -> In (c_chars ch, spec_rel ch, c) U) ->
    exists m' out hits,
      lint_chunks c chs evs m = Ok (m', out, hits) /\ entries_ok U m' /\
      (key_det U -> out = flat_map (spec_chunk c) chs).
  Proof.
    induction chs as [|oc chs IH]; intros evs m Hm Hwf HU.
    - exists m, [], []. cbn. auto.
    - cbn [Cache.lint_chunks].
      set (m1 := evict (hd keep_all evs) m).
      assert (Hm1 : entries_ok U m1) by now apply entries_ok_evict.
      assert (Hwf' : forall ch', In (Some ch') chs -> chunk_wf ch') by (intros ch' H'; apply Hwf; now right).
      assert (HU' : forall ch', In (Some ch') chs -> In (c_chars ch', spec_rel ch', c) U) by (intros ch' H'; apply HU; now right).
      destruct oc as [ch|].
      + assert (Hch : In (c_chars ch, spec_rel ch, c) U) by (apply HU; now left).
        rewrite (rel_toks_spec kind ch) by (apply Hwf; now left). cbn [bind].
        destruct (lookup k_eqb (mkkey (c_chars ch) (spec_rel ch) c) m1) as [v|] eqn:L.
        * cbn [bind].
          destruct (IH (tl evs) m1 Hm1 Hwf' HU') as (m' & out & hits & E & Hm' & Hs).
          rewrite E. cbn [bind]. eexists _, _, _. split; [reflexivity|]. split; [assumption|].
          intros Hdet. cbn [flat_map]. rewrite (Hs Hdet). f_equal.
          apply (lookup_In k_eqb k_eqb_spec) in L. apply Hm1 in L. destruct L as (ch0 & t0 & c0 & HU0 & Hk & ->).
          cbn [Cache.spec_chunk]. f_equal. symmetry. now apply Hdet.
        * rewrite mapM_pull_push. cbn [bind].
          set (m2 := put k_eqb _ _ m1).
          assert (Hm2 : entries_ok U m2) by (now apply entries_ok_put).
          destruct (IH (tl evs) m2 Hm2 Hwf' HU') as (m' & out & hits & E & Hm' & Hs).
          rewrite E. cbn [bind]. eexists _, _, _. split; [reflexivity|]. split; [assumption|].
          intros Hdet. cbn [flat_map]. rewrite (Hs Hdet). reflexivity.
      + destruct (IH (tl evs) m1 Hm1 Hwf' HU') as (m' & out & hits & E & Hm' & Hs).
        exists m', out, hits. split; [assumption|]. split; [assumption|].
        intros Hdet. cbn [flat_map Cache.spec_chunk app]. now apply Hs.
  Qed.

  (* the spelling cache: its key is the whole argument of `suggest`, so no hypothesis is needed *)
  Lemma lint_words_ok : forall ws sevs sm,
    spell_ok sm -> exists sm' hits, lint_words ws sevs sm = (sm', spec_words ws, hits) /\ spell_ok sm'.
  Proof.
    induction ws as [|[sp w] ws IH]; intros sevs sm Hsm.
    - exists sm, []. cbn. auto.
    - cbn [Cache.lint_words].
      set (sm1 := evict (hd keep_all sevs) sm).
      assert (H1 : spell_ok sm1) by now apply spell_ok_evict.
      destruct (lookup text_eqb w sm1) as [v|] eqn:L.
      + destruct (IH (tl sevs) sm1 H1) as (sm' & hits & E & H').
        rewrite E. exists sm', (true :: hits). split; [|assumption].
        apply (lookup_In text_eqb text_eqb_spec) in L. apply H1 in L. subst v. reflexivity.
      + assert (H2 : spell_ok (put text_eqb w (suggest w) sm1)).
        { intros w' v' Hin. apply In_put in Hin. destruct Hin as [E|Hin]; [injection E as -> ->; reflexivity|now apply (H1 w' v')]. }
        destruct (IH (tl sevs) _ H2) as (sm' & hits & E & H').
        rewrite E. exists sm', (false :: hits). split; [reflexivity|assumption].
  Qed.

  Lemma doc_triples_In c d ch : In (Some ch) (d_chunks d) -> In (c_chars ch, spec_rel ch, c) (doc_triples c d).
  Proof.
    unfold Cache.doc_triples. intros H. apply in_flat_map. exists (Some ch). split; [assumption|now left].
  Qed.

  Definition state_ok (U : list triple) (st : state cfg K) : Prop :=
    entries_ok U (st_cache st) /\ spell_ok (st_spell st).

  Lemma lint_doc_ok U st d evs sevs :
    state_ok U st -> doc_wf d -> incl (doc_triples (st_cfg st) d) U ->
    exists st' out hits,
      lint_doc st d evs sevs = Ok (st', out, hits) /\ state_ok U st' /\ st_cfg st' = st_cfg st /\
      (key_det U -> out = spec_lint (st_cfg st) d).
  Proof.
    intros [Hc Hs] Hwf HU. unfold Cache.lint_doc, Cache.spec_lint.
    destruct (lint_chunks_ok U (st_cfg st) (d_chunks d) evs (st_cache st) Hc Hwf) as (m' & out & hits & E & Hm' & Hspec).
    { intros ch Hin. apply HU. now apply doc_triples_In. }
    destruct (spell_on (st_cfg st)).
    - destruct (lint_words_ok (d_miss d) sevs (st_spell st) Hs) as (sm' & whits & Ew & Hsm').
      rewrite Ew. rewrite E. cbn [bind]. eexists _, _, _. split; [reflexivity|]. split; [split; assumption|]. split; [reflexivity|].
      intros Hdet. now rewrite (Hspec Hdet).
    - rewrite E. cbn [bind]. eexists _, _, _. split; [reflexivity|]. split; [split; assumption|]. split; [reflexivity|].
      intros Hdet. now rewrite (Hspec Hdet).
  Qed.

  (* every history, every eviction: total, the invariant holds afterwards, and under key_det the outputs
     are those of the cache-free specification *)
  Lemma run_hist_ok U : forall h st,
    state_ok U st -> hist_wf h -> incl (hist_triples h (st_cfg st)) U ->
    exists st' outs,
      run_hist h st = Ok (st', outs) /\ state_ok U st' /\
      (key_det U -> outs = spec_hist h (st_cfg st)).
  Proof.
    induction h as [|o h IH]; intros st Hst Hwf HU.
    - exists st, []. cbn. auto.
    - cbn [Cache.run_hist]. destruct o as [c|d evs sevs|keep skeep].
      + cbn [Cache.step bind].
        destruct (IH (mkstate c (st_cache st) (st_spell st))) as (st' & outs & E & Hst' & Hs).
        { exact Hst. } { exact Hwf. } { exact HU. }
        rewrite E. cbn [bind]. exists st', outs. split; [reflexivity|]. split; [assumption|]. exact Hs.
      + cbn [Cache.hist_triples] in HU. destruct Hwf as [Hwfd Hwf].
        destruct (lint_doc_ok U st d evs sevs Hst Hwfd) as (st1 & out & hits & E1 & Hst1 & Hc & Hs1).
        { intros x Hx. apply HU. apply in_or_app. now left. }
        cbn [Cache.step]. rewrite E1. cbn [bind].
        destruct (IH st1 Hst1 Hwf) as (st' & outs & E & Hst' & Hs).
        { rewrite Hc. intros x Hx. apply HU. apply in_or_app. now right. }
        rewrite E. cbn [bind]. exists st', (out :: outs). split; [reflexivity|]. split; [assumption|].
        intros Hdet. cbn [Cache.spec_hist]. rewrite (Hs1 Hdet), (Hs Hdet), Hc. reflexivity.
      + cbn [Cache.step bind].
        destruct (IH (mkstate (st_cfg st) (evict keep (st_cache st)) (evict skeep (st_spell st)))) as (st' & outs & E & Hst' & Hs).
        { destruct Hst as [H1 H2]. split; [now apply entries_ok_evict|now apply spell_ok_evict]. } { exact Hwf. } { exact HU. }
        rewrite E. cbn [bind]. exists st', outs. split; [reflexivity|]. split; [assumption|]. exact Hs.
  Qed.

  Lemma fresh_ok U c : state_ok U (fresh c).
  Proof. split; intros ? ? []. Qed.

  (* what a fresh linter answers at each step is the specification, whenever the key determines the value
     on the chunks of that one document *)
  Lemma fresh_hist_spec : forall h c,
    hist_wf h -> key_det (hist_triples h c) -> fresh_hist h c = map Ok (spec_hist h c).
  Proof.
    induction h as [|o h IH]; intros c Hwf Hdet; [reflexivity|].
    destruct o as [c'|d evs sevs|keep skeep]; cbn [Cache.fresh_hist Cache.spec_hist Cache.hist_triples Cache.hist_wf] in *.
    - now apply IH.
    - destruct Hwf as [Hwfd Hwf]. cbn [map]. f_equal.
      + destruct (lint_doc_ok (doc_triples c d) (fresh c) d [] [] (fresh_ok _ c) Hwfd) as (st1 & out & hits & E1 & _ & _ & Hs1).
        { apply incl_refl. }
        rewrite E1. cbn [bind]. f_equal. apply Hs1.
        intros ch1 t1 c1 ch2 t2 c2 H1 H2. apply Hdet; apply in_or_app; now left.
      + apply IH; [assumption|]. intros ch1 t1 c1 ch2 t2 c2 H1 H2. apply Hdet; apply in_or_app; now right.
    - now apply IH.
  Qed.

  (* ---------- the theorems ---------- *)

  (* C05_cache_inv: after any history, with any evictions, every entry of the chunk cache is the uncached
     result of the pattern rules on a chunk (of that history) with this key, and every entry of the
     spelling cache is the uncached suggestion list of its word; and no step panics. *)
  Theorem cache_inv h c0 :
    hist_wf h ->
    exists st outs,
      run_hist h (fresh c0) = Ok (st, outs) /\
      (forall k v, lookup k_eqb k (st_cache st) = Some v ->
         exists ch t c, In (ch, t, c) (hist_triples h c0) /\ k = mkkey ch t c /\ v = pattern_rel ch t c) /\
      (forall w v, lookup text_eqb w (st_spell st) = Some v -> v = suggest w).
  Proof.
    intros Hwf.
    destruct (run_hist_ok (hist_triples h c0) h (fresh c0) (fresh_ok _ c0) Hwf) as (st & outs & E & [Hc Hs] & _).
    { apply incl_refl. }
    exists st, outs. split; [assumption|]. split.
    - intros k v L. apply Hc. now apply (lookup_In k_eqb k_eqb_spec).
    - intros w v L. apply (Hs w v). now apply (lookup_In text_eqb text_eqb_spec).
  Qed.

  (* C05_refinement: if the cache key determines the pattern lints on the chunks the history touches, then
     for every history and every eviction schedule the linter never panics and every Lint step answers what
     the cache-free specification answers, which is also what a freshly built linter answers at that step. *)
  Theorem refinement h c0 :
    hist_wf h -> key_det (hist_triples h c0) ->
    exists st,
      run_hist h (fresh c0) = Ok (st, spec_hist h c0) /\
      fresh_hist h c0 = map Ok (spec_hist h c0).
  Proof.
    intros Hwf Hdet.
    destruct (run_hist_ok (hist_triples h c0) h (fresh c0) (fresh_ok _ c0) Hwf) as (st & outs & E & _ & Hs).
    { apply incl_refl. }
    exists st. rewrite (Hs Hdet) in E. split; [assumption|]. now apply fresh_hist_spec.
  Qed.

  (* the converse: two (chunk, configuration) pairs with the same key and different pattern lints make the
     cache observable — lint the first, then the second: the reused linter serves the first one's lints,
     a fresh linter does not.  The chunk sits at offset 0, where relative and absolute token spans coincide. *)
  Definition one_chunk (ch : text) (t : toks) : doc kind := mkdoc [Some (mkchunk 0 ch t)] [] 0%N.

  Lemma lint_one_miss st ch t :
    lookup k_eqb (mkkey ch t (st_cfg st)) (evict keep_all (st_cache st)) = None ->
    lint_doc st (one_chunk ch t) [] [] =
      Ok (mkstate (st_cfg st)
                  (put k_eqb (mkkey ch t (st_cfg st)) (pattern_rel ch t (st_cfg st)) (evict keep_all (st_cache st)))
                  (st_spell st),
          struct_pre (st_cfg st) (one_chunk ch t) ++ [] ++ struct_post (st_cfg st) (one_chunk ch t)
            ++ map (lpush 0) (pattern_rel ch t (st_cfg st)) ++ [],
          ([false], [])).
  Proof.
    intros L. unfold Cache.lint_doc, one_chunk. cbn [d_chunks d_miss Cache.lint_words].
    replace (if spell_on (st_cfg st) then (st_spell st, @nil clint, @nil bool) else (st_spell st, [], [])) with (st_spell st, @nil clint, @nil bool)
      by (destruct (spell_on (st_cfg st)); reflexivity).
    cbn [Cache.lint_chunks hd tl c_start c_chars c_toks]. rewrite rel_toks_0. cbn [bind].
    rewrite L. rewrite mapM_pull_push. reflexivity.
  Qed.

  Lemma lint_one_hit st ch t v :
    lookup k_eqb (mkkey ch t (st_cfg st)) (evict keep_all (st_cache st)) = Some v ->
    lint_doc st (one_chunk ch t) [] [] =
      Ok (mkstate (st_cfg st) (evict keep_all (st_cache st)) (st_spell st),
          struct_pre (st_cfg st) (one_chunk ch t) ++ [] ++ struct_post (st_cfg st) (one_chunk ch t)
            ++ map (lpush 0) v ++ [],
          ([true], [])).
  Proof.
    intros L. unfold Cache.lint_doc, one_chunk. cbn [d_chunks d_miss Cache.lint_words].
    replace (if spell_on (st_cfg st) then (st_spell st, @nil clint, @nil bool) else (st_spell st, [], [])) with (st_spell st, @nil clint, @nil bool)
      by (destruct (spell_on (st_cfg st)); reflexivity).
    cbn [Cache.lint_chunks hd tl c_start c_chars c_toks]. rewrite rel_toks_0. cbn [bind].
    rewrite L. reflexivity.
  Qed.

  Theorem cache_observable ch1 t1 c1 ch2 t2 c2 c0 :
    mkkey ch1 t1 c1 = mkkey ch2 t2 c2 ->
    pattern_rel ch1 t1 c1 <> pattern_rel ch2 t2 c2 ->
    let h := [SetCfg c1; Lint (one_chunk ch1 t1) [] []; SetCfg c2; Lint (one_chunk ch2 t2) [] []] in
    exists st o1 reused fresh_out,
      run_hist h (fresh c0) = Ok (st, [o1; reused]) /\
      fresh_hist h c0 = [Ok o1; Ok fresh_out] /\
      reused <> fresh_out.
  Proof.
    intros Hk Hne h. subst h.
    cbn [Cache.run_hist Cache.step bind Cache.fresh_hist fresh st_cache st_spell]. unfold fresh.
    rewrite !(lint_one_miss (mkstate c1 [] []) ch1 t1) by reflexivity.
    cbn [bind st_cfg st_cache st_spell evict filter].
    rewrite (lint_one_hit (mkstate c2 _ []) ch2 t2 (pattern_rel ch1 t1 c1)).
    2:{ cbn [st_cfg st_cache put remove_key evict filter keep_all fst lookup]. rewrite Hk.
        replace (k_eqb (mkkey ch2 t2 c2) (mkkey ch2 t2 c2)) with true by (symmetry; now apply k_eqb_spec). reflexivity. }
    rewrite (lint_one_miss (mkstate c2 [] []) ch2 t2) by reflexivity.
    cbn [bind st_cfg st_cache st_spell].
    eexists _, _, _, _. split; [reflexivity|]. split; [reflexivity|].
    intros H. repeat (apply app_inv_head in H). rewrite !app_nil_r in H. apply map_lpush_inj in H. congruence.
  Qed.
End CacheFacts.

(* ---------- the code's key: (chunk characters, hash of the configuration, hash of the tokens) ---------- *)
Section CodeKey.
  Variables cfg kind : Type.
  Variable cfg_hash : cfg -> N.
  Notation toks := (list (tok kind)).
  Variable tok_hash : toks -> N.
  Variable pattern_rel : text -> toks -> cfg -> list clint.
  Notation triple := (text * toks * cfg)%type.

  (* the two hypotheses of C05_refinement: the configuration hash is injective on the configurations in
     use, the token hash is injective on the (relative) token sequences in use *)
  Definition hash_inj_on (U : list triple) : Prop :=
    forall x y, In x U -> In y U -> cfg_hash (snd x) = cfg_hash (snd y) -> snd x = snd y.
  Definition tok_hash_inj_on (U : list triple) : Prop :=
    forall x y, In x U -> In y U -> tok_hash (snd (fst x)) = tok_hash (snd (fst y)) -> snd (fst x) = snd (fst y).

  Lemma code_key_det U :
    hash_inj_on U -> tok_hash_inj_on U ->
    key_det cfg kind (text * N * N) (code_key cfg_hash tok_hash) pattern_rel U.
  Proof.
    intros Hh Ht ch1 t1 c1 ch2 t2 c2 H1 H2 Hk. unfold code_key in Hk. injection Hk as -> Hc Htk.
    assert (c1 = c2) by (apply (Hh _ _ H1 H2); exact Hc).
    assert (t1 = t2) by (apply (Ht _ _ H1 H2); exact Htk).
    now subst.
  Qed.
End CodeKey.

(* ---------- the statements pinned in Properties/C05.v, for the key the code builds ---------- *)
Section Pinned.
  Variables cfg kind : Type.
  Variable cfg_hash : cfg -> N.
  Notation toks := (list (tok kind)).
  Variable tok_hash : toks -> N.
  Variable pattern_rel : text -> toks -> cfg -> list clint.
  Variables struct_pre struct_post : cfg -> doc kind -> list clint.
  Variable spell_on : cfg -> bool.
  Variable suggest : text -> list text.
  Variable spell_mk : text -> span -> list text -> clint.

  Notation run_code := (run_hist cfg kind (text * N * N) code_key_eqb (code_key cfg_hash tok_hash) pattern_rel struct_pre struct_post spell_on suggest spell_mk).
  Notation fresh_code := (fresh_hist cfg kind (text * N * N) code_key_eqb (code_key cfg_hash tok_hash) pattern_rel struct_pre struct_post spell_on suggest spell_mk).
  Notation spec := (spec_hist cfg kind (text * N * N) pattern_rel struct_pre struct_post spell_on suggest spell_mk).
  Notation U := (hist_triples cfg kind (text * N * N)).
  Notation wf := (hist_wf cfg kind (text * N * N)).

  Lemma code_cache_inv (h : list (op cfg kind (text * N * N))) c0 :
    wf h ->
    exists st outs,
      run_code h (fresh c0) = Ok (st, outs) /\
      (forall chars hc ht v, lookup code_key_eqb (chars, hc, ht) (st_cache st) = Some v ->
         exists t c, In (chars, t, c) (U h c0) /\ cfg_hash c = hc /\ tok_hash t = ht /\ v = pattern_rel chars t c) /\
      (forall w v, lookup text_eqb w (st_spell st) = Some v -> v = suggest w).
  Proof.
    intros Hwf.
    destruct (cache_inv cfg kind (text * N * N) code_key_eqb code_key_eqb_spec (code_key cfg_hash tok_hash) pattern_rel
                struct_pre struct_post spell_on suggest spell_mk h c0 Hwf) as (st & outs & E & Hc & Hs).
    exists st, outs. split; [assumption|]. split; [|assumption].
    intros chars hc ht v L. destruct (Hc _ _ L) as (ch & t & c & HU & Hk & Hv).
    unfold code_key in Hk. injection Hk as -> -> ->. now exists t, c.
  Qed.

  Lemma code_refinement (h : list (op cfg kind (text * N * N))) c0 :
    wf h ->
    hash_inj_on cfg kind cfg_hash (U h c0) -> tok_hash_inj_on cfg kind tok_hash (U h c0) ->
    exists st, run_code h (fresh c0) = Ok (st, spec h c0) /\ fresh_code h c0 = map Ok (spec h c0).
  Proof.
    intros Hwf Hh Ht. apply refinement; [exact code_key_eqb_spec|assumption|]. now apply code_key_det.
  Qed.

  Lemma code_needs_tok_hash ch t1 t2 c c0 :
    tok_hash t1 = tok_hash t2 -> pattern_rel ch t1 c <> pattern_rel ch t2 c ->
    let h := [SetCfg c; Lint (one_chunk kind ch t1) [] []; SetCfg c; Lint (one_chunk kind ch t2) [] []] in
    exists st o1 reused fresh_out,
      run_code h (fresh c0) = Ok (st, [o1; reused]) /\ fresh_code h c0 = [Ok o1; Ok fresh_out] /\ reused <> fresh_out.
  Proof.
    intros Ht Hne. apply cache_observable; [exact code_key_eqb_spec| |assumption].
    unfold code_key. now rewrite Ht.
  Qed.

  Lemma code_needs_cfg_hash ch t c1 c2 c0 :
    cfg_hash c1 = cfg_hash c2 -> pattern_rel ch t c1 <> pattern_rel ch t c2 ->
    let h := [SetCfg c1; Lint (one_chunk kind ch t) [] []; SetCfg c2; Lint (one_chunk kind ch t) [] []] in
    exists st o1 reused fresh_out,
      run_code h (fresh c0) = Ok (st, [o1; reused]) /\ fresh_code h c0 = [Ok o1; Ok fresh_out] /\ reused <> fresh_out.
  Proof.
    intros Hh Hne. apply cache_observable; [exact code_key_eqb_spec| |assumption].
    unfold code_key. now rewrite Hh.
  Qed.

  (* the construction LintGroup::lint uses establishes the well-formedness the theorems ask for *)
  Lemma code_doc_of_wf src (chunks : list toks) miss rest d :
    doc_of src chunks miss rest = Ok d -> doc_wf d.
  Proof. apply doc_of_wf. Qed.

  Lemma code_hull_total (ts : toks) : exists o, hull_of ts = Ok o.
  Proof. apply hull_of_total. Qed.
End Pinned.

(* ---------- a concrete instance for the non-vacuity examples ----------
   configurations 0 (rule off) / 1 (rule on), hashed by the identity; token kinds 1 (punctuation), 2 (word),
   3 (space), 9 (unlintable); the clause "`b`" tokenised as plain text (punctuation, word, punctuation) or as
   Markdown (one unlintable token: inline code); the one pattern rule flags characters 1..2 of the chunk
   [96;98;96] ("`b`") when it sees a word token there. *)
Definition ex_src : text := [96; 98; 96; 32; 120; 120; 44; 32; 32; 32; 96; 98; 96; 32; 120; 120]%N.
Definition ex_has_word (t : list (tok N)) : bool := existsb (fun k => N.eqb (fst k) 2) t.
Definition ex_rel (ch : text) (t : list (tok N)) (c : N) : list clint :=
  if (text_eqb ch [96; 98; 96]%N && ex_has_word t && N.eqb c 1)%bool then [mkclint (mkspan 1 2) 7] else [].
Definition ex_pre (c : N) (d : doc N) : list clint := [mkclint (mkspan 0 0) (d_rest d)].
Definition ex_post (c : N) (d : doc N) : list clint := [].
Definition ex_suggest (w : text) : list text := [w ++ [33]%N].
Definition ex_mk (w : text) (sp : span) (sug : list text) : clint := mkclint sp (N.of_nat (length (hd [] sug))).
(* an injective token hash on what occurs: the number of tokens *)
Definition ex_tok_hash (t : list (tok N)) : N := N.of_nat (length t).
Definition ex_run := run_hist N N (text * N * N) code_key_eqb (code_key (fun c => c) ex_tok_hash) ex_rel ex_pre ex_post (fun _ => true) ex_suggest ex_mk.
Definition ex_fresh := fresh_hist N N (text * N * N) code_key_eqb (code_key (fun c => c) ex_tok_hash) ex_rel ex_pre ex_post (fun _ => true) ex_suggest ex_mk.
Definition ex_spec := spec_hist N N (text * N * N) ex_rel ex_pre ex_post (fun _ => true) ex_suggest ex_mk.
(* HISTORY: the same linter with the key before commit a050122 *)
Definition ex_run_old := run_hist N N (text * N) code_key_old_eqb (code_key_old (fun c => c)) ex_rel ex_pre ex_post (fun _ => true) ex_suggest ex_mk.
(* the tokens of the clause "`b`" starting at `at_`, tokenisation 0 = plain text, else Markdown *)
Definition ex_toks (at_ : nat) (t : N) : list (tok N) :=
  if N.eqb t 0 then [(1%N, mkspan at_ (at_ + 1)); (2%N, mkspan (at_ + 1) (at_ + 2)); (1%N, mkspan (at_ + 2) (at_ + 3))]
  else [(9%N, mkspan at_ (at_ + 3))].
(* the same clause twice in one document at two offsets (built as LintGroup::lint builds chunks: hull and
   characters from the source), a token-less slice in between, a misspelt word twice *)
Definition ex_doc (t : N) : doc N :=
  match doc_of ex_src [ex_toks 0 t; []; ex_toks 10 t] [(mkspan 4 6, [120; 120]%N); (mkspan 14 16, [120; 120]%N)] 5 with
  | Ok d => d
  | Panic _ => mkdoc [] [] 0
  end.
Definition ex_outs {K} (r : res (state N K * list (list clint))) : list (list (nat * nat * N)) :=
  match r with
  | Ok (_, outs) => map (map (fun l => (sstart (cl_span l), send (cl_span l), cl_body l))) outs
  | Panic _ => []
  end.
Lemma ex_doc_wf t : doc_wf (ex_doc t).
Proof.
  unfold ex_doc.
  destruct (doc_of ex_src [ex_toks 0 t; []; ex_toks 10 t] [(mkspan 4 6, [120; 120]%N); (mkspan 14 16, [120; 120]%N)] 5) as [d|] eqn:E.
  - eapply doc_of_wf. exact E.
  - intros ch [].
Qed.

(* the history of the non-vacuity example C05_refinement_nonvacuous *)
Definition ex_hist : list (op N N (text * N * N)) :=
  [SetCfg 1%N; Lint (ex_doc 0) [] []; Lint (ex_doc 1) [] []; SetCfg 0%N; Lint (ex_doc 0) [] [];
   Evict (fun k => negb (N.eqb (snd (fst k)) 0)) (fun _ => false); SetCfg 1%N;
   Lint (ex_doc 0) [fun _ => true; fun _ => true; fun _ => false] []].
