(* IgnoreJson.v — export/import of the ignore list: serde_json text of {"context_hashes":[..]} (C14_roundtrip) *)
Require Import Base Suggestion Ignore ListLemmas IgnoreProofs.
From Coq Require Import Permutation.
Local Open Scope N_scope.

Definition digitp (c : N) : Prop := is_digit c = true.
Definition step (a c : N) : N := a * 10 + (c - 48).

Lemma digit_of n : n < 10 -> digitp (48 + n).
Proof. intros H. unfold digitp, is_digit. apply Bool.andb_true_iff. split; apply N.leb_le; lia. Qed.

Lemma digit_not_ws c : digitp c -> is_ws c = false.
Proof.
  unfold digitp, is_digit, is_ws. intros H. apply Bool.andb_true_iff in H. destruct H as [H1 H2].
  apply N.leb_le in H1. apply N.leb_le in H2.
  repeat (apply Bool.orb_false_iff; split); apply N.eqb_neq; lia.
Qed.

Lemma digits_fuel_digits f : forall n acc, Forall digitp acc -> Forall digitp (digits_fuel f n acc).
Proof.
  induction f as [|f IH]; intros n acc H; cbn [digits_fuel]; [exact H|].
  destruct (N.ltb_spec n 10) as [L|L].
  - constructor; [apply digit_of, L | exact H].
  - apply IH. constructor; [apply digit_of, N.mod_lt; lia | exact H].
Qed.

Lemma digits_fuel_value f : forall n acc,
  n < 10 ^ N.of_nat f -> fold_left step (digits_fuel f n acc) 0 = fold_left step acc n.
Proof.
  induction f as [|f IH]; intros n acc H; cbn [digits_fuel].
  - cbn in H. assert (n = 0) as -> by lia. reflexivity.
  - destruct (N.ltb_spec n 10) as [L|L].
    + cbn [fold_left]. replace (step 0 (48 + n)) with n by (unfold step; lia). reflexivity.
    + rewrite IH.
      * cbn [fold_left]. replace (step (n / 10) (48 + n mod 10)) with n; [reflexivity|].
        unfold step. pose proof (N.div_mod n 10 ltac:(lia)) as DM.
        set (m := n mod 10) in *. set (q := n / 10) in *. lia.
      * rewrite Nat2N.inj_succ, N.pow_succ_r' in H. apply N.div_lt_upper_bound; lia.
Qed.

(* a number >= 1 is printed with a non-zero leading digit *)
Lemma digits_fuel_head f : forall n acc,
  1 <= n -> n < 10 ^ N.of_nat f -> exists d r, digits_fuel f n acc = d :: r ++ acc /\ d <> 48.
Proof.
  induction f as [|f IH]; intros n acc H1 H; cbn [digits_fuel].
  - cbn in H. lia.
  - destruct (N.ltb_spec n 10) as [L|L].
    + exists (48 + n), []. split; [reflexivity | lia].
    + destruct (IH (n / 10) ((48 + n mod 10) :: acc)) as [d [r [E Hd]]].
      * apply N.div_le_lower_bound; lia.
      * rewrite Nat2N.inj_succ, N.pow_succ_r' in H. apply N.div_lt_upper_bound; lia.
      * exists d, (r ++ [48 + n mod 10]). split; [|exact Hd]. rewrite E, <- app_assoc. reflexivity.
Qed.

Lemma u64_lt_pow20 n : n <= u64_max -> n < 10 ^ N.of_nat 20.
Proof. intros H. unfold u64_max in H. change (10 ^ N.of_nat 20) with 100000000000000000000. lia. Qed.

Lemma render_num_digits n : Forall digitp (render_num n).
Proof. apply digits_fuel_digits. constructor. Qed.

Lemma render_num_unfold n :
  render_num n = if n <? 10 then [48 + n] else digits_fuel 19 (n / 10) [48 + n mod 10].
Proof. reflexivity. Qed.

Lemma digits_fuel_nonempty f : forall n acc, acc <> [] -> digits_fuel f n acc <> [].
Proof.
  induction f as [|f IH]; intros n acc H; cbn [digits_fuel]; [exact H|].
  destruct (n <? 10); [discriminate | apply IH; discriminate].
Qed.

Lemma render_num_nonempty n : render_num n <> [].
Proof.
  rewrite render_num_unfold. destruct (n <? 10); [discriminate|]. apply digits_fuel_nonempty. discriminate.
Qed.

Lemma num_value_render n : n <= u64_max -> num_value (render_num n) = Some n.
Proof.
  intros Hb. rewrite render_num_unfold.
  destruct (N.ltb_spec n 10) as [L|L].
  - cbn [num_value]. f_equal. lia.
  - pose proof (u64_lt_pow20 n Hb) as Hp.
    assert (n / 10 < 10 ^ N.of_nat 19) as Hq.
    { change (N.of_nat 20) with (N.succ (N.of_nat 19)) in Hp. rewrite N.pow_succ_r' in Hp.
      apply N.div_lt_upper_bound; lia. }
    assert (1 <= n / 10) as H1 by (apply N.div_le_lower_bound; lia).
    destruct (digits_fuel_head 19 (n / 10) [48 + n mod 10] H1 Hq) as [d [r [E Hd]]].
    pose proof (digits_fuel_value 19 (n / 10) [48 + n mod 10] Hq) as V.
    rewrite E in *. unfold num_value.
    destruct (r ++ [48 + n mod 10]) as [|x y] eqn:Er; [destruct r; discriminate|].
    destruct (N.eqb_spec d 48) as [->|_]; [congruence|].
    assert (digits_value (d :: x :: y) = n) as ->.
    { unfold digits_value. fold step. change (fun a c : N => a * 10 + (c - 48)) with step. rewrite V.
      cbn [fold_left]. unfold step. pose proof (N.div_mod n 10 ltac:(lia)) as DM.
      set (m := n mod 10) in *. set (q := n / 10) in *. f_equal. lia. }
    destruct (N.leb_spec n u64_max); [reflexivity | lia].
Qed.

(* ---------- lexing ---------- *)
Definition after (c : N) (r : list jtok) (k : lexst -> list jtok) : list jtok :=
  let '(o, st') := step_none c in emit o (k st').

Lemma lex_num ds : forall acc c rest,
  Forall digitp ds -> is_digit c = false ->
  lex (LNum acc) (ds ++ c :: rest) = JNum (rev acc ++ ds) :: (let '(o, st') := step_none c in emit o (lex st' rest)).
Proof.
  induction ds as [|d ds IH]; intros acc c rest Hd Hc; cbn [app lex].
  - rewrite Hc, app_nil_r. reflexivity.
  - inversion Hd as [|x y Hx Hy]. subst. unfold digitp in Hx. rewrite Hx. rewrite (IH _ _ _ Hy Hc).
    cbn [rev]. rewrite <- app_assoc. reflexivity.
Qed.

Lemma lex_render_num n c rest tok :
  is_digit c = false -> step_none c = (Some tok, LNone) ->
  lex LNone (render_num n ++ c :: rest) = JNum (render_num n) :: tok :: lex LNone rest.
Proof.
  intros Hc Hs. pose proof (render_num_digits n) as Hd. pose proof (render_num_nonempty n) as Hne.
  destruct (render_num n) as [|d ds]; [congruence|]. inversion Hd as [|x y Hx Hy]. subst.
  cbn [app lex]. unfold step_none at 1. rewrite (digit_not_ws d Hx). unfold digitp in Hx. rewrite Hx.
  pose proof (lex_num ds [d] c rest Hy Hc) as L. rewrite Hs in L. cbn [rev app emit] in L. exact L.
Qed.

Fixpoint toks_tail (l : list N) : list jtok :=
  match l with [] => [] | x :: r => JComma :: JNum (render_num x) :: toks_tail r end.

Lemma lex_items r : forall x rest,
  lex LNone (render_items (x :: r) ++ 93 :: rest)
  = JNum (render_num x) :: toks_tail r ++ JRBrack :: lex LNone rest.
Proof.
  induction r as [|y r IH]; intros x rest.
  - cbn [render_items toks_tail app]. apply lex_render_num; reflexivity.
  - change (render_items (x :: y :: r)) with (render_num x ++ 44 :: render_items (y :: r)).
    rewrite <- app_assoc. cbn [app]. rewrite (lex_render_num x 44 _ JComma) by reflexivity.
    rewrite IH. reflexivity.
Qed.

Definition plainp (c : N) : Prop := (c =? 34) = false /\ ((c =? 92) || (c <? 32)) = false.
Lemma lex_str cs : forall acc rest,
  Forall plainp cs -> lex (LStr acc) (cs ++ 34 :: rest) = JStr (rev acc ++ cs) :: lex LNone rest.
Proof.
  induction cs as [|c cs IH]; intros acc rest H; cbn [app lex].
  - rewrite app_nil_r. reflexivity.
  - inversion H as [|x y [H1 H2] Hy]. subst. rewrite H1, H2, (IH _ _ Hy). cbn [rev]. rewrite <- app_assoc. reflexivity.
Qed.

Lemma key_plain : Forall plainp key_text.
Proof. unfold key_text. repeat constructor. Qed.

Lemma lex_render_set p :
  lex LNone (render_set p) =
  JLBrace :: JStr key_text :: JColon :: JLBrack ::
    match p with [] => [JRBrack; JRBrace] | x :: r => JNum (render_num x) :: toks_tail r ++ [JRBrack; JRBrace] end.
Proof.
  unfold render_set.
  change (lex LNone (123 :: 34 :: key_text ++ 34 :: 58 :: 91 :: render_items p ++ [93; 125]))
    with (JLBrace :: lex (LStr []) (key_text ++ 34 :: 58 :: 91 :: render_items p ++ [93; 125])).
  rewrite (lex_str key_text [] _ key_plain). cbn [rev app].
  change (lex LNone (58 :: 91 :: render_items p ++ [93; 125]))
    with (JColon :: JLBrack :: lex LNone (render_items p ++ [93; 125])).
  destruct p as [|x r].
  - reflexivity.
  - change [93; 125] with (93 :: [125]). rewrite lex_items. reflexivity.
Qed.

(* ---------- parsing ---------- *)
Lemma parse_items_tail r : forall acc rest,
  Forall (fun h => h <= u64_max) r ->
  parse_items (toks_tail r ++ JRBrack :: rest) acc = Some (ig_append acc r, rest).
Proof.
  induction r as [|x r IH]; intros acc rest H; cbn [toks_tail app parse_items].
  - reflexivity.
  - inversion H as [|a b Ha Hb]. subst. rewrite (num_value_render x Ha). rewrite (IH _ _ Hb). reflexivity.
Qed.

Lemma import_export p :
  Forall (fun h => h <= u64_max) p ->
  run_import (run_export p) = Some (match p with [] => [] | x :: r => ig_append [x] r end).
Proof.
  intros H. unfold run_import, run_export. rewrite lex_render_set. unfold parse_set.
  assert (text_eqb key_text key_text = true) as -> by (apply text_eqb_spec; reflexivity).
  destruct p as [|x r]; [reflexivity|].
  inversion H as [|a b Ha Hb]. subst. rewrite (num_value_render x Ha).
  change (toks_tail r ++ [JRBrack; JRBrace]) with (toks_tail r ++ JRBrack :: [JRBrace]).
  rewrite (parse_items_tail r [x] [JRBrace] Hb). reflexivity.
Qed.

Local Close Scope N_scope.

(* C14_roundtrip.  Hashes are u64 values; `p` is the list in whatever order the HashSet iterates.
   (1) the exported text imports, into an empty list, to a duplicate-free list with exactly the same members;
   (2) importing it into the list it came from (Linter::import_ignored_lints appends) leaves that
       list literally unchanged;  (3) a text that does not parse leaves the list alone (by definition). *)
Theorem roundtrip : forall s p,
  Permutation p s -> Forall (fun h => (h <= u64_max)%N) s ->
  (exists s', import_into [] (run_export p) = Some s' /\ NoDup s' /\ forall h, In h s' <-> In h s) /\
  import_into s (run_export p) = Some s.
Proof.
  intros s p Hperm Hb.
  assert (Forall (fun h => (h <= u64_max)%N) p) as Hbp.
  { rewrite Forall_forall in *. intros h Hh. apply Hb. eapply Permutation_in; eauto. }
  unfold import_into. rewrite (import_export p Hbp). split.
  - eexists. split; [reflexivity|]. split.
    + apply ig_append_NoDup. constructor.
    + intros h. rewrite ig_append_In. cbn [In].
      destruct p as [|x r].
      * apply Permutation_nil in Hperm. subst. cbn [In]. tauto.
      * rewrite ig_append_In. cbn [In]. split.
        -- intros [[]|[[->|[]]|H]]; eapply Permutation_in; try exact Hperm; cbn [In]; auto.
        -- intros H. apply Permutation_sym in Hperm. pose proof (Permutation_in _ Hperm H) as [<-|H']; auto.
  - f_equal.
    assert (forall o, (forall h, In h o -> In h s) -> ig_append s o = s) as Key.
    { intros o. revert s Hperm Hb. induction o as [|h o IH]; intros s Hperm Hb Hsub; [reflexivity|].
      unfold ig_append. cbn [fold_left]. unfold ig_insert.
      assert (ig_mem h s = true) as -> by (apply ig_mem_In, Hsub; left; reflexivity).
      apply (IH s Hperm Hb). intros h' Hh'. apply Hsub. right. exact Hh'. }
    apply Key. intros h Hh. destruct p as [|x r]; [destruct Hh|].
    apply ig_append_In in Hh. eapply Permutation_in; [exact Hperm|]. cbn [In] in *. destruct Hh as [[->|[]]|Hh]; auto.
Qed.

(* import = union, for ANY pair of lists: the text exported from a list `o` (in any iteration order p),
   imported into any duplicate-free list `s` — empty or not, overlapping or not — gives a duplicate-free
   list whose members are exactly those of s and those of o; nothing is lost, nothing invented *)
Theorem import_is_union : forall s o p,
  Permutation p o -> Forall (fun h => (h <= u64_max)%N) o -> NoDup s ->
  exists s', import_into s (run_export p) = Some s' /\ NoDup s' /\ forall h, In h s' <-> In h s \/ In h o.
Proof.
  intros s o p Hperm Hb Hnd.
  assert (Forall (fun h => (h <= u64_max)%N) p) as Hbp.
  { rewrite Forall_forall in *. intros h Hh. apply Hb. eapply Permutation_in; eauto. }
  unfold import_into. rewrite (import_export p Hbp). eexists. split; [reflexivity|]. split.
  - apply ig_append_NoDup, Hnd.
  - intros h. rewrite ig_append_In.
    assert (In h (match p with [] => [] | x :: r => ig_append [x] r end) <-> In h o) as ->; [|tauto].
    destruct p as [|x r].
    + apply Permutation_nil in Hperm. subst. tauto.
    + rewrite ig_append_In. cbn [In]. split.
      * intros [[->|[]]|H]; eapply Permutation_in; try exact Hperm; cbn [In]; auto.
      * intros H. apply Permutation_sym in Hperm. pose proof (Permutation_in _ Hperm H) as [<-|H']; auto.
Qed.

(* IgnoredLints::append itself (harper-ls / harper-wasm merge lists with it): set union *)
Theorem append_is_union : forall s o,
  NoDup s -> NoDup (ig_append s o) /\ forall h, In h (ig_append s o) <-> In h s \/ In h o.
Proof. intros s o H. split; [apply ig_append_NoDup, H | intros h; apply ig_append_In]. Qed.
