(* GENERATED ONCE by tools/c14_bytes_witness.py from a run of the C14 harness: the byte streams and the hashes below were
   RECORDED FROM THE IMPLEMENTATION (a recording Hasher fed by the derived Hash; the hash IgnoredLints exported). *)
Require Import Base Suggestion Ignore C14Bytes.
Local Open Scope N_scope.

Definition bw_doc : doc :=
  mkdoc [49; 115; 116; 32; 50; 50; 110; 100; 32; 51; 114; 100; 32; 52; 116; 104; 32; 48; 46; 50; 53; 48; 32; 49; 101; 51; 32; 165; 55; 32; 8361; 56; 32; 8364; 57; 32; 162; 49; 32; 3647; 50; 32; 8365; 51; 32; 8381; 52; 32; 8378; 53]
  [mktok (mkspan 0 3) (KNumber 4607182418800017408 (Some 1) 10 0%nat);
   mktok (mkspan 3 4) (KSpace 1%nat);
   mktok (mkspan 4 8) (KNumber 4626885667169763328 (Some 2) 10 0%nat);
   mktok (mkspan 8 9) (KSpace 1%nat);
   mktok (mkspan 9 12) (KNumber 4613937818241073152 (Some 3) 10 0%nat);
   mktok (mkspan 12 13) (KSpace 1%nat);
   mktok (mkspan 13 16) (KNumber 4616189618054758400 (Some 0) 10 0%nat);
   mktok (mkspan 16 17) (KSpace 1%nat);
   mktok (mkspan 17 22) (KNumber 4598175219545276416 None 10 3%nat);
   mktok (mkspan 22 23) (KSpace 1%nat);
   mktok (mkspan 23 26) (KNumber 4652007308841189376 None 10 0%nat);
   mktok (mkspan 26 27) (KSpace 1%nat);
   mktok (mkspan 27 28) (KPunct 70);
   mktok (mkspan 28 29) (KNumber 4619567317775286272 None 10 0%nat);
   mktok (mkspan 29 30) (KSpace 1%nat);
   mktok (mkspan 30 31) (KPunct 72);
   mktok (mkspan 31 32) (KNumber 4620693217682128896 None 10 0%nat);
   mktok (mkspan 32 33) (KSpace 1%nat);
   mktok (mkspan 33 34) (KPunct 66);
   mktok (mkspan 34 35) (KNumber 4621256167635550208 None 10 0%nat);
   mktok (mkspan 35 36) (KSpace 1%nat);
   mktok (mkspan 36 37) (KPunct 65);
   mktok (mkspan 37 38) (KNumber 4607182418800017408 None 10 0%nat);
   mktok (mkspan 38 39) (KSpace 1%nat);
   mktok (mkspan 39 40) (KPunct 71);
   mktok (mkspan 40 41) (KNumber 4611686018427387904 None 10 0%nat);
   mktok (mkspan 41 42) (KSpace 1%nat);
   mktok (mkspan 42 43) (KPunct 73);
   mktok (mkspan 43 44) (KNumber 4613937818241073152 None 10 0%nat);
   mktok (mkspan 44 45) (KSpace 1%nat);
   mktok (mkspan 45 46) (KPunct 67);
   mktok (mkspan 46 47) (KNumber 4616189618054758400 None 10 0%nat);
   mktok (mkspan 47 48) (KSpace 1%nat);
   mktok (mkspan 48 49) (KPunct 68);
   mktok (mkspan 49 50) (KNumber 4617315517961601024 None 10 0%nat)].
Definition bw_lint1 : ilint := mkilint (mkspan 2 4) 9 [InsertAfter [1114111; 0]; InsertAfter [97; 98]] [233] 127.
Definition bw_stream1 : bytes :=
  [9; 0; 0; 0; 0; 0; 0; 0; 2; 0; 0; 0; 0; 0; 0; 0; 1; 0; 0; 0; 0; 0; 0; 0; 2; 0; 0; 0; 0; 0; 0; 0; 255; 255; 16; 0; 0; 0; 0; 0; 1; 0; 0; 0; 0; 0; 0; 0; 2; 0; 0; 0; 0; 0; 0; 0; 97; 0; 0; 0; 98; 0; 0; 0; 195; 169; 255; 127; 4; 0; 0; 0; 0; 0; 0; 0; 3; 0; 0; 0; 0; 0; 0; 0; 49; 0; 0; 0; 115; 0; 0; 0; 116; 0; 0; 0; 3; 0; 0; 0; 0; 0; 0; 0; 0; 0; 0; 0; 0; 0; 240; 63; 1; 0; 0; 0; 0; 0; 0; 0; 1; 0; 0; 0; 0; 0; 0; 0; 10; 0; 0; 0; 0; 0; 0; 0; 0; 0; 0; 0; 3; 0; 0; 0; 0; 0; 0; 0; 49; 0; 0; 0; 115; 0; 0; 0; 116; 0; 0; 0; 3; 0; 0; 0; 0; 0; 0; 0; 0; 0; 0; 0; 0; 0; 240; 63; 1; 0; 0; 0; 0; 0; 0; 0; 1; 0; 0; 0; 0; 0; 0; 0; 10; 0; 0; 0; 0; 0; 0; 0; 0; 0; 0; 0; 1; 0; 0; 0; 0; 0; 0; 0; 32; 0; 0; 0; 4; 0; 0; 0; 0; 0; 0; 0; 1; 0; 0; 0; 0; 0; 0; 0; 4; 0; 0; 0; 0; 0; 0; 0; 50; 0; 0; 0; 50; 0; 0; 0; 110; 0; 0; 0; 100; 0; 0; 0; 3; 0; 0; 0; 0; 0; 0; 0; 0; 0; 0; 0; 0; 0; 54; 64; 1; 0; 0; 0; 0; 0; 0; 0; 2; 0; 0; 0; 0; 0; 0; 0; 10; 0; 0; 0; 0; 0; 0; 0; 0; 0; 0; 0].
Definition bw_hash1 : N := 10313789354374305500.
Definition bw_lint2 : ilint := mkilint (mkspan 27 29) 4 [InsertAfter [1114111; 0]; InsertAfter [97; 98]] [] 0.
Definition bw_stream2 : bytes :=
  [4; 0; 0; 0; 0; 0; 0; 0; 2; 0; 0; 0; 0; 0; 0; 0; 1; 0; 0; 0; 0; 0; 0; 0; 2; 0; 0; 0; 0; 0; 0; 0; 255; 255; 16; 0; 0; 0; 0; 0; 1; 0; 0; 0; 0; 0; 0; 0; 2; 0; 0; 0; 0; 0; 0; 0; 97; 0; 0; 0; 98; 0; 0; 0; 255; 0; 6; 0; 0; 0; 0; 0; 0; 0; 3; 0; 0; 0; 0; 0; 0; 0; 49; 0; 0; 0; 101; 0; 0; 0; 51; 0; 0; 0; 3; 0; 0; 0; 0; 0; 0; 0; 0; 0; 0; 0; 0; 64; 143; 64; 0; 0; 0; 0; 0; 0; 0; 0; 10; 0; 0; 0; 0; 0; 0; 0; 0; 0; 0; 0; 1; 0; 0; 0; 0; 0; 0; 0; 32; 0; 0; 0; 4; 0; 0; 0; 0; 0; 0; 0; 1; 0; 0; 0; 0; 0; 0; 0; 1; 0; 0; 0; 0; 0; 0; 0; 165; 0; 0; 0; 1; 0; 0; 0; 0; 0; 0; 0; 31; 0; 0; 0; 0; 0; 0; 0; 6; 0; 0; 0; 0; 0; 0; 0; 1; 0; 0; 0; 0; 0; 0; 0; 55; 0; 0; 0; 3; 0; 0; 0; 0; 0; 0; 0; 0; 0; 0; 0; 0; 0; 28; 64; 0; 0; 0; 0; 0; 0; 0; 0; 10; 0; 0; 0; 0; 0; 0; 0; 0; 0; 0; 0; 1; 0; 0; 0; 0; 0; 0; 0; 32; 0; 0; 0; 4; 0; 0; 0; 0; 0; 0; 0; 1; 0; 0; 0; 0; 0; 0; 0; 1; 0; 0; 0; 0; 0; 0; 0; 169; 32; 0; 0; 1; 0; 0; 0; 0; 0; 0; 0; 31; 0; 0; 0; 0; 0; 0; 0; 8; 0; 0; 0; 0; 0; 0; 0].
Definition bw_hash2 : N := 13030030077436875952.
