(* CondSuffixQuotes.v — condense_number_suffixes (+ condense_indices), match_quotes and the final dictionary
   loop of Document::parse:
     condense_number_suffixes_grouped : on a tiling the pass does not panic and is a grouping by G_suffix
     match_quotes_spec                : no panic, only twin fields change, twins point at each other
     word_lookup_ok                   : the look-up loop never panics on a tiling of the source *)
Require Import Base Overlap OverlapProofs Tables_lexer Lexer Condense ListLemmas TokenInv CondenseInv LexerProofs.
From Coq Require Import List Arith ZArith Lia.

(* ================= list facts ================= *)
Lemma nth_error_mid {A} (pre : list A) x r n :
  n = length pre -> nth_error (pre ++ x :: r) n = Some x.
Proof. intros ->. rewrite nth_error_app2 by lia. rewrite Nat.sub_diag. reflexivity. Qed.

Lemma set_nth_mid {A} : forall (pre : list A) x y r n,
  n = length pre -> set_nth (pre ++ y :: r) n x = Ok (pre ++ x :: r).
Proof.
  induction pre as [|p pre IH]; intros x y r n ->; [reflexivity|].
  cbn [app length set_nth]. rewrite (IH x y r (length pre) eq_refl). reflexivity.
Qed.

Lemma nth_error_mid_other {A} (pre : list A) x y r k :
  k <> length pre -> nth_error (pre ++ x :: r) k = nth_error (pre ++ y :: r) k.
Proof.
  intros Hk. destruct (Nat.lt_ge_cases k (length pre)) as [Hlt|Hge].
  - rewrite !nth_error_app1 by assumption. reflexivity.
  - rewrite !nth_error_app2 by assumption.
    destruct (k - length pre) as [|m] eqn:E; [lia|]. reflexivity.
Qed.

Lemma skipn_app_len {A} (pre l : list A) n : n = length pre -> skipn n (pre ++ l) = l.
Proof.
  intros ->. rewrite skipn_app. rewrite Nat.sub_diag. rewrite skipn_all. reflexivity.
Qed.

Lemma cons_app_assoc {A} (pre : list A) x l : pre ++ x :: l = (pre ++ [x]) ++ l.
Proof. rewrite <- app_assoc. reflexivity. Qed.

Lemma rev_last_head : forall (l : list nat) a, exists r, rev (a :: l) = last (a :: l) 0 :: r.
Proof.
  induction l as [|b l IH]; intros a.
  - exists []. reflexivity.
  - destruct (IH b) as [r Hr]. exists (r ++ [a]).
    change (rev (a :: b :: l)) with (rev (b :: l) ++ [a]). rewrite Hr. reflexivity.
Qed.

Lemma last_in : forall (l : list nat) a, In (last (a :: l) 0) (a :: l).
Proof.
  induction l as [|b l IH]; intros a; [left; reflexivity|].
  right. change (last (a :: b :: l) 0) with (last (b :: l) 0). apply IH.
Qed.

(* ================= tokens inside the source ================= *)
Definition good (src : text) (t : token) : Prop := tstart t < tend t /\ tend t <= length src.

Lemma tiling_good src ts : Tiling 0 (length src) ts -> Forall (good src) ts.
Proof.
  intros H. pose proof (tiling_nonempty _ _ _ H) as H1. pose proof (tiling_in_range _ _ _ H) as H2.
  rewrite Forall_forall in *. intros t Hin. specialize (H1 t Hin). specialize (H2 t Hin).
  cbn beta in *. unfold good. lia.
Qed.

Lemma get_content_good src t : good src t -> get_content (tspan t) src = Ok (slice src (tstart t) (tend t)).
Proof.
  unfold good, tstart, tend. intros [H1 H2]. unfold get_content, try_get_content.
  assert (send (tspan t) <? sstart (tspan t) = false) as -> by (apply Nat.ltb_ge; lia).
  assert (length src <=? sstart (tspan t) = false) as -> by (apply Nat.leb_gt; lia).
  assert (length src <? send (tspan t) = false) as -> by (apply Nat.ltb_ge; lia).
  reflexivity.
Qed.

Lemma span_len_good src t : good src t -> span_len (tspan t) = Ok (tlen t).
Proof.
  unfold good, tstart, tend, tlen, span_len, sub_chk, tstart, tend. intros [H1 H2].
  assert (send (tspan t) <? sstart (tspan t) = false) as -> by (apply Nat.ltb_ge; lia).
  reflexivity.
Qed.

(* ================= the dictionary look-up loop ================= *)
Lemma word_lookup_good src : forall ts, Forall (good src) ts -> word_lookup_check src ts = Ok tt.
Proof.
  induction ts as [|t ts IH]; intros HF; [reflexivity|].
  inversion HF as [|t0 ts0 Ht Hts]; subst. cbn [word_lookup_check].
  destruct (is_word (tkind_of t)); [|apply IH; assumption].
  rewrite (get_content_good src t Ht). cbn [bind]. apply IH. assumption.
Qed.

Theorem word_lookup_ok : forall src ts, Tiling 0 (length src) ts -> word_lookup_check src ts = Ok tt.
Proof. intros src ts H. apply word_lookup_good. apply tiling_good. exact H. Qed.

(* ================= match_quotes ================= *)
Definition stripk (t : token) : tkind := strip_twin (tkind_of t).

Lemma is_quote_twin t : is_quote (tkind_of t) = true -> exists tw, quote_twin t = Some tw.
Proof.
  unfold quote_twin. destruct (tkind_of t) as [|p| | | | | | | | | |]; try discriminate.
  destruct p; try discriminate. intros _. eexists. reflexivity.
Qed.

Lemma set_twin_spec toks i j t tw :
  nth_error toks i = Some t -> quote_twin t = Some tw ->
  exists toks', set_twin toks i j = Ok toks' /\
    nth_error toks' i = Some (mktok (tspan t) (KPunct (PQuote (Some j)))) /\
    (forall k, k <> i -> nth_error toks' k = nth_error toks k) /\
    map tspan toks' = map tspan toks /\ map stripk toks' = map stripk toks.
Proof.
  intros Hn Hq. destruct (nth_error_split toks i Hn) as [pre [r [-> Hlen]]].
  exists (pre ++ mktok (tspan t) (KPunct (PQuote (Some j))) :: r).
  unfold set_twin, nth_chk. rewrite Hn. cbn [bind].
  unfold quote_twin in Hq.
  destruct (tkind_of t) as [|p| | | | | | | | | |] eqn:Ek; try discriminate.
  destruct p; try discriminate.
  split; [apply set_nth_mid; symmetry; exact Hlen|].
  split; [apply nth_error_mid; symmetry; exact Hlen|].
  split; [intros k Hk; apply nth_error_mid_other; lia|].
  rewrite !map_app. cbn [map tspan]. split; [reflexivity|].
  do 2 f_equal. unfold stripk. cbn [tkind_of]. rewrite Ek. reflexivity.
Qed.

Lemma mq_loop_spec : forall n qi toks,
  length qi <= n -> NoDup qi ->
  (forall i, In i qi -> exists t, nth_error toks i = Some t /\ quote_twin t = Some None) ->
  exists toks', mq_loop qi toks = Ok toks' /\
    map tspan toks' = map tspan toks /\ map stripk toks' = map stripk toks /\
    (forall i, ~ In i qi -> nth_error toks' i = nth_error toks i) /\
    (forall i t j, In i qi -> nth_error toks' i = Some t -> quote_twin t = Some (Some j) ->
       j <> i /\ exists t', nth_error toks' j = Some t' /\ quote_twin t' = Some (Some i)).
Proof.
  induction n as [|n IH]; intros qi toks Hlen Hnd Hq.
  - destruct qi; [|cbn in Hlen; lia]. exists toks. cbn [mq_loop].
    split; [reflexivity|]. split; [reflexivity|]. split; [reflexivity|].
    split; [reflexivity|]. intros i t j [].
  - destruct qi as [|a [|b r]].
    + exists toks. cbn [mq_loop]. split; [reflexivity|]. split; [reflexivity|]. split; [reflexivity|].
      split; [reflexivity|]. intros i t j [].
    + exists toks. cbn [mq_loop]. split; [reflexivity|]. split; [reflexivity|]. split; [reflexivity|].
      split; [reflexivity|]. intros i t j Hin Hn Htw.
      destruct (Hq i Hin) as [t0 [Hn0 Htw0]]. congruence.
    + inversion Hnd as [|a0 l0 Hna Hnd1]; subst. inversion Hnd1 as [|b0 l1 Hnb Hnd2]; subst.
      assert (a <> b) as Hab by (intros ->; apply Hna; left; reflexivity).
      assert (~ In a r) as Har by (intros H; apply Hna; right; exact H).
      destruct (Hq a ltac:(left; reflexivity)) as [ta [Hna0 Hqa]].
      destruct (Hq b ltac:(right; left; reflexivity)) as [tb [Hnb0 Hqb]].
      destruct (set_twin_spec toks a b ta None Hna0 Hqa) as [t1 [E1 [H1a [H1o [H1s H1k]]]]].
      assert (nth_error t1 b = Some tb) as Hnb1 by (rewrite H1o by congruence; exact Hnb0).
      destruct (set_twin_spec t1 b a tb None Hnb1 Hqb) as [t2 [E2 [H2b [H2o [H2s H2k]]]]].
      assert (nth_error t2 a = Some (mktok (tspan ta) (KPunct (PQuote (Some b))))) as H2a
        by (rewrite H2o by congruence; exact H1a).
      destruct (IH r t2) as [toks' [EL [Hs [Hk [Ho Htw]]]]].
      * cbn [length] in Hlen. lia.
      * exact Hnd2.
      * intros i Hin. rewrite H2o by (intros ->; contradiction).
        rewrite H1o by (intros ->; contradiction). apply Hq. right; right; exact Hin.
      * exists toks'. cbn [mq_loop]. rewrite E1. cbn [bind]. rewrite E2. cbn [bind].
        split; [exact EL|]. split; [congruence|]. split; [congruence|]. split.
        -- intros i Hni. rewrite Ho by (intros H; apply Hni; right; right; exact H).
           rewrite H2o by (intros ->; apply Hni; right; left; reflexivity).
           apply H1o. intros ->; apply Hni; left; reflexivity.
        -- intros i t j Hin Hn Hq'.
           assert (nth_error toks' a = Some (mktok (tspan ta) (KPunct (PQuote (Some b))))) as Ha'
             by (rewrite Ho by exact Har; exact H2a).
           assert (nth_error toks' b = Some (mktok (tspan tb) (KPunct (PQuote (Some a))))) as Hb'
             by (rewrite Ho by exact Hnb; exact H2b).
           destruct Hin as [<-|[<-|Hin]].
           ++ rewrite Ha' in Hn. assert (t = mktok (tspan ta) (KPunct (PQuote (Some b)))) as -> by congruence.
              unfold quote_twin in Hq'. cbn [tkind_of] in Hq'. assert (j = b) as -> by congruence.
              split; [congruence|]. eexists. split; [exact Hb'|]. reflexivity.
           ++ rewrite Hb' in Hn. assert (t = mktok (tspan tb) (KPunct (PQuote (Some a)))) as -> by congruence.
              unfold quote_twin in Hq'. cbn [tkind_of] in Hq'. assert (j = a) as -> by congruence.
              split; [congruence|]. eexists. split; [exact Ha'|]. reflexivity.
           ++ apply (Htw i t j Hin Hn Hq').
Qed.

Lemma quote_indices_in : forall ts i j, In j (quote_indices ts i) ->
  i <= j /\ exists t, nth_error ts (j - i) = Some t /\ is_quote (tkind_of t) = true.
Proof.
  induction ts as [|t ts IH]; intros i j Hin; [destruct Hin|].
  cbn [quote_indices] in Hin.
  assert (In j (quote_indices ts (S i)) ->
          i <= j /\ exists t0, nth_error (t :: ts) (j - i) = Some t0 /\ is_quote (tkind_of t0) = true) as Hrec.
  { intros H. destruct (IH (S i) j H) as [Hle [t0 [Hn Hq]]]. split; [lia|]. exists t0.
    replace (j - i) with (S (j - S i)) by lia. split; assumption. }
  destruct (is_quote (tkind_of t)) eqn:E; [|auto].
  destruct Hin as [<-|Hin]; [|auto].
  split; [lia|]. exists t. rewrite Nat.sub_diag. split; [reflexivity|exact E].
Qed.

Lemma quote_indices_nodup : forall ts i, NoDup (quote_indices ts i).
Proof.
  induction ts as [|t ts IH]; intros i; [constructor|]. cbn [quote_indices].
  destruct (is_quote (tkind_of t)); [|apply IH].
  constructor; [|apply IH]. intros H. apply quote_indices_in in H. lia.
Qed.

Theorem match_quotes_spec : forall ts, NoTwins ts ->
  exists ts', match_quotes ts = Ok ts' /\ SameButTwins ts ts' /\ QuotesOk ts'.
Proof.
  intros ts HNT. unfold NoTwins in HNT. rewrite Forall_forall in HNT.
  destruct (mq_loop_spec (length (quote_indices ts 0)) (quote_indices ts 0) ts (le_n _)
              (quote_indices_nodup ts 0)) as [ts' [E [Hs [Hk [Ho Htw]]]]].
  - intros i Hin. apply quote_indices_in in Hin. destruct Hin as [_ [t [Hn Hq]]].
    rewrite Nat.sub_0_r in Hn. exists t. split; [exact Hn|].
    destruct (is_quote_twin t Hq) as [tw Htw]. rewrite Htw. f_equal.
    apply (HNT t); [eapply nth_error_In; exact Hn|exact Htw].
  - exists ts'. split; [exact E|]. split; [split; [exact Hs|exact Hk]|].
    intros i t j Hn Hq. destruct (in_dec Nat.eq_dec i (quote_indices ts 0)) as [Hin|Hni].
    + apply (Htw i t j Hin Hn Hq).
    + rewrite (Ho i Hni) in Hn. apply nth_error_In in Hn. specialize (HNT t Hn _ Hq). discriminate.
Qed.

(* ================= condense_number_suffixes ================= *)
(* does the pair (a, b) make a Number + suffix ? *)
Definition hit (src : text) (a b : token) : option num_suffix :=
  if is_number (tkind_of a) && is_word (tkind_of b) then
    if tlen b =? 2 then suffix_of_chars (slice src (tstart b) (tend b)) else None
  else None.
Definition hd_hit (src : text) (a : token) (l : list token) : option num_suffix :=
  match l with b :: _ => hit src a b | [] => None end.

Definition mark_tok (a : token) (s : num_suffix) : token :=
  match tkind_of a with
  | KNumber nb => mktok (tspan a) (KNumber (with_suffix nb s))
  | _ => a
  end.

(* the vector after ns_loop, the list replace_starts, the vector after the "update spans" loop *)
Fixpoint mark (src : text) (l : list token) : list token :=
  match l with
  | [] => []
  | a :: l' => match hd_hit src a l' with Some s => mark_tok a s | None => a end :: mark src l'
  end.
Fixpoint starts (src : text) (i : nat) (l : list token) : list nat :=
  match l with
  | [] => []
  | a :: l' => match hd_hit src a l' with
               | Some _ => i :: starts src (S i) l'
               | None => starts src (S i) l'
               end
  end.
Fixpoint upd (src : text) (l : list token) : list token :=
  match l with
  | [] => []
  | a :: l' => match hd_hit src a l' with
               | Some s => with_end (mark_tok a s) (tend (hd dummy_tok l'))
               | None => a
               end :: upd src l'
  end.

Lemma mark_tok_span a s : tspan (mark_tok a s) = tspan a.
Proof. unfold mark_tok. destruct (tkind_of a); reflexivity. Qed.

Lemma hit_some src a b s : hit src a b = Some s ->
  exists nb, tkind_of a = KNumber nb /\ tkind_of b = KWord /\ tlen b = 2 /\
             suffix_of_chars (slice src (tstart b) (tend b)) = Some s.
Proof.
  unfold hit. intros H.
  destruct (tkind_of a) as [| | |nb| | | | | | | |]; cbn [is_number andb] in H; try discriminate.
  destruct (tkind_of b); cbn [is_word] in H; try discriminate.
  destruct (tlen b =? 2) eqn:E; [|discriminate]. apply Nat.eqb_eq in E.
  exists nb. repeat split; assumption.
Qed.

Lemma hit_word_none src a b : tkind_of a = KWord -> hit src a b = None.
Proof. unfold hit. intros ->. reflexivity. Qed.

Lemma hd_hit_some src a l s : hd_hit src a l = Some s -> exists b r, l = b :: r /\ hit src a b = Some s.
Proof. destruct l as [|b r]; cbn [hd_hit]; [discriminate|]. intros H. exists b, r. split; [reflexivity|exact H]. Qed.

Lemma upd_length src : forall l, length (upd src l) = length l.
Proof. induction l as [|a l IH]; [reflexivity|]. cbn [upd length]. rewrite IH. reflexivity. Qed.

Lemma starts_bounds src : forall l i s, In s (starts src i l) -> i <= s /\ s + 1 < i + length l.
Proof.
  induction l as [|a l IH]; intros i s Hin; [destruct Hin|].
  cbn [starts] in Hin. cbn [length].
  assert (In s (starts src (S i) l) -> i <= s /\ s + 1 < i + S (length l)) as Hrec
    by (intros H; apply IH in H; lia).
  destruct (hd_hit src a l) as [sf|] eqn:E; [|auto].
  destruct Hin as [<-|Hin]; [|auto].
  apply hd_hit_some in E. destruct E as [b [r [-> _]]]. cbn [length]. lia.
Qed.

Lemma starts_nil_upd src : forall l i, starts src i l = [] -> upd src l = l.
Proof.
  induction l as [|a l IH]; intros i H; [reflexivity|]. cbn [starts upd] in *.
  destruct (hd_hit src a l); [discriminate|]. rewrite (IH (S i) H). reflexivity.
Qed.

(* ---------- one round of the `for idx` loop ---------- *)
Lemma ns_step src n pre a b r idx :
  idx = length pre -> good src b ->
  ns_loop src (S n) idx (pre ++ a :: b :: r) =
  match hit src a b with
  | Some s => do '(toksF, st) <- ns_loop src n (S idx) (pre ++ mark_tok a s :: b :: r);
              Ok (toksF, idx :: st)
  | None => ns_loop src n (S idx) (pre ++ a :: b :: r)
  end.
Proof.
  intros Hidx Hb. cbn [ns_loop]. unfold nth_chk.
  assert (nth_error (pre ++ a :: b :: r) (idx + 1) = Some b) as ->.
  { rewrite (cons_app_assoc pre a). apply nth_error_mid. rewrite app_length. cbn [length]. lia. }
  rewrite (nth_error_mid pre a (b :: r) idx Hidx). cbn [bind].
  unfold hit.
  destruct (is_number (tkind_of a) && is_word (tkind_of b)) eqn:E; [|reflexivity].
  rewrite (span_len_good src b Hb). cbn [bind].
  destruct (tlen b =? 2); cbn [negb]; [|reflexivity].
  rewrite (get_content_good src b Hb). cbn [bind].
  destruct (suffix_of_chars (slice src (tstart b) (tend b))) as [sfx|]; [|reflexivity].
  apply andb_prop in E. destruct E as [Ea _].
  unfold mark_tok. destruct (tkind_of a) as [| | |nb| | | | | | | |]; try discriminate.
  cbn [set_suffix bind]. rewrite (set_nth_mid pre _ a (b :: r) idx Hidx). cbn [bind].
  reflexivity.
Qed.

Lemma ns_loop_spec src : forall l pre idx,
  idx = length pre -> Forall (good src) l ->
  ns_loop src (length l - 1) idx (pre ++ l) = Ok (pre ++ mark src l, starts src idx l).
Proof.
  induction l as [|a l IH]; intros pre idx Hidx HF; [reflexivity|].
  destruct l as [|b r]; [reflexivity|].
  inversion HF as [|a0 l0 Ha HF']; subst a0 l0.
  assert (good src b) as Hb by (inversion HF'; assumption).
  change (length (a :: b :: r) - 1) with (S (length r)).
  rewrite (ns_step src (length r) pre a b r idx Hidx Hb).
  cbn [mark starts hd_hit].
  destruct (hit src a b) as [s|].
  - rewrite (cons_app_assoc pre (mark_tok a s)).
    specialize (IH (pre ++ [mark_tok a s]) (S idx)).
    change (length (b :: r) - 1) with (length r - 0) in IH. rewrite Nat.sub_0_r in IH.
    rewrite IH; [|rewrite app_length; cbn [length]; lia|exact HF'].
    cbn [bind]. rewrite <- app_assoc. reflexivity.
  - rewrite (cons_app_assoc pre a).
    specialize (IH (pre ++ [a]) (S idx)).
    change (length (b :: r) - 1) with (length r - 0) in IH. rewrite Nat.sub_0_r in IH.
    rewrite IH; [|rewrite app_length; cbn [length]; lia|exact HF'].
    rewrite <- app_assoc. reflexivity.
Qed.

(* ---------- the "update spans" loop of condense_indices ---------- *)
Lemma mark_hd_tend src l : tend (hd dummy_tok (mark src l)) = tend (hd dummy_tok l).
Proof.
  destruct l as [|b r]; [reflexivity|]. cbn [mark hd].
  destruct (hd_hit src b r); [|reflexivity]. unfold tend. rewrite mark_tok_span. reflexivity.
Qed.

Lemma ci_update_spec src : forall l pre idx,
  idx = length pre ->
  ci_update 2 (starts src idx l) (pre ++ mark src l) = Ok (pre ++ upd src l).
Proof.
  induction l as [|a l IH]; intros pre idx Hidx; [reflexivity|].
  cbn [starts mark upd].
  destruct (hd_hit src a l) as [s|] eqn:E.
  - apply hd_hit_some in E. destruct E as [b [r [El _]]].
    cbn [ci_update]. unfold sub_chk.
    assert (idx + 2 <? 1 = false) as -> by (apply Nat.ltb_ge; lia). cbn [bind].
    replace (idx + 2 - 1) with (idx + 1) by lia. unfold nth_chk.
    assert (nth_error (pre ++ mark_tok a s :: mark src l) (idx + 1) = Some (hd dummy_tok (mark src l))) as ->.
    { rewrite El. cbn [mark hd]. rewrite (cons_app_assoc pre (mark_tok a s)).
      apply nth_error_mid. rewrite app_length. cbn [length]. lia. }
    rewrite (nth_error_mid pre _ _ idx Hidx). cbn [bind].
    rewrite (set_nth_mid pre _ (mark_tok a s) (mark src l) idx Hidx). cbn [bind].
    rewrite mark_hd_tend.
    rewrite (cons_app_assoc pre (with_end _ _)).
    rewrite (IH _ (S idx)); [|rewrite app_length; cbn [length]; lia].
    rewrite <- app_assoc. reflexivity.
  - rewrite (cons_app_assoc pre a).
    rewrite (IH _ (S idx)); [|rewrite app_length; cbn [length]; lia].
    rewrite <- app_assoc. reflexivity.
Qed.

(* ---------- the chunk loop of condense_indices ---------- *)
Lemma ci_chunks_one old a : ci_chunks 2 old [a] = do ta <- nth_chk old a; Ok [ta].
Proof. reflexivity. Qed.
Lemma ci_chunks_more old a b r :
  ci_chunks 2 old (a :: b :: r) =
  do ta <- nth_chk old a; do sl <- slice_chk old (a + 2) b; do rest <- ci_chunks 2 old (b :: r);
  Ok (ta :: sl ++ rest).
Proof. reflexivity. Qed.

Lemma two_app_assoc {A} (pre : list A) x y l : pre ++ x :: y :: l = (pre ++ [x; y]) ++ l.
Proof. rewrite <- app_assoc. reflexivity. Qed.

Lemma G_suffix_single src t : G_suffix src [t] (tkind_of t).
Proof. left. exists t. split; reflexivity. Qed.

Lemma merged_group src x y s : hit src x y = Some s -> good src y ->
  exists k, G_suffix src [x; y] k /\ with_end (mark_tok x s) (tend y) = group_token [x; y] k.
Proof.
  intros Hh Hy. destruct (hit_some src x y s Hh) as [nb [Hx [Hyk [Hl Hs]]]].
  exists (KNumber (with_suffix nb s)). split.
  - right. exists x, y, nb, (slice src (tstart y) (tend y)), s.
    split; [reflexivity|]. split; [exact Hx|]. split; [exact Hyk|]. split; [exact Hl|].
    split; [apply get_content_good; exact Hy|]. split; [exact Hs|reflexivity].
  - unfold mark_tok. rewrite Hx. reflexivity.
Qed.

Lemma chunks_spec src : forall n l pre idx a S',
  length l <= n -> idx = length pre -> Forall (good src) l ->
  starts src idx l = a :: S' ->
  exists mid, ci_chunks 2 (pre ++ upd src l) (a :: S') = Ok mid /\ idx <= a /\
    Grouped (G_suffix src) l
      (firstn (a - idx) (upd src l) ++ mid ++ skipn (last (a :: S') 0 + 2) (pre ++ upd src l)).
Proof.
  induction n as [|n IH]; intros l pre idx a S' Hlen Hidx HF Hst.
  - destruct l; [discriminate Hst|cbn [length] in Hlen; lia].
  - destruct l as [|x l']; [discriminate Hst|].
    inversion HF as [|x0 l0 Hx HF']; subst x0 l0.
    cbn [starts upd] in *. destruct (hd_hit src x l') as [s|] eqn:E.
    + apply hd_hit_some in E. destruct E as [y [r [-> Hhit]]].
      assert (a = idx) as -> by congruence.
      assert (S' = starts src (S idx) (y :: r)) as -> by congruence. clear Hst.
      inversion HF' as [|y0 r0 Hy HFr]; subst y0 r0.
      destruct (hit_some src x y s Hhit) as [nb [_ [Hyk _]]].
      assert (hd_hit src y r = None) as Hnone
        by (destruct r as [|z r']; [reflexivity|cbn [hd_hit]; apply hit_word_none; exact Hyk]).
      cbn [starts upd hd]. rewrite Hnone.
      destruct (merged_group src x y s Hhit Hy) as [k [HGk Hm]]. rewrite Hm.
      set (m := group_token [x; y] k).
      rewrite Nat.sub_diag. cbn [firstn app].
      destruct (starts src (S (S idx)) r) as [|b S''] eqn:ES.
      * exists [m]. rewrite ci_chunks_one. unfold nth_chk.
        rewrite (nth_error_mid pre m _ idx Hidx). cbn [bind].
        split; [reflexivity|]. split; [lia|]. cbn [last app].
        rewrite (two_app_assoc pre m y).
        rewrite skipn_app_len by (rewrite app_length; cbn [length]; lia).
        rewrite (starts_nil_upd src r _ ES).
        apply (Grouped_cons (G_suffix src) [x; y] k r r ltac:(discriminate) HGk).
        apply grouped_refl. apply G_suffix_single.
      * destruct (IH r (pre ++ [m; y]) (S (S idx)) b S'') as [mid' [Hmid [Hle HG]]].
        -- cbn [length] in Hlen. lia.
        -- rewrite app_length. cbn [length]. lia.
        -- exact HFr.
        -- exact ES.
        -- rewrite <- (two_app_assoc pre m y) in Hmid, HG.
           assert (b + 1 < S (S idx) + length r) as Hb
             by (apply (starts_bounds src r (S (S idx)) b); rewrite ES; left; reflexivity).
           exists (m :: firstn (b - (idx + 2)) (upd src r) ++ mid').
           rewrite ci_chunks_more. unfold nth_chk.
           rewrite (nth_error_mid pre m _ idx Hidx). cbn [bind].
           unfold slice_chk.
           assert (b <? idx + 2 = false) as -> by (apply Nat.ltb_ge; lia).
           assert (length (pre ++ m :: y :: upd src r) <? b = false) as ->.
           { apply Nat.ltb_ge. rewrite app_length. cbn [length]. rewrite upd_length. lia. }
           cbn [orb bind]. rewrite Hmid. cbn [bind].
           rewrite (two_app_assoc pre m y) at 1.
           rewrite skipn_app_len by (rewrite app_length; cbn [length]; lia).
           split; [reflexivity|]. split; [lia|].
           change (last (idx :: b :: S'') 0) with (last (b :: S'') 0).
           cbn [app]. rewrite <- app_assoc.
           replace (b - S (S idx)) with (b - (idx + 2)) in HG by lia.
           apply (Grouped_cons (G_suffix src) [x; y] k r _ ltac:(discriminate) HGk HG).
    + rewrite (cons_app_assoc pre x).
      destruct (IH l' (pre ++ [x]) (S idx) a S') as [mid [Hmid [Hle HG]]].
      * cbn [length] in Hlen. lia.
      * rewrite app_length. cbn [length]. lia.
      * exact HF'.
      * exact Hst.
      * exists mid. split; [exact Hmid|]. split; [lia|].
        replace (a - idx) with (S (a - S idx)) by lia. cbn [firstn app].
        pose proof (Grouped_cons (G_suffix src) [x] (tkind_of x) l' _ ltac:(discriminate)
                      (G_suffix_single src x) HG) as H.
        rewrite group_token_single in H. exact H.
Qed.

Theorem condense_number_suffixes_grouped : forall src ts, Tiling 0 (length src) ts ->
  exists ts', condense_number_suffixes src ts = Ok ts' /\ Grouped (G_suffix src) ts ts'.
Proof.
  intros src ts HT. pose proof (tiling_good src ts HT) as HF.
  unfold condense_number_suffixes. destruct (length ts <? 2) eqn:E2.
  - exists ts. split; [reflexivity|]. apply grouped_refl. apply G_suffix_single.
  - pose proof (ns_loop_spec src ts [] 0 eq_refl HF) as Hns. cbn [app length] in Hns.
    rewrite Hns. cbn [bind]. unfold condense_indices.
    pose proof (ci_update_spec src ts [] 0 eq_refl) as Hup. cbn [app] in Hup.
    rewrite Hup. cbn [bind].
    destruct (starts src 0 ts) as [|a S'] eqn:ES.
    + exists ts. rewrite (starts_nil_upd src ts 0 ES). cbn [length rev ci_chunks bind].
      unfold slice_chk.
      assert (0 <? 0 = false) as -> by reflexivity.
      assert (length ts <? 0 = false) as -> by reflexivity.
      rewrite Nat.ltb_irrefl. rewrite Nat.sub_diag.
      cbn [orb bind skipn firstn app]. rewrite Nat.sub_0_r. rewrite firstn_all.
      split; [reflexivity|]. apply grouped_refl. apply G_suffix_single.
    + destruct (chunks_spec src (length ts) ts [] 0 a S' (le_n _) eq_refl HF ES) as [mid [Hmid [_ HG]]].
      cbn [app] in Hmid, HG. rewrite Nat.sub_0_r in HG.
      assert (a + 1 < 0 + length ts) as Ha
        by (apply (starts_bounds src ts 0 a); rewrite ES; left; reflexivity).
      assert (last (a :: S') 0 + 1 < 0 + length ts) as Hl
        by (apply (starts_bounds src ts 0); rewrite ES; apply last_in).
      destruct (rev_last_head S' a) as [rr Hrev].
      exists (firstn a (upd src ts) ++ mid ++ skipn (last (a :: S') 0 + 2) (upd src ts)).
      split; [|exact HG].
      unfold slice_chk at 1.
      assert (a <? 0 = false) as -> by reflexivity.
      assert (length (upd src ts) <? a = false) as ->
        by (apply Nat.ltb_ge; rewrite upd_length; lia).
      cbn [orb bind skipn]. rewrite Nat.sub_0_r. rewrite Hmid. cbn [bind]. rewrite Hrev.
      unfold slice_chk.
      assert (length (upd src ts) <? last (a :: S') 0 + 2 = false) as ->
        by (apply Nat.ltb_ge; rewrite upd_length; lia).
      rewrite Nat.ltb_irrefl. cbn [orb bind].
      rewrite (firstn_all2 (skipn (last (a :: S') 0 + 2) (upd src ts)))
        by (rewrite skipn_length; lia).
      reflexivity.
Qed.

(* non-vacuity: "1st" = Number + Word tiles the source and is merged into one Number with suffix St *)
Example suffix_hit_example :
  (Tiling 0 (length [49; 115; 116]%N)
     [mktok (mkspan 0 1) (KNumber (mknumber false 1%N 0%Z None 10 0)); mktok (mkspan 1 3) KWord]) /\
  (condense_number_suffixes [49; 115; 116]%N
     [mktok (mkspan 0 1) (KNumber (mknumber false 1%N 0%Z None 10 0)); mktok (mkspan 1 3) KWord]
   = Ok [mktok (mkspan 0 3) (KNumber (with_suffix (mknumber false 1%N 0%Z None 10 0) SufSt))]).
Proof.
  split; [|vm_compute; reflexivity].
  constructor; cbn; [reflexivity|lia|]. constructor; cbn; [reflexivity|lia|]. constructor.
Qed.

Print Assumptions condense_number_suffixes_grouped.
Print Assumptions match_quotes_spec.
Print Assumptions word_lookup_ok.
