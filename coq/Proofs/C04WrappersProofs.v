(* C04WrappersProofs.v — '+ie' / '+ci' composed with a masked front-end keep offsets true (Model/C04Wrappers.v).
     erase_mask_parse        the typed Mask::parse, kinds erased, IS Mask.mask_parse (the extracted, tested function)
     mask_parse_t_faithful   C04_mask_faithful once more over typed tokens (same proof)
     masked_ie_offsets       IsolateEnglish over a masked parser never panics; its output is a sub-sequence of the
                             masked parse: every token still is an inner token of ONE allowed span at its true offset
     masked_ci_offsets       CollapseIdentifiers over a masked parser never panics; every output token is a token of
                             the masked parse, or a Word from the true start of one inner Word to the true end of a
                             later inner Word, the text in between (in the FILE) being a dictionary word *)
Require Import Base Mask ListLemmas MaskProofs.
Require Import Overlap Tables_lexer Lexer Condense TokenInv CondenseInv C02Wrappers C02Gapped C02WrappersProofs C04Wrappers.
From Coq Require Import List Arith Lia.
Import ListNotations.

(* ====================================================================================== *)
(** * erasure: the typed function is the tested one *)

Definition erase (code : tkind -> N) (t : token) : Mask.tok := Mask.mktok (tspan t) (code (tkind_of t)).

Lemma erase_tpush code by_ t : erase code (tpush_t by_ t) = Mask.tpush by_ (erase code t).
Proof. reflexivity. Qed.

Theorem erase_mask_parse (code : tkind -> N) (inner : text -> list token) :
  code KParagraphBreak = Mask.K_PARBREAK ->
  forall src m last,
    Mask.mask_parse_loop (fun c => map (erase code) (inner c)) src last m =
    match mask_parse_loop_t inner src last m with
    | Ok t => Ok (map (erase code) t)
    | Panic w => Panic w
    end.
Proof.
  intros Hc src. induction m as [|sp t IH]; intros last; [reflexivity|].
  cbn [Mask.mask_parse_loop mask_parse_loop_t].
  destruct (get_content sp src) as [content|]; cbn [bind]; [|reflexivity].
  destruct last as [la|].
  - destruct (span_new (send la) (sstart sp)) as [iv|]; cbn [bind]; [|reflexivity].
    destruct (get_content iv src) as [c|]; cbn [bind]; [|reflexivity].
    rewrite IH. destruct (mask_parse_loop_t inner src (Some sp) t) as [rest|]; cbn [bind]; [|reflexivity].
    f_equal. rewrite !map_app, !map_map. f_equal.
    destruct (existsb (fun x : N => (x =? 10)%N) c); [|reflexivity]. cbn [map]. unfold erase at 1. cbn [tspan tkind_of]. now rewrite Hc.
  - rewrite IH. destruct (mask_parse_loop_t inner src (Some sp) t) as [rest|]; cbn [bind]; [|reflexivity].
    f_equal. cbn [app]. rewrite !map_app, !map_map. reflexivity.
Qed.

(* ====================================================================================== *)
(** * Mask::parse over typed tokens: location and order (the proofs of MaskProofs.v, token type changed) *)

Section TypedMask.
  Variable inner : text -> list token.
  Hypothesis inner_wf : forall c t0, In t0 (inner c) -> tstart t0 <= tend t0.
  Hypothesis inner_in_bounds : forall c t0, In t0 (inner c) -> tend t0 <= length c.

  Definition from_inner_t (src : text) (m : list span) (tk : token) : Prop :=
    exists sp t0, In sp m /\ In t0 (inner (slice src (sstart sp) (send sp))) /\ tk = tpush_t (sstart sp) t0 /\
      sstart sp <= tstart tk /\ tstart tk <= tend tk /\ tend tk <= send sp /\ send sp <= length src /\
      slice src (tstart tk) (tend tk) = slice (slice src (sstart sp) (send sp)) (tstart t0) (tend t0).

  Definition gap_break_t (src : text) (m : list span) (tk : token) : Prop :=
    tkind_of tk = KParagraphBreak /\
    exists pre a b post, m = pre ++ a :: b :: post /\ tspan tk = mkspan (send a) (sstart b) /\
                         In 10%N (slice src (send a) (sstart b)).

  Definition located (src : text) (m : list span) (tk : token) : Prop := from_inner_t src m tk \/ gap_break_t src m tk.

  Lemma mask_parse_loop_t_spec src : forall m last,
    let full := match last with Some la => la :: m | None => m end in
    let lo := match last with Some la => send la | None => 0 end in
    ordered_from lo m -> Forall (fun s => send s <= length src) m ->
    exists toks, mask_parse_loop_t inner src last m = Ok toks /\
      Forall (fun tk => from_inner_t src full tk \/ gap_break_t src full tk) toks.
  Proof.
    induction m as [|sp t IH]; intros last full lo Hord Hin.
    - exists []. cbn. split; constructor.
    - cbn in Hord. destruct Hord as (Hlo & Hwf & Hord). inversion Hin as [|? ? Hsp Hin']; subst.
      cbn [mask_parse_loop_t]. rewrite (MaskProofs.get_content_in src sp Hwf Hsp). cbn [bind].
      destruct (IH (Some sp) Hord Hin') as (rest & Hrest & HP). cbv zeta in HP.
      set (content := slice src (sstart sp) (send sp)) in *.
      assert (Hclen : length content = send sp - sstart sp) by (apply slice_length; lia).
      assert (Hnew : Forall (fun tk => from_inner_t src full tk) (map (tpush_t (sstart sp)) (inner content))).
      { rewrite Forall_forall. intros tk Htk. apply in_map_iff in Htk as (t0 & <- & Ht0).
        pose proof (inner_in_bounds _ _ Ht0) as Hb. pose proof (inner_wf _ _ Ht0) as Hw. rewrite Hclen in Hb.
        unfold tstart, tend in *.
        exists sp, t0. unfold tstart, tend. cbn [tpush_t tspan push_by sstart send].
        repeat split; try lia.
        - subst full. destruct last; [right; left|left]; reflexivity.
        - exact Ht0.
        - unfold content. rewrite slice_slice by lia. f_equal; lia. }
      assert (Hlift : Forall (fun tk => from_inner_t src full tk \/ gap_break_t src full tk) rest).
      { rewrite Forall_forall in *. intros tk Htk. destruct (HP tk Htk) as [(s0 & t0 & Hs0 & Hr)|(Hk & pre & a & b & post & Hm & Hr)].
        - left. exists s0, t0. split; [|exact Hr]. subst full. destruct last; [right|]; exact Hs0.
        - right. split; [assumption|]. subst full. destruct last as [la|].
          + exists (la :: pre), a, b, post. rewrite Hm. split; [reflexivity|assumption].
          + exists pre, a, b, post. split; assumption. }
      destruct last as [la|].
      + unfold span_new. destruct (Nat.ltb_spec (sstart sp) (send la)); [lia|]. cbn [bind].
        rewrite (MaskProofs.get_content_in src (mkspan (send la) (sstart sp))) by (unfold span_wf; cbn; lia). cbn [bind sstart send].
        rewrite Hrest. cbn [bind].
        eexists. split; [reflexivity|].
        apply Forall_app. split; [|apply Forall_app; split; [|assumption]].
        * destruct (existsb _ _) eqn:Enl; [|constructor]. constructor; [|constructor]. right. split; [reflexivity|].
          exists [], la, sp, t. split; [reflexivity|]. split; [reflexivity|]. now apply existsb_nl.
        * eapply Forall_impl; [|exact Hnew]. intros; now left.
      + rewrite Hrest. cbn [bind app].
        eexists. split; [reflexivity|].
        apply Forall_app. split; [|assumption]. eapply Forall_impl; [|exact Hnew]. intros; now left.
  Qed.

  Theorem mask_parse_t_faithful src m : mask_wf (length src) m ->
    exists toks, mask_parse_t inner src m = Ok toks /\ Forall (located src m) toks.
  Proof. intros [Ho Hb]. exact (mask_parse_loop_t_spec src m None Ho Hb). Qed.

  (* order: through the erasure, from MaskProofs.mask_parse_ordered *)
  Hypothesis inner_ordered : forall c, ordered_from 0 (map tspan (inner c)).

  Theorem mask_parse_t_ordered src m toks : mask_wf (length src) m ->
    mask_parse_t inner src m = Ok toks -> ordered_from 0 (map tspan toks).
  Proof.
    intros Hm Hrun. set (code := fun _ : tkind => Mask.K_PARBREAK).
    pose proof (erase_mask_parse code inner eq_refl src m None) as He.
    unfold mask_parse_t in Hrun. rewrite Hrun in He.
    assert (Hsp : forall l, map Mask.tspan (map (erase code) l) = map tspan l).
    { intros l. rewrite map_map. reflexivity. }
    rewrite <- Hsp.
    apply (mask_parse_ordered (fun c => map (erase code) (inner c))) with (src := src) (m := m); try assumption.
    - intros c t0 Ht0. apply in_map_iff in Ht0 as (t1 & <- & Ht1). exact (inner_wf _ _ Ht1).
    - intros c t0 Ht0. apply in_map_iff in Ht0 as (t1 & <- & Ht1). exact (inner_in_bounds _ _ Ht1).
    - intros c. rewrite Hsp. apply inner_ordered.
  Qed.
End TypedMask.

(* ====================================================================================== *)
(** * IsolateEnglish over a masked parser *)

Section MaskedWrappers.
  Variable inner : text -> list token.
  Variable dict : text -> bool.
  Hypothesis inner_wf : forall c t0, In t0 (inner c) -> tstart t0 <= tend t0.
  Hypothesis inner_in_bounds : forall c t0, In t0 (inner c) -> tend t0 <= length c.
  (* Word, Hyphen and Underscore tokens of the prose parser cover at least one character (C02: TokInv) *)
  Hypothesis inner_nonempty : forall c t0, In t0 (inner c) -> word_or_sep t0 -> tstart t0 < tend t0.

  Lemma located_wsgood src m tk : located inner src m tk -> wsgood src tk.
  Proof.
    intros [(sp & t0 & Hsp & Ht0 & -> & H1 & H2 & H3 & H4 & _)|(Hk & _)] Hws.
    - assert (Hws0 : word_or_sep t0) by exact Hws.
      pose proof (inner_nonempty _ _ Ht0 Hws0) as Hne. unfold tstart, tend in *.
      cbn [tpush_t tspan push_by sstart send] in *. lia.
    - destruct Hws as [Hw|Hw]; rewrite Hk in Hw; discriminate.
  Qed.

  Lemma wsgood_wgood src tk : wsgood src tk -> wgood src tk.
  Proof. intros H Hw. apply H. now left. Qed.

  Theorem masked_ie_offsets src m : mask_wf (length src) m ->
    exists toks out, mask_parse_t inner src m = Ok toks /\ masked_ie inner dict src m = Ok out /\
      Sub out toks /\ Forall (located inner src m) out.
  Proof.
    intros Hm. destruct (mask_parse_t_faithful inner inner_wf inner_in_bounds src m Hm) as (toks & Hrun & Hloc).
    assert (HW : Forall (wgood src) toks).
    { eapply Forall_impl; [|exact Hloc]. intros tk Htk. apply wsgood_wgood. eapply located_wsgood; eauto. }
    destruct (isolate_english_spec dict src toks HW) as (cs & _ & _ & Hie & Hsub).
    exists toks, (concat (filter (ie_keep dict src) cs)). split; [assumption|]. split.
    - unfold masked_ie. rewrite Hrun. cbn [bind]. exact Hie.
    - split; [assumption|]. eapply sub_forall; eauto.
  Qed.

  (* ====================================================================================== *)
  (** * CollapseIdentifiers over a masked parser *)

  Hypothesis inner_ordered : forall c, ordered_from 0 (map tspan (inner c)).

  Lemma ordered_from_OrderedFrom : forall toks lo, ordered_from lo (map tspan toks) -> OrderedFrom lo toks.
  Proof.
    induction toks as [|t r IH]; intros lo H; [constructor|]. cbn [map ordered_from] in H. destruct H as (H1 & H2 & H3).
    destruct (Nat.eq_dec (tstart t) (tend t)) as [E|E].
    - apply OF_zero; [unfold covers_chars; lia|]. apply IH. eapply MaskProofs.ordered_from_weaken; [|exact H3]. unfold tstart, tend in *. lia.
    - apply OF_cons; [unfold covers_chars, tstart, tend in *; lia|exact H1|apply IH; exact H3].
  Qed.

  Lemma sepwords_last r : SepWords r -> forall d, In (last r d) r /\ is_word (tkind_of (last r d)) = true.
  Proof.
    induction 1 as [s w Hs Hw|s w r Hs Hw Hr IH]; intros d.
    - cbn. auto.
    - destruct (IH d) as [Hin Hk]. destruct r as [|x r']; [inversion Hr|].
      change (last (s :: w :: x :: r') d) with (last (x :: r') d). split; [right; right; exact Hin|exact Hk].
  Qed.

  Lemma grouped_each (G : list token -> tkind -> Prop) : forall ts out, Grouped G ts out ->
    Forall (fun t => exists pre g k post, ts = pre ++ g ++ post /\ g <> [] /\ G g k /\ t = group_token g k) out.
  Proof.
    induction 1 as [|g k rest rest' Hne Hg Hrest IH]; [constructor|]. constructor.
    - exists [], g, k, rest. repeat split; auto.
    - eapply Forall_impl; [|exact IH]. intros t (pre & g' & k' & post & -> & H2 & H3 & H4).
      exists (g ++ pre), g', k', post. rewrite <- app_assoc. repeat split; auto.
  Qed.

  (* a token of the +ci output: a token of the masked parse, unchanged, or a merged Word *)
  Definition ci_located (src : text) (m : list span) (toks : list token) (t : token) : Prop :=
    In t toks \/
    (tkind_of t = KWord /\
     exists first last_, In first toks /\ In last_ toks /\
       is_word (tkind_of first) = true /\ is_word (tkind_of last_) = true /\
       from_inner_t inner src m first /\ from_inner_t inner src m last_ /\
       tstart t = tstart first /\ tend t = tend last_ /\ tstart first < tend first /\ tend first < tend last_ /\
       dict (slice src (tstart t) (tend t)) = true).

  Theorem masked_ci_offsets src m : mask_wf (length src) m ->
    exists toks out, mask_parse_t inner src m = Ok toks /\ masked_ci inner dict src m = Ok out /\
      Grouped (G_ident dict src) toks out /\ Forall (ci_located src m toks) out.
  Proof.
    intros Hm. destruct (mask_parse_t_faithful inner inner_wf inner_in_bounds src m Hm) as (toks & Hrun & Hloc).
    pose proof (mask_parse_t_ordered inner inner_wf inner_in_bounds inner_ordered src m toks Hm Hrun) as Hord.
    assert (HW : Forall (wsgood src) toks).
    { eapply Forall_impl; [|exact Hloc]. intros tk Htk. eapply located_wsgood; eauto. }
    destruct (collapse_identifiers_grouped dict src toks (ordered_from_OrderedFrom _ _ Hord) HW) as (out & Hci & Hgr).
    exists toks, out. split; [assumption|]. split; [unfold masked_ci; rewrite Hrun; exact Hci|]. split; [assumption|].
    pose proof (ordered_from_OrderedFrom _ _ Hord) as HOF.
    eapply Forall_impl; [|exact (grouped_each _ _ _ Hgr)].
    intros t (pre & g & k & post & Ets & Hne & HG & ->).
    assert (Hin : forall x, In x g -> In x toks).
    { intros x Hx. rewrite Ets. apply in_or_app. right. apply in_or_app. now left. }
    destruct HG as [(t1 & -> & ->)|(Hrun_ & Hcov & -> & Hdict)].
    - left. rewrite group_token_single. apply Hin. now left.
    - right. split; [reflexivity|]. destruct Hrun_ as (w & r & -> & Hw & Hsw).
      set (d := Lexer.mktok (mkspan 0 0) KUnlintable).
      destruct (sepwords_last r Hsw d) as [Hlin Hlk].
      assert (Hr : r <> []) by (destruct Hsw; discriminate).
      assert (Hlast : last (w :: r) d = last r d) by (destruct r; [contradiction|reflexivity]).
      assert (Hge : group_end (w :: r) = tend (last r d)) by (unfold group_end; fold d; now rewrite Hlast).
      assert (Hfi : forall x, In x toks -> is_word (tkind_of x) = true -> from_inner_t inner src m x).
      { intros x Hx Hxw. rewrite Forall_forall in Hloc. destruct (Hloc x Hx) as [Hf|(Hk & _)]; [exact Hf|].
        rewrite Hk in Hxw. discriminate. }
      assert (Hwin : In w toks) by (apply Hin; now left).
      assert (Hlin' : In (last r d) toks) by (apply Hin; now right).
      assert (Hcc : Forall covers_chars (w :: r)).
      { eapply Forall_impl; [|exact Hcov]. unfold covers_chars. cbn. intros; lia. }
      (* the run is a contiguous piece of the ordered vector: the first word ends before the last one does *)
      assert (Hlt : tstart w < tend w /\ tend w < tend (last r d)).
      { rewrite Ets in HOF. destruct (ordered_from_skip _ _ _ HOF) as [lo' HO'].
        inversion Hcc as [|? ? Hcw Hcr]; subst. cbn [app] in HO'.
        inversion HO' as [|? ? ? Hz ?|? ? ? Hc Hlo HOr]; subst; [contradiction|].
        destruct (ordered_group r (tend w) post Hr Hcr HOr) as (O1 & O2 & _).
        assert (group_end r = tend (last r d)) as Eg by (unfold group_end; fold d; reflexivity).
        unfold covers_chars in Hcw. lia. }
      exists w, (last r d).
      assert (Es : tstart (group_token (w :: r) KWord) = tstart w) by reflexivity.
      assert (Ee : tend (group_token (w :: r) KWord) = tend (last r d)) by (unfold group_token, tend; cbn [tspan send]; exact Hge).
      rewrite Es, Ee. repeat split; auto; try lia.
      cbn [group_start] in Hdict. rewrite Hge in Hdict. exact Hdict.
  Qed.
End MaskedWrappers.
