(* C06SentenceContrProofs.v — phase 6, step 2: sentences with contractions (Model/C06SentenceContr.v).
     lexes_expand        PlainEnglish::parse yields one token per part: a contraction is Word Apostrophe Word
     front_id            condense_spaces / newlines / breaks / number suffixes are the identity (kinds Word, Space, separator, apostrophe)
     fam_found / found_chain / regroup_collapse + C06CondFun.condense_pattern_fun:
                         condense_contractions merges EVERY Word ' Word (functional, not only `some grouping`)
     back_id             the remaining passes are the identity on the merged vector
     sentc_document      document_plain u (sent_text (expand cs)) = Ok (sent_tokens 0 (collapse cs))
   and C06 on such sentences with NO premise about tokens. *)
Require Import Base Overlap Tables_lexer Lexer Condense ListLemmas TokenInv CondenseInv LexerProofs
  CondPatterns3 CondPattern CondSpaces CondInitialisms CondSuffixQuotes.
Require Import Tables_spellnorm SpellDecision SpellDecisionProofs C06Words C06WordsProofs C06AlnumProofs C06TextProofs
  C06Sentence C06SentenceProofs C06CondFun C06SentenceContr.
From Coq Require Import Lia.

(* ================= a sentence whose items lex one by one ================= *)
Section Lexes.
  Variable u : uni.

  Fixpoint lexes (its : list sitem) : Prop :=
    match its with
    | [] => True
    | it :: r => item_text it <> [] /\
                 lex_token u (item_text it ++ sent_text r) = Some (length (item_text it), item_kind it) /\ lexes r
    end.

  Lemma plain_lexes : forall its fuel pos, lexes its -> length (sent_text its) <= fuel ->
    plain_loop u fuel pos (sent_text its) = Ok (sent_tokens pos its).
  Proof.
    induction its as [|it r IH]; intros fuel pos H Hf.
    - cbn [sent_text flat_map sent_tokens]. apply plain_loop_nil.
    - cbn [lexes] in H. destruct H as (Hne & E & Hr).
      assert (Hl : length (sent_text (it :: r)) = length (item_text it) + length (sent_text r))
        by (cbn [sent_text flat_map]; apply app_length).
      assert (L1 : 1 <= length (item_text it)) by (destruct (item_text it); [contradiction|cbn [length]; lia]).
      destruct fuel as [|f]; [lia|].
      change (sent_text (it :: r)) with (item_text it ++ sent_text r).
      rewrite (plain_step_app u (item_text it) (sent_text r) f pos _ Hne E).
      rewrite (IH f (pos + length (item_text it)) Hr) by lia. reflexivity.
  Qed.
End Lexes.

Lemma expand_cons c r : expand (c :: r) = expand1 c ++ expand r.
Proof. reflexivity. Qed.

Lemma apos_item_kind q : is_apostrophe_char q = true -> item_kind (SPunct q) = KPunct PApostrophe.
Proof.
  unfold is_apostrophe_char, ceq. intros H. apply orb_prop in H as [H|H]; apply N.eqb_eq in H; subst q; reflexivity.
Qed.

Section ContrLexer.
  Variable u : uni.
  Hypothesis laws : letter_laws u.
  Hypothesis dlaw : digit_law u.

  Lemma citem_safe c : citem_ok u c = true -> forallb safe (sent_text (expand1 c)) = true.
  Proof.
    destruct c as [w|w1 q w2|n|x]; cbn [citem_ok expand1 sent_text flat_map item_text]; intros H; rewrite ?app_nil_r.
    - rewrite sword_body in H. apply (body_safe u laws). exact H.
    - apply andb_true_iff in H as [H _]. apply andb_true_iff in H as [H Hq]. apply andb_true_iff in H as [H1 H2].
      rewrite sword_body in H1, H2. rewrite !forallb_app. cbn [forallb].
      apply andb_true_iff; split; [exact (body_safe u laws w1 H1)|]. apply andb_true_iff; split; [|exact (body_safe u laws w2 H2)].
      rewrite andb_true_r. exact (apos_safe q Hq).
    - apply safe_32.
    - cbn [forallb]. rewrite (sep_punct_safe x H). reflexivity.
  Qed.

  Lemma sentc_safe cs : sentc_ok u cs = true -> forallb safe (sent_text (expand cs)) = true.
  Proof.
    induction cs as [|c r IH]; [reflexivity|]. cbn [sentc_ok]. intros H.
    apply andb_true_iff in H as [H Hr]. apply andb_true_iff in H as [Hi _].
    rewrite expand_cons, sent_text_app, forallb_app. apply andb_true_iff; split; [exact (citem_safe c Hi)|exact (IH Hr)].
  Qed.

  (* what follows a word-like item is a separator (or nothing); what follows a blank run is not a blank *)
  Lemma after_wordlike c r : sentc_ok u (c :: r) = true -> wordlike c = true -> sep_or_end (sent_text (expand r)).
  Proof.
    cbn [sentc_ok]. intros H Wc. apply andb_true_iff in H as [H Hr]. apply andb_true_iff in H as [_ Ha].
    destruct r as [|c' r']; [exact I|]. cbn [sentc_ok] in Hr. apply andb_true_iff in Hr as [Hr _].
    apply andb_true_iff in Hr as [Hi _]. cbn [cadjacent_ok] in Ha. rewrite Wc in Ha. apply andb_true_iff in Ha as [Ha _].
    cbn [andb] in Ha. apply negb_true_iff in Ha.
    rewrite expand_cons, sent_text_app.
    destruct c' as [w|w1 q w2|n|x]; cbn [wordlike] in Ha; try discriminate; cbn [citem_ok expand1 sent_text flat_map item_text] in *.
    - destruct n; [discriminate|]. reflexivity.
    - cbn [app sep_or_end]. unfold sep_char. rewrite Hi. apply orb_true_r.
  Qed.

  Lemma after_cs n r : sentc_ok u (CS n :: r) = true ->
    match sent_text (expand r) with [] => True | c :: _ => c <> 32%N end.
  Proof.
    cbn [sentc_ok]. intros H. apply andb_true_iff in H as [H Hr]. apply andb_true_iff in H as [_ Ha].
    destruct r as [|c' r']; [exact I|]. cbn [sentc_ok] in Hr. apply andb_true_iff in Hr as [Hr _].
    apply andb_true_iff in Hr as [Hi _]. cbn [cadjacent_ok wordlike andb negb] in Ha.
    rewrite expand_cons, sent_text_app.
    destruct c' as [w|w1 q w2|n'|x]; cbn [citem_ok expand1 sent_text flat_map item_text] in *; try discriminate.
    - destruct w as [|c0 t]; [discriminate|]. cbn [sword_ok] in Hi. apply andb_true_iff in Hi as [H0 _].
      cbn [app]. apply (ling_not_32 u laws). exact H0.
    - destruct w1 as [|c0 t]; [discriminate|]. cbn [sword_ok andb] in Hi. apply andb_true_iff in Hi as [Hi _].
      apply andb_true_iff in Hi as [Hi _]. apply andb_true_iff in Hi as [Hi _]. apply andb_true_iff in Hi as [H0 _].
      cbn [app]. apply (ling_not_32 u laws). exact H0.
    - cbn [app]. intros ->. destruct sep_punct_consts as (S32 & _). rewrite S32 in Hi. discriminate.
  Qed.

  (* ----- a word followed by an apostrophe and another word ----- *)
  Lemma lex_word_apos a q rest : word_body u a = true -> is_apostrophe_char q = true ->
    lex_word u (a ++ q :: rest) = Some (length a, KWord).
  Proof.
    intros Ha Hq. unfold lex_word. change (fun c => u_lingual u c || is_ascii_digit c) with (wordc u).
    assert (E : count_while (wordc u) (a ++ q :: rest) = length a)
      by (apply count_while_app_stop; [exact (body_wordc u a Ha)|exact (apos_not_wordc u laws q Hq)]).
    rewrite E.
    destruct a; [discriminate|]. reflexivity.
  Qed.

  Lemma plural_digit_apos a q b rest : word_body u a = true -> is_apostrophe_char q = true -> word_body u b = true ->
    glued a q b = false -> sep_or_end rest ->
    lex_plural_digit u (a ++ q :: b ++ rest) = None \/ lex_plural_digit u (a ++ q :: b ++ rest) = Some (length a, KWord).
  Proof.
    intros Ha Hq Hb Hg Ht. destruct (body_inv u a Ha) as (c0 & a' & -> & H0 & Ha'). cbn [app]. unfold lex_plural_digit.
    destruct (negb (is_ascii_alphanumeric c0)); [left; reflexivity|].
    destruct a' as [|c1 a''].
    - cbn [app]. destruct (body_inv u b Hb) as (d0 & b' & -> & Hd0 & Hb'). cbn [app].
      destruct (ceq q 39) eqn:E39.
      + destruct (ceq d0 115) eqn:E115; [|left; reflexivity].
        destruct b' as [|d1 b''].
        * exfalso. unfold glued in Hg. cbn [length Nat.eqb] in Hg. rewrite E39, E115 in Hg. discriminate.
        * cbn [app forallb] in *. apply andb_true_iff in Hb' as [Hd1 _]. rewrite (wordc_alnum u laws dlaw d1 Hd1).
          left; reflexivity.
      + destruct (apos_cases q Hq) as [->| ->]; [vm_compute in E39; discriminate|]. left; reflexivity.
    - cbn [app forallb] in *. apply andb_true_iff in Ha' as [H1 Ha''].
      rewrite (wordc_not_39 u laws c1 H1).
      destruct (ceq c1 115); [|left; reflexivity].
      destruct a'' as [|d a3].
      + cbn [app]. destruct (negb (u_alphanumeric u q)); [right; reflexivity|left; reflexivity].
      + cbn [app forallb] in *. apply andb_true_iff in Ha'' as [Hd _]. rewrite (wordc_alnum u laws dlaw d Hd).
        left; reflexivity.
  Qed.

  Lemma lex_token_word_apos a q b rest : word_body u a = true -> is_apostrophe_char q = true -> word_body u b = true ->
    glued a q b = false -> sep_or_end rest -> forallb safe (a ++ q :: b ++ rest) = true ->
    lex_token u (a ++ q :: b ++ rest) = Some (length a, KWord).
  Proof.
    intros Ha Hq Hb Hg Ht Hs.
    assert (D : lex_token u (a ++ q :: b ++ rest) =
                or_else (lex_plural_digit u (a ++ q :: b ++ rest))
                        (or_else (lex_word u (a ++ q :: b ++ rest)) (lex_catch (a ++ q :: b ++ rest)))).
    { destruct (body_inv u a Ha) as (c0 & a' & E & H0 & _). rewrite E in *. cbn [app] in *.
      apply (letter_start_dispatch u laws); assumption. }
    rewrite D, (lex_word_apos a q _ Ha Hq).
    destruct (plural_digit_apos a q b rest Ha Hq Hb Hg Ht) as [E|E]; rewrite E; reflexivity.
  Qed.

  Lemma body_nonempty w : word_body u w = true -> w <> [].
  Proof. destruct w; [discriminate|discriminate]. Qed.

  Lemma lexes_expand : forall cs, sentc_ok u cs = true -> lexes u (expand cs).
  Proof.
    induction cs as [|c r IH]; intros H; [exact I|].
    pose proof (sentc_safe _ H) as Hs. rewrite expand_cons, sent_text_app in Hs.
    pose proof H as H'. cbn [sentc_ok] in H'. apply andb_true_iff in H' as [H' Hr]. apply andb_true_iff in H' as [Hi _].
    specialize (IH Hr).
    destruct c as [w|w1 q w2|n|x]; cbn [citem_ok] in Hi.
    - change (expand (CW w :: r)) with (SWord w :: expand r). cbn [lexes item_text item_kind].
      rewrite sword_body in Hi. split; [exact (body_nonempty w Hi)|]. split; [|exact IH].
      cbn [expand1 sent_text flat_map item_text] in Hs. rewrite app_nil_r in Hs.
      apply (lex_token_word u laws dlaw); [exact Hi|exact (after_wordlike _ r H eq_refl)|exact Hs].
    - change (expand (CC w1 q w2 :: r)) with (SWord w1 :: SPunct q :: SWord w2 :: expand r).
      apply andb_true_iff in Hi as [Hi Hg]. apply andb_true_iff in Hi as [Hi Hq]. apply andb_true_iff in Hi as [H1 H2].
      rewrite sword_body in H1, H2. apply negb_true_iff in Hg.
      pose proof (after_wordlike _ r H eq_refl) as Aft.
      change (sent_text (expand1 (CC w1 q w2))) with (w1 ++ [q] ++ w2 ++ []) in Hs.
      rewrite app_nil_r in Hs. rewrite <- !app_assoc in Hs. cbn [app] in Hs.
      cbn [lexes item_text item_kind].
      change (sent_text (SPunct q :: SWord w2 :: expand r)) with (q :: w2 ++ sent_text (expand r)).
      change (sent_text (SWord w2 :: expand r)) with (w2 ++ sent_text (expand r)).
      split; [exact (body_nonempty w1 H1)|]. split.
      { apply lex_token_word_apos; assumption. }
      split; [discriminate|]. split.
      { cbn [app length]. fold (item_kind (SPunct q)). rewrite (apos_item_kind q Hq).
        apply (lex_token_apostrophe u q _ Hq). }
      split; [exact (body_nonempty w2 H2)|]. split; [|exact IH].
      apply (lex_token_word u laws dlaw); [exact H2|exact Aft|].
      rewrite forallb_app in Hs. apply andb_true_iff in Hs as [_ Hs]. cbn [forallb] in Hs.
      apply andb_true_iff in Hs as [_ Hs]. exact Hs.
    - change (expand (CS n :: r)) with (SSpace n :: expand r). cbn [lexes item_text item_kind].
      split; [destruct n; [discriminate|cbn [repeat]; discriminate]|]. split; [|exact IH].
      rewrite repeat_length. apply lex_token_spaces; [apply Nat.ltb_lt; exact Hi|exact (after_cs n r H)].
    - change (expand (CP x :: r)) with (SPunct x :: expand r). cbn [lexes item_text].
      split; [discriminate|]. split; [|exact IH]. cbn [app length]. apply (lex_token_punct u x _ Hi).
  Qed.

  Lemma plain_parse_contr cs : sentc_ok u cs = true ->
    plain_parse u (sent_text (expand cs)) = Ok (sent_tokens 0 (expand cs)).
  Proof. intros H. unfold plain_parse. apply plain_lexes; [exact (lexes_expand cs H)|lia]. Qed.
End ContrLexer.

(* ================= kinds ================= *)
Definition simple3 (k : tkind) : bool := simple_kind k || is_apostrophe k.
Fixpoint no_adjk (ks : list tkind) : Prop :=
  match ks with
  | k1 :: r => match r with
               | k2 :: _ => ~ (is_space_kind k1 = true /\ is_space_kind k2 = true)
               | [] => True
               end /\ no_adjk r
  | [] => True
  end.

Lemma no_adjk_spaces : forall ts, no_adjk (map tkind_of ts) -> no_adj_spaces ts.
Proof.
  induction ts as [|t r IH]; [intros _; exact I|]. cbn [map no_adjk no_adj_spaces]. intros [A B]. split; [|exact (IH B)].
  destruct r as [|t2 r']; [exact I|exact A].
Qed.

Lemma sent_tokens_kinds : forall its pos, map tkind_of (sent_tokens pos its) = map item_kind its.
Proof. induction its as [|it r IH]; intros pos; [reflexivity|]. cbn [sent_tokens map tkind_of]. rewrite IH. reflexivity. Qed.

Lemma forall_kinds (P : tkind -> bool) ts : Forall (fun k => P k = true) (map tkind_of ts) ->
  Forall (fun t => P (tkind_of t) = true) ts.
Proof. intros H. apply Forall_map in H. exact H. Qed.

Lemma sep_item_kind c : sep_punct c = true ->
  simple_kind (item_kind (SPunct c)) = true /\ is_space_kind (item_kind (SPunct c)) = false /\
  is_apostrophe (item_kind (SPunct c)) = false /\ is_word (item_kind (SPunct c)) = false.
Proof.
  intros H. destruct (sep_punct_inv c H) as (p & P & K & _). cbn [item_kind]. rewrite P.
  split; [exact K|]. split; [reflexivity|]. split; [|reflexivity]. destruct p; try reflexivity. discriminate.
Qed.

Section ContrKinds.
  Variable u : uni.

  Lemma expand_kinds : forall cs, sentc_ok u cs = true ->
    Forall (fun k => simple3 k = true) (map item_kind (expand cs)) /\ no_adjk (map item_kind (expand cs)).
  Proof.
    induction cs as [|c r IH]; intros H; [split; [constructor|exact I]|].
    pose proof H as H'. cbn [sentc_ok] in H'. apply andb_true_iff in H' as [H' Hr]. apply andb_true_iff in H' as [Hi Ha].
    destruct (IH Hr) as [F NA].
    destruct c as [w|w1 q w2|n|x]; cbn [citem_ok] in Hi.
    - change (expand (CW w :: r)) with (SWord w :: expand r). cbn [map item_kind no_adjk]. split; [constructor; [reflexivity|exact F]|].
      split; [|exact NA]. destruct (map item_kind (expand r)); [exact I|]. intros [A _]. discriminate A.
    - change (expand (CC w1 q w2 :: r)) with (SWord w1 :: SPunct q :: SWord w2 :: expand r).
      apply andb_true_iff in Hi as [Hi _]. apply andb_true_iff in Hi as [_ Hq].
      cbn [map no_adjk]. rewrite (apos_item_kind q Hq). cbn [item_kind].
      split; [repeat constructor; exact F|].
      split; [intros [A _]; discriminate A|]. split; [intros [A _]; discriminate A|].
      split; [|exact NA]. destruct (map item_kind (expand r)); [exact I|]. intros [A _]. discriminate A.
    - change (expand (CS n :: r)) with (SSpace n :: expand r). cbn [map item_kind no_adjk].
      split; [constructor; [reflexivity|exact F]|]. split; [|exact NA].
      destruct r as [|c' r']; [exact I|]. cbn [cadjacent_ok wordlike andb negb] in Ha.
      cbn [sentc_ok] in Hr. apply andb_true_iff in Hr as [Hr _]. apply andb_true_iff in Hr as [Hi' _].
      destruct c' as [w|w1 q w2|n'|x]; try discriminate.
      + change (expand (CW w :: r')) with (SWord w :: expand r'). cbn [map item_kind]. intros [_ B]. discriminate B.
      + change (expand (CC w1 q w2 :: r')) with (SWord w1 :: SPunct q :: SWord w2 :: expand r'). cbn [map item_kind].
        intros [_ B]. discriminate B.
      + change (expand (CP x :: r')) with (SPunct x :: expand r'). cbn [map]. cbn [citem_ok] in Hi'.
        destruct (sep_item_kind x Hi') as (_ & Sp & _). intros [_ B]. rewrite Sp in B. discriminate B.
    - change (expand (CP x :: r)) with (SPunct x :: expand r). cbn [map no_adjk].
      destruct (sep_item_kind x Hi) as (Si & Sp & _).
      split; [constructor; [unfold simple3; rewrite Si; reflexivity|exact F]|]. split; [|exact NA].
      destruct (map item_kind (expand r)); [exact I|]. intros [A _]. rewrite Sp in A. discriminate A.
  Qed.

  Lemma collapse_kinds : forall cs, sentc_ok u cs = true ->
    Forall (fun k => simple_kind k = true) (map item_kind (collapse cs)) /\ no_adjk (map item_kind (collapse cs)).
  Proof.
    induction cs as [|c r IH]; intros H; [split; [constructor|exact I]|].
    pose proof H as H'. cbn [sentc_ok] in H'. apply andb_true_iff in H' as [H' Hr]. apply andb_true_iff in H' as [Hi Ha].
    destruct (IH Hr) as [F NA]. cbn [collapse map] in *. fold (collapse r) in *.
    destruct c as [w|w1 q w2|n|x]; cbn [citem_ok collapse1 item_kind no_adjk] in *.
    - split; [constructor; [reflexivity|exact F]|]. split; [|exact NA].
      destruct (map item_kind (collapse r)); [exact I|]. intros [A _]. discriminate A.
    - split; [constructor; [reflexivity|exact F]|]. split; [|exact NA].
      destruct (map item_kind (collapse r)); [exact I|]. intros [A _]. discriminate A.
    - split; [constructor; [reflexivity|exact F]|]. split; [|exact NA].
      destruct r as [|c' r']; [exact I|]. cbn [cadjacent_ok wordlike andb negb] in Ha.
      cbn [sentc_ok] in Hr. apply andb_true_iff in Hr as [Hr _]. apply andb_true_iff in Hr as [Hi' _].
      cbn [collapse map].
      destruct c' as [w|w1 q w2|n'|x]; try discriminate; cbn [collapse1 item_kind]; try (intros [_ B]; discriminate B).
      cbn [citem_ok] in Hi'. destruct (sep_item_kind x Hi') as (_ & Sp & _). intros [_ B]. cbn [item_kind] in Sp. rewrite Sp in B. discriminate B.
    - destruct (sep_item_kind x Hi) as (Si & Sp & _). cbn [item_kind] in Si, Sp.
      split; [constructor; [exact Si|exact F]|]. split; [|exact NA].
      destruct (map item_kind (collapse r)); [exact I|]. intros [A _]. rewrite Sp in A. discriminate A.
  Qed.
End ContrKinds.

(* ================= the passes before and after condense_contractions ================= *)
Lemma simple3_in ts pre g rest t : Forall (fun t => simple3 (tkind_of t) = true) ts -> ts = pre ++ g ++ rest -> In t g ->
  simple3 (tkind_of t) = true.
Proof.
  intros F -> Hin. rewrite Forall_forall in F. apply F. apply in_or_app. right. apply in_or_app. left. exact Hin.
Qed.

Lemma front_id src ts : Tiling 0 (length src) ts -> Forall (fun t => simple3 (tkind_of t) = true) ts -> no_adj_spaces ts ->
  condense_spaces ts = Ok ts /\ condense_newlines ts = Ok ts /\ newlines_to_breaks ts = ts /\
  condense_number_suffixes src ts = Ok ts.
Proof.
  intros T F2 NA.
  destruct (condense_spaces_grouped _ _ ts T) as (t1 & E1 & G1).
  assert (t1 = ts) as ->.
  { apply (grouped_id _ _ _ G1 []). cbn [app]. intros pre g rest k E Hne [S|(a & b & n1 & n2 & -> & Ka & Kb & _)]; [exact S|].
    exfalso. rewrite E in NA. cbn [app] in NA. apply (no_adj_at pre a b rest NA). rewrite Ka, Kb. split; reflexivity. }
  destruct (condense_newlines_grouped _ _ ts T) as (t2 & E2 & G2).
  assert (t2 = ts) as ->.
  { apply (grouped_id _ _ _ G2 []). cbn [app]. intros pre g rest k E Hne [S|(ns & L & M & _)]; [exact S|].
    exfalso. destruct g as [|t g']; [contradiction|]. destruct ns as [|n ns']; [discriminate|].
    cbn [map] in M. injection M as M _. pose proof (simple3_in ts pre (t :: g') rest t F2 E (or_introl eq_refl)) as K.
    rewrite M in K. discriminate. }
  destruct (condense_number_suffixes_grouped src ts T) as (t4 & E4 & G4).
  assert (t4 = ts) as ->.
  { apply (grouped_id _ _ _ G4 []). cbn [app]. intros pre g rest k E Hne [S|(a & b & nb & cs & sfx & -> & Ka & _)]; [exact S|].
    exfalso. pose proof (simple3_in ts pre [a; b] rest a F2 E (or_introl eq_refl)) as K. rewrite Ka in K. discriminate. }
  split; [exact E1|]. split; [exact E2|]. split; [|exact E4].
  unfold newlines_to_breaks. clear - F2. induction F2 as [|t r Ht _ IH]; [reflexivity|]. cbn [map]. rewrite IH. f_equal.
  unfold newline_to_break. destruct (tkind_of t) eqn:K; try reflexivity. discriminate.
Qed.

Lemma back_id src ts : Tiling 0 (length src) ts -> simple_toks ts ->
  condense_dotted_initialisms ts = Ok ts /\ condense_ellipsis src ts = Ok ts /\ condense_latin src ts = Ok ts /\
  match_quotes ts = Ok ts /\ word_lookup_check src ts = Ok tt.
Proof.
  intros T F.
  destruct (condense_dotted_initialisms_grouped _ _ ts T) as (t6 & E6 & G6).
  assert (t6 = ts) as ->.
  { apply (grouped_id _ _ _ G6 []). cbn [app]. intros pre g rest k E Hne [S|(IP & _)]; [exact S|].
    exfalso. assert (exists w p r, g = w :: p :: r /\ is_period (tkind_of p) = true) as (w & p & r & -> & Pp).
    { inversion IP; subst; eauto. }
    pose proof (simple_in ts pre (w :: p :: r) rest p F E (or_intror (or_introl eq_refl))) as K.
    rewrite (period_not_simple _ Pp) in K. discriminate. }
  destruct (ellipsis_ok src ts) as [Ok7 Mo7].
  destruct (condense_pattern_grouped (ellipsis_matches src) (fun _ => KPunct PEllipsis) _ _ ts T Ok7 Mo7) as (t7 & E7 & G7).
  assert (t7 = ts) as ->.
  { apply (grouped_id _ _ _ G7 []). cbn [app]. intros pre g rest k E Hne [S|(rest' & M & _)]; [exact S|].
    exfalso. destruct (ellipsis_match_inv src g rest' Hne M) as [_ FP]. destruct g as [|t g']; [contradiction|].
    pose proof (Forall_inv FP) as Pt. cbn beta in Pt.
    pose proof (simple_in ts pre (t :: g') rest t F E (or_introl eq_refl)) as K.
    rewrite (period_not_simple _ Pt) in K. discriminate. }
  destruct (latin_ok src ts T) as [Ok8 Mo8].
  destruct (condense_pattern_grouped_in (latin_matches src) (fun k => k) _ _ ts T Ok8 Mo8) as (t8 & E8 & G8).
  assert (t8 = ts) as ->.
  { apply (grouped_id _ _ _ G8 []). cbn [app]. intros pre g rest k E Hne [S|(pre' & rest' & E' & M & _)]; [exact S|].
    exfalso. pose proof (tiling_tok_ok src ts T) as OKts. rewrite E' in OKts. apply Forall_app in OKts as [_ OK].
    assert (exists p, In p g /\ is_period (tkind_of p) = true) as (p & Hin & Pp).
    { destruct (latin_match_inv src g rest' Hne OK M)
        as [(w & p & -> & _ & Pp & _)|(w1 & ws & w2 & p & -> & _ & _ & _ & _ & Pp & _)].
      - exists p. split; [right; left; reflexivity|exact Pp].
      - exists p. split; [|exact Pp]. right. apply in_or_app. right. right. left. reflexivity. }
    pose proof (simple_in ts pre g rest p F E Hin) as K. rewrite (period_not_simple _ Pp) in K. discriminate. }
  split; [exact E6|]. split; [exact E7|]. split; [exact E8|].
  split; [unfold match_quotes; rewrite (quote_indices_none ts 0 F); reflexivity|exact (word_lookup_ok src ts T)].
Qed.

(* ================= condense_contractions, functionally ================= *)
Definition is_word_item (it : sitem) : bool := match it with SWord _ => true | _ => false end.
Definition is_apos_item (it : sitem) : bool :=
  match it with SPunct q => match punct_from_char q with Some PApostrophe => true | _ => false end | _ => false end.
Definition pat (its : list sitem) : bool :=
  match its with
  | a :: r1 => is_word_item a && match r1 with
                                 | b :: r2 => is_apos_item b && match r2 with c :: _ => is_word_item c | [] => false end
                                 | [] => false
                                 end
  | [] => false
  end.
Fixpoint found (its : list sitem) (i : nat) : list span :=
  match its with
  | [] => []
  | _ :: t => if pat its then mkspan i (i + 3) :: found t (S i) else found t (S i)
  end.

Lemma word_item_kind it : is_word (item_kind it) = is_word_item it.
Proof. destruct it as [w|n|c]; try reflexivity. cbn [item_kind]. destruct (punct_from_char c); reflexivity. Qed.
Lemma apos_item_kind_b it : is_apostrophe (item_kind it) = is_apos_item it.
Proof.
  destruct it as [w|n|c]; try reflexivity. cbn [item_kind is_apos_item]. destruct (punct_from_char c) as [p|]; [|reflexivity].
  destruct p; reflexivity.
Qed.

Lemma cm_pat src its pos : contraction_matches src (sent_tokens pos its) = Ok (if pat its then 3 else 0).
Proof.
  destruct its as [|a [|b [|c r]]]; cbn [sent_tokens contraction_matches pat tkind_of]; rewrite ?andb_false_r; try reflexivity.
  rewrite !word_item_kind, apos_item_kind_b, <- andb_assoc.
  destruct (is_word_item a && (is_apos_item b && is_word_item c)); reflexivity.
Qed.

Lemma fam_found src : forall its pos i, fam_scan (contraction_matches src) (sent_tokens pos its) i = Ok (found its i).
Proof.
  induction its as [|it r IH]; intros pos i; [reflexivity|].
  pose proof (cm_pat src (it :: r) pos) as M. cbn [sent_tokens] in M |- *. cbn [fam_scan]. rewrite M. cbn [bind].
  rewrite IH. cbn [bind found]. destruct (pat (it :: r)); reflexivity.
Qed.

Section ContrMerge.
  Variable u : uni.

  Lemma pat_after_wordlike w c r : sentc_ok u (c :: r) = true -> wordlike c = true -> pat (SWord w :: expand r) = false.
  Proof.
    cbn [sentc_ok]. intros H Wc. apply andb_true_iff in H as [H Hr]. apply andb_true_iff in H as [_ Ha].
    destruct r as [|c' r']; [reflexivity|]. cbn [sentc_ok] in Hr. apply andb_true_iff in Hr as [Hr _].
    apply andb_true_iff in Hr as [Hi _]. cbn [cadjacent_ok] in Ha. rewrite Wc in Ha. apply andb_true_iff in Ha as [Ha _].
    cbn [andb] in Ha. apply negb_true_iff in Ha.
    destruct c' as [w'|w1 q w2|n|x]; cbn [wordlike] in Ha; try discriminate.
    - change (expand (CS n :: r')) with (SSpace n :: expand r'). reflexivity.
    - change (expand (CP x :: r')) with (SPunct x :: expand r'). cbn [pat is_word_item andb].
      cbn [citem_ok] in Hi. destruct (sep_item_kind x Hi) as (_ & _ & Ap & _). rewrite apos_item_kind_b in Ap. rewrite Ap. reflexivity.
  Qed.

  Lemma found_cw w r lo : sentc_ok u (CW w :: r) = true -> found (expand (CW w :: r)) lo = found (expand r) (S lo).
  Proof.
    intros H. change (expand (CW w :: r)) with (SWord w :: expand r). cbn [found].
    rewrite (pat_after_wordlike w _ r H eq_refl). reflexivity.
  Qed.

  Lemma found_cc w1 q w2 r lo : sentc_ok u (CC w1 q w2 :: r) = true ->
    found (expand (CC w1 q w2 :: r)) lo = mkspan lo (lo + 3) :: found (expand r) (lo + 3).
  Proof.
    intros H. change (expand (CC w1 q w2 :: r)) with (SWord w1 :: SPunct q :: SWord w2 :: expand r).
    pose proof H as H'. cbn [sentc_ok citem_ok] in H'. apply andb_true_iff in H' as [H' _]. apply andb_true_iff in H' as [Hi _].
    apply andb_true_iff in Hi as [Hi _]. apply andb_true_iff in Hi as [_ Hq].
    assert (Aq : is_apos_item (SPunct q) = true) by (rewrite <- apos_item_kind_b, (apos_item_kind q Hq); reflexivity).
    assert (P1 : pat (SWord w1 :: SPunct q :: SWord w2 :: expand r) = true) by (cbn [pat is_word_item andb]; rewrite Aq; reflexivity).
    assert (P2 : pat (SPunct q :: SWord w2 :: expand r) = false) by reflexivity.
    cbn [found]. rewrite P1, P2, (pat_after_wordlike w2 _ r H eq_refl). replace (S (S (S lo))) with (lo + 3) by lia. reflexivity.
  Qed.

  Lemma found_chain : forall cs lo, sentc_ok u cs = true ->
    Chain (lo + length (expand cs)) lo (found (expand cs) lo).
  Proof.
    induction cs as [|c r IH]; intros lo H; [exact I|].
    pose proof H as H'. cbn [sentc_ok] in H'. apply andb_true_iff in H' as [_ Hr].
    destruct c as [w|w1 q w2|n|x].
    - rewrite (found_cw w r lo H). change (expand (CW w :: r)) with (SWord w :: expand r). cbn [length].
      apply (chain_weaken _ (S lo)); [lia|]. replace (lo + S (length (expand r))) with (S lo + length (expand r)) by lia.
      exact (IH (S lo) Hr).
    - rewrite (found_cc w1 q w2 r lo H). change (expand (CC w1 q w2 :: r)) with (SWord w1 :: SPunct q :: SWord w2 :: expand r).
      cbn [length Chain sstart send]. split; [lia|]. split; [lia|]. split; [lia|].
      replace (lo + S (S (S (length (expand r))))) with (lo + 3 + length (expand r)) by lia. exact (IH (lo + 3) Hr).
    - change (expand (CS n :: r)) with (SSpace n :: expand r). cbn [found pat is_word_item andb length].
      apply (chain_weaken _ (S lo)); [lia|]. replace (lo + S (length (expand r))) with (S lo + length (expand r)) by lia.
      exact (IH (S lo) Hr).
    - change (expand (CP x :: r)) with (SPunct x :: expand r). cbn [found pat is_word_item andb length].
      apply (chain_weaken _ (S lo)); [lia|]. replace (lo + S (length (expand r))) with (S lo + length (expand r)) by lia.
      exact (IH (S lo) Hr).
  Qed.

  Lemma regroup_shift e n lo kept x suf : Chain n (S lo) kept ->
    regroup e lo kept (x :: suf) = x :: regroup e (S lo) kept suf.
  Proof.
    destruct kept as [|[st en] r]; [reflexivity|]. cbn [Chain sstart send]. intros (A & B & _).
    cbn [regroup sstart send]. replace (st - lo) with (S (st - S lo)) by lia. replace (en - lo) with (S (en - S lo)) by lia.
    reflexivity.
  Qed.

  Lemma regroup_collapse : forall cs lo pos, sentc_ok u cs = true ->
    regroup (fun k => k) lo (found (expand cs) lo) (sent_tokens pos (expand cs)) = sent_tokens pos (collapse cs).
  Proof.
    induction cs as [|c r IH]; intros lo pos H; [reflexivity|].
    pose proof H as H'. cbn [sentc_ok] in H'. apply andb_true_iff in H' as [_ Hr].
    pose proof (found_chain r (S lo) Hr) as C1.
    destruct c as [w|w1 q w2|n|x].
    - rewrite (found_cw w r lo H). change (expand (CW w :: r)) with (SWord w :: expand r). cbn [sent_tokens collapse map collapse1].
      rewrite (regroup_shift _ _ _ _ _ _ C1). f_equal. apply (IH (S lo) _ Hr).
    - rewrite (found_cc w1 q w2 r lo H). change (expand (CC w1 q w2 :: r)) with (SWord w1 :: SPunct q :: SWord w2 :: expand r).
      cbn [sent_tokens collapse map collapse1 item_text item_kind regroup sstart send].
      rewrite Nat.sub_diag. replace (lo + 3 - lo) with 3 by lia. cbn [firstn skipn app hd tkind_of].
      f_equal.
      + unfold group_token, group_start, group_end. cbn [last tstart tend tspan sstart send length]. f_equal. f_equal.
        rewrite app_length. cbn [length]. lia.
      + fold (collapse r). rewrite (IH (lo + 3) _ Hr). f_equal. rewrite app_length. cbn [length]. lia.
    - change (expand (CS n :: r)) with (SSpace n :: expand r). cbn [found pat is_word_item andb sent_tokens collapse map collapse1].
      rewrite (regroup_shift _ _ _ _ _ _ C1). f_equal. apply (IH (S lo) _ Hr).
    - change (expand (CP x :: r)) with (SPunct x :: expand r). cbn [found pat is_word_item andb sent_tokens collapse map collapse1].
      rewrite (regroup_shift _ _ _ _ _ _ C1). f_equal. apply (IH (S lo) _ Hr).
  Qed.

  Lemma collapse_text : forall cs, sent_text (collapse cs) = sent_text (expand cs).
  Proof.
    induction cs as [|c r IH]; [reflexivity|]. rewrite expand_cons, sent_text_app. cbn [collapse map sent_text flat_map].
    fold (collapse r). fold (sent_text (collapse r)). rewrite IH. f_equal.
    destruct c; cbn [collapse1 expand1 item_text sent_text flat_map]; rewrite ?app_nil_r; reflexivity.
  Qed.
End ContrMerge.

(* ================= the sentence theorems ================= *)
Section SentenceContr.
  Variable u : uni.
  Hypothesis laws : letter_laws u.
  Hypothesis dlaw : digit_law u.

  Theorem sentc_document cs : sentc_ok u cs = true ->
    document_plain u (sent_text (expand cs)) = Ok (sent_tokens 0 (collapse cs)).
  Proof.
    intros H. unfold document_plain. pose proof (plain_parse_contr u laws dlaw cs H) as E.
    set (src := sent_text (expand cs)) in *. set (ts := sent_tokens 0 (expand cs)) in *.
    destruct (plain_tiling u src) as (ts' & E' & T). rewrite E in E'. injection E' as <-.
    rewrite E. cbn [bind].
    destruct (expand_kinds u cs H) as [K3 NAk].
    assert (F3 : Forall (fun t => simple3 (tkind_of t) = true) ts).
    { apply forall_kinds. unfold ts. rewrite sent_tokens_kinds. exact K3. }
    assert (NA : no_adj_spaces ts) by (apply no_adjk_spaces; unfold ts; rewrite sent_tokens_kinds; exact NAk).
    destruct (front_id src ts T F3 NA) as (E1 & E2 & E3 & E4).
    unfold document_passes. rewrite E1. cbn [bind]. rewrite E2. cbn [bind]. rewrite E3, E4. cbn [bind].
    (* condense_contractions: every Word ' Word is merged *)
    assert (E5 : condense_contractions src ts = Ok (sent_tokens 0 (collapse cs))).
    { unfold condense_contractions.
      rewrite (condense_pattern_fun (fun k => k) ts 0 (length src) T (contraction_matches src) (found (expand cs) 0)).
      - unfold ts. rewrite (regroup_collapse u cs 0 0 H). reflexivity.
      - unfold ts. apply fam_found.
      - unfold ts. rewrite sent_tokens_length. exact (found_chain u cs 0 H). }
    rewrite E5. cbn [bind].
    assert (T5 : Tiling 0 (length src) (sent_tokens 0 (collapse cs))).
    { destruct (contraction_ok src ts) as [Ok5 Mo5].
      destruct (condense_pattern_grouped_in (contraction_matches src) (fun k => k) _ _ ts T Ok5 Mo5) as (t5 & E5' & G5).
      unfold condense_contractions in E5. rewrite E5 in E5'. injection E5' as <-.
      exact (grouped_tiling _ _ _ G5 _ _ T). }
    destruct (collapse_kinds u cs H) as [K1 _].
    assert (F1 : simple_toks (sent_tokens 0 (collapse cs))).
    { unfold simple_toks. apply forall_kinds. rewrite sent_tokens_kinds. exact K1. }
    destruct (back_id src _ T5 F1) as (E6 & E7 & E8 & E9 & E10).
    rewrite E6. cbn [bind]. rewrite E7. cbn [bind]. rewrite E8. cbn [bind]. rewrite E9. cbn [bind]. rewrite E10. reflexivity.
  Qed.

  Theorem sentc_doc_words cs : sentc_ok u cs = true ->
    doc_words u (sent_text (expand cs)) = Ok (sent_words 0 (collapse cs)).
  Proof. intros H. unfold doc_words. rewrite (sentc_document cs H). cbn [bind]. rewrite sent_word_spans. reflexivity. Qed.
End SentenceContr.

(* ================= C06 on a sentence with contractions: no premise about tokens ================= *)
Lemma collapse_word_nonempty u : forall cs pre w post, sentc_ok u cs = true -> collapse cs = pre ++ SWord w :: post -> w <> [].
Proof.
  induction cs as [|c r IH]; intros pre w post H E; [destruct pre; discriminate|].
  cbn [sentc_ok] in H. apply andb_true_iff in H as [H Hr]. apply andb_true_iff in H as [Hi _].
  destruct pre as [|p pre]; cbn [collapse map app] in E.
  - injection E as E _. destruct c as [x|w1 q w2|n|x]; cbn [collapse1] in E; try discriminate; injection E as <-.
    + cbn [citem_ok] in Hi. destruct x; discriminate.
    + destruct w1; discriminate.
  - injection E as _ E. exact (IH pre w post Hr E).
Qed.

Section SentenceContrLint.
  Variable u : uni.
  Variable lc uc : char -> list char.
  Variable is_lower is_upper : char -> bool.
  Variable fuzzy : dict -> text -> nat -> list text.
  Hypothesis laws : letter_laws u.
  Hypothesis dlaw : digit_law u.

  Lemma word_item_token_contr cs pre w post : sentc_ok u cs = true -> collapse cs = pre ++ SWord w :: post ->
    doc_words u (sent_text (expand cs)) = Ok (sent_words 0 (collapse cs)) /\
    In (word_at pre w) (sent_words 0 (collapse cs)) /\
    get_content (word_at pre w) (sent_text (expand cs)) = Ok w.
  Proof.
    intros H E. split; [exact (sentc_doc_words u laws dlaw cs H)|]. rewrite <- (collapse_text cs), E.
    split; [exact (sent_words_in pre w post 0)|].
    rewrite sent_text_mid. apply get_content_mid. exact (collapse_word_nonempty u cs pre w post H E).
  Qed.

  Theorem sentc_unlisted_reported (H_uc : forall c, uc c <> []) (HF : fuzzy_listed fuzzy) D d cs pre w post :
    dict_nodup lc is_lower D -> sentc_ok u cs = true -> collapse cs = pre ++ SWord w :: post ->
    (forall e, In e D -> word_id lc is_lower (canon e) <> word_id lc is_lower w) ->
    exists ls sg, lint_text u lc uc is_lower is_upper fuzzy D d (sent_text (expand cs)) = Ok ls /\
                  In (mkslint (word_at pre w) sg) ls.
  Proof.
    intros ND H E Hun. destruct (word_item_token_contr cs pre w post H E) as (Ew & Hin & G).
    exact (text_unlisted_reported u lc uc is_lower is_upper fuzzy H_uc HF D d _ _ _ w ND Ew Hin G Hun).
  Qed.

  Theorem sentc_listed_accepted (HL : lower_fix lc is_lower) D d e cs pre w post ls :
    dict_nodup lc is_lower D -> In e D -> dialect_ok (edialect e) d = true ->
    sentc_ok u cs = true -> collapse cs = pre ++ SWord w :: post -> listed_form lc uc is_lower e w ->
    lint_text u lc uc is_lower is_upper fuzzy D d (sent_text (expand cs)) = Ok ls ->
    forall l, In l ls -> sl_span l <> word_at pre w.
  Proof.
    intros ND Hin Hd H E Hw L. destruct (word_item_token_contr cs pre w post H E) as (Ew & Hsp & G).
    exact (text_listed_accepted u lc uc is_lower is_upper fuzzy HL D d e _ _ _ w ls ND Hin Hd Ew Hsp G Hw L).
  Qed.

  Theorem sentc_lints_on_words (HF : fuzzy_listed fuzzy) D d cs ls l :
    dict_nodup lc is_lower D -> sentc_ok u cs = true ->
    lint_text u lc uc is_lower is_upper fuzzy D d (sent_text (expand cs)) = Ok ls -> In l ls ->
    exists pre w post, collapse cs = pre ++ SWord w :: post /\ sl_span l = word_at pre w.
  Proof.
    intros ND H L Hl.
    destruct (text_suggestions_in_dictionary u lc uc is_lower is_upper fuzzy HF D d _ ls l ND L Hl) as ((words & Ew & Hin) & _).
    rewrite (sentc_doc_words u laws dlaw cs H) in Ew. injection Ew as <-.
    destruct (sent_words_from (collapse cs) 0 _ Hin) as (pre & w & post & E & Es). exists pre, w, post. split; [exact E|exact Es].
  Qed.
End SentenceContrLint.
