(* IgnoreWitness.v — concrete documents for C14: the witnesses of the findings F12, F13, F13e and C16-N1 that
   the fix commits 8948350, 4550195 and 483b7cf repaired (now regression inputs: the current context
   handles each of them as the property asks; History/C14History.v shows that the old context did not),
   and the witness of the one finding that is still open, F13d (the context is ONE flat token list).
   The documents below are the token lists the implementation produces (dumped by
   harness/src/bin/c14.rs from the real Document; regenerate with tools/c14_witness.py <name> < one X case line, from the
   X case lines of corpus/C14/*.json).  Word metadata / punctuation variants are opaque codes.
   The same inputs are replayed on the implementation by the corpus on every run. *)
Require Import Base Suggestion Ignore ListLemmas IgnoreProofs.

(* F12:  He said "an problem" loudly.   ->   Hello there. He said "an problem" loudly.   (lint: an -> a) *)
(* F13s: Then i (we) left.              ->   Then i (he) left.                           (lint: i -> I)  *)
(* F13o: we recieve it and we recieve. Done     (the two spelling lints on `recieve`)                    *)
Definition f12_l1 : ilint := mkilint (mkspan 9 11) 8%N [ReplaceWith [97]%N] [73; 110; 99; 111; 114; 114; 101; 99; 116; 32; 105; 110; 100; 101; 102; 105; 110; 105; 116; 101; 32; 97; 114; 116; 105; 99; 108; 101; 46]%N 31%N.
Definition f12_d1 : doc := mkdoc [72; 101; 32; 115; 97; 105; 100; 32; 34; 97; 110; 32; 112; 114; 111; 98; 108; 101; 109; 34; 32; 108; 111; 117; 100; 108; 121; 46]%N
    [mktok (mkspan 0 2) (KWord (Some 112950805897709687%N));
     mktok (mkspan 2 3) (KSpace 1);
     mktok (mkspan 3 7) (KWord (Some 1150555879444854864%N));
     mktok (mkspan 7 8) (KSpace 1);
     mktok (mkspan 8 9) (KQuote (Some 8));
     mktok (mkspan 9 11) (KWord (Some 4480837693804025992%N));
     mktok (mkspan 11 12) (KSpace 1);
     mktok (mkspan 12 19) (KWord (Some 4505715797009193009%N));
     mktok (mkspan 19 20) (KQuote (Some 4));
     mktok (mkspan 20 21) (KSpace 1);
     mktok (mkspan 21 27) (KWord (Some 2611556332911061742%N));
     mktok (mkspan 27 28) (KPunct 1573820018010711441%N)].
Definition f12_l2 : ilint := mkilint (mkspan 22 24) 8%N [ReplaceWith [97]%N] [73; 110; 99; 111; 114; 114; 101; 99; 116; 32; 105; 110; 100; 101; 102; 105; 110; 105; 116; 101; 32; 97; 114; 116; 105; 99; 108; 101; 46]%N 31%N.
Definition f12_d2 : doc := mkdoc [72; 101; 108; 108; 111; 32; 116; 104; 101; 114; 101; 46; 32; 72; 101; 32; 115; 97; 105; 100; 32; 34; 97; 110; 32; 112; 114; 111; 98; 108; 101; 109; 34; 32; 108; 111; 117; 100; 108; 121; 46]%N
    [mktok (mkspan 0 5) (KWord (Some 4306001953521958049%N));
     mktok (mkspan 5 6) (KSpace 1);
     mktok (mkspan 6 11) (KWord (Some 3472766553162727774%N));
     mktok (mkspan 11 12) (KPunct 1573820018010711441%N);
     mktok (mkspan 12 13) (KSpace 1);
     mktok (mkspan 13 15) (KWord (Some 112950805897709687%N));
     mktok (mkspan 15 16) (KSpace 1);
     mktok (mkspan 16 20) (KWord (Some 1150555879444854864%N));
     mktok (mkspan 20 21) (KSpace 1);
     mktok (mkspan 21 22) (KQuote (Some 13));
     mktok (mkspan 22 24) (KWord (Some 4480837693804025992%N));
     mktok (mkspan 24 25) (KSpace 1);
     mktok (mkspan 25 32) (KWord (Some 4505715797009193009%N));
     mktok (mkspan 32 33) (KQuote (Some 9));
     mktok (mkspan 33 34) (KSpace 1);
     mktok (mkspan 34 40) (KWord (Some 2611556332911061742%N));
     mktok (mkspan 40 41) (KPunct 1573820018010711441%N)].
Definition f13s_l1 : ilint := mkilint (mkspan 5 6) 1%N [ReplaceWith [73]%N] [84; 104; 101; 32; 102; 105; 114; 115; 116; 45; 112; 101; 114; 115; 111; 110; 32; 115; 105; 110; 103; 117; 108; 97; 114; 32; 115; 117; 98; 106; 101; 99; 116; 32; 112; 114; 111; 110; 111; 117; 110; 32; 109; 117; 115; 116; 32; 98; 101; 32; 99; 97; 112; 105; 116; 97; 108; 105; 122; 101; 100; 46]%N 31%N.
Definition f13s_d1 : doc := mkdoc [84; 104; 101; 110; 32; 105; 32; 40; 119; 101; 41; 32; 108; 101; 102; 116; 46]%N
    [mktok (mkspan 0 4) (KWord (Some 3771181512153672153%N));
     mktok (mkspan 4 5) (KSpace 1);
     mktok (mkspan 5 6) (KWord (Some 1308034266349559849%N));
     mktok (mkspan 6 7) (KSpace 1);
     mktok (mkspan 7 8) (KPunct 1654541969082323602%N);
     mktok (mkspan 8 10) (KWord (Some 1688396514478611654%N));
     mktok (mkspan 10 11) (KPunct 1272171534487716374%N);
     mktok (mkspan 11 12) (KSpace 1);
     mktok (mkspan 12 16) (KWord (Some 1900459324706966191%N));
     mktok (mkspan 16 17) (KPunct 1573820018010711441%N)].
Definition f13s_l2 : ilint := mkilint (mkspan 5 6) 1%N [ReplaceWith [73]%N] [84; 104; 101; 32; 102; 105; 114; 115; 116; 45; 112; 101; 114; 115; 111; 110; 32; 115; 105; 110; 103; 117; 108; 97; 114; 32; 115; 117; 98; 106; 101; 99; 116; 32; 112; 114; 111; 110; 111; 117; 110; 32; 109; 117; 115; 116; 32; 98; 101; 32; 99; 97; 112; 105; 116; 97; 108; 105; 122; 101; 100; 46]%N 31%N.
Definition f13s_d2 : doc := mkdoc [84; 104; 101; 110; 32; 105; 32; 40; 104; 101; 41; 32; 108; 101; 102; 116; 46]%N
    [mktok (mkspan 0 4) (KWord (Some 3771181512153672153%N));
     mktok (mkspan 4 5) (KSpace 1);
     mktok (mkspan 5 6) (KWord (Some 1308034266349559849%N));
     mktok (mkspan 6 7) (KSpace 1);
     mktok (mkspan 7 8) (KPunct 1654541969082323602%N);
     mktok (mkspan 8 10) (KWord (Some 112950805897709687%N));
     mktok (mkspan 10 11) (KPunct 1272171534487716374%N);
     mktok (mkspan 11 12) (KSpace 1);
     mktok (mkspan 12 16) (KWord (Some 1900459324706966191%N));
     mktok (mkspan 16 17) (KPunct 1573820018010711441%N)].
Definition f13o_l1 : ilint := mkilint (mkspan 3 10) 0%N [ReplaceWith [114; 101; 108; 105; 101; 118; 101]%N; ReplaceWith [114; 101; 99; 101; 100; 101]%N; ReplaceWith [114; 101; 99; 101; 105; 118; 101]%N] [68; 105; 100; 32; 121; 111; 117; 32; 109; 101; 97; 110; 32; 116; 111; 32; 115; 112; 101; 108; 108; 32; 8220; 114; 101; 99; 105; 101; 118; 101; 8221; 32; 116; 104; 105; 115; 32; 119; 97; 121; 63]%N 63%N.
Definition f13o_d1 : doc := mkdoc [119; 101; 32; 114; 101; 99; 105; 101; 118; 101; 32; 105; 116; 32; 97; 110; 100; 32; 119; 101; 32; 114; 101; 99; 105; 101; 118; 101; 46; 32; 68; 111; 110; 101]%N
    [mktok (mkspan 0 2) (KWord (Some 1688396514478611654%N));
     mktok (mkspan 2 3) (KSpace 1);
     mktok (mkspan 3 10) (KWord None);
     mktok (mkspan 10 11) (KSpace 1);
     mktok (mkspan 11 13) (KWord (Some 2940014752083350703%N));
     mktok (mkspan 13 14) (KSpace 1);
     mktok (mkspan 14 17) (KWord (Some 943547906914358844%N));
     mktok (mkspan 17 18) (KSpace 1);
     mktok (mkspan 18 20) (KWord (Some 1688396514478611654%N));
     mktok (mkspan 20 21) (KSpace 1);
     mktok (mkspan 21 28) (KWord None);
     mktok (mkspan 28 29) (KPunct 1573820018010711441%N);
     mktok (mkspan 29 30) (KSpace 1);
     mktok (mkspan 30 34) (KWord (Some 3951581020519374071%N))].
Definition f13o_l2 : ilint := mkilint (mkspan 21 28) 0%N [ReplaceWith [114; 101; 108; 105; 101; 118; 101]%N; ReplaceWith [114; 101; 99; 101; 100; 101]%N; ReplaceWith [114; 101; 99; 101; 105; 118; 101]%N] [68; 105; 100; 32; 121; 111; 117; 32; 109; 101; 97; 110; 32; 116; 111; 32; 115; 112; 101; 108; 108; 32; 8220; 114; 101; 99; 105; 101; 118; 101; 8221; 32; 116; 104; 105; 115; 32; 119; 97; 121; 63]%N 63%N.
Definition f13o_d2 : doc := mkdoc [119; 101; 32; 114; 101; 99; 105; 101; 118; 101; 32; 105; 116; 32; 97; 110; 100; 32; 119; 101; 32; 114; 101; 99; 105; 101; 118; 101; 46; 32; 68; 111; 110; 101]%N
    [mktok (mkspan 0 2) (KWord (Some 1688396514478611654%N));
     mktok (mkspan 2 3) (KSpace 1);
     mktok (mkspan 3 10) (KWord None);
     mktok (mkspan 10 11) (KSpace 1);
     mktok (mkspan 11 13) (KWord (Some 2940014752083350703%N));
     mktok (mkspan 13 14) (KSpace 1);
     mktok (mkspan 14 17) (KWord (Some 943547906914358844%N));
     mktok (mkspan 17 18) (KSpace 1);
     mktok (mkspan 18 20) (KWord (Some 1688396514478611654%N));
     mktok (mkspan 20 21) (KSpace 1);
     mktok (mkspan 21 28) (KWord None);
     mktok (mkspan 28 29) (KPunct 1573820018010711441%N);
     mktok (mkspan 29 30) (KSpace 1);
     mktok (mkspan 30 34) (KWord (Some 3951581020519374071%N))].

(* F13e (Markdown): [errror] from want they.   ->   a paragraph `He when old centre high slowly.` prepended *)
Definition f13e_l1 : ilint := mkilint (mkspan 1 7) 0%N [ReplaceWith [101; 114; 114; 111; 114]%N; ReplaceWith [101; 114; 114; 111; 114; 115]%N; ReplaceWith [104; 111; 114; 114; 111; 114]%N] [68; 105; 100; 32; 121; 111; 117; 32; 109; 101; 97; 110; 32; 116; 111; 32; 115; 112; 101; 108; 108; 32; 8220; 101; 114; 114; 114; 111; 114; 8221; 32; 116; 104; 105; 115; 32; 119; 97; 121; 63]%N 63%N.
Definition f13e_d1 : doc := mkdoc [91; 101; 114; 114; 114; 111; 114; 93; 32; 102; 114; 111; 109; 32; 119; 97; 110; 116; 32; 116; 104; 101; 121; 46]%N
    [mktok (mkspan 0 1) (KPunct 116533213383035832%N);
     mktok (mkspan 1 7) (KWord None);
     mktok (mkspan 7 8) (KPunct 1427947216303349215%N);
     mktok (mkspan 8 9) (KSpace 1);
     mktok (mkspan 9 13) (KWord (Some 3748386058268397925%N));
     mktok (mkspan 13 14) (KSpace 1);
     mktok (mkspan 14 18) (KWord (Some 4306001953521958049%N));
     mktok (mkspan 18 19) (KSpace 1);
     mktok (mkspan 19 23) (KWord (Some 1688396514478611654%N));
     mktok (mkspan 23 24) (KPunct 1573820018010711441%N)].
Definition f13e_l2 : ilint := mkilint (mkspan 34 40) 0%N [ReplaceWith [101; 114; 114; 111; 114]%N; ReplaceWith [101; 114; 114; 111; 114; 115]%N; ReplaceWith [104; 111; 114; 114; 111; 114]%N] [68; 105; 100; 32; 121; 111; 117; 32; 109; 101; 97; 110; 32; 116; 111; 32; 115; 112; 101; 108; 108; 32; 8220; 101; 114; 114; 114; 111; 114; 8221; 32; 116; 104; 105; 115; 32; 119; 97; 121; 63]%N 63%N.
Definition f13e_d2 : doc := mkdoc [72; 101; 32; 119; 104; 101; 110; 32; 111; 108; 100; 32; 99; 101; 110; 116; 114; 101; 32; 104; 105; 103; 104; 32; 115; 108; 111; 119; 108; 121; 46; 10; 10; 91; 101; 114; 114; 114; 111; 114; 93; 32; 102; 114; 111; 109; 32; 119; 97; 110; 116; 32; 116; 104; 101; 121; 46]%N
    [mktok (mkspan 0 2) (KWord (Some 112950805897709687%N));
     mktok (mkspan 2 3) (KSpace 1);
     mktok (mkspan 3 7) (KWord (Some 3916128897071362094%N));
     mktok (mkspan 7 8) (KSpace 1);
     mktok (mkspan 8 11) (KWord (Some 4505715797009193009%N));
     mktok (mkspan 11 12) (KSpace 1);
     mktok (mkspan 12 18) (KWord (Some 955106122645338673%N));
     mktok (mkspan 18 19) (KSpace 1);
     mktok (mkspan 19 23) (KWord (Some 3951581020519374071%N));
     mktok (mkspan 23 24) (KSpace 1);
     mktok (mkspan 24 30) (KWord (Some 2223533944271181629%N));
     mktok (mkspan 30 31) (KPunct 1573820018010711441%N);
     mktok (mkspan 0 0) (KParagraphBreak);
     mktok (mkspan 33 34) (KPunct 116533213383035832%N);
     mktok (mkspan 34 40) (KWord None);
     mktok (mkspan 40 41) (KPunct 1427947216303349215%N);
     mktok (mkspan 41 42) (KSpace 1);
     mktok (mkspan 42 46) (KWord (Some 3748386058268397925%N));
     mktok (mkspan 46 47) (KSpace 1);
     mktok (mkspan 47 51) (KWord (Some 4306001953521958049%N));
     mktok (mkspan 51 52) (KSpace 1);
     mktok (mkspan 52 56) (KWord (Some 1688396514478611654%N));
     mktok (mkspan 56 57) (KPunct 1573820018010711441%N)].


(* F13d (open): the text x, two newlines, y, space, quotation mark, z — two synthetic lints of the same
   report over (y, space) and (space, quotation mark) *)
Definition flat_l1 : ilint := mkilint (mkspan 3 5) 7%N [Remove] [109]%N 7%N.
Definition flat_l2 : ilint := mkilint (mkspan 4 6) 7%N [Remove] [109]%N 7%N.
Definition flat_d : doc := mkdoc [120; 10; 10; 121; 32; 34; 122]%N
    [mktok (mkspan 0 1) (KWord (Some 2606840899236407686%N));
     mktok (mkspan 1 3) (KParagraphBreak);
     mktok (mkspan 3 4) (KWord (Some 4242379009418909885%N));
     mktok (mkspan 4 5) (KSpace 1);
     mktok (mkspan 5 6) (KQuote None);
     mktok (mkspan 6 7) (KWord (Some 4354040075787618681%N))].

(* C16-N1: I zorgle an problem here.   parsed with the curated dictionary, and again after `zorgle` was
   added to a user dictionary (lint: an -> a) *)
Definition dict_l : ilint := mkilint (mkspan 9 11) 8%N [ReplaceWith [97]%N] [73; 110; 99; 111; 114; 114; 101; 99; 116; 32; 105; 110; 100; 101; 102; 105; 110; 105; 116; 101; 32; 97; 114; 116; 105; 99; 108; 101; 46]%N 31%N.
Definition dict_d1 : doc := mkdoc [73; 32; 122; 111; 114; 103; 108; 101; 32; 97; 110; 32; 112; 114; 111; 98; 108; 101; 109; 32; 104; 101; 114; 101; 46]%N
    [mktok (mkspan 0 1) (KWord (Some 1308034266349559849%N));
     mktok (mkspan 1 2) (KSpace 1);
     mktok (mkspan 2 8) (KWord None);
     mktok (mkspan 8 9) (KSpace 1);
     mktok (mkspan 9 11) (KWord (Some 4480837693804025992%N));
     mktok (mkspan 11 12) (KSpace 1);
     mktok (mkspan 12 19) (KWord (Some 4505715797009193009%N));
     mktok (mkspan 19 20) (KSpace 1);
     mktok (mkspan 20 24) (KWord (Some 733180268355334201%N));
     mktok (mkspan 24 25) (KPunct 1573820018010711441%N)].
Definition dict_d2 : doc := mkdoc [73; 32; 122; 111; 114; 103; 108; 101; 32; 97; 110; 32; 112; 114; 111; 98; 108; 101; 109; 32; 104; 101; 114; 101; 46]%N
    [mktok (mkspan 0 1) (KWord (Some 1308034266349559849%N));
     mktok (mkspan 1 2) (KSpace 1);
     mktok (mkspan 2 8) (KWord (Some 4549724205062989871%N));
     mktok (mkspan 8 9) (KSpace 1);
     mktok (mkspan 9 11) (KWord (Some 4480837693804025992%N));
     mktok (mkspan 11 12) (KSpace 1);
     mktok (mkspan 12 19) (KWord (Some 4505715797009193009%N));
     mktok (mkspan 19 20) (KSpace 1);
     mktok (mkspan 20 24) (KWord (Some 733180268355334201%N));
     mktok (mkspan 24 25) (KPunct 1573820018010711441%N)].

Definition doc_wfb (d : doc) : bool := forallb (fun t => span_inb (length (dsrc d)) (tspan t)) (dtoks d).
Lemma doc_wfb_spec d : doc_wfb d = true -> doc_wf d.
Proof.
  unfold doc_wfb, doc_wf. rewrite forallb_forall, Forall_forall. intros H t Ht. specialize (H t Ht).
  unfold span_inb in H. apply Bool.andb_true_iff in H. destruct H as [H1 H2].
  apply Nat.leb_le in H1. apply Nat.leb_le in H2. split; assumption.
Qed.

Definition res_ctx_eqb (a b : res ctx) : bool :=
  match a, b with Ok x, Ok y => ctx_eqb x y | _, _ => false end.
Lemma res_ctx_neq a b : res_ctx_eqb a b = false -> is_ok a = true -> is_ok b = true -> a <> b.
Proof.
  destruct a as [x|], b as [y|]; cbn; try discriminate. intros H _ _ E. inversion E. subst.
  assert (ctx_eqb y y = true) by (apply ctx_eqb_spec; reflexivity). congruence.
Qed.

(* a context builder is refuted by a pair (l,d) / (l',d') that satisfies the property's premise and yet
   gets two different contexts: any hash that tells the two contexts apart un-ignores the lint *)
Lemma refutes ctxf l d l' d' :
  ctxf l d <> ctxf l' d' -> is_ok (ctxf l d) = true -> is_ok (ctxf l' d') = true ->
  exists c c', ctxf l d = Ok c /\ ctxf l' d' = Ok c' /\ c <> c' /\
    forall hash : ctx -> N, hash c <> hash c' ->
      exists s1, ignore_lint ctxf hash [] l d = Ok s1 /\ is_ignored ctxf hash s1 l' d' = Ok false.
Proof.
  intros Hne H1 H2. destruct (ctxf l d) as [c|] eqn:Ec; [|discriminate]. destruct (ctxf l' d') as [c'|] eqn:Ec'; [|discriminate].
  exists c, c'. repeat split; try reflexivity; [congruence|].
  intros hash Hh. exists (ig_insert (hash c) []). split.
  - unfold ignore_lint, hash_lint_context. rewrite Ec. reflexivity.
  - unfold is_ignored, hash_lint_context. rewrite Ec'. cbn [bind]. f_equal.
    unfold ig_insert, ig_mem. cbn [existsb orb]. destruct (N.eqb_spec (hash c') (hash c)); [congruence|reflexivity].
Qed.

Lemma not_stays_ignored ctxf l d l' d' :
  doc_wf d -> doc_wf d' -> untouched l d l' d' ->
  ctxf l d <> ctxf l' d' -> is_ok (ctxf l d) = true -> is_ok (ctxf l' d') = true ->
  ~ stays_ignored ctxf.
Proof.
  intros Hd Hd' Hu Hne H1 H2 Hst.
  destruct (refutes ctxf l d l' d' Hne H1 H2) as [c [c' [Ec [Ec' [Hcc Hsep]]]]].
  (* a hash function that separates c from everything else *)
  destruct (Hsep (fun x => if ctx_eqb x c then 0%N else 1%N)) as [s1 [E1 E2]].
  - assert (ctx_eqb c c = true) as -> by (apply ctx_eqb_spec; reflexivity).
    destruct (ctx_eqb c' c) eqn:E; [apply ctx_eqb_spec in E; congruence | discriminate].
  - specialize (Hst _ [] l d l' d' s1 [] s1 Hd Hd' Hu E1 eq_refl). congruence.
Qed.

Definition res_toks_eqb (a b : res (list ftok)) : bool :=
  match a, b with Ok x, Ok y => list_eqb ftok_eqb x y | _, _ => false end.
Lemma res_toks_neq a b : res_toks_eqb a b = false -> is_ok a = true -> is_ok b = true -> a <> b.
Proof.
  destruct a as [x|], b as [y|]; cbn; try discriminate. intros H _ _ E. inversion E. subst.
  assert (list_eqb ftok_eqb y y = true) by (apply (list_eqb_spec ftok_eqb ftok_eqb_spec); reflexivity). congruence.
Qed.

(* ---------- the repaired findings: the current context treats every witness as the property asks ---------- *)
Lemma f12_wf : doc_wf f12_d1 /\ doc_wf f12_d2.
Proof. split; apply doc_wfb_spec; vm_compute; reflexivity. Qed.
Lemma f12_untouched : untouched f12_l1 f12_d1 f12_l2 f12_d2.
Proof. split; [repeat split|]. eexists. split; vm_compute; reflexivity. Qed.
(* the edit is a pure prepend of 13 characters / 5 tokens; the lint is the same lint, 13 further on *)
Lemma f12_is_prepend :
  f12_l2 = shift_lint 13 f12_l1 /\ skipn 13 (dsrc f12_d2) = dsrc f12_d1 /\
  map tspan (skipn 5 (dtoks f12_d2)) = map (fun t => shift_span 13 (tspan t)) (dtoks f12_d1) /\
  map (fun t => blank_kind (tkd t)) (skipn 5 (dtoks f12_d2)) = map (fun t => blank_kind (tkd t)) (dtoks f12_d1).
Proof. repeat split; vm_compute; reflexivity. Qed.
Lemma f12_same : context f12_l1 f12_d1 = context f12_l2 f12_d2.
Proof. vm_compute. reflexivity. Qed.

Lemma f13s_wf : doc_wf f13s_d1 /\ doc_wf f13s_d2.
Proof. split; apply doc_wfb_spec; vm_compute; reflexivity. Qed.
Lemma f13s_untouched : untouched f13s_l1 f13s_d1 f13s_l2 f13s_d2.
Proof. split; [repeat split|]. eexists. split; vm_compute; reflexivity. Qed.
Lemma f13s_same : context f13s_l1 f13s_d1 = context f13s_l2 f13s_d2.
Proof. vm_compute. reflexivity. Qed.

Lemma f13e_wf : doc_wf f13e_d1 /\ doc_wf f13e_d2.
Proof. split; apply doc_wfb_spec; vm_compute; reflexivity. Qed.
Lemma f13e_untouched : untouched f13e_l1 f13e_d1 f13e_l2 f13e_d2.
Proof. split; [repeat split|]. eexists. split; vm_compute; reflexivity. Qed.
Lemma f13e_same : context f13e_l1 f13e_d1 = context f13e_l2 f13e_d2.
Proof. vm_compute. reflexivity. Qed.

(* the two `recieve` lints (different followers) are told apart *)
Lemma f13o_wf : doc_wf f13o_d1.
Proof. apply doc_wfb_spec; vm_compute; reflexivity. Qed.
Lemma f13o_differ : context f13o_l1 f13o_d1 <> context f13o_l2 f13o_d1.
Proof. apply res_ctx_neq; vm_compute; reflexivity. Qed.

(* the same text under the two dictionaries: different documents, the same context *)
Lemma dict_wf : doc_wf dict_d1 /\ doc_wf dict_d2.
Proof. split; apply doc_wfb_spec; vm_compute; reflexivity. Qed.
Lemma dict_docs_differ : dict_d1 <> dict_d2.
Proof. intros E. apply (f_equal (fun d => map tkd (dtoks d))) in E. vm_compute in E. discriminate E. Qed.
Lemma dict_same_blank : blank_doc dict_d1 = blank_doc dict_d2.
Proof. vm_compute. reflexivity. Qed.
Lemma dict_same : context dict_l dict_d1 = context dict_l dict_d2.
Proof. apply same_blank_doc_same_context, dict_same_blank. Qed.

(* ---------- F13d (open): the context is one flat list ---------- *)
Definition res_parts_eqb (a b : res (list ftok * list ftok * list ftok)) : bool :=
  match a, b with
  | Ok (b1, p1, a1), Ok (b2, p2, a2) => list_eqb ftok_eqb b1 b2 && list_eqb ftok_eqb p1 p2 && list_eqb ftok_eqb a1 a2
  | _, _ => false
  end.
Lemma res_parts_neq a b : res_parts_eqb a b = false -> is_ok a = true -> is_ok b = true -> a <> b.
Proof.
  destruct a as [[[b1 p1] a1]|], b as [[[b2 p2] a2]|]; cbn; try discriminate. intros H _ _ E. inversion E. subst.
  assert (forall x, list_eqb ftok_eqb x x = true) as R by (intros x; apply (list_eqb_spec ftok_eqb ftok_eqb_spec); reflexivity).
  rewrite !R in H. discriminate H.
Qed.

(* two lints of ONE document with the same report that flag different tokens (y, space / space, quotation mark) and have
   different tokens before and after them get the same context — prequel ++ problem ++ sequel is
   (break, y, space, quote, z) for both — so ignoring the first hides the second, whatever the hash *)
Theorem only_refuted_flat :
  exists d l1 l2,
    doc_wf d /\ same_report l1 l2 /\ il_span l1 <> il_span l2 /\
    nb_parts l1 d <> nb_parts l2 d /\ is_ok (nb_parts l1 d) = true /\ is_ok (nb_parts l2 d) = true /\
    window_tokens d (il_span l1) <> window_tokens d (il_span l2) /\
    context l1 d = context l2 d /\
    forall (hash : ctx -> N) s s1, ignore_lint context hash s l1 d = Ok s1 ->
      is_ignored context hash s1 l2 d = Ok true /\
      forall ls ls', remove_ignored context hash s1 ls d = Ok ls' -> ~ In l2 ls'.
Proof.
  exists flat_d, flat_l1, flat_l2.
  assert (doc_wf flat_d) as Hwf by (apply doc_wfb_spec; vm_compute; reflexivity).
  assert (context flat_l1 flat_d = context flat_l2 flat_d) as Eq by (vm_compute; reflexivity).
  split; [exact Hwf|]. split; [repeat split|]. split; [intros E; vm_compute in E; discriminate E|].
  split; [apply res_parts_neq; vm_compute; reflexivity|]. split; [vm_compute; reflexivity|]. split; [vm_compute; reflexivity|].
  split; [apply res_toks_neq; vm_compute; reflexivity|].
  split; [exact Eq|].
  intros hash s s1 E1.
  destruct (context_total flat_l1 flat_d Hwf) as [c Ec].
  assert (is_ignored context hash s1 flat_l2 flat_d = Ok true) as Hign.
  { apply (same_context_stays_ignored context hash s flat_l1 flat_d flat_l2 flat_d s1 [] s1 c Ec); [rewrite <- Eq; exact Ec | exact E1 | reflexivity]. }
  split; [exact Hign|].
  intros ls ls' El Hin.
  destruct s1 as [|h0 s1']; [unfold is_ignored, hash_lint_context in Hign; rewrite <- Eq, Ec in Hign; cbn in Hign; discriminate|].
  cbn [remove_ignored] in El. apply (retain_spec context hash _ _ _ _ El) in Hin. destruct Hin as [_ [c2 [Ec2 Em]]].
  rewrite (is_ignored_spec context hash _ _ _ _ Ec2) in Hign. congruence.
Qed.
